(* MetricsTieApe.v - translator tie of property C01.
   EvoGen.MetricsGen is re-translated from evo/core/metrics.py on every run (harness/pyast_metrics.py).  Its APE part -
   APE.ape_base, the construction of the error quantity and the per-relation reduction of APE.process_data - is, for EVERY
   number system and every oracle (angle_of = so3_log_angle in radians, rad2deg), the hand-written model Evo.Metrics:
   the value APE computes for one reference/estimate pair is [ape_pair].  (The RPE part has its own file so that a change
   of RPE.process_data does not touch the C01 obligations.) *)
From Coq Require Import List Bool.
From Evo Require Import Num Linalg NpDsl Lie Metrics.
From EvoGen Require Import LieGen MetricsGen.
Import ListNotations.
Local Open Scope num_scope.

Section Tie.
Context {T : Type} {ops : NumOps T}.
Variable angle_of : M3 T -> T.
Variable rad2deg : T -> T.

Theorem ape_base_gen_is_model (a b : Pose T) : ape_base_gen a b = relative_se3 a b.
Proof. reflexivity. Qed.
Theorem ape_pair_gen_is_model (rel : PoseRelation) (ref est : Pose T) :
  ape_pair_gen angle_of rad2deg rel ref est = ape_pair angle_of rad2deg rel ref est.
Proof. destruct rel; reflexivity. Qed.
End Tie.
