"""C13 - merge_results (evo/core/result.py) and the evo_res statistics table (pandas_bridge + main_res)
against the Coq model Evo.ResultMerge (bit-exact at F_ops: left-to-right sums, one division)."""
import copy
import csv
import math
import os
import shutil
import tempfile
from fractions import Fraction

import numpy as np

from harness.common import cf, cflist, cnat, cstr, cbool, differential, hexf, unhex, bits_equal

ID = "C13"
IMPORTS = "From Evo Require Import Num ResultMerge.\n"
COQ_TARGETS = ["theories/ResultMergeProofs.vo"]
TRUSTED = ["model Evo.ResultMerge written by hand from evo/core/result.py:merge_results, pandas_bridge.result_to_df/"
           "load_results_as_dataframe and main_res.run; tie = differential run (bit-exact floats, exact keys/labels/order)",
           "python float +,/ and numpy add/divide/append assumed IEEE-754 binary64 elementwise (measured on every case)",
           "pandas DataFrame/stack/to_csv, zipfile, json, np.save/np.load are library code: exercised end to end, not modelled "
           "(only which value lands under which label/statistic is compared; empty cells ignored, DESIGN section 6)",
           "exact-mean judge in the harness uses python Fractions of the binary64 inputs"]
ASSUMPTIONS = ["statistic values and array entries finite binary64 with |v| <= 1e150 (no overflow of the running sum); "
               "arrays one-dimensional; dict keys are strings",
               "a result 'returned unchanged'/'not modified' is observed through values, key order and object identity"]


# ------------------------------------------------------------------ implementation side
def _mk_result(r):
    from evo.core import result
    o = result.Result()
    o.info = dict(r.get("info", {}))
    o.stats = {k: unhex(v) for k, v in r["stats"]}
    for k, a in r["arrays"]:
        o.add_np_array(k, np.array([unhex(x) for x in a], dtype=float))
    return o


def _snap(o):
    return (list(o.info.items()), [(k, hexf(v)) for k, v in o.stats.items()],
            [(k, a.dtype.str, a.shape, a.tobytes()) for k, a in o.np_arrays.items()], list(o.trajectories.keys()))


def impl_merge(case):
    from evo.core import result
    objs = [_mk_result(r) for r in case["results"]]
    before = [_snap(o) for o in objs]
    try:
        m = result.merge_results(objs)
    except result.ResultException:
        return {"error": "ResultException", "inputs_unchanged": [_snap(o) for o in objs] == before}
    except ValueError:
        return {"error": "ValueError", "inputs_unchanged": [_snap(o) for o in objs] == before}
    except Exception as e:  # noqa
        return {"error": type(e).__name__, "inputs_unchanged": [_snap(o) for o in objs] == before}
    out = {"info": m.info.get("tag"), "info_full_equal_first": m.info == objs[0].info,
           "stats": [[k, hexf(v)] for k, v in m.stats.items()],
           "arrays": [[k, [hexf(x) for x in np.asarray(a, dtype=float).ravel()]] for k, a in m.np_arrays.items()],
           "array_ndim": [int(np.asarray(a).ndim) for a in m.np_arrays.values()],
           "inputs_unchanged": [_snap(o) for o in objs] == before,
           "same_object_as_first": m is objs[0]}
    # later mutation of the merged result must not reach the inputs (C16 side, observed here as well)
    if len(objs) > 1:
        for k in list(m.stats):
            m.stats[k] = 12345.0
        for a in m.np_arrays.values():
            if a.size and a.flags.writeable:
                a[...] = 777.0
        m.info["tag"] = -1
        out["independent"] = [_snap(o) for o in objs] == before
    return out


def impl_table(case):
    from evo.core import result  # noqa
    from evo.tools import file_interface
    from evo import main_res, main_res_parser
    d = tempfile.mkdtemp(prefix="c13_")
    cwd = os.getcwd()
    try:
        os.chdir(d)
        all_names = []
        for f in case["files"]:
            o = _mk_result(f)
            o.info = {"title": f.get("title", "APE w.r.t. translation part (m)")}
            if f.get("est_name") is not None:
                o.info["est_name"] = f["est_name"]
            if f.get("via"):
                o = _metric_result(f)
            os.makedirs(os.path.dirname(os.path.join(d, f["fname"])) or d, exist_ok=True)
            file_interface.save_res_file(f["fname"], o)
            all_names.append(f["fname"])
        # the files as GIVEN on the command line: any order, a file may be listed more than once
        names = [all_names[i] for i in _argv_order(case)]
        argv = names + ["--save_table", "table.csv", "--no_warnings"]
        if case.get("use_filenames"):
            argv.append("--use_filenames")
        if case.get("merge"):
            argv.append("--merge")
        args = main_res_parser.parser().parse_args(argv)
        try:
            main_res.run(args)
        except SystemExit as e:
            return {"exit": e.code if e.code is not None else 0, "table_written": os.path.exists("table.csv")}
        except Exception as e:  # noqa
            return {"error": type(e).__name__ + ": " + str(e)[:200]}
        if not os.path.exists("table.csv"):
            return {"error": "no table written"}
        with open("table.csv", newline="") as fh:
            rows = list(csv.reader(fh))
        header = rows[0][1:]
        table = []
        for row in rows[1:]:
            cells = [[h, c] for h, c in zip(header, row[1:]) if c != ""]
            table.append([row[0], cells])
        stored = []
        for n in names:
            lo = file_interface.load_res_file(n)
            stored.append({"stats": [[k, hexf(v)] for k, v in lo.stats.items()],
                           "arrays": [[k, [hexf(x) for x in np.asarray(a, dtype=float).ravel()]]
                                      for k, a in lo.np_arrays.items()],
                           "est_name": lo.info.get("est_name")})
        out = {"table": table, "stored": stored}
        if case.get("check_arrays"):
            # the same command once more with the package setting table_export_data = error_array: the table then holds the
            # (merged) error array instead of the statistics
            from evo.tools.settings import SETTINGS
            old = SETTINGS.table_export_data
            SETTINGS.table_export_data = "error_array"
            try:
                argv2 = [("errors.csv" if a == "table.csv" else a) for a in argv]
                main_res.run(main_res_parser.parser().parse_args(argv2))
                with open("errors.csv", newline="") as fh:
                    erows = list(csv.reader(fh))
                out["error_table"] = [[r[0], [hexf(float(c)) for c in r[1:] if c != ""]] for r in erows[1:]]
            except SystemExit as e:
                out["error_table_exit"] = e.code if e.code is not None else 0
            except Exception as e:  # noqa
                out["error_table_error"] = type(e).__name__ + ": " + str(e)[:200]
            finally:
                SETTINGS.table_export_data = old
        return out
    finally:
        os.chdir(cwd)
        shutil.rmtree(d, ignore_errors=True)


def _argv_order(case):
    o = case.get("argv_order")
    return list(o) if o is not None else list(range(len(case["files"])))


def _metric_result(f):
    """a result produced by evo_ape / evo_rpe's own processing functions on a small synthetic trajectory pair"""
    from evo.core import metrics
    from evo.core.trajectory import PoseTrajectory3D
    from evo import main_ape, main_rpe
    rng = np.random.default_rng(int(f["via_seed"]))
    n = int(f["via_n"])
    stamps = np.arange(n, dtype=float) * 0.1
    xyz = np.cumsum(rng.normal(0, 0.1, (n, 3)), axis=0)
    q = rng.normal(0, 1, (n, 4))
    q /= np.linalg.norm(q, axis=1)[:, None]
    ref = PoseTrajectory3D(xyz, q, stamps)
    est = PoseTrajectory3D(xyz + rng.normal(0, 0.01, (n, 3)), q, stamps)
    if f["via"] == "ape":
        r = main_ape.ape(ref, est, metrics.PoseRelation.translation_part, est_name=f.get("est_name") or "estimate")
    else:
        r = main_rpe.rpe(ref, est, metrics.PoseRelation.translation_part, 1.0, metrics.Unit.frames,
                         est_name=f.get("est_name") or "estimate")
    if f.get("est_name") is None:
        r.info.pop("est_name", None)
    r.trajectories.clear()
    return r


def impl(case):
    return impl_merge(case) if case["kind"] == "merge" else impl_table(case)


# ------------------------------------------------------------------ model side
def _cdict(pairs, val):
    return "[" + "; ".join("(%s, %s)" % (cstr(k), val(v)) for k, v in pairs) + "]"


def _cres(r, info):
    return "(mkResult %s %s %s)" % (info, _cdict(r["stats"], lambda v: cf(unhex(v))),
                                    _cdict(r["arrays"], lambda a: cflist(unhex(x) for x in a)))


def _copt_str(s):
    return "None" if s is None else "(Some %s)" % cstr(s)


def expr(case, out):
    if case["kind"] == "merge":
        rs = "[" + "; ".join(_cres(r, cnat(r["info"]["tag"])) for r in case["results"]) + "]"
        return "view (merge_results (%s : list (Result PrimFloat.float nat)))" % rs
    # table: the model is fed with what is actually stored in the result files (read back through load_res_file)
    stored = out.get("stored")
    files = []
    for k, i in enumerate(_argv_order(case)):
        f = case["files"][i]
        st = stored[k] if stored else {"stats": f["stats"], "arrays": f["arrays"], "est_name": f.get("est_name")}
        files.append((f["fname"], st))
    if case.get("merge"):
        rs = "[" + "; ".join(_cres(st, _copt_str(st["est_name"])) for _, st in files) + "]"
        rs = "(%s : list (Result PrimFloat.float (option string)))" % rs
        if case.get("check_arrays"):
            return "(table_merged %s, 2%%nat, view (merge_results %s))" % (rs, rs)
        return "(table_merged %s, 0%%nat)" % rs
    fs = "[" + "; ".join("mkResFile %s %s %s" % (cstr(n), _copt_str(st["est_name"]),
                                                  _cdict(st["stats"], lambda v: cf(unhex(v)))) for n, st in files) + "]"
    return "(table %s (%s : list (@ResFile PrimFloat.float)), 1%%nat)" % (cbool(case.get("use_filenames")), fs)


def _unsome(v):
    return v[1] if isinstance(v, tuple) and len(v) == 2 and v[0] == "Some" else v


def _exact_mean_ok(values, got):
    fr = [Fraction(v) for v in values]
    want = sum(fr) / len(fr)
    scale = max([abs(x) for x in fr] + [Fraction(0)])
    return abs(Fraction(got) - want) <= Fraction(1, 10 ** 12) * scale + Fraction(1, 10 ** 320)


def _spec_merge(case, out):
    """the property text itself, evaluated exactly on the implementation's output; None = holds"""
    rs = case["results"]
    n = len(rs)
    if n == 0:
        return None if out.get("error") == "ValueError" else "empty list not refused with ValueError"
    sk = [set(k for k, _ in r["stats"]) for r in rs]
    ak = [set(k for k, _ in r["arrays"]) for r in rs]
    if n == 1:
        if out.get("error"):
            return "single result not returned"
        ok = (out["stats"] == rs[0]["stats"] and [[k, a] for k, a in out["arrays"]] == rs[0]["arrays"]
              and out["info_full_equal_first"])
        return None if ok else "single result not returned unchanged"
    if any(s != sk[0] for s in sk) or any(a != ak[0] for a in ak):
        return None if out.get("error") == "ResultException" else "results with different keys were not refused"
    if out.get("error"):
        return "results with equal key sets were refused (%s)" % out["error"]
    if not out["info_full_equal_first"]:
        return "info of the merge is not the info of the first result"
    got_s = dict(out["stats"])
    if set(got_s) != sk[0]:
        return "statistic keys changed"
    for k in sk[0]:
        vals = [unhex(dict(r["stats"])[k]) for r in rs]
        if not _exact_mean_ok(vals, unhex(got_s[k])):
            return "statistic %r is not the arithmetic mean of the inputs" % k
    got_a = dict((k, a) for k, a in out["arrays"])
    if set(got_a) != ak[0]:
        return "array keys changed"
    equal_len = all(len(set(len(dict(r["arrays"])[k]) for r in rs)) == 1 for k in ak[0])
    for k in ak[0]:
        ins = [[unhex(x) for x in dict(r["arrays"])[k]] for r in rs]
        got = [unhex(x) for x in got_a[k]]
        if equal_len:
            if len(got) != len(ins[0]):
                return "array %r: equal lengths but result has another length" % k
            for i in range(len(got)):
                if not _exact_mean_ok([a[i] for a in ins], got[i]):
                    return "array %r[%d] is not the element-wise mean" % (k, i)
        else:
            cat = [x for a in ins for x in a]
            if len(got) != len(cat) or any(not bits_equal(x, y) for x, y in zip(got, cat)):
                return "array %r is not the concatenation in input order" % k
    return None


def judge(case, val, out):
    if case["kind"] == "merge":
        return judge_merge(case, val, out)
    return judge_table(case, val, out)


def judge_merge(case, val, out):
    code, body = val
    spec = _spec_merge(case, out)
    if out.get("inputs_unchanged") is False or out.get("independent") is False:
        return {"kind": "spec-violation", "failing_input": True,
                "detail": "an input result was modified (or shares data with the merge)" + ("; " + spec if spec else "")}
    if spec is not None:
        return {"kind": "spec-violation", "failing_input": True, "detail": spec}
    if len(case["results"]) == 1 and not out.get("same_object_as_first"):
        return {"kind": "model-vs-impl", "failing_input": False, "correspondence": "ResultMerge.merge_results",
                "detail": "single result: an equal copy instead of the same object (accepted by the property)"}
    want_err = {1: "ValueError", 2: "ResultException"}.get(code)
    if want_err or out.get("error"):
        if out.get("error") != want_err:
            return {"kind": "model-vs-impl", "failing_input": False, "correspondence": "ResultMerge.merge_results",
                    "detail": "refusal differs: model %r, implementation %r" % (want_err, out.get("error"))}
        return None
    info, stats, arrays = _unsome(body)
    ms = [[k, hexf(v)] for k, v in stats]
    ma = [[k, [hexf(x) for x in a]] for k, a in arrays]
    if int(info) != out["info"] or ms != out["stats"] or ma != out["arrays"] or any(d != 1 for d in out["array_ndim"]):
        return {"kind": "model-vs-impl", "failing_input": False, "correspondence": "ResultMerge.merge_results",
                "detail": "merged values/order differ bitwise from the model (means within 1e-12 of the exact mean)"}
    return None


def _spec_merged_array(stored, key, got):
    """property text: 'for every array the element-wise mean when all inputs have equal array lengths or otherwise the
    concatenation in input order' - evaluated exactly on the result files in the GIVEN order; None = holds"""
    ak = [set(k for k, _ in st["arrays"]) for st in stored]
    if any(a != ak[0] for a in ak) or key not in ak[0]:
        return None
    equal_len = all(len(set(len(dict(st["arrays"])[k]) for st in stored)) == 1 for k in ak[0])
    ins = [[unhex(x) for x in dict(st["arrays"])[key]] for st in stored]
    lens = [len(a) for a in ins]
    if equal_len:
        if len(got) != lens[0]:
            return "merged %s has %d values, the %d given results have %d each" % (key, len(got), len(ins), lens[0])
        for i in range(len(got)):
            if not _exact_mean_ok([a[i] for a in ins], got[i]):
                return "merged %s[%d] = %r is not the mean of the given results' values %r" % (key, i, got[i], [a[i] for a in ins])
        return None
    cat = [x for a in ins for x in a]
    if len(got) != len(cat):
        return ("merged %s has %d values; the concatenation of the given results (lengths %r, in the order given) has %d"
                % (key, len(got), lens, len(cat)))
    for i, (x, y) in enumerate(zip(got, cat)):
        if not bits_equal(x, y):
            return ("merged %s is not the concatenation in the order the files were given (lengths %r): value %d is %r, "
                    "expected %r" % (key, lens, i, x, y))
    return None


def judge_table(case, val, out):
    f = _judge_table(case, val, out)
    if f is not None and case.get("argv_order") is not None:
        f["detail"] += " [files given to evo_res as: %s]" % " ".join(case["files"][i]["fname"] for i in _argv_order(case))
    return f


def _judge_table(case, val, out):
    model = val[0]
    if out.get("error"):
        return {"kind": "spec-violation", "failing_input": True, "detail": "evo_res failed: " + out["error"]}
    model = _unsome(model) if model is not None else None
    if "exit" in out:
        if model is None and out["exit"] == 1 and not out["table_written"]:
            return None   # duplicate labels / key mismatch refused
        return {"kind": "spec-violation", "failing_input": True, "detail": "evo_res exited (%r) although the labels are unique" % out["exit"]}
    if model is None:
        return {"kind": "spec-violation", "failing_input": True,
                "detail": "table written although labels collide / results cannot be merged"}
    rows = [model] if case.get("merge") else model
    got = out["table"]
    if not case.get("merge"):
        # the statement asks for one row per input file under its label; it does not fix the order of the rows
        got = sorted(got, key=lambda r: r[0])
        rows = sorted(rows, key=lambda r: r[0])
    if [r[0] for r in got] != [r[0] for r in rows]:
        return {"kind": "spec-violation", "failing_input": True,
                "detail": "table labels %r differ from the expected labels %r" % ([r[0] for r in got], [r[0] for r in rows])}
    for (lab, cells), (_, stats) in zip(got, rows):
        # a statistic stored as NaN has no number to show: its cell may be empty or spell nan (empty cells are ignored);
        # every other statistic of the file must be in the row with the identical value
        nan_keys = set(k for k, v in stats if math.isnan(v))
        want = sorted((k, hexf(v)) for k, v in stats if k not in nan_keys)
        have = sorted((k, hexf(float(c))) for k, c in cells if not (k in nan_keys and math.isnan(float(c))))
        if want != have:
            return {"kind": "spec-violation", "failing_input": True,
                    "detail": "row %r: cells %r are not exactly the statistics %r" % (lab, have, want)}
    if case.get("check_arrays") and case.get("merge"):
        if "error_table" not in out:
            return {"kind": "spec-violation", "failing_input": True, "detail": "evo_res (table_export_data=error_array) failed: %r"
                    % (out.get("error_table_error", out.get("error_table_exit")),)}
        et = out["error_table"]
        if [r[0] for r in et] != [r[0] for r in rows]:
            return {"kind": "spec-violation", "failing_input": True,
                    "detail": "error-array table labels %r differ from the expected labels %r" % ([r[0] for r in et], [r[0] for r in rows])}
        got = [unhex(x) for x in et[0][1]]
        msg = _spec_merged_array(out["stored"], "error_array", got)
        if msg is not None:
            return {"kind": "spec-violation", "failing_input": True, "detail": msg}
        mv = _unsome(val[2][1]) if len(val) > 2 else None
        marr = dict((k, [hexf(x) for x in a]) for k, a in mv[2]).get("error_array") if mv is not None else None
        if marr != et[0][1]:
            return {"kind": "model-vs-impl", "failing_input": False, "correspondence": "ResultMerge.merge_results (evo_res --merge)",
                    "detail": "exported merged error array differs bitwise from the model"}
    return None


def nontrivial(case, val, out):
    if case["kind"] == "merge":
        return len(case["results"]) >= 2 and (bool(case["results"][0]["stats"]) or bool(case["results"][0]["arrays"]))
    return len(case["files"]) >= 2 and "table" in out


def shrink(case):
    if case["kind"] == "merge":
        rs = case["results"]
        for i in range(len(rs)):
            if len(rs) > 1:
                c = copy.deepcopy(case)
                del c["results"][i]
                yield c
        keys = [k for k, _ in rs[0]["stats"]] if rs else []
        for k in keys:
            c = copy.deepcopy(case)
            for r in c["results"]:
                r["stats"] = [kv for kv in r["stats"] if kv[0] != k]
            yield c
        akeys = [k for k, _ in rs[0]["arrays"]] if rs else []
        for k in akeys:
            c = copy.deepcopy(case)
            for r in c["results"]:
                r["arrays"] = [kv for kv in r["arrays"] if kv[0] != k]
            yield c
        c = copy.deepcopy(case)
        changed = False
        for r in c["results"]:
            for kv in r["arrays"]:
                if len(kv[1]) > 1:
                    kv[1] = kv[1][:len(kv[1]) // 2]
                    changed = True
        if changed:
            yield c
    elif case.get("argv_order") is not None:
        o = case["argv_order"]
        for i in range(len(o)):
            if len(o) > 1:
                c = copy.deepcopy(case)
                del c["argv_order"][i]
                yield c
    else:
        fs = case["files"]
        for i in range(len(fs)):
            if len(fs) > 1:
                c = copy.deepcopy(case)
                del c["files"][i]
                yield c


# ------------------------------------------------------------------ generators
def R(stats, arrays, tag=0):
    return {"stats": [[k, hexf(v)] for k, v in stats], "arrays": [[k, [hexf(x) for x in a]] for k, a in arrays],
            "info": {"tag": tag, "title": "t%d" % tag}}


def M(*rs):
    return {"kind": "merge", "results": list(rs)}


CORPUS = [
    M(R([], [("a", [1, 2, 3]), ("b", [4])], 0), R([], [("b", [5, 6, 7]), ("a", [8])], 1)),       # finding F8 (fixed)
    M(R([("rmse", 1.0)], [("a", [1, 2, 3]), ("b", [4])], 0), R([("rmse", 2.0)], [("b", [4]), ("a", [1, 2, 3])], 1)),
    M(),
    M(R([("rmse", 0.1), ("mean", 0.2)], [("e", [0.1, 0.2])], 7)),
    M(R([("rmse", 0.1)], [("e", [1.0])], 0), R([("mean", 0.1)], [("e", [1.0])], 1)),                 # stat keys differ
    M(R([("rmse", 0.1)], [("e", [1.0])], 0), R([("rmse", 0.1)], [("f", [1.0])], 1)),                 # array keys differ
    M(R([("rmse", 0.1)], [("e", [1.0])], 0), R([("rmse", 0.1)], [("e", [1.0]), ("f", [])], 1)),       # one extra key
    M(R([("rmse", 0.1)], [("e", [])], 0), R([("rmse", 0.3)], [("e", [])], 1)),                        # empty arrays
    M(R([("rmse", 0.1)], [("e", [])], 0), R([("rmse", 0.3)], [("e", [1.0, 2.0])], 1), R([("rmse", 0.3)], [("e", [])], 2)),
    M(R([("a", 0.1), ("b", 0.2)], [], 0), R([("b", 0.3), ("a", 0.7)], [], 1), R([("a", 1e-320), ("b", -0.0)], [], 2)),
    M(*[R([("rmse", 0.1 * (k + 1))], [("e", [0.1 * k, 1.0 / (k + 1)])], k) for k in range(8)]),
    M(R([("x", 1.0)], [("e", [1.0]), ("t", [0.0])], 0), R([("x", 1.0)], [("e", [2.0]), ("t", [1.0, 2.0])], 1)),  # one key unequal -> all appended
]


def _val(rng):
    m = rng.integers(0, 6)
    if m == 0:
        return float(rng.integers(-5, 6))
    if m == 1:
        return float(rng.normal(0, 1))
    if m == 2:
        return float(10.0 ** rng.uniform(-12, 12) * rng.choice([-1, 1]))
    if m == 3:
        return float(rng.choice([0.0, -0.0, 5e-324, 1e-310, 0.1, 1 / 3, 1e150, -1e150]))
    return float(rng.uniform(0, 2))


KEYS = ["rmse", "mean", "median", "std", "min", "max", "sse"]
AKEYS = ["error_array", "timestamps", "seconds_from_start", "distances_from_start"]


def random_merge_cases(ctx):
    rng = ctx.np_rng(1)
    out = []
    for c in range(ctx.n(500, 6000)):
        n = int(rng.integers(1, 9))
        ks = [str(k) for k in rng.choice(KEYS, size=int(rng.integers(0, 5)), replace=False)]
        aks = [str(k) for k in rng.choice(AKEYS, size=int(rng.integers(0, 4)), replace=False)]
        mode = c % 5   # 0 equal lengths, 1 one result differs in one key, 2 all random lengths, 3 with empties, 4 equal + permuted
        base_len = {k: int(rng.integers(0, 6 if ctx.quick else 40)) for k in aks}
        rs = []
        for i in range(n):
            lens = dict(base_len)
            if mode == 2:
                lens = {k: int(rng.integers(0, 5)) for k in aks}
            if mode == 3:
                lens = {k: int(rng.choice([0, base_len[k]])) for k in aks}
            st = [(k, _val(rng)) for k in ks]
            ar = [(k, [_val(rng) for _ in range(lens[k])]) for k in aks]
            if rng.random() < 0.6:
                rng.shuffle(st)
                rng.shuffle(ar)
            rs.append(R(st, ar, i))
        if mode == 1 and n >= 2 and aks:
            i = int(rng.integers(0, n))
            k = aks[int(rng.integers(0, len(aks)))]
            for kv in rs[i]["arrays"]:
                if kv[0] == k:
                    kv[1] = kv[1] + [hexf(_val(rng))] if rng.random() < 0.7 or not kv[1] else kv[1][:-1]
        if rng.random() < 0.15 and n >= 2:   # key sets differing in one key
            i = int(rng.integers(0, n))
            which = "stats" if rng.random() < 0.5 else "arrays"
            if rng.random() < 0.5 and rs[i][which]:
                del rs[i][which][int(rng.integers(0, len(rs[i][which])))]
            else:
                rs[i][which].append(["extra", hexf(1.0)] if which == "stats" else ["extra", [hexf(1.0)]])
        out.append(M(*rs))
    return out


def identical_value_cases(ctx):
    """lists of 2..8 results that agree in info, statistics and every shared array (the same estimate evaluated several
    times / the same file given more than once) - all copies identical, or ONE result (first, middle or last; 'any input
    order') carrying one extra or one missing array / statistic key: 'key sets ... differing in one key' must be refused
    whatever the values are, also when one key set is a strict subset of the other"""
    rng = ctx.np_rng(11)
    out = []
    for c in range(ctx.n(120, 1200)):
        n = int(rng.integers(2, 9))
        ks = [str(k) for k in rng.choice(KEYS, size=int(rng.integers(0, 5)), replace=False)]
        aks = [str(k) for k in rng.choice(AKEYS, size=int(rng.integers(0, 4)), replace=False)]
        st = [(k, _val(rng)) for k in ks]
        ar = [(k, [_val(rng) for _ in range(int(rng.integers(0, 5)))]) for k in aks]
        tag = int(rng.integers(0, 4))
        rs = [R(st, ar, tag) for _ in range(n)]
        mode = c % 6   # 0 all identical; 1/2 one result has an extra array key; 3 extra statistic; 4 one key missing; 5 two results
        if mode in (1, 2, 3, 4, 5):
            # position of the odd result: a LATER one twice as often as the first (superset after subset and the reverse)
            i = int(rng.choice([0, n - 1, int(rng.integers(0, n)), int(rng.integers(1, n))]))
            idx = [i] if mode != 5 else sorted(set([i, int(rng.integers(0, n))]))
            which = "stats" if mode == 3 or (mode == 5 and rng.random() < 0.3) else "arrays"
            for i in idx:
                if mode == 4 and rs[i][which]:
                    del rs[i][which][int(rng.integers(0, len(rs[i][which])))]
                elif which == "stats":
                    rs[i]["stats"].append(["extra", hexf(_val(rng))])
                else:
                    free = [k for k in AKEYS if k not in aks] + ["extra"]
                    rs[i]["arrays"].append([free[int(rng.integers(0, len(free)))],
                                            [hexf(_val(rng)) for _ in range(int(rng.integers(0, 4)))]])
                if rng.random() < 0.3:
                    rng.shuffle(rs[i][which])
        out.append(M(*rs))
    return out


def table_cases(ctx):
    rng = ctx.np_rng(2)
    out = []
    for c in range(ctx.n(24, 200)):
        n = int(rng.integers(1, 5))
        ks = [str(k) for k in rng.choice(KEYS, size=int(rng.integers(1, 6)), replace=False)]
        files = []
        dup = rng.random() < 0.15
        for i in range(n):
            ln = int(rng.integers(1, 6))
            est = [None, "est%d.txt" % i, "/data/run_%d/traj.tum" % i, "sub/dir/e%d" % i, "same.txt"][int(rng.integers(0, 5))]
            if dup and i > 0:
                est = files[0]["est_name"]
            f = R([(k, _val(rng)) for k in ks],
                  [("error_array", [abs(_val(rng)) for _ in range(ln)]), ("timestamps", [float(j) for j in range(ln)])], i)
            f.update({"fname": "res_%d.zip" % i, "est_name": est})
            if c % 6 == 5:
                f.update({"via": "ape" if i % 2 == 0 else "rpe", "via_seed": int(rng.integers(0, 10 ** 6)), "via_n": int(rng.integers(5, 30))})
            files.append(f)
        out.append({"kind": "table", "files": files, "use_filenames": bool(c % 3 == 1), "merge": bool(c % 4 == 3)})
    return out


def nan_table_cases(ctx):
    """evo_res --save_table on 2..4 result files of which ONE OR TWO store not-a-number (or infinite) values for some of their
    statistics (what evo_ape writes for a trajectory with a NaN position), or lack one statistic the others have: 'for every
    input result file, exactly the statistics stored in that file' - the finite statistics of the other files stay in the table"""
    rng = ctx.np_rng(23)
    out = []
    for c in range(ctx.n(24, 200)):
        n = int(rng.integers(2, 5))
        ks = [str(k) for k in rng.choice(KEYS, size=int(rng.integers(1, 6)), replace=False)]
        odd = set(int(i) for i in rng.choice(n, size=int(rng.integers(1, min(n, 3))), replace=False))
        mode = c % 4     # 0 all statistics of the odd file NaN, 1 some NaN, 2 NaN / inf mixed, 3 one statistic missing in the odd file
        files = []
        for i in range(n):
            st = [(k, _val(rng)) for k in ks]
            if i in odd:
                if mode == 3 and len(st) > 1:
                    del st[int(rng.integers(0, len(st)))]
                else:
                    hit = [j for j in range(len(st)) if mode == 0 or rng.random() < 0.5] or [0]
                    for j in hit:
                        st[j] = (st[j][0], float("nan") if mode != 2 or rng.random() < 0.5 else float(rng.choice([np.inf, -np.inf])))
            ln = int(rng.integers(1, 5))
            f = R(st, [("error_array", [abs(_val(rng)) for _ in range(ln)]), ("timestamps", [float(j) for j in range(ln)])], i)
            f.update({"fname": "res_%d.zip" % i, "est_name": [None, "est%d.txt" % i, "/data/run_%d/traj.tum" % i][int(rng.integers(0, 3))]})
            files.append(f)
        out.append({"kind": "table", "files": files, "use_filenames": bool(c % 3 == 1), "merge": False})
    return out


NAME_POOLS = [["%d_ape.zip" % k for k in (1, 2, 9, 10, 11, 100)],
              ["run_b/res.zip", "run_a/res.zip", "run_c/res.zip", "run_10/res.zip", "run_9/res.zip"],
              ["Z.zip", "a.zip", "B.zip", "_x.zip", "b.zip"],
              ["seq09_rpe.zip", "seq10_rpe.zip", "seq2_rpe.zip", "seq1_rpe.zip"]]


def cli_order_cases(ctx):
    """evo_res through its command-line layer (parser + main_res.run --save_table) with the result files given in an order
    that is NOT the lexicographic one (9_ape.zip 10_ape.zip ...), and with a file listed more than once; --merge with
    different estimate names and error arrays of unequal / equal lengths (the statistics table and, with the package setting
    table_export_data=error_array, the merged error array), plain tables, results produced by evo_ape"""
    rng = ctx.np_rng(22)
    out = []
    for c in range(ctx.n(40, 300)):
        mode = c % 5      # 0 merge/unequal lengths, 1 merge/equal lengths, 2 merge/file listed twice, 3 plain, 4 plain/listed twice
        n = int(rng.integers(2, 5))
        pool = NAME_POOLS[int(rng.integers(0, len(NAME_POOLS)))]
        fnames = [str(x) for x in rng.choice(pool, size=min(n, len(pool)), replace=False)]
        n = len(fnames)
        if c % 4 != 3 and fnames == sorted(fnames):
            fnames.reverse()
        ks = [str(k) for k in rng.choice(KEYS, size=int(rng.integers(1, 6)), replace=False)]
        via = (c % 10 == 7)
        base_len = int(rng.integers(1, 6))
        files = []
        for i, fn in enumerate(fnames):
            ln = base_len if mode == 1 else base_len + i + int(rng.integers(0, 3))
            f = R([(k, _val(rng)) for k in ks], [("error_array", [abs(_val(rng)) for _ in range(ln)])], i)
            f.update({"fname": fn, "est_name": "slam/%s_est.txt" % fn.replace("/", "_").replace(".zip", "")})
            if via:
                f.update({"via": "ape", "via_seed": int(rng.integers(0, 10 ** 6)), "via_n": 5 + 3 * i})
            files.append(f)
        order = list(range(n))
        if mode in (2, 4):
            for _ in range(int(rng.integers(1, 3))):
                order.insert(int(rng.integers(0, len(order) + 1)), int(rng.integers(0, n)))
        merge = mode in (0, 1, 2)
        out.append({"kind": "table", "files": files, "use_filenames": bool(mode == 3 and c % 2), "merge": merge,
                    "argv_order": order, "check_arrays": bool(merge and not via)})
    return out


def run(ctx, replay=None, proofs_ok=True):
    if replay is not None:
        cases = [replay["case"]]
    else:
        cases = CORPUS + random_merge_cases(ctx) + identical_value_cases(ctx) + table_cases(ctx) + nan_table_cases(ctx) + cli_order_cases(ctx)
    failures, stats = differential(ctx, cases, imports=IMPORTS, impl=impl, expr=expr, judge=judge, shrink=shrink,
                                   nontrivial=nontrivial, per_file=200)
    hist = {}
    for c in cases:
        if c["kind"] == "merge":
            rs = c["results"]
            sk = len(set(frozenset(k for k, _ in r["stats"]) for r in rs)) <= 1 and len(set(frozenset(k for k, _ in r["arrays"]) for r in rs)) <= 1
            if not rs:
                b = "merge:empty"
            elif not sk:
                b = "merge:n=%d,key sets differ" % len(rs)
            else:
                ak = [k for k, _ in rs[0]["arrays"]]
                eq = all(len(set(len(dict(r["arrays"])[k]) for r in rs)) == 1 for k in ak)
                perm = any([k for k, _ in r["arrays"]] != ak or [k for k, _ in r["stats"]] != [k for k, _ in rs[0]["stats"]] for r in rs)
                b = "merge:n=%d,%s%s" % (len(rs), "equal lengths" if eq else "unequal lengths", ",permuted dict order" if perm else "")
        else:
            b = "table:files=%d%s%s%s" % (len(c["files"]), ",use_filenames" if c.get("use_filenames") else "",
                                          ",merge" if c.get("merge") else "", ",evo_ape/rpe results" if c["files"][0].get("via") else "")
            if c.get("argv_order") is not None:
                o = _argv_order(c)
                given = [c["files"][i]["fname"] for i in o]
                b += ",given %s%s%s" % ("in lexicographic order" if given == sorted(given) else "NOT in lexicographic order",
                                        ",a file listed twice" if len(set(o)) < len(o) else "",
                                        ",merged error array checked" if c.get("check_arrays") else "")
        hist[b] = hist.get(b, 0) + 1
    cov = {"evaluations": stats["evaluations"], "distinct_nontrivial": stats["distinct_nontrivial"],
           "rule": "corpus (F8 witness, empty/single, key mismatches, empty arrays, 8 results) + random lists of 1..8 results "
                   "(0..4 statistics, 0..3 arrays; lengths equal / one differing / random / with empties; dict insertion orders "
                   "permuted; key sets differing in one key) + lists of 2..8 results with IDENTICAL info/statistics/shared arrays "
                   "(all copies, or one result - first, middle or last - with one extra / missing array or statistic key) + evo_res --save_table end to end on 1..4 result zips "
                   "(labels from est_name basename / file names / --merge, duplicate labels, results from evo_ape/evo_rpe) + "
                   "evo_res --save_table on 2..4 result zips where one or two files store NaN / infinite statistics or lack one "
                   "statistic (the other files' statistics must stay in the table; a NaN statistic's cell may be empty) + "
                   "evo_res command-line runs with the files given in non-lexicographic order (9_ape.zip 10_ape.zip) and with a "
                   "file listed twice, --merge judged on label, statistics and the exported merged error array (unequal / equal "
                   "lengths) against the result files in the GIVEN order; "
                   "distinct by input; non-trivial = at least two results with some statistic or array, or a written table",
           "samples": cases[:2] + cases[-2:], "input_distribution": hist,
           "regimes": {"exact": stats["evaluations"], "rounded": 0, "fragile": 0},
           "disagreements": stats["disagreements"], "exhaustive": False}
    return {"failures": failures, "coverage": cov}


LEVEL_TEXT = ("Machine-checked theorems (Coq) over an executable model of merge_results and of the evo_res table assembly: every "
              "statistic of a merge is the arithmetic mean of the inputs; arrays are the element-wise mean when all inputs have "
              "equal lengths per key and otherwise the concatenation in input order; info of the first; a single result is "
              "returned as is; different statistic/array key sets are refused (iff); table rows = (label, that file's statistics) "
              "with label = basename(est_name) or file name, duplicate labels refused; with --merge the merged values. "
              "The model is tied to the code by a bit-exact differential run on result lists (permuted dict orders, unequal and "
              "empty arrays, differing key sets, inputs snapshotted) and by evo_res --save_table runs on result zips.")
LEVEL_NOTE = ("Trusted: Coq kernel/VM, Reals axioms (stdlib), the hand-written model's correspondence (tested, not proved), "
              "pandas/zipfile/json as containers. Theorems are over R; the float run is bit-exact with python/numpy. The old "
              "positional size comparison (finding F8, fixed) is kept as a refuted witness.")
TECHNIQUE = "Coq proof (list induction over association lists) + bit-exact model/implementation correspondence by vm_compute"
