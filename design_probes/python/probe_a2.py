import numpy as np, itertools, random, copy
from evo.core import lie_algebra as lie, trajectory, filters
from evo.core.trajectory import PosePath3D, PoseTrajectory3D
rng=np.random.default_rng(2); random.seed(2); FLAT=False
I4=[1.,0,0,0]
def mk(xs,ts=None,tag=0):
    n=len(xs); q=np.tile(I4,(n,1)); q[:,0]=1
    pos=np.array([[x,tag,(0 if FLAT else i)] for i,x in enumerate(xs)],dtype=float)
    return PoseTrajectory3D(pos,q,np.array(ts if ts is not None else np.arange(n),dtype=float))
bad={}
# downsample
for n in range(1,40):
    for N in range(1,n+3):
        t=mk(np.arange(n)); t.downsample(N)
        ids=[int(p[2]) for p in t.positions_xyz]
        ok=len(ids)==min(N,n) and ids[0]==0 and (N<2 or ids[-1]==n-1) and all(a<b for a,b in zip(ids,ids[1:])) and np.array_equal(t.timestamps,np.array(ids,dtype=float))
        if N>=2 and N<n:
            s=(n-1)/(N-1); gaps=[b-a for a,b in zip(ids,ids[1:])]
            ok&=all(g in (int(np.floor(s)),int(np.ceil(s))) for g in gaps)
        if not ok: bad.setdefault("down",[]).append((n,N,ids))
# motion filter on exact grid: steps ints, rotations multiples of 90 about z via exact matrices
Rz=np.array([[0,-1,0],[1,0,0],[0,0,1.0]])
def mp(k): return np.linalg.matrix_power(Rz.astype(int),k%4).astype(float)
for n in range(2,6):
  for steps in itertools.product([0,1,2],repeat=n-1):
    for rots in itertools.product([0,1,2],repeat=n-1):
      xs=np.cumsum([0]+list(steps)); rc=np.cumsum([0]+list(rots))
      poses=[lie.se3(mp(int(r)),np.array([x,0,0.])) for x,r in zip(xs,rc)]
      for dthr in (0,1,2,3,100):
        for athr in (45.,135.,1000.):   # non-tie thresholds
          ids=filters.filter_by_motion(poses,dthr,athr,True)
          exp=[0]; last=0
          for i in range(1,n):
              ang=((rc[i]-rc[last])%4); ang=min(ang,4-ang)*90
              if xs[i]-xs[last]>=dthr or ang>=athr: exp.append(i); last=i
          if ids!=exp: bad.setdefault("mfilter",[]).append((steps,rots,dthr,athr,ids,exp))
# crop
for it in range(300):
    n=random.randint(1,10); ts=sorted(random.sample(range(20),n)); t=mk(np.arange(n),ts)
    a,b=sorted(random.sample(range(-2,23),2)) if random.random()<0.8 else (5,5)
    exp=[x for x in ts if a<=x<=b]
    t.reduce_to_time_range(a,b)
    if t.timestamps.tolist()!=[float(x) for x in exp] or [int(p[2]) for p in t.positions_xyz]!=[ts.index(x) for x in exp]: bad.setdefault("crop",[]).append((ts,a,b))
# splits
FLAT=True
for it in range(2000):
    n=random.randint(1,9); dts=[random.choice([1,2,5]) for _ in range(n-1)]; dxs=[random.choice([0,1,3,10]) for _ in range(n-1)]
    ts=np.cumsum([0]+dts); xs=np.cumsum([0]+dxs); t=mk(xs,ts)
    for kind,thr in (("time",random.choice([1,2,3])),("dist",random.choice([0,1,3,5])),("speed",random.choice([0.5,1,2,4]))):
        parts={"time":t.split_time_gaps,"dist":t.split_distance_gaps,"speed":t.split_speed_outliers}[kind](thr)
        meas={"time":dts,"dist":dxs,"speed":[dx/dt for dx,dt in zip(dxs,dts)]}[kind]
        cat=[x for p in parts for x in p.timestamps.tolist()]
        ok=cat==ts.tolist()
        cuts=set(); k=0
        for p in parts[:-1]: k+=p.num_poses; cuts.add(k-1)   # cut after step index k-1
        exp={i for i,m in enumerate(meas) if m>thr}
        ok&=(cuts==exp)
        ok&= [x[0] for p in parts for x in p.positions_xyz]==xs.tolist()
        if not ok: bad.setdefault("split_"+kind,[]).append((dts,dxs,thr,[p.timestamps.tolist() for p in parts]))
# merge
FLAT=False
for it in range(500):
    k=random.randint(1,6); allts=random.sample(range(100),random.randint(k,30)); random.shuffle(allts)
    cuts=sorted(random.sample(range(1,len(allts)),k-1)) if k>1 else []
    groups=[sorted(g) for g in np.split(np.array(allts),cuts)]
    trs=[]
    for tag,g in enumerate(groups):
        n=len(g); q=rng.normal(size=(n,4)); q/=np.linalg.norm(q,axis=1)[:,None]
        pos=np.array([[tt,tag,i] for i,tt in enumerate(g)],dtype=float)
        trs.append(PoseTrajectory3D(pos,q,np.array(g,dtype=float)))
    snap=[(t.timestamps.copy(),t.positions_xyz.copy(),t.orientations_quat_wxyz.copy()) for t in trs]
    m=trajectory.merge(trs)
    ok=m.timestamps.tolist()==sorted(float(x) for x in allts)
    for tt,p,q in zip(m.timestamps,m.positions_xyz,m.orientations_quat_wxyz):
        ok&= p[0]==tt
        src=trs[int(p[1])]; i=int(p[2]); ok&= np.array_equal(src.orientations_quat_wxyz[i],q) and src.timestamps[i]==tt
    ok&=all(np.array_equal(a[0],t.timestamps) and np.array_equal(a[1],t.positions_xyz) for a,t in zip(snap,trs))
    if not ok: bad.setdefault("merge",[]).append(groups)
print({k:(len(v),v[0]) for k,v in bad.items()})
