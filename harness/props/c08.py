"""C08 - trajectory operations keep all views consistent and have their documented effect
(evo/core/trajectory.py PosePath3D / PoseTrajectory3D) vs the Coq state machine Evo.Traj."""
import copy
import itertools
import math

import numpy as np

from harness.common import cf, cflist, close, cnatlist, differential, hexf, unhex
from harness.props.c09 import H, U, cm3, cv3, rand_rot, rot_from_quat

ID = "C08"
IMPORTS = "From Evo Require Import Num Linalg Lie Traj.\n"
COQ_TARGETS = ["theories/TrajProofs.vo"]
TRUSTED = ["model Evo.Traj (state machine over the three lazy caches) written by hand from trajectory.py; tie = differential "
           "run of whole operation histories, comparing after EVERY step which caches exist and what they hold",
           "oracles: quaternion_from_matrix (eigh) - executed in the model by Shepperd's formula and compared up to sign; "
           "np.power(det,1/3) - Newton iteration in the model; scipy so3_exp/euler inside project() - algebraic planar rotation; "
           "ids of downsample / motion_filter / crop and the Umeyama result of align() are taken from evo's own functions "
           "(properties C11, C03/C04) and enter the history as Reduce / Scale / Transform steps",
           "real-vs-binary64 gap measured, not proved"]
ASSUMPTIONS = ["every applied matrix is SE(3), or Sim(3) with positive scale; index lists in range"]
EPS4 = 4.0 * float(np.finfo(float).eps)
PLANES = {"xy": "XY", "xz": "XZ", "yz": "YZ"}


def cpose(p):
    return "(mkPose %s %s)" % (cm3(p[:3, :3]), cv3(p[:3, 3]))


def cquat(q):
    return "(%s, %s, %s, %s)" % tuple(cf(x) for x in q)


def copt_list(xs, f):
    return "None" if xs is None else "(Some [" + "; ".join(f(x) for x in xs) + "])"


# ------------------------------------------------------------------ implementation side
def snapshot(obj):
    d = {"pos": None, "quat": None, "poses": None, "stamps": None}
    if hasattr(obj, "_positions_xyz"):
        d["pos"] = [H(v) for v in np.asarray(obj._positions_xyz)]
    if hasattr(obj, "_orientations_quat_wxyz"):
        d["quat"] = [H(v) for v in np.asarray(obj._orientations_quat_wxyz)]
    if hasattr(obj, "_poses_se3"):
        d["poses"] = [H(p) for p in obj._poses_se3]
    if hasattr(obj, "timestamps"):
        d["stamps"] = H(obj.timestamps)
    d["proj"] = bool(obj._projected)
    c = copy.deepcopy(obj)   # reading on a copy does not disturb the lazy state of the object under test
    if c.num_poses == 0:      # cropped to nothing: outside the property's quantifier (1..200 poses); the history ends here
        d["empty"] = True
        return d
    try:
        ok, details = c.check()
        pos, quat, poses = np.asarray(c.positions_xyz), np.asarray(c.orientations_quat_wxyz), c.poses_se3
        d["views"] = {"n": [int(c.num_poses), int(pos.shape[0]), int(quat.shape[0]), len(poses)],
                      "pos": [H(v) for v in pos], "quat": [H(v) for v in quat], "poses": [H(p) for p in poses],
                      "check": bool(ok), "details": {k: str(v) for k, v in details.items()},
                      "distances": H(c.distances), "path_length": hexf(c.path_length)}
        if d["stamps"] is not None and c.num_poses >= 2 and all(np.diff(c.timestamps) > 0):
            d["views"]["speeds"] = H(c.speeds)
    except Exception as e:  # noqa
        d["views_error"] = type(e).__name__ + ": " + str(e)[:100]
    return d


def impl(case):
    from evo.core import filters, lie_algebra as lie, trajectory
    from evo.core.trajectory import Plane, PosePath3D, PoseTrajectory3D
    init = case["init"]
    stamps = [unhex(x) for x in init["stamps"]] if init.get("stamps") else None
    if init["kind"] == "poses":
        poses = [U(p, (4, 4)) for p in init["poses"]]
        for k in range(1, len(poses)):     # equal consecutive poses share ONE matrix object, as in `[pose] * k`
            if (poses[k] == poses[k - 1]).all():
                poses[k] = poses[k - 1]
        obj = PoseTrajectory3D(poses_se3=poses, timestamps=np.array(stamps)) if stamps else PosePath3D(poses_se3=poses)
    else:
        xs, qs = np.array([U(v, 3) for v in init["pos"]]), np.array([U(q, 4) for q in init["quat"]])
        obj = PoseTrajectory3D(xs, qs, np.array(stamps)) if stamps else PosePath3D(xs, qs)
    steps = []     # per impl-op: list of model ops (strings) and the snapshot afterwards
    try:
        for o in case["ops"]:
            k = o["op"]
            mops, refused = [], None
            try:
                if k == "rd_pos":
                    obj.positions_xyz
                    mops = ["(@RdPos float)"]
                elif k == "rd_quat":
                    obj.orientations_quat_wxyz
                    mops = ["(@RdQuat float)"]
                elif k == "rd_poses":
                    obj.poses_se3
                    mops = ["(@RdPoses float)"]
                elif k == "rd_derived":
                    obj.distances
                    obj.path_length
                    mops = ["(@RdPos float)"]
                elif k == "transform":
                    t = U(o["t"], (4, 4))
                    sim = bool(lie.is_sim3(t) and not lie.is_se3(t))
                    obj.transform(t, right_mul=o["right"], propagate=o["propagate"])
                    mops = ["(Transform %s %s %s %s)" % (cpose(t), "true" if o["right"] else "false",
                                                          "true" if (o["right"] and o["propagate"]) else "false",
                                                          "true" if sim else "false")]
                elif k == "scale":
                    obj.scale(unhex(o["s"]))
                    mops = ["(Scale %s)" % cf(unhex(o["s"]))]
                elif k == "reduce":
                    obj.reduce_to_ids(o["ids"])
                    mops = ["(@Reduce float %s)" % cnatlist(o["ids"])]
                elif k == "downsample":
                    n = obj.num_poses
                    ids = list(range(n)) if n <= o["n"] else [int(i) for i in np.linspace(0, n - 1, o["n"], dtype=int)]
                    obj.downsample(o["n"])
                    mops = [] if n <= o["n"] else ["(@Reduce float %s)" % cnatlist(ids)]
                elif k == "motion_filter":
                    shadow = copy.deepcopy(obj)
                    mops = ["(@RdPoses float)"]
                    try:
                        ids = [int(i) for i in filters.filter_by_motion(shadow.poses_se3, o["d"], o["a"], True)]
                        obj.motion_filter(o["d"], o["a"], True)
                        mops.append("(@Reduce float %s)" % cnatlist(ids))
                    except filters.FilterException:
                        try:   # a single pose cannot be motion filtered: evo refuses, nothing but the pose cache changes
                            obj.motion_filter(o["d"], o["a"], True)
                        except filters.FilterException:
                            pass
                elif k == "crop":
                    ts = obj.timestamps
                    a = ts[0] if o["a"] is None else unhex(o["a"])
                    b = ts[-1] if o["b"] is None else unhex(o["b"])
                    ids = [int(i) for i in np.where(np.logical_and(ts >= a, ts <= b))[0]]
                    if a > b:   # evo refuses an inverted interval and leaves the object untouched
                        try:
                            obj.reduce_to_time_range(a, b)
                        except trajectory.TrajectoryException:
                            pass
                        mops = []
                    else:
                        obj.reduce_to_time_range(a, b)
                        mops = ["(@Reduce float %s)" % cnatlist(ids)]
                elif k == "align":
                    from evo.core import geometry
                    ref = PosePath3D(poses_se3=[U(p, (4, 4)) for p in o["ref"]][:obj.num_poses])
                    mops = ["(@RdPos float)"]
                    try:
                        r, t, c = obj.align(ref, correct_scale=o["scale"], correct_only_scale=o["only_scale"], n=o["n"])
                        se3 = lie.se3(r, t)
                        if o["only_scale"] or o["scale"]:
                            mops.append("(Scale %s)" % cf(c))
                        if not o["only_scale"]:
                            mops.append("(Transform %s false false false)" % cpose(se3))
                    except geometry.GeometryException:
                        pass   # degenerate / mismatching point sets are refused before anything is changed
                elif k == "align_origin":
                    ref = PosePath3D(poses_se3=[U(p, (4, 4)) for p in o["ref"]])
                    T = obj.align_origin(ref)
                    mops = ["(@RdPoses float)", "(Transform %s false false false)" % cpose(T)]
                elif k == "project":
                    obj.project(Plane(o["plane"]))
                    mops = ["(@Project float %s)" % PLANES[o["plane"]]]
                elif k == "copy":
                    obj = copy.deepcopy(obj)
                    mops = ["(@Copy float)"]
                else:
                    raise ValueError(k)
            except trajectory.TrajectoryException as e:
                refused = str(e)[:60]
                if k == "project":
                    mops = ["(@Project float %s)" % PLANES[o["plane"]]]
            steps.append({"op": k, "mops": mops, "refused": refused, "snap": snapshot(obj)})
            if refused or steps[-1]["snap"].get("empty"):
                break
    except Exception as e:  # noqa
        import traceback
        return {"exception": type(e).__name__ + ": " + str(e)[:150] + traceback.format_exc()[-300:], "steps": steps}
    return {"steps": steps}


# ------------------------------------------------------------------ model side
def expr(case, out):
    init = case["init"]
    st = copt_list([unhex(x) for x in init["stamps"]] if init.get("stamps") else None, cf)
    if init["kind"] == "poses":
        s0 = "(init_poses [%s] %s)" % ("; ".join(cpose(U(p, (4, 4))) for p in init["poses"]), st)
    else:
        s0 = "(init_pos_quat [%s] [%s] %s)" % ("; ".join(cv3(U(v, 3)) for v in init["pos"]),
                                                 "; ".join(cquat(U(q, 4)) for q in init["quat"]), st)
    mops = [m for s in out.get("steps", []) for m in s["mops"]]
    return ("map (option_map ser) (run_trace qfm_shep (fun x => newton_cbrt 400 x (nadd x n1)) %s %s [%s])"
            % (cf(EPS4), s0, "; ".join(mops)))


def _sv(d, **kw):
    r = {"kind": "spec-violation", "failing_input": True, "detail": d}
    r.update(kw)
    return r


def _mv(d, corr="Traj.step"):
    return {"kind": "model-vs-impl", "failing_input": False, "correspondence": corr, "detail": d}


def qmat_py(q):
    n = float(np.dot(q, q))
    if n < EPS4:
        return np.eye(3)
    return rot_from_quat(np.asarray(q, dtype=float))


def consistent_views(v, scale, stamps=None):
    """the property itself, on the implementation's four views"""
    n = v["n"]
    if len(set(n)) != 1:
        return "views have different counts %r" % n
    pos = [U(x, 3) for x in v["pos"]]
    quat = [U(x, 4) for x in v["quat"]]
    poses = [U(x, (4, 4)) for x in v["poses"]]
    for k in range(n[0]):
        if not np.allclose(poses[k][:3, 3], pos[k], rtol=1e-9, atol=1e-9 * scale):
            return "position %d differs from the translation of pose matrix %d" % (k, k)
        if abs(np.linalg.norm(quat[k]) - 1) > 1e-6:
            return "quaternion %d is not a unit quaternion" % k
        if not np.allclose(qmat_py(quat[k]), poses[k][:3, :3], rtol=0, atol=1e-6):
            return "quaternion %d describes a different rotation than pose matrix %d" % (k, k)
        if list(poses[k][3]) != [0, 0, 0, 1]:
            return "bottom row of pose %d" % k
    if not v["check"]:
        return "evo's own validity check fails: %r" % (v["details"],)
    d = [unhex(x) for x in v["distances"]]
    exp = [0.0]
    for a, b in zip(pos, pos[1:]):
        exp.append(exp[-1] + float(np.linalg.norm(a - b)))
    if len(d) != len(exp) or any(not close(a, b, rtol=1e-9, atol=1e-9 * scale) for a, b in zip(d, exp)):
        return "accumulated distances do not follow from the positions"
    if not close(unhex(v["path_length"]), exp[-1], rtol=1e-9, atol=1e-9 * scale):
        return "path length does not follow from the positions"
    if "speeds" in v and stamps is not None and len(stamps) == len(pos):
        sp = [unhex(x) for x in v["speeds"]]
        want = [float(np.linalg.norm(b - a)) / (t1 - t0) for a, b, t0, t1 in zip(pos, pos[1:], stamps, stamps[1:])]
        # (evaluated on the object's own positions view: the same expression, so only rounding of one norm and one division)
        if len(sp) != len(want) or any(not close(a, b, rtol=1e-9, atol=1e-300) for a, b in zip(sp, want)):
            return "speeds do not follow from the positions and timestamps (|p_(i+1) - p_i| / (t_(i+1) - t_i))"
    return None


def judge(case, val, out):
    if "exception" in out:
        return _sv("unexpected exception: " + out["exception"])
    mstates = list(val)
    idx = 0
    scale = max(1.0, case.get("scale", 1.0))
    for si, s in enumerate(out["steps"]):
        snap = s["snap"]
        if s["refused"]:
            if s["op"] == "project" and idx < len(mstates) and mstates[idx] is None:
                return None if si == len(out["steps"]) - 1 else _mv("history continued after a refusal")
            return _sv("operation %s refused: %s" % (s["op"], s["refused"]), step=si)
        if snap.get("empty"):
            return None
        if "views_error" in snap:
            return _sv("views cannot be read after %s: %s" % (s["op"], snap["views_error"]), step=si)
        c = consistent_views(snap["views"], scale, [unhex(x) for x in snap["stamps"]] if snap.get("stamps") else None)
        if c is not None:
            return _sv("after step %d (%s): %s" % (si, s["op"], c), step=si)
        idx += len(s["mops"])
        if not s["mops"]:
            continue
        if idx - 1 >= len(mstates) or mstates[idx - 1] is None:
            return _mv("model refuses step %d (%s) that the implementation performed" % (si, s["op"]))
        ms = mstates[idx - 1]
        ms = ms[1] if isinstance(ms, tuple) and len(ms) == 2 and ms[0] == "Some" else ms
        mpos, mquat, mposes, mstamps, mproj = ms
        un = lambda o: (o[1] if isinstance(o, tuple) and len(o) == 2 and o[0] == "Some" else o)
        mpos, mquat, mposes, mstamps = un(mpos), un(mquat), un(mposes), un(mstamps)
        for name, mv_, iv in (("positions", mpos, snap["pos"]), ("quaternions", mquat, snap["quat"]),
                              ("poses", mposes, snap["poses"]), ("timestamps", mstamps, snap["stamps"])):
            if (mv_ is None) != (iv is None):
                return _mv("after step %d (%s): cache '%s' %s in the implementation but %s in the model" %
                           (si, s["op"], name, "exists" if iv is not None else "absent", "exists" if mv_ is not None else "absent"))
        if bool(mproj) != snap["proj"]:
            return _mv("projected flag differs after step %d" % si)
        if mstamps is not None and [float(x) for x in mstamps] != [unhex(x) for x in snap["stamps"]]:
            return _sv("timestamps after step %d (%s) are not those of the documented effect" % (si, s["op"]), step=si)
        cur = max([scale] + [float(np.abs(U(v, 3)).max()) for v in (snap["views"]["pos"] or [])])
        tol = dict(rtol=1e-8, atol=1e-8 * cur)
        if mpos is not None:
            a = np.array([[float(x) for x in v] for v in mpos]).reshape(-1, 3)
            b = np.array([U(v, 3) for v in snap["pos"]]).reshape(-1, 3)
            if a.shape != b.shape or not np.allclose(a, b, **tol):
                return _sv("positions after step %d (%s) differ from the documented effect (proven for the model)" % (si, s["op"]), step=si)
        if mposes is not None:
            a = np.array([[float(x) for x in v] for v in mposes]).reshape(-1, 12)
            b = np.array([np.concatenate([U(p, (4, 4))[:3, :3].reshape(9), U(p, (4, 4))[:3, 3]]) for p in snap["poses"]]).reshape(-1, 12)
            if a.shape != b.shape or not np.allclose(a[:, :9], b[:, :9], rtol=0, atol=1e-8) or not np.allclose(a[:, 9:], b[:, 9:], **tol):
                return _sv("pose matrices after step %d (%s) differ from the documented effect (proven for the model)" % (si, s["op"]), step=si)
        if mquat is not None:
            a = np.array([[float(x) for x in v] for v in mquat]).reshape(-1, 4)
            b = np.array([U(v, 4) for v in snap["quat"]]).reshape(-1, 4)
            if a.shape != b.shape:
                return _mv("quaternion count differs after step %d" % si)
            for qa, qb in zip(a, b):
                if not (np.allclose(qa, qb, rtol=0, atol=1e-6) or np.allclose(qa, -qb, rtol=0, atol=1e-6)):
                    # both describe the same rotation? (near-pi rotations: the eigen-solver may pick another axis sign)
                    if not np.allclose(qmat_py(qa), qmat_py(qb), rtol=0, atol=1e-6):
                        return _sv("quaternions after step %d (%s) differ from the documented effect (proven for the model)" % (si, s["op"]), step=si)
    return None


# ------------------------------------------------------------------ generators
def rand_pose(rng, scale, offset=0.0):
    p = np.eye(4)
    p[:3, :3] = rand_rot(rng)
    p[:3, 3] = offset + rng.normal(size=3) * scale
    return p


def make_op(rng, name, n, scale, stamps, nmax=None, stamped=True):
    if name in ("rd_pos", "rd_quat", "rd_poses", "rd_derived", "copy"):
        return {"op": name}
    if name.startswith("transform"):
        t = rand_pose(rng, scale)
        prop = "prop" in name or (name.endswith("right_sim") and bool(rng.random() < 0.5))
        if "left" in name and rng.random() < 0.4:
            prop = True      # propagate is documented for right-multiplication only: with a left one it must be ignored
        if name.endswith("_sim"):
            # with propagation the scale compounds along the chain (pose k carries s^k): keep s^n moderate
            # (nmax = initial pose count, an upper bound of the count at this point of the history)
            big = (nmax if nmax is not None else n)
            if prop and big > 16:
                prop = False
            # (1 +- 8e-6: a similarity that evo's tolerant SE(3) membership test cannot tell from a rigid motion by its determinant)
            t[:3, :3] *= float(rng.choice([0.5, 2.0] if prop else [0.5, 2.0, 10.0, 1.000008, 0.999992]))
        return {"op": "transform", "t": H(t), "right": "right" in name or "prop" in name, "propagate": prop}
    if name == "scale":
        return {"op": "scale", "s": hexf(float(rng.choice([0.5, 2.0, 1.0, 1e-2, 30.0])))}
    if name == "reduce":
        m = int(rng.integers(1, n + 1))
        if not stamped and rng.random() < 0.5:    # (timestamps must stay ascending, so only for paths) index lists may repeat a pose (and need not be sorted): the selected matrix object is then shared
            return {"op": "reduce", "ids": [int(i) for i in rng.choice(n, size=m + 1, replace=True)]}
        return {"op": "reduce", "ids": sorted(int(i) for i in rng.choice(n, size=m, replace=False))}
    if name == "downsample":
        return {"op": "downsample", "n": int(rng.integers(1, n + 3))}
    if name == "motion_filter":
        return {"op": "motion_filter", "d": float(rng.choice([0.0, 0.5, 2.0])) * scale, "a": float(rng.choice([5.0, 60.0, 400.0]))}
    if name == "crop":
        return {"op": "crop", "a": None if rng.random() < 0.3 else hexf(stamps[0] + float(rng.uniform(-1, 3))),
                "b": None if rng.random() < 0.3 else hexf(stamps[-1] - float(rng.uniform(-1, 3)))}
    if name.startswith("align_origin"):
        return {"op": "align_origin", "ref": [H(rand_pose(rng, scale))]}
    if name.startswith("align"):
        return {"op": "align", "ref": None, "scale": "scale" in name, "only_scale": "only" in name,
                "n": -1}
    if name == "project":
        return {"op": "project", "plane": str(rng.choice(["xy", "xz", "yz"]))}
    raise ValueError(name)


ALPHABET = ["rd_pos", "rd_quat", "rd_poses", "rd_derived", "copy", "transform_left", "transform_right", "transform_prop",
            "transform_left_sim", "transform_right_sim", "transform_prop_sim", "scale", "reduce", "downsample", "motion_filter", "crop",
            "align", "align_scale", "align_only_scale", "align_origin", "project"]


def build_case(rng, names, n, from_poses, with_stamps):
    scale = float(10.0 ** rng.integers(-1, 3))
    offset = float(rng.choice([0.0, 0.0, 4.5e5]))
    poses = [rand_pose(rng, scale, offset) for _ in range(n)]
    if n >= 3 and rng.random() < 0.3:      # a stationary stretch: the same pose repeated
        a = int(rng.integers(0, n - 1))
        for k in range(a + 1, min(n, a + 1 + int(rng.integers(1, 4)))):
            poses[k] = poses[a].copy()
    stamps = list(1.5e9 + np.cumsum(rng.uniform(0.5, 1.5, n))) if with_stamps else None
    if from_poses:
        init = {"kind": "poses", "poses": [H(p) for p in poses]}
    else:
        from evo.core import transformations as tfm
        init = {"kind": "pos_quat", "pos": [H(p[:3, 3]) for p in poses],
                "quat": [H(tfm.quaternion_from_matrix(p)) for p in poses]}
    if stamps:
        init["stamps"] = [hexf(x) for x in stamps]
    ops, cur_n, cur_stamps = [], n, list(stamps) if stamps else None
    for nm in names:
        if nm == "crop" and not stamps:
            nm = "reduce"
        if nm in ("align", "align_scale", "align_only_scale") and cur_n < 3:
            nm = "scale"
        o = make_op(rng, nm, cur_n, scale, cur_stamps or [0.0, 1.0], nmax=n, stamped=bool(stamps))
        if o["op"] == "align":
            o["ref"] = [H(rand_pose(rng, scale, offset)) for _ in range(cur_n)]
        ops.append(o)
        # bookkeeping of the pose count (to keep later index lists in range) is approximate: re-derived below
        if o["op"] == "reduce":
            cur_n = len(o["ids"])
            if cur_stamps:
                cur_stamps = [cur_stamps[i] for i in o["ids"]]
        if o["op"] in ("downsample", "motion_filter", "crop"):
            # the resulting count is data dependent: stop generating index-dependent ops afterwards
            cur_n = 1
            cur_stamps = cur_stamps[:1] if cur_stamps else None
    return {"kind": "history", "init": init, "ops": ops, "scale": max(scale, offset), "names": list(names)}


def gen(ctx):
    rng = ctx.np_rng(8)
    cases = []
    depth = ctx.n(2, 3)
    core = ["rd_pos", "rd_quat", "rd_poses", "copy", "transform_left", "transform_right", "transform_prop",
            "transform_left_sim", "transform_prop_sim", "scale", "reduce", "project", "align_scale", "align_origin", "downsample"]
    seqs = list(itertools.product(core, repeat=depth))
    rng.shuffle(seqs)
    for k, seq in enumerate(seqs[:ctx.n(200, 2800)]):
        cases.append(build_case(rng, list(seq) + ["rd_derived"], int(rng.integers(3, 7)), bool(k % 2), bool((k // 2) % 2)))
    for k in range(ctx.n(6, 24)):
        # a far-away first pose / a huge jump followed by millimetre steps: the accumulated distance is many orders of
        # magnitude larger than the steps whose speed is asked for
        c = build_case(rng, ["rd_derived", ["transform_left", "copy", "scale"][k % 3], "rd_derived"], 8, bool(k % 2), True)
        jump = float([1e9, 3e9, 1e10][k % 3])
        key = "poses" if c["init"]["kind"] == "poses" else "pos"
        for j in range(8):
            step = np.array([0.001 * j, 0.002 * j, 0.0]) + (np.array([jump, 0.0, 0.0]) if j >= 1 else 0.0)
            if key == "poses":
                P = U(c["init"]["poses"][j], (4, 4))
                P[:3, 3] = step
                c["init"]["poses"][j] = H(P)
            else:
                c["init"]["pos"][j] = H(step)
        c["scale"] = jump
        cases.append(c)
    for k in range(ctx.n(120, 500)):
        L = int(rng.integers(4, 16))
        names = [str(rng.choice(ALPHABET)) for _ in range(L)]
        n = int(rng.integers(1, ctx.n(12, 200) if k % 10 else 40))
        cases.append(build_case(rng, names, n, bool(k % 2), bool((k // 2) % 2)))
    return cases


def shrink(case):
    ops = case["ops"]
    for i in range(len(ops)):
        # dropping an op is only safe when later index lists stay valid: drop from the end first
        c = dict(case)
        c["ops"] = ops[:i] + ops[i + 1:]
        if all(o["op"] != "reduce" and o["op"] != "align" for o in ops[i + 1:]) or i == len(ops) - 1:
            yield c


def run(ctx, replay=None, proofs_ok=True):
    cases = [replay["case"]] if replay is not None else gen(ctx)
    failures, stats = differential(ctx, cases, imports=IMPORTS, impl=impl, expr=expr, judge=judge, shrink=shrink,
                                   nontrivial=lambda c, v, o: len(o.get("steps", [])) >= 2, per_file=25)
    hist = {}
    for c in cases:
        for o in c["ops"]:
            hist[o["op"]] = hist.get(o["op"], 0) + 1
        hist["init:" + c["init"]["kind"]] = hist.get("init:" + c["init"]["kind"], 0) + 1
    cov = {"evaluations": stats["evaluations"], "distinct_nontrivial": stats["distinct_nontrivial"],
           "rule": "operation histories: all sequences of depth %d over a 14-letter core alphabet (sampled when more than the tier's "
                   "budget) + random histories of length 4..15 over the full alphabet (reads of each view and of the derived "
                   "quantities, copy, left/right/propagating SE(3) transforms, Sim(3) transforms, scale, index reduction, "
                   "down-sampling, motion filter, crop, alignment rigid/similarity/scale-only/origin, projection) on trajectories "
                   "built from matrices or from positions+quaternions, with and without timestamps; after EVERY step: cache presence "
                   "+ contents vs the model, the four views mutually consistent, check() valid, distances/path length derived; "
                   "non-trivial = at least 2 steps executed" % ctx.n(2, 3),
           "samples": [{"names": cases[0]["names"], "init": cases[0]["init"]["kind"]},
                       {"names": cases[-1]["names"], "init": cases[-1]["init"]["kind"]}],
           "input_distribution": hist, "disagreements": stats["disagreements"]}
    return {"failures": failures, "coverage": cov}


LEVEL_TEXT = ("Coq theorems over R about a state machine with the three lazy caches: an invariant (every present cache denotes the "
              "same SE(3) pose list, equal counts incl. timestamps) holds initially and is preserved by every operation, each "
              "operation refines its documented effect on the abstract pose list (left T*P, right P*T, propagation D_i -> D_i*T with "
              "the first pose kept, scaling positions only, similarity = s*R*p+t with orientation R*R_p), lifted to ALL finite "
              "histories by induction. Tie: whole histories replayed on the implementation, comparing cache presence and contents "
              "after every step.")
LEVEL_NOTE = ("Trusted: Coq kernel/VM, Reals axioms + classic, hand model (tested correspondence), quaternion_from_matrix / cube root / "
              "scipy exp as oracles with measured specs, selection ids and Umeyama results from evo's own functions (C11, C03); "
              "rounding measured.")
TECHNIQUE = "Coq proof (invariant + refinement by induction over operation histories) + history-replay correspondence by vm_compute"
