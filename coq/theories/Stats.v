(* Stats.v - executable model of the result self-consistency code of evo (property C12):
     evo/core/metrics.py  PE.get_statistic / get_all_statistics / change_unit / get_result
     evo/core/units.py    Unit, LENGTH_UNITS, ANGLE_UNITS, METER_SCALE_FACTORS
     evo/main_ape.py ape(), evo/main_rpe.py rpe()   companion arrays and stored trajectories
   Generic over NumOps: run at F_ops (binary64) against numpy and reasoned about at R_ops
   (StatsProofs.v).  No proofs in this file. *)
From Coq Require Import String List Arith Bool ZArith.
From Evo Require Import Num.
Import ListNotations.
Local Open Scope num_scope.

(* ------------------------------------------------------------------------------------------ *)
(* numpy reductions and the seven statistics                                                   *)
(* ------------------------------------------------------------------------------------------ *)
Section Statistics.
Context {T : Type} {ops : NumOps T}.

(* plain left-to-right sum starting from 0 (numpy for fewer than 8 values) *)
Definition sum_seq (l : list T) : T := fold_left nadd l n0.

(* numpy's pairwise summation (numpy/_core/src/umath/loops_utils.h.src, *_pairwise_sum):
   n < 8: straight loop; n <= 128: eight running accumulators, combined as a balanced tree, then
   the remaining n mod 8 values one by one; otherwise split at (n/2 rounded down to a multiple
   of 8) and recurse.  np.sum / np.mean / np.std of a contiguous float64 array use it. *)
Definition comb8 (a b c d e f g h : T) : T :=
  ((a +! b) +! (c +! d)) +! ((e +! f) +! (g +! h)).

Fixpoint blk8 (a b c d e f g h : T) (l : list T) {struct l} : T :=
  match l with
  | x0 :: x1 :: x2 :: x3 :: x4 :: x5 :: x6 :: x7 :: rest =>
      blk8 (a +! x0) (b +! x1) (c +! x2) (d +! x3) (e +! x4) (f +! x5) (g +! x6) (h +! x7) rest
  | _ => fold_left nadd l (comb8 a b c d e f g h)
  end.

Definition sum_block (l : list T) : T :=
  match l with
  | x0 :: x1 :: x2 :: x3 :: x4 :: x5 :: x6 :: x7 :: rest => blk8 x0 x1 x2 x3 x4 x5 x6 x7 rest
  | _ => sum_seq l
  end.

Fixpoint sum_pw (fuel : nat) (l : list T) {struct fuel} : T :=
  let n := length l in
  if Nat.leb n 128 then sum_block l
  else match fuel with
       | O => sum_seq l
       | S fuel' =>
           let h := Nat.div n 2 in
           let n2 := h - Nat.modulo h 8 in
           sum_pw fuel' (firstn n2 l) +! sum_pw fuel' (skipn n2 l)
       end.

Definition np_sum (l : list T) : T := sum_pw (length l) l.

Definition cnt (l : list T) : T := nofZ (Z.of_nat (length l)).
Definition sq (x : T) : T := x *! x.               (* np.power(x, 2) *)

Definition mean (l : list T) : T := np_sum l /! cnt l.
Definition sse (l : list T) : T := np_sum (map sq l).
Definition rmse (l : list T) : T := nsqrt (np_sum (map sq l) /! cnt l).
(* np.std (ddof = 0): arrmean = sum/n ; x = arr - arrmean ; x = x*x ; sqrt(sum(x)/n) *)
Definition dev2 (l : list T) : list T := let m := mean l in map (fun x => sq (x -! m)) l.
Definition variance (l : list T) : T := np_sum (dev2 l) /! cnt l.
Definition std (l : list T) : T := nsqrt (variance l).

Definition minl (l : list T) : T :=
  match l with [] => n0 | x :: r => fold_left (fun m y => if y <?! m then y else m) r x end.
Definition maxl (l : list T) : T :=
  match l with [] => n0 | x :: r => fold_left (fun m y => if m <?! y then y else m) r x end.

(* np.median: the middle value of the sorted data, for an even count the mean of the two middle
   values; sorting is an insertion sort here *)
Fixpoint insert (x : T) (l : list T) : list T :=
  match l with
  | [] => [x]
  | y :: r => if x <=?! y then x :: y :: r else y :: insert x r
  end.
Fixpoint isort (l : list T) : list T :=
  match l with [] => [] | x :: r => insert x (isort r) end.

Definition median_sorted (s : list T) : T :=
  let n := length s in
  let h := Nat.div n 2 in
  if Nat.even n then (nth (h - 1) s n0 +! nth h s n0) /! nofZ 2 else nth h s n0.
Definition median (l : list T) : T := median_sorted (isort l).

(* get_all_statistics in the order of StatisticsType: rmse mean median std min max sse *)
Definition all_statistics (l : list T) : T * T * T * T * T * T * T :=
  (rmse l, mean l, median l, std l, minl l, maxl l, sse l).

(* everything that does not need sorting (large arrays) *)
Definition statistics_nosort (l : list T) : T * T * T * T * T * T :=
  (rmse l, mean l, std l, minl l, maxl l, sse l).

End Statistics.

(* ------------------------------------------------------------------------------------------ *)
(* units                                                                                       *)
(* ------------------------------------------------------------------------------------------ *)
Inductive Unit :=
| U_none | U_millimeters | U_centimeters | U_meters | U_kilometers
| U_seconds | U_degrees | U_radians | U_frames | U_percent.

Definition all_units : list Unit :=
  [U_none; U_millimeters; U_centimeters; U_meters; U_kilometers;
   U_seconds; U_degrees; U_radians; U_frames; U_percent].

Definition unit_idx (u : Unit) : nat :=
  match u with
  | U_none => 0 | U_millimeters => 1 | U_centimeters => 2 | U_meters => 3 | U_kilometers => 4
  | U_seconds => 5 | U_degrees => 6 | U_radians => 7 | U_frames => 8 | U_percent => 9
  end.
Definition unit_eqb (u v : Unit) : bool := Nat.eqb (unit_idx u) (unit_idx v).

Open Scope string_scope.
(* member names and values of evo.core.units.Unit *)
Definition unit_name (u : Unit) : string :=
  match u with
  | U_none => "none" | U_millimeters => "millimeters" | U_centimeters => "centimeters"
  | U_meters => "meters" | U_kilometers => "kilometers" | U_seconds => "seconds"
  | U_degrees => "degrees" | U_radians => "radians" | U_frames => "frames" | U_percent => "percent"
  end.
Definition unit_value (u : Unit) : string :=
  match u with
  | U_none => "unit-less" | U_millimeters => "mm" | U_centimeters => "cm"
  | U_meters => "m" | U_kilometers => "km" | U_seconds => "s"
  | U_degrees => "deg" | U_radians => "rad" | U_frames => "frames" | U_percent => "%"
  end.
Close Scope string_scope.

Definition is_length (u : Unit) : bool :=
  match u with U_millimeters | U_centimeters | U_meters | U_kilometers => true | _ => false end.
Definition is_angle (u : Unit) : bool :=
  match u with U_degrees | U_radians => true | _ => false end.
(* `self.unit in (Unit.none, Unit.frames, Unit.percent, Unit.seconds)` *)
Definition no_conversions (u : Unit) : bool :=
  match u with U_none | U_frames | U_percent | U_seconds => true | _ => false end.

Inductive refusal := RefNoConversions | RefAngleLength | RefEmpty | RefUnknown.
Inductive cu_status := CuOk | CuRefused (r : refusal).

(* the decision taken by change_unit, independent of the number system:
   nothing / multiply by num/den / rad2deg / deg2rad / refuse *)
Inductive decision :=
| DNoop | DScale (num : Z) (den : positive) | DRad2Deg | DDeg2Rad | DRefuse (r : refusal).

(* METER_SCALE_FACTORS as exact fractions num/den *)
Definition meters_frac (u : Unit) : Z * positive :=
  match u with
  | U_millimeters => (1%Z, 1000%positive)
  | U_centimeters => (1%Z, 100%positive)
  | U_kilometers => (1000%Z, 1%positive)
  | _ => (1%Z, 1%positive)
  end.

Definition decide (nonempty : bool) (u v : Unit) : decision :=
  if unit_eqb u v then DNoop
  else if no_conversions u then DRefuse RefNoConversions
  else if (is_angle u && is_length v) || (is_angle v && is_length u) then DRefuse RefAngleLength
  else if negb nonempty then DRefuse RefEmpty
  else if is_length u && is_length v then
    let '(nu, du) := meters_frac u in
    let '(nv, dv) := meters_frac v in
    (* (nu/du) / (nv/dv), all four numbers positive *)
    DScale (nu * Zpos dv) (du * Z.to_pos nv)
  else if unit_eqb u U_radians && unit_eqb v U_degrees then DRad2Deg
  else if unit_eqb u U_degrees && unit_eqb v U_radians then DDeg2Rad
  else DRefuse RefUnknown.

Section ChangeUnit.
Context {T : Type} {ops : NumOps T}.

(* METER_SCALE_FACTORS: 1e-3, 1e-2, 1, 1e3 (the decimal literals are the correctly rounded
   quotients 1/1000 and 1/100, which is what n1 /! nofZ 1000 computes in binary64) *)
Definition meters (u : Unit) : T :=
  match u with
  | U_millimeters => n1 /! nofZ 1000
  | U_centimeters => n1 /! nofZ 100
  | U_kilometers => nofZ 1000
  | _ => n1
  end.

(* PE.change_unit, statement by statement; [pi] is math.pi.  Returns the status (normal return
   or the exception class of the refusal) and the state (error values, unit) afterwards. *)
Definition change_unit (pi : T) (e : list T) (u v : Unit) : cu_status * (list T * Unit) :=
  if unit_eqb u v then (CuOk, (e, u))
  else if no_conversions u then (CuRefused RefNoConversions, (e, u))
  else if (is_angle u && is_length v) || (is_angle v && is_length u)
       then (CuRefused RefAngleLength, (e, u))
  else if Nat.eqb (length e) 0 then (CuRefused RefEmpty, (e, u))
  else if is_length u && is_length v
       then (CuOk, (map (fun x => x *! (meters u /! meters v)) e, v))
  else if unit_eqb u U_radians && unit_eqb v U_degrees
       then (CuOk, (map (fun x => x *! (nofZ 180 /! pi)) e, v))
  else if unit_eqb u U_degrees && unit_eqb v U_radians
       then (CuOk, (map (fun x => x *! (pi /! nofZ 180)) e, v))
  else (CuRefused RefUnknown, (e, u)).

(* what a decision does to the state *)
Definition apply_decision (pi : T) (d : decision) (e : list T) (u v : Unit)
  : cu_status * (list T * Unit) :=
  match d with
  | DNoop => (CuOk, (e, u))
  | DScale num den => (CuOk, (map (fun x => x *! (nofZ num /! nofZ (Zpos den))) e, v))
  | DRad2Deg => (CuOk, (map (fun x => x *! (nofZ 180 /! pi)) e, v))
  | DDeg2Rad => (CuOk, (map (fun x => x *! (pi /! nofZ 180)) e, v))
  | DRefuse r => (CuRefused r, (e, u))
  end.
End ChangeUnit.

(* ------------------------------------------------------------------------------------------ *)
(* metric unit, title, label (discrete)                                                        *)
(* ------------------------------------------------------------------------------------------ *)
Inductive Relation :=
| R_full_transformation | R_translation_part | R_rotation_part | R_rotation_angle_rad
| R_rotation_angle_deg | R_point_distance | R_point_distance_error_ratio.

Open Scope string_scope.
Definition relation_value (r : Relation) : string :=
  match r with
  | R_full_transformation => "full transformation"
  | R_translation_part => "translation part"
  | R_rotation_part => "rotation part"
  | R_rotation_angle_rad => "rotation angle in radians"
  | R_rotation_angle_deg => "rotation angle in degrees"
  | R_point_distance => "point distance"
  | R_point_distance_error_ratio => "point distance error ratio"
  end.

(* APE.__init__ / RPE.__init__: the unit of the values *)
Definition ape_unit (r : Relation) : Unit :=
  match r with
  | R_translation_part | R_point_distance => U_meters
  | R_rotation_angle_deg => U_degrees
  | R_rotation_angle_rad => U_radians
  | _ => U_none
  end.
Definition rpe_unit (r : Relation) : Unit :=
  match r with
  | R_translation_part | R_point_distance => U_meters
  | R_point_distance_error_ratio => U_percent
  | R_rotation_angle_deg => U_degrees
  | R_rotation_angle_rad => U_radians
  | _ => U_none
  end.

(* PE.get_result: "label": "{} {}".format(ClassName, "({})".format(self.unit.value)) *)
Definition label (cls : string) (u : Unit) : string := cls ++ " (" ++ unit_value u ++ ")".
(* APE.__str__ *)
Definition ape_title (r : Relation) (u : Unit) : string :=
  "APE w.r.t. " ++ relation_value r ++ " " ++ "(" ++ unit_value u ++ ")".
(* RPE.__str__ up to the number formatting of delta: the part before "for delta" *)
Definition rpe_title_head (r : Relation) (u : Unit) : string :=
  "RPE w.r.t. " ++ relation_value r ++ " (" ++ unit_value u ++ ")".
Close Scope string_scope.

(* unit handling of ape()/rpe(): metric unit, then the optional change_unit; the title is taken
   from str(metric) AFTER the change.  None = the call is refused with MetricsException. *)
Definition info_after (is_rpe : bool) (r : Relation) (chg : option Unit) (nonempty : bool)
  : option (Unit * string * string) :=
  let u0 := if is_rpe then rpe_unit r else ape_unit r in
  let fin := match chg with
             | None => Some u0
             | Some v => match decide nonempty u0 v with DRefuse _ => None | DNoop => Some u0 | _ => Some v end
             end in
  match fin with
  | None => None
  | Some u => Some (u, if is_rpe then rpe_title_head r u else ape_title r u,
                    label (if is_rpe then "RPE" else "APE") u)
  end.

(* ------------------------------------------------------------------------------------------ *)
(* companion arrays and stored trajectories of ape() / rpe()                                   *)
(* ------------------------------------------------------------------------------------------ *)
Section Companion.
Context {T : Type} {ops : NumOps T}.

(* ndarray[ids] / [l[i] for i in ids] *)
Fixpoint reduce_to_ids {A : Type} (t : list A) (ids : list nat) : list A :=
  match ids with
  | [] => []
  | i :: r => match nth_error t i with
              | Some x => x :: reduce_to_ids t r
              | None => reduce_to_ids t r
              end
  end.

Context {A P : Type}.
Variable stamp : A -> T.
Variable pos : A -> P.
Variable dist : P -> P -> T.      (* np.linalg.norm(a - b) *)

(* geometry.accumulated_distances: concatenate(([0]), cumsum(norm(x[:-1] - x[1:]))) *)
Fixpoint cumsum_from (acc : T) (l : list T) : list T :=
  match l with [] => [] | x :: r => (acc +! x) :: cumsum_from (acc +! x) r end.
Definition steps (ps : list P) : list T :=
  map (fun ab => dist (fst ab) (snd ab)) (combine ps (tl ps)).
Definition acc_dist (ps : list P) : list T := n0 :: cumsum_from n0 (steps ps).

(* [t - traj_est.timestamps[0] for t in traj_est.timestamps] *)
Definition seconds_from_start (t : list A) : list T :=
  match t with [] => [] | p0 :: _ => map (fun p => stamp p -! stamp p0) t end.

(* ape(): (seconds_from_start, timestamps, distances_from_start, distances) *)
Definition ape_companions (ref est : list A) : list T * list T * list T * list T :=
  (seconds_from_start est, map stamp est, acc_dist (map pos ref), acc_dist (map pos est)).

(* rpe(): reduce both trajectories to [0] + delta_ids, then slice every array with [1:] *)
Definition with_first (ids : list nat) : list nat := 0 :: ids.
Definition rpe_companions (ref est : list A) (ids : list nat)
  : (list T * list T * list T * list T) * (list A * list A) :=
  let r := reduce_to_ids ref (with_first ids) in
  let e := reduce_to_ids est (with_first ids) in
  ((tl (seconds_from_start e), tl (map stamp e), tl (acc_dist (map pos r)), tl (acc_dist (map pos e))),
   (r, e)).

(* RPE.process_data for point_distance / point_distance_error_ratio *)
Fixpoint nonzero_from (i : nat) (d : list T) : list nat :=
  match d with
  | [] => []
  | x :: r => if neqb x n0 then nonzero_from (S i) r else i :: nonzero_from (S i) r
  end.
Definition nonzero (d : list T) : list nat := nonzero_from 0 d.

Definition pair_dists (t : list A) (pairs : list (nat * nat)) : list T :=
  flat_map (fun ij => match nth_error t (fst ij), nth_error t (snd ij) with
                      | Some a, Some b => [dist (pos a) (pos b)]
                      | _, _ => []
                      end) pairs.

Definition point_distance_errors (ratio : bool) (ref est : list A) (pairs : list (nat * nat))
  : list T * list nat :=
  let ids := map snd pairs in
  let rd := pair_dists ref pairs in
  let ed := pair_dists est pairs in
  let err := map (fun ab => nabs (fst ab -! snd ab)) (combine rd ed) in
  if ratio then
    let nz := nonzero rd in
    let ids' := if Nat.eqb (length nz) (length rd) then ids else reduce_to_ids ids nz in
    (map (fun ab => (fst ab /! snd ab) *! nofZ 100)
         (combine (reduce_to_ids err nz) (reduce_to_ids rd nz)), ids')
  else (err, ids).

Definition rpe_point_distance_result (ratio : bool) (ref est : list A) (pairs : list (nat * nat)) :=
  let '(err, ids) := point_distance_errors ratio ref est pairs in
  (err, ids, rpe_companions ref est ids).

End Companion.

(* concrete instantiation used by the correspondence runs: a pose is (stamp, (x, y, z), tag) *)
Section Concrete.
Context {T : Type} {ops : NumOps T}.
Definition P3 : Type := (T * T * T)%type.
Definition TPose : Type := (T * P3 * nat)%type.
Definition tp_stamp (p : TPose) : T := fst (fst p).
Definition tp_pos (p : TPose) : P3 := snd (fst p).
Definition tp_tag (p : TPose) : nat := snd p.
(* norm of the difference of two points *)
Definition dist3 (a b : P3) : T :=
  let '(ax, ay, az) := a in
  let '(bx, b_y, bz) := b in
  let dx := ax -! bx in let dy := ay -! b_y in let dz := az -! bz in
  nsqrt ((dx *! dx +! dy *! dy) +! dz *! dz).

Definition ape_arrays (ref est : list TPose) := ape_companions tp_stamp tp_pos dist3 ref est.
Definition rpe_arrays (ref est : list TPose) (ids : list nat) :=
  let '(arrs, (r, e)) := rpe_companions tp_stamp tp_pos dist3 ref est ids in
  (arrs, (map tp_tag r, map tp_tag e)).
Definition rpe_pd (ratio : bool) (ref est : list TPose) (pairs : list (nat * nat)) :=
  let '(err, ids, (arrs, (r, e))) := rpe_point_distance_result tp_stamp tp_pos dist3 ratio ref est pairs in
  (err, ids, arrs, (map tp_tag r, map tp_tag e)).
End Concrete.

(* ------------------------------------------------------------------------------------------ *)
(* get_result stores the error array BY REFERENCE: a small heap model                           *)
(* ------------------------------------------------------------------------------------------ *)
(* PE.get_result: result.add_np_array("error_array", self.error) keeps a reference to the metric's
   array.  Arrays live in a heap (address = position); a metric is (address of self.error, unit); a
   Result is (statistics at the time, ADDRESS of its error_array, unit named in its label).
   change_unit rebinds self.error to a NEW array (current code: `self.error = self.error * f`,
   np.rad2deg/np.deg2rad); [inplace = true] is the earlier code for length units
   (`self.error *= f` writes into the array a Result may already hold). *)
Section Heap.
Context {T : Type} {ops : NumOps T}.
Definition heap : Type := list (list T).
Definition hread (h : heap) (a : nat) : list T := nth a h [].
Fixpoint hwrite (h : heap) (a : nat) (x : list T) : heap :=
  match h, a with
  | [], _ => []
  | _ :: r, O => x :: r
  | y :: r, S a' => y :: hwrite r a' x
  end.
Definition halloc (h : heap) (x : list T) : heap * nat := (h ++ [x], length h).

Definition hmetric : Type := (nat * Unit)%type.
Definition hresult : Type := ((T * T * T * T * T * T * T) * nat * Unit)%type.
Definition res_stats (r : hresult) := fst (fst r).
Definition res_addr (r : hresult) : nat := snd (fst r).
Definition res_unit (r : hresult) : Unit := snd r.

Definition get_result_h (h : heap) (m : hmetric) : hresult :=
  (all_statistics (hread h (fst m)), fst m, snd m).

Definition change_unit_h (inplace : bool) (pi : T) (h : heap) (m : hmetric) (v : Unit)
  : cu_status * (heap * hmetric) :=
  match change_unit pi (hread h (fst m)) (snd m) v with
  | (CuRefused r, _) => (CuRefused r, (h, m))
  | (CuOk, (e', u')) =>
      if unit_eqb (snd m) v then (CuOk, (h, m))
      else if inplace && is_length (snd m) then (CuOk, (hwrite h (fst m) e', (fst m, u')))
      else let '(h', a) := halloc h e' in (CuOk, (h', (a, u')))
  end.

(* a Result is self-consistent in a heap: its statistics are those of the array it refers to *)
Definition result_consistent (h : heap) (r : hresult) : Prop :=
  res_stats r = all_statistics (hread h (res_addr r)).

(* r1 = m.get_result(); m.change_unit(v); r2 = m.get_result()  on a fresh metric with values e:
   (status, r1.stats, r1.error_array read afterwards, r1 unit, m.error, m.unit, r2.stats) *)
Definition alias_scenario (inplace : bool) (pi : T) (e : list T) (u v : Unit) :=
  let h0 : heap := [e] in
  let m0 : hmetric := (0, u) in
  let r1 := get_result_h h0 m0 in
  let '(st, (h1, m1)) := change_unit_h inplace pi h0 m0 v in
  let r2 := get_result_h h1 m1 in
  (st, res_stats r1, hread h1 (res_addr r1), res_unit r1, hread h1 (fst m1), snd m1, res_stats r2).
End Heap.

(* binary64 math.pi, for the correspondence runs *)
Module PiFloat.
Import PrimFloat.
Local Open Scope float_scope.
Definition pi_float : float := 0x1.921fb54442d18p+1.
End PiFloat.
Definition pi_float : PrimFloat.float := PiFloat.pi_float.
Definition change_unit_F := @change_unit PrimFloat.float F_ops pi_float.
Definition alias_scenario_F := @alias_scenario PrimFloat.float F_ops.
