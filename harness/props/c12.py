"""C12 - a metric result is self-consistent (statistics, companion arrays, unit):
evo/core/metrics.py (PE.get_statistic/get_all_statistics/change_unit/get_result), evo/core/units.py,
evo/main_ape.py ape(), evo/main_rpe.py rpe() against the Coq model Evo.Stats (F_ops run) and the
translator tie Evo.UnitsTie over coq/generated/UnitsGen.v."""
import copy
import math
import os
from fractions import Fraction

import numpy as np

from harness import common, pyast2coq_c12
from harness.common import (bits_equal, cf, cflist, close, cnat, cnatlist, cpairs_nat, cstr, differential,
                            hexf, unhex)

ID = "C12"
IMPORTS = "From Evo Require Import Num Stats.\n"
COQ_TARGETS = ["theories/StatsProofs.vo", "generated/UnitsGen.vo", "theories/UnitsTie.vo"]
TRUSTED = [
    "model Evo.Stats written by hand from evo/core/metrics.py, units.py, main_ape.py, main_rpe.py; tie (H) = "
    "differential run at binary64: statistics through a model of numpy's pairwise summation (bit-equal "
    "expected, close(rtol=1e-9) accepted and counted), change_unit / companion arrays / stored poses bit-exact",
    "tie (T): harness/pyast2coq_c12.py + the interpreter Evo.PyAstC12 (semantics of the Python subset; "
    "validated by the exhaustive 2x10x10 differential run of change_unit in every run, not verified)",
    "numpy: elementwise *,/,-,abs,sqrt, np.rad2deg/deg2rad = x*(180/pi), x*(pi/180), np.median = middle of the "
    "sorted data, np.cumsum sequential, fancy indexing = selection (all measured on every case)",
    "RPE pair selection (id_pairs_from_delta, property C10) and the error values of the non point-distance "
    "relations (C01/C02) are taken from evo itself; C12 checks what is assembled around them",
    "real-vs-binary64 gap: theorems are over R; the float run of the same Gallina term is compared with numpy",
]
ASSUMPTIONS = ["error values finite (no NaN/inf), at least one value", "error values of a metric are >= 0 "
               "(norms, absolute angles, ratios) for the chain min <= mean <= rmse <= max",
               "pair indices are in range of the trajectories (guaranteed by id_pairs_from_delta)"]

UNITS = ["none", "millimeters", "centimeters", "meters", "kilometers", "seconds", "degrees", "radians", "frames",
         "percent"]
RELS = ["full_transformation", "translation_part", "rotation_part", "rotation_angle_rad", "rotation_angle_deg",
        "point_distance", "point_distance_error_ratio"]
STAT_KEYS = ["rmse", "mean", "median", "std", "min", "max", "sse"]
ARRAYS = ["seconds_from_start", "timestamps", "distances_from_start", "distances"]
SORT_CAP = {True: 300, False: 2000}       # arrays sorted inside Coq (insertion sort)
COQ_CAP = {True: 2000, False: 20000}      # arrays summed inside Coq


def cu(name):
    return "U_" + name


def crel(name):
    return "R_" + name


# ------------------------------------------------------------------------------------------------
# implementation side
# ------------------------------------------------------------------------------------------------
def _metric(cls, rel):
    from evo.core import metrics
    if cls == "APE":
        return metrics.APE(metrics.PoseRelation[rel])
    if cls == "RPE":
        return metrics.RPE(metrics.PoseRelation[rel])

    class PEsub(metrics.PE):
        def process_data(self, data):
            return None
    return PEsub()


def _big_array(gen):
    """Deterministic large arrays (not stored in the case): dyadic values so that squares are exact."""
    rng = np.random.default_rng([int(gen["seed"]), 12])
    n = int(gen["n"])
    if gen["dist"] == "dyadic":
        a = rng.integers(0, 2 ** 20, n).astype(float) / 1024.0
    elif gen["dist"] == "constant":
        a = np.full(n, float(rng.integers(1, 1000)) / 8.0)
    elif gen["dist"] == "tiny":
        a = rng.integers(1, 2 ** 20, n).astype(float) * 2.0 ** -60
    else:  # wide: magnitudes 2^-40 .. 2^20, 20 significant bits
        a = rng.integers(2 ** 19, 2 ** 20, n).astype(float) * 2.0 ** rng.integers(-59, 1, n)
    return a


def _stats_out(m):
    st = m.get_all_statistics()
    res = m.get_result()
    return {"keys": list(st.keys()), "stats": {k: hexf(v) for k, v in st.items()},
            "result_stats_same": list(res.stats.keys()) == list(st.keys())
            and all(bits_equal(res.stats[k], st[k]) for k in st),
            "error_array_same": ("error_array" in res.np_arrays
                                 and np.array_equal(res.np_arrays["error_array"], m.error)),
            "label": res.info.get("label"), "title": res.info.get("title"), "cls": type(m).__name__}


def impl_stats(case):
    vals = _big_array(case["gen"]) if "gen" in case else np.array([unhex(x) for x in case["vals"]], dtype=float)
    m = _metric(case["cls"], case.get("rel", "translation_part"))
    m.error = vals.copy()
    try:
        out = _stats_out(m)
    except Exception as e:  # noqa
        return {"error": type(e).__name__ + ": " + str(e)[:200]}
    out["input_unchanged"] = bool(np.array_equal(m.error, vals)) and m.error.tobytes() == vals.tobytes()
    if "gen" in case:
        # exact reference: the values are dyadic with <= 26 significant bits, so squares are exact doubles
        # and math.fsum returns the correctly rounded exact sums
        n = len(vals)
        s1, s2 = math.fsum(vals.tolist()), math.fsum((vals * vals).tolist())
        out["ref"] = {"n": n, "sum": hexf(s1), "sumsq": hexf(s2), "min": hexf(vals.min()), "max": hexf(vals.max()),
                      "median": hexf(_median_ref(vals))}
    return out


def _median_ref(vals):
    s = sorted(vals.tolist())
    n = len(s)
    return s[n // 2] if n % 2 else (s[n // 2 - 1] + s[n // 2]) / 2.0


def _refusal(msg):
    for key, name in (("does not support conversions", "RefNoConversions"), ("cannot convert", "RefAngleLength"),
                      ("error array is empty", "RefEmpty"), ("unknown unit combination", "RefUnknown")):
        if key in msg:
            return name
    return "other:" + msg[:80]


def impl_unit(case):
    from evo.core import metrics
    from evo.core.units import Unit
    vals = np.array([unhex(x) for x in case["vals"]], dtype=float)
    m = _metric(case["cls"], case.get("rel", "translation_part"))
    m.unit = Unit[case["u"]]
    m.error = vals.copy()
    out = {}
    try:
        ret = m.change_unit(Unit[case["v"]])
        out["status"] = "CuOk"
        out["ret_none"] = ret is None
    except metrics.MetricsException as e:
        out["status"] = "CuRefused"
        out["reason"] = _refusal(str(e))
    except Exception as e:  # noqa
        return {"error": type(e).__name__ + ": " + str(e)[:200]}
    out["vals"] = [hexf(x) for x in np.asarray(m.error, dtype=float).tolist()]
    out["unit"] = m.unit.name if isinstance(m.unit, Unit) else repr(m.unit)
    out["unit_value"] = m.unit.value if isinstance(m.unit, Unit) else None
    if len(m.error):
        try:
            out.update({k: v for k, v in _stats_out(m).items() if k in ("label", "title", "cls", "stats", "keys")})
        except Exception as e:  # noqa
            return {"error": "get_result: " + type(e).__name__ + ": " + str(e)[:200]}
    return out


def impl_alias(case):
    """r1 = m.get_result(); m.change_unit(v); r2 = m.get_result(): is r1 still self-consistent?"""
    from evo.core import metrics
    from evo.core.units import Unit
    vals = np.array([unhex(x) for x in case["vals"]], dtype=float)
    m = _metric(case["cls"], case.get("rel", "translation_part"))
    m.unit = Unit[case["u"]]
    m.error = vals.copy()
    out = {"cls": type(m).__name__}

    def snap(res):
        return {"keys": list(res.stats.keys()), "stats": {k: hexf(v) for k, v in res.stats.items()},
                "error_array": [hexf(x) for x in np.asarray(res.np_arrays["error_array"], dtype=float).tolist()],
                "label": res.info.get("label"), "title": res.info.get("title")}
    try:
        r1 = m.get_result()
        out["r1_before"] = snap(r1)
        try:
            m.change_unit(Unit[case["v"]])
            out["status"] = "CuOk"
        except metrics.MetricsException as e:
            out["status"] = "CuRefused"
            out["reason"] = _refusal(str(e))
        out["r1_after"] = snap(r1)
        out["shares_memory"] = bool(np.shares_memory(r1.np_arrays["error_array"], m.error))
        out["vals"] = [hexf(x) for x in np.asarray(m.error, dtype=float).tolist()]
        out["unit"] = m.unit.name
        out["r2"] = snap(m.get_result())
    except Exception as e:  # noqa
        return {"error": type(e).__name__ + ": " + str(e)[:200]}
    return out


def _traj(spec):
    from evo.core.trajectory import PoseTrajectory3D
    xyz = np.array([[unhex(c) for c in p] for p in spec["xyz"]], dtype=float).reshape(-1, 3)
    yaw = np.array([unhex(a) for a in spec["yaw"]], dtype=float)
    quat = np.stack([np.cos(yaw / 2), np.zeros_like(yaw), np.zeros_like(yaw), np.sin(yaw / 2)], axis=1)
    return PoseTrajectory3D(positions_xyz=xyz, orientations_quat_wxyz=quat,
                            timestamps=np.array([unhex(s) for s in spec["stamps"]], dtype=float))


def _process(ref, est, opts):
    """The documented pre-processing of ape()/rpe(), done by the harness on its own copies."""
    from evo.core.trajectory import Plane
    align, scale = bool(opts.get("align")), bool(opts.get("correct_scale"))
    if align or scale:
        est.align(ref, scale, scale and not align, n=-1)
    if opts.get("align_origin"):
        est.align_origin(ref)
    if opts.get("project"):
        ref.project(Plane(opts["project"]))
        est.project(Plane(opts["project"]))


def _dump_traj(t):
    return {"stamps": [hexf(s) for s in t.timestamps.tolist()],
            "xyz": [[hexf(c) for c in p] for p in t.positions_xyz.tolist()]}


def _stored(res, name, processed):
    """Which processed pose is each stored pose (by timestamp), and is it unmodified?"""
    t = res.trajectories.get(name)
    if t is None:
        return {"missing": True}
    stamps = processed.timestamps.tolist()
    tags, intact = [], True
    try:
        n = t.num_poses
        lens_ok = (len(t.timestamps) == n and len(t.positions_xyz) == n and len(t.poses_se3) == n
                   and len(t.orientations_quat_wxyz) == n)
        for k in range(len(t.timestamps)):
            s = float(t.timestamps[k])
            tag = stamps.index(s) if s in stamps else -1
            tags.append(tag)
            if tag < 0 or not lens_ok:
                intact = False
                continue
            intact = intact and (t.positions_xyz[k].tobytes() == processed.positions_xyz[tag].tobytes()
                                 and t.orientations_quat_wxyz[k].tobytes()
                                 == processed.orientations_quat_wxyz[tag].tobytes()
                                 and np.asarray(t.poses_se3[k]).tobytes()
                                 == np.asarray(processed.poses_se3[tag]).tobytes())
        return {"tags": tags, "intact": bool(intact and lens_ok)}
    except Exception as e:  # noqa
        return {"tags": tags, "intact": False, "exception": type(e).__name__}


def _result_out(res, pref, pest):
    out = {"title": res.info.get("title"), "label": res.info.get("label"),
           "ref_name": res.info.get("ref_name"), "est_name": res.info.get("est_name"),
           "keys": list(res.stats.keys()), "stats": {k: hexf(v) for k, v in res.stats.items()},
           "error_array": [hexf(x) for x in np.asarray(res.np_arrays["error_array"], dtype=float).tolist()],
           "arrays": {k: ([hexf(x) for x in np.asarray(res.np_arrays[k], dtype=float).ravel().tolist()]
                          if k in res.np_arrays else None) for k in ARRAYS},
           "array_ndim": {k: int(np.asarray(res.np_arrays[k]).ndim) for k in ARRAYS if k in res.np_arrays},
           "stored_ref": _stored(res, "reference", pref), "stored_est": _stored(res, "estimate", pest)}
    return out


def impl_ape(case):
    from evo import main_ape
    from evo.core import metrics
    from evo.core.units import Unit
    from evo.core.trajectory import Plane
    rel = metrics.PoseRelation[case["rel"]]
    opts = case.get("opts", {})
    ref, est = _traj(case["ref"]), _traj(case["est"])
    pref, pest = copy.deepcopy(ref), copy.deepcopy(est)
    out = {}
    try:
        _process(pref, pest, opts)
        m0 = metrics.APE(rel)
        m0.process_data((pref, pest))
        out["raw"] = [hexf(x) for x in m0.error.tolist()]
        out["unit0"] = m0.unit.name
    except metrics.MetricsException as e:
        out["raw_error"] = "MetricsException: " + str(e)[:100]
    except Exception as e:  # noqa
        return {"error": "harness pre-processing: " + type(e).__name__ + ": " + str(e)[:200], "skip": True}
    out["pref"], out["pest"] = _dump_traj(pref), _dump_traj(pest)
    try:
        res = main_ape.ape(ref, est, rel, align=bool(opts.get("align")), correct_scale=bool(opts.get("correct_scale")),
                           align_origin=bool(opts.get("align_origin")),
                           change_unit=Unit[case["chg"]] if case.get("chg") else None,
                           project_to_plane=Plane(opts["project"]) if opts.get("project") else None)
    except metrics.MetricsException as e:
        out["error"] = "MetricsException"
        out["reason"] = _refusal(str(e))
        return out
    except Exception as e:  # noqa
        out["error"] = type(e).__name__ + ": " + str(e)[:200]
        return out
    out.update(_result_out(res, pref, pest))
    return out


def impl_rpe(case):
    from evo import main_rpe
    from evo.core import metrics, filters
    from evo.core.units import Unit
    rel = metrics.PoseRelation[case["rel"]]
    opts = case.get("opts", {})
    delta, dunit = unhex(case["delta"]), Unit[case["delta_unit"]]
    if dunit == Unit.frames:
        delta = int(delta)
    tol, allp, pfr = unhex(case.get("tol", hexf(0.1))), bool(case.get("all_pairs")), bool(case.get("pairs_from_ref"))
    ref, est = _traj(case["ref"]), _traj(case["est"])
    pref, pest = copy.deepcopy(ref), copy.deepcopy(est)
    out = {}
    try:
        _process(pref, pest, opts)
        out["pref"], out["pest"] = _dump_traj(pref), _dump_traj(pest)
        pairs = metrics.id_pairs_from_delta((pref if pfr else pest).poses_se3, delta, dunit, tol, all_pairs=allp)
        out["pairs"] = [[int(i), int(j)] for i, j in pairs]
        m0 = metrics.RPE(rel, delta, dunit, tol, allp, pfr)
        m0.process_data((copy.deepcopy(pref), copy.deepcopy(pest)))
        out["raw"] = [hexf(x) for x in np.asarray(m0.error, dtype=float).tolist()]
        out["unit0"] = m0.unit.name
    except filters.FilterException:
        out["no_pairs"] = True
    except metrics.MetricsException as e:
        out["raw_error"] = "MetricsException: " + str(e)[:100]
    except Exception as e:  # noqa
        return {"error": "harness pre-processing: " + type(e).__name__ + ": " + str(e)[:200], "skip": True}
    try:
        res = main_rpe.rpe(ref, est, rel, delta, dunit, rel_delta_tol=tol, all_pairs=allp, pairs_from_reference=pfr,
                           align=bool(opts.get("align")), correct_scale=bool(opts.get("correct_scale")),
                           align_origin=bool(opts.get("align_origin")),
                           support_loop=bool(case.get("support_loop")),
                           change_unit=Unit[case["chg"]] if case.get("chg") else None)
    except filters.FilterException:
        out["error"] = "FilterException"
        return out
    except metrics.MetricsException as e:
        out["error"] = "MetricsException"
        out["reason"] = _refusal(str(e))
        return out
    except Exception as e:  # noqa
        out["error"] = type(e).__name__ + ": " + str(e)[:200]
        return out
    out.update(_result_out(res, pref, pest))
    if case.get("support_loop"):
        out["inputs_kept"] = bool(ref.num_poses == len(case["ref"]["stamps"]) and est.num_poses == len(case["est"]["stamps"]))
    return out


def impl(case):
    import contextlib
    import io
    with contextlib.redirect_stdout(io.StringIO()):   # filters.py prints a progress counter
        return {"stats": impl_stats, "unit": impl_unit, "ape": impl_ape, "rpe": impl_rpe,
                "alias": impl_alias}[case["kind"]](case)


# ------------------------------------------------------------------------------------------------
# model side (Coq expressions)
# ------------------------------------------------------------------------------------------------
def _cposes(d):
    return "[" + "; ".join("(%s, (%s, %s, %s), %s)" % (cf(unhex(s)), cf(unhex(p[0])), cf(unhex(p[1])), cf(unhex(p[2])),
                                                         cnat(k))
                           for k, (s, p) in enumerate(zip(d["stamps"], d["xyz"]))) + "]"


def _chg(case):
    return "(Some %s)" % cu(case["chg"]) if case.get("chg") else "None"


def _small_stats(vals, quick):
    n = len(vals)
    if 0 < n <= SORT_CAP[quick]:
        return "(1%%nat, all_statistics %s)" % cflist(vals)
    if 0 < n <= COQ_CAP[quick]:
        return "(2%%nat, statistics_nosort %s)" % cflist(vals)
    return "(0%nat, tt)"


def make_expr(quick):
    def expr(case, out):
        kind = case["kind"]
        if kind == "stats":
            if "gen" in case:
                return "(0%nat, tt)"
            return _small_stats([unhex(x) for x in case["vals"]], quick)
        if kind == "unit":
            e = cflist(unhex(x) for x in case["vals"])
            return ("(let r := change_unit_F %s %s %s in (r, label %s (snd (snd r)), ape_title %s (snd (snd r)), "
                    "rpe_title_head %s (snd (snd r))))"
                    % (e, cu(case["u"]), cu(case["v"]), cstr(out.get("cls", "?") or "?"),
                       crel(case.get("rel", "translation_part")), crel(case.get("rel", "translation_part"))))
        if kind == "alias":
            if "r1_after" not in out:
                return "(0%nat, tt)"
            rel = crel(case.get("rel", "translation_part"))
            titles = "(fun u => (label %s u, ape_title %s u, rpe_title_head %s u))" % (cstr(out["cls"]), rel, rel)
            # the heap model of the scenario, the statistics of the EARLIER result's array as it is now,
            # and label/title for the old and the new unit
            return ("(let s := alias_scenario_F false pi_float %s %s %s in (s, all_statistics %s, %s %s, "
                    "let '(_, _, _, _, _, u2, _) := s in %s u2))"
                    % (cflist(unhex(x) for x in case["vals"]), cu(case["u"]), cu(case["v"]),
                       cflist(unhex(x) for x in out["r1_after"]["error_array"]), titles, cu(case["u"]), titles))
        if out.get("skip") or "pref" not in out:
            return "(0%nat, tt)"
        is_rpe = kind == "rpe"
        ne = "true" if out.get("raw") else "false"
        info = "info_after %s %s %s %s" % ("true" if is_rpe else "false", crel(case["rel"]), _chg(case), ne)
        conv = "None"
        if "raw" in out and "unit0" in out:
            conv = "Some (change_unit_F %s %s %s)" % (cflist(unhex(x) for x in out["raw"]), cu(out["unit0"]),
                                                        cu(case["chg"]) if case.get("chg") else cu(out["unit0"]))
        st = _small_stats([unhex(x) for x in out["error_array"]], quick) if out.get("error_array") else "(0%nat, tt)"
        if not is_rpe:
            return "(%s, %s, %s, ape_arrays %s %s)" % (info, conv, st, _cposes(out["pref"]), _cposes(out["pest"]))
        if "pairs" not in out:
            return "(%s, %s, %s, tt)" % (info, conv, st)
        if case["rel"] in ("point_distance", "point_distance_error_ratio"):
            body = "(1%%nat, rpe_pd %s %s %s %s)" % (
                "true" if case["rel"].endswith("ratio") else "false", _cposes(out["pref"]), _cposes(out["pest"]),
                cpairs_nat(out["pairs"]))
        else:
            body = "(2%%nat, rpe_arrays %s %s %s)" % (_cposes(out["pref"]), _cposes(out["pest"]),
                                                     cnatlist(j for _, j in out["pairs"]))
        return "(%s, %s, %s, %s)" % (info, conv, st, body)
    return expr


# ------------------------------------------------------------------------------------------------
# judge
# ------------------------------------------------------------------------------------------------
class Regimes:
    exact = 0
    rounded = 0
    all_pairs_dropped = 0   # ratio relation, every reference distance zero: no error value at all
    outcomes = {}


def _count(key):
    Regimes.outcomes[key] = Regimes.outcomes.get(key, 0) + 1


def _viol(detail, **kw):
    d = {"kind": "spec-violation", "failing_input": True, "detail": detail}
    d.update(kw)
    return d


def _tie(detail, what):
    return {"kind": "model-vs-impl", "failing_input": False, "correspondence": what, "detail": detail}


def _cmp_floats(got, want, exact, what, rtol=1e-9):
    """None if the implementation's floats match the model's (bit-equal, or close when not `exact`)."""
    if got is None:
        return "%s is missing" % what
    if len(got) != len(want):
        return "%s has %d entries, the model %d" % (what, len(got), len(want))
    for k, (a, b) in enumerate(zip(got, want)):
        a, b = unhex(a), float(b)
        if bits_equal(a, b) or (a == 0.0 and b == 0.0):
            Regimes.exact += 1
        elif not exact and close(a, b, rtol=rtol):
            Regimes.rounded += 1
        else:
            return "%s[%d] = %r, the model gives %r" % (what, k, a, b)
    return None


def _check_stat_relations(st, n, nonneg):
    """The property's inequalities and identities directly on the implementation's numbers."""
    g = {k: unhex(v) for k, v in st.items()}
    scale = max(abs(g["max"]), abs(g["min"]), 1e-300)
    eps = 1e-9 * scale
    if not (g["min"] - eps <= g["median"] <= g["max"] + eps):
        return "min <= median <= max violated: %r" % ((g["min"], g["median"], g["max"]),)
    if not (g["min"] - eps <= g["mean"] <= g["max"] + eps):
        return "min <= mean <= max violated: %r" % ((g["min"], g["mean"], g["max"]),)
    if g["mean"] > g["rmse"] + eps:
        return "mean <= rmse violated: %r" % ((g["mean"], g["rmse"]),)
    if nonneg and g["rmse"] > g["max"] + eps:
        return "rmse <= max violated: %r" % ((g["rmse"], g["max"]),)
    if g["std"] < 0 or g["rmse"] < 0:
        return "negative std or rmse"
    r2 = g["rmse"] ** 2
    if abs(r2 - (g["mean"] ** 2 + g["std"] ** 2)) > 1e-9 * max(r2, 1e-300) + 1e-300:
        return "rmse^2 = mean^2 + std^2 violated: %r vs %r" % (r2, g["mean"] ** 2 + g["std"] ** 2)
    if abs(g["sse"] - n * r2) > 1e-9 * max(abs(g["sse"]), 1e-300) + 1e-300:
        return "sse = n * rmse^2 violated: %r vs %r" % (g["sse"], n * r2)
    return None


def _check_against_exact(st, vals):
    """Statistics against exact rational arithmetic on the exact values of the floats (n <= 10^4)."""
    n = len(vals)
    fr = [Fraction(x) for x in vals]
    s1, s2 = sum(fr), sum(x * x for x in fr)
    g = {k: unhex(v) for k, v in st.items()}
    mx = max(abs(x) for x in vals) or 1.0
    mean, msq = s1 / n, s2 / n
    var = msq - mean * mean
    if abs(Fraction(g["mean"]) - mean) > Fraction(1, 10 ** 9) * Fraction(mx):
        return "mean differs from the exact mean: %r vs %r" % (g["mean"], float(mean))
    if abs(Fraction(g["sse"]) - s2) > Fraction(1, 10 ** 9) * s2:
        return "sse differs from the exact sum of squares: %r vs %r" % (g["sse"], float(s2))
    if abs(Fraction(g["rmse"]) ** 2 - msq) > Fraction(4, 10 ** 9) * msq:
        return "rmse^2 differs from the exact mean square: %r vs %r" % (g["rmse"] ** 2, float(msq))
    if abs(Fraction(g["std"]) ** 2 - var) > Fraction(4, 10 ** 9) * msq:
        return "std^2 differs from the exact population variance: %r vs %r" % (g["std"] ** 2, float(var))
    if g["min"] != min(vals) or g["max"] != max(vals):
        return "min/max differ from the smallest/largest value"
    if not bits_equal(g["median"], _median_ref(np.array(vals))):
        return "median differs from the middle of the sorted values"
    return None


def _judge_stats_block(stats, keys, vals, val, exact):
    """stats: impl dict (hex); val: (tag, model tuple) from _small_stats."""
    if keys != STAT_KEYS or sorted(stats.keys()) != sorted(STAT_KEYS):
        return _viol("get_all_statistics keys are %r, expected %r" % (keys, STAT_KEYS))
    n = len(vals)
    tag, mv = val
    if tag == 1:
        want = dict(zip(STAT_KEYS, mv))
    elif tag == 2:
        want = dict(zip(["rmse", "mean", "std", "min", "max", "sse"], mv))
    else:
        want = {}
    for k, w in want.items():
        msg = _cmp_floats([stats[k]], [w], exact, "statistic " + k)
        if msg:
            return _viol(msg + " (definition evaluated by the Coq model in binary64)")
    msg = _check_stat_relations(stats, n, all(x >= 0 for x in vals))
    if msg:
        return _viol(msg)
    if n <= 10000:
        msg = _check_against_exact(stats, vals)
        if msg:
            return _viol(msg)
    return None


def _outcome(case, out):
    kind = case["kind"]
    if out.get("skip"):
        return kind + ": pre-processing not possible (skipped)"
    if kind == "stats":
        return "stats: " + ("large, exact sums" if "gen" in case else "Coq model")
    if kind == "unit":
        return "unit: " + str(out.get("status")) + (" " + str(out.get("reason")) if out.get("reason") else "")
    if kind == "alias":
        return "alias: get_result, change_unit %s, get_result" % out.get("status")
    if out.get("no_pairs"):
        return kind + ": no pairs (FilterException)"
    if "raw_error" in out:
        return kind + ": relation refused by the metric"
    if out.get("error"):
        return kind + ": " + str(out["error"]).split(":")[0] + (" " + str(out.get("reason")) if out.get("reason") else "")
    n = len(out.get("error_array", []))
    dropped = ""
    if kind == "rpe" and case["rel"].endswith("ratio") and "pairs" in out and n < len(out["pairs"]):
        dropped = ", zero-distance pairs dropped"
    return "%s: result with %s error values%s%s" % (kind, "1" if n == 1 else ">=2" if n >= 2 else "0", dropped,
                                                    ", unit changed" if case.get("chg") else "")


def judge(case, val, out):
    _count(_outcome(case, out))
    kind = case["kind"]
    if out.get("skip"):
        return None
    if kind == "stats":
        if "error" in out:
            return _viol("exception in get_all_statistics/get_result: " + out["error"])
        if not out["result_stats_same"] or not out["error_array_same"]:
            return _viol("get_result() stats / error_array differ from get_all_statistics() / the error values")
        if not out["input_unchanged"]:
            return _viol("computing statistics changed the error values")
        if "gen" in case:
            return _judge_big(case, out)
        vals = [unhex(x) for x in case["vals"]]
        return _judge_stats_block(out["stats"], out["keys"], vals, val, bool(case.get("exact")))
    if kind == "unit":
        return _judge_unit(case, val, out)
    if kind == "alias":
        return _judge_alias(case, val, out)
    return _judge_result(case, val, out)


def _titles_ok(cls, snap, want):
    wl, wa, wr = want
    if snap["label"] != wl:
        return "label %r, expected %r" % (snap["label"], wl)
    t = snap["title"] or ""
    if cls == "APE" and t != wa:
        return "title %r, expected %r" % (t, wa)
    if cls == "RPE" and not t.startswith(wr + "\nfor delta = "):
        return "title %r does not start with %r" % (t, wr)
    return None


def _judge_alias(case, val, out):
    if "error" in out:
        return _viol("exception in get_result / change_unit: " + out["error"])
    # Coq prints left-nested tuples flat: (((scenario, stats_now), titles_old), titles_new), the scenario
    # itself being a 7-tuple in leftmost position
    mst, ms1, me1, mu1, me2, mu2, ms2, mnow, told, tnew = val
    mst = _status(mst)[0]
    u, v = case["u"], case["v"]
    b, a, r2 = out["r1_before"], out["r1_after"], out["r2"]
    what = "Result taken before change_unit(%s -> %s)" % (u, v)
    # the earlier Result: error_array bit-identical to the snapshot (and to the input values)
    same = (len(a["error_array"]) == len(b["error_array"]) == len(case["vals"])
            and all(bits_equal(unhex(x), unhex(y)) and bits_equal(unhex(x), unhex(z))
                    for x, y, z in zip(a["error_array"], b["error_array"], case["vals"])))
    if not same:
        k = next((i for i, (x, y) in enumerate(zip(a["error_array"], b["error_array"]))
                  if not bits_equal(unhex(x), unhex(y))), 0)
        return _viol("%s: its error_array was changed afterwards (entry %d: %r -> %r) while its stats and label "
                     "still describe the old values" % (what, k, unhex(b["error_array"][k]) if b["error_array"] else None,
                                                        unhex(a["error_array"][k]) if a["error_array"] else None))
    if a["stats"] != b["stats"] or a["keys"] != b["keys"]:
        return _viol("%s: its stats changed afterwards" % what)
    # ... and it is still self-consistent: stats = statistics of ITS error_array (as it is now)
    vals_now = [unhex(x) for x in a["error_array"]]
    j = _judge_stats_block(a["stats"], a["keys"], vals_now, (1, mnow), False)
    if j:
        j["detail"] = what + " is no longer self-consistent: " + j["detail"]
        return j
    j = _judge_stats_block(a["stats"], a["keys"], vals_now, (1, ms1), False)
    if j:
        j["detail"] = what + ": " + j["detail"]
        return j
    msg = _cmp_floats(a["error_array"], me1, True, "earlier error_array")
    if msg:
        return _viol(what + ": " + msg)
    if a["label"] != b["label"] or a["title"] != b["title"]:
        return _viol("%s: its label/title changed afterwards (%r -> %r)" % (what, b["label"], a["label"]))
    msg = _titles_ok(case["cls"], a, told)
    if msg or mu1 != cu(u):
        return _viol("%s must keep naming the old unit %s: %s" % (what, u, msg))
    # converse direction: the metric holds the converted values, a NEW result is consistent in the new unit
    if out["status"] != mst:
        return _viol("change_unit %s -> %s: implementation %s, model %s" % (u, v, out["status"], mst))
    msg = _cmp_floats(out["vals"], me2, True, "metric value after %s -> %s" % (u, v))
    if msg:
        return _viol(msg)
    if cu(out["unit"]) != mu2:
        return _viol("metric unit after %s -> %s is %s, model %s" % (u, v, out["unit"], mu2))
    if [unhex(x) for x in r2["error_array"]] != [unhex(x) for x in out["vals"]]:
        return _viol("a new Result after change_unit does not hold the metric's values")
    j = _judge_stats_block(r2["stats"], r2["keys"], [unhex(x) for x in r2["error_array"]], (1, ms2), False)
    if j:
        j["detail"] = "new Result after change_unit(%s -> %s): %s" % (u, v, j["detail"])
        return j
    msg = _titles_ok(case["cls"], r2, tnew)
    if msg:
        return _viol("new Result after change_unit(%s -> %s): %s" % (u, v, msg))
    return None


def _judge_big(case, out):
    st = {k: unhex(v) for k, v in out["stats"].items()}
    ref = out["ref"]
    n = ref["n"]
    s1, s2 = unhex(ref["sum"]), unhex(ref["sumsq"])
    if out["keys"] != STAT_KEYS:
        return _viol("get_all_statistics keys are %r" % (out["keys"],))
    checks = [("mean", st["mean"], s1 / n), ("sse", st["sse"], s2), ("rmse", st["rmse"], math.sqrt(s2 / n))]
    var = float(Fraction(s2) / n - (Fraction(s1) / n) ** 2)
    for name, a, b in checks:
        if not close(a, b, rtol=1e-9):
            return _viol("%s = %r differs from the exact value %r (n = %d)" % (name, a, b, n))
    if abs(st["std"] ** 2 - var) > 4e-9 * (s2 / n):
        return _viol("std^2 = %r differs from the exact population variance %r (n = %d)" % (st["std"] ** 2, var, n))
    for k in ("min", "max", "median"):
        if not bits_equal(st[k], unhex(ref[k])):
            return _viol("%s = %r, exact %r (n = %d)" % (k, st[k], unhex(ref[k]), n))
    msg = _check_stat_relations(out["stats"], n, True)
    return _viol(msg) if msg else None


def _status(v):
    """Coq cu_status -> ('CuOk', None) / ('CuRefused', reason)."""
    if isinstance(v, tuple):
        return v[0], v[1]
    return v, None


def _judge_unit(case, val, out):
    if "error" in out:
        return _viol("unexpected exception in change_unit: " + out["error"])
    # Coq prints left-nested pairs flat: ((((status, state), label), t1), t2)
    mstat, (mvals, munit), mlabel, mtitle_ape, mtitle_rpe = val
    mstat, mreason = _status(mstat)
    before = case["vals"]
    convertible = (case["u"] == case["v"]
                   or (case["u"] in UNITS[1:5] and case["v"] in UNITS[1:5])
                   or {case["u"], case["v"]} == {"degrees", "radians"})
    # the property, directly: refusals leave values and unit untouched
    if out["status"] == "CuRefused":
        if out["unit"] != case["u"] or not all(bits_equal(unhex(a), unhex(b)) for a, b in zip(out["vals"], before)) \
                or len(out["vals"]) != len(before):
            return _viol("refused conversion %s -> %s changed the %s" % (
                case["u"], case["v"], "unit" if out["unit"] != case["u"] else "values"))
        if convertible and before:
            return _viol("conversion %s -> %s refused (%s)" % (case["u"], case["v"], out.get("reason")))
    else:
        if not convertible:
            return _viol("conversion %s -> %s was not refused (unit afterwards: %s)" % (case["u"], case["v"], out["unit"]))
        if out["unit"] != case["v"]:
            return _viol("after %s -> %s the unit is %s" % (case["u"], case["v"], out["unit"]))
    if out["status"] != mstat:
        return _viol("change_unit %s -> %s (%d values): implementation %s, model %s %s"
                     % (case["u"], case["v"], len(before), out["status"], mstat, mreason or ""))
    msg = _cmp_floats(out["vals"], mvals, True, "value after %s -> %s" % (case["u"], case["v"]))
    if msg:
        return _viol(msg + " (exact conversion factor applied in binary64)")
    if cu(out["unit"]) != munit:
        return _viol("unit after change_unit is %s, model %s" % (out["unit"], munit))
    if mstat == "CuRefused" and out.get("reason") != mreason:
        return _tie("refusal reason %r, model %r" % (out.get("reason"), mreason), "Stats.change_unit (refusal order)")
    if out["status"] == "CuOk" and out.get("ret_none") is False:
        return _tie("change_unit returned a value", "Stats.change_unit")
    if before:
        if out.get("label") != mlabel:
            return _viol("label %r does not name class and unit actually used (expected %r)" % (out.get("label"), mlabel))
        title = out.get("title") or ""
        if case["cls"] == "APE" and title != mtitle_ape:
            return _viol("APE title %r, expected %r" % (title, mtitle_ape))
        if case["cls"] == "RPE" and not title.startswith(mtitle_rpe + "\nfor delta = "):
            return _viol("RPE title %r does not start with %r" % (title, mtitle_rpe))
        if out.get("unit_value") is not None and ("(%s)" % out["unit_value"]) not in (out.get("label") or ""):
            return _viol("label %r does not contain the unit value %r" % (out.get("label"), out["unit_value"]))
    return None


def _some(v):
    if v is None:
        return None
    if isinstance(v, tuple) and v and v[0] == "Some":
        return v[1] if len(v) == 2 else v[1:]
    return v


def _judge_result(case, val, out):
    is_rpe = case["kind"] == "rpe"
    name = "rpe()" if is_rpe else "ape()"
    exact = bool(case.get("exact"))
    if val == (0, ()):
        if out.get("skip"):
            return None
        return _tie("no model value", "harness")
    minfo, mconv, mstats, mbody = val
    minfo = _some(minfo)
    err = out.get("error")
    if out.get("no_pairs"):
        if err == "FilterException":
            return None
        return _tie("%s did not raise FilterException although no pairs exist" % name, "rpe() pair selection")
    if "raw_error" in out:   # metric itself unsupported (APE + ratio relation)
        if err == "MetricsException":
            return None
        return _tie("%s accepted a relation that the metric refuses" % name, name)
    if (err or "").startswith("ValueError") and out.get("raw") == [] and is_rpe:
        # every pair was dropped (all reference distances are zero): there is no error value, which is
        # outside the property's quantifier (1..10^6 values); evo fails in np.max([]) - counted, not judged
        Regimes.all_pairs_dropped += 1
        return None
    if err == "MetricsException":
        if minfo is None and case.get("chg"):
            return None
        return _viol("%s refused change_unit to %s (%s) although the conversion exists" % (name, case.get("chg"), out.get("reason")))
    if err:
        return _viol("%s raised %s" % (name, err))
    if minfo is None:
        return _viol("%s accepted change_unit to %s although that conversion must be refused; label %r"
                     % (name, case.get("chg"), out.get("label")))
    (munit, mtitle, mlabel) = minfo
    n_err = len(out["error_array"])
    # ---- one entry per error value
    for k in ARRAYS:
        a = out["arrays"].get(k)
        if a is None:
            return _viol("%s: companion array %s missing" % (name, k))
        if len(a) != n_err or out["array_ndim"].get(k) != 1:
            return _viol("%s: companion array %s has %d entries for %d error values" % (name, k, len(a), n_err))
    # ---- values: unit actually used
    mconv = _some(mconv)
    if mconv is not None:
        (cstat, (cvals, cunit)) = mconv
        if _status(cstat)[0] != "CuOk":
            return _viol("%s converted values although the model refuses" % name)
        msg = _cmp_floats(out["error_array"], cvals, True, "error value")
        if msg:
            return _viol("%s: %s (metric values converted to the unit named in title/label)" % (name, msg))
        if cunit != munit:
            return _tie("unit mismatch inside the model", "Stats.info_after")
    # ---- title / label
    if out["label"] != mlabel:
        return _viol("%s: label %r, expected %r (class and unit actually used)" % (name, out["label"], mlabel))
    title = out["title"] or ""
    if is_rpe:
        from evo.core.units import Unit
        want = "%s\nfor delta = " % mtitle
        tail = " using all pairs" if case.get("all_pairs") else " using consecutive pairs"
        if not title.startswith(want) or ("(%s)%s" % (Unit[case["delta_unit"]].value, tail)) not in title:
            return _viol("%s: title %r does not name relation, unit %s, delta unit and pairing mode" % (name, title, munit))
    elif not title.startswith(mtitle + "\n"):
        return _viol("%s: title %r does not start with %r (relation and unit actually used)" % (name, title, mtitle))
    # ---- statistics of the result = definitions on its error values
    vals = [unhex(x) for x in out["error_array"]]
    if vals:
        j = _judge_stats_block(out["stats"], out["keys"], vals, mstats, False)
        if j:
            j["detail"] = name + " result: " + j["detail"]
            return j
        if any(x < 0 for x in vals):
            return _viol("%s: negative error value" % name)
    # ---- companion arrays and stored trajectories
    n = len(out["pref"]["stamps"])
    if not is_rpe:
        arrs, want_ref, want_est = mbody, list(range(n)), list(range(n))
    else:
        if not isinstance(mbody, tuple) or len(mbody) != 2:
            return _tie("no model value for the companion arrays", "harness")
        tag, body = mbody
        if tag == 1:
            merr, mids, arrs, (want_ref, want_est) = body
            if "raw" in out:
                msg = _cmp_floats(out["raw"], merr, exact, "RPE value")
                if msg:
                    return _viol("RPE.process_data: %s (value k must belong to pair k; zero-distance pairs dropped)" % msg)
            if [int(i) for i in mids] != [int(t) for t in want_est[1:]]:
                return _tie("model ids inconsistent", "Stats.rpe_pd")
        else:   # ((sec, ts, dfs, ds), (tags_ref, tags_est)) is printed flat
            arrs, (want_ref, want_est) = body[:4], body[4]
        want_ref, want_est = [int(x) for x in want_ref], [int(x) for x in want_est]
        if len(want_est) - 1 != n_err:
            return _viol("%s: %d error values but %d pairs (delta_ids) - value k cannot belong to pair k"
                         % (name, n_err, len(want_est) - 1))
    for side, want in (("stored_ref", want_ref), ("stored_est", want_est)):
        s = out[side]
        if s.get("missing"):
            return _viol("%s: trajectory %s not stored in the result" % (name, side))
        if s["tags"] != want:
            return _viol("%s: %s holds poses %r, expected %r (processed trajectory%s)"
                         % (name, side, s["tags"], want, " reduced to pose 0 + pair end poses" if is_rpe else ""))
        if not s["intact"]:
            return _viol("%s: poses in %s are not the processed poses the values were computed on" % (name, side))
    # which pose does each companion entry refer to: timestamps identify the pose
    stamps = [unhex(s) for s in out["pest"]["stamps"]]
    owners = [stamps.index(unhex(t)) if unhex(t) in stamps else -1 for t in out["arrays"]["timestamps"]]
    want_owner = want_est[1:] if is_rpe else want_est
    if owners != want_owner:
        return _viol("%s: timestamps entries belong to poses %r, the error values to poses %r" % (name, owners, want_owner))
    for k, a in zip(ARRAYS, arrs):
        msg = _cmp_floats(out["arrays"][k], a, exact or k in ("seconds_from_start", "timestamps"), k)
        if msg:
            return _viol("%s: %s (entry k must describe the %s)" % (name, msg, "end pose of pair k" if is_rpe else "pose k"))
    if out.get("inputs_kept") is False:
        return _tie("support_loop=True modified the caller's trajectories", "rpe(support_loop)")
    return None


def nontrivial(case, val, out):
    kind = case["kind"]
    if kind == "stats":
        if "gen" in case:
            return True
        v = case["vals"]
        return len(v) >= 2 and len(set(v)) >= 2
    if kind == "unit":
        return True
    if kind == "alias":
        return case["u"] != case["v"] and out.get("status") == "CuOk"
    if "error_array" not in out:
        return bool(out.get("error") == "MetricsException" and case.get("chg"))
    return len(out["error_array"]) >= 2


# ------------------------------------------------------------------------------------------------
# shrinking
# ------------------------------------------------------------------------------------------------
def shrink(case):
    kind = case["kind"]
    if kind in ("stats", "unit", "alias"):
        xs = case.get("vals")
        if xs and len(xs) > 1:
            for cut in (len(xs) // 2, 1):
                for start in range(0, len(xs), max(cut, 1)):
                    ys = xs[:start] + xs[start + cut:]
                    if ys and len(ys) < len(xs):
                        c = dict(case)
                        c["vals"] = ys
                        yield c
        if case.get("cls") != "PE" and kind == "stats":
            c = dict(case)
            c["cls"] = "PE"
            yield c
        return
    n = len(case["ref"]["stamps"])
    if n > 2:
        for drop in sorted({n - 1, n // 2, 1, 0}):
            c = copy.deepcopy(case)
            for side in ("ref", "est"):
                for f in ("stamps", "xyz", "yaw"):
                    del c[side][f][drop]
            yield c
    for key, default in (("chg", None), ("opts", {}), ("all_pairs", False), ("pairs_from_ref", False),
                         ("support_loop", False)):
        if case.get(key):
            c = copy.deepcopy(case)
            c[key] = default
            yield c


# ------------------------------------------------------------------------------------------------
# generators
# ------------------------------------------------------------------------------------------------
def mk_stats(vals, cls="PE", rel="translation_part", exact=False):
    return {"kind": "stats", "cls": cls, "rel": rel, "vals": [hexf(x) for x in vals], "exact": bool(exact)}


def mk_unit(u, v, vals, cls="PE", rel="translation_part"):
    return {"kind": "unit", "cls": cls, "rel": rel, "u": u, "v": v, "vals": [hexf(x) for x in vals]}


def mk_traj(stamps, xyz, yaw):
    return {"stamps": [hexf(s) for s in stamps], "xyz": [[hexf(c) for c in p] for p in xyz], "yaw": [hexf(a) for a in yaw]}


def mk_ape(ref, est, rel, chg=None, opts=None, exact=True):
    return {"kind": "ape", "ref": ref, "est": est, "rel": rel, "chg": chg, "opts": opts or {}, "exact": bool(exact)}


def mk_rpe(ref, est, rel, delta, delta_unit, all_pairs=False, chg=None, opts=None, exact=True, tol=0.1,
           pairs_from_ref=False, support_loop=False):
    return {"kind": "rpe", "ref": ref, "est": est, "rel": rel, "delta": hexf(delta), "delta_unit": delta_unit,
            "all_pairs": bool(all_pairs), "chg": chg, "opts": opts or {}, "exact": bool(exact), "tol": hexf(tol),
            "pairs_from_ref": bool(pairs_from_ref), "support_loop": bool(support_loop)}


def _line(n, step=(1, 0, 0), start=(0, 0, 0)):
    return [[start[0] + k * step[0], start[1] + k * step[1], start[2] + k * step[2]] for k in range(n)]


def corpus():
    out = [
        mk_stats([3, 4, 0, 5], exact=True), mk_stats([2.5], exact=True), mk_stats([7, 7, 7, 7, 7], "APE", exact=True),
        mk_stats([1e-12, 3e-12, 2e-12]), mk_stats([1e6, 1e-12, 5.0, 1e6]), mk_stats([0.1] * 9, "RPE"),
        mk_stats([0.1, 0.2, 0.3, 0.4, 0.5, 0.6, 0.7, 0.8], "RPE", "rotation_angle_deg"),
        mk_stats(list(range(1, 130)), exact=True), mk_stats([0.0, 0.0], exact=True),
        mk_unit("meters", "centimeters", [2, 5]), mk_unit("meters", "radians", [2, 5]),
        mk_unit("none", "none", []), mk_unit("meters", "centimeters", []), mk_unit("radians", "degrees", [math.pi]),
        mk_unit("degrees", "radians", [180.0, 90.0], "APE", "rotation_angle_deg"),
        mk_unit("meters", "seconds", [1.0]), mk_unit("percent", "meters", [1.0], "RPE", "point_distance_error_ratio"),
        # Result handed out before change_unit (fixed by 716b271: in-place scaling rescaled its error_array)
        mk_alias("meters", "millimeters", [1.0, 2.0]), mk_alias("kilometers", "meters", [0.5, 0.25, 3.0], "APE"),
        mk_alias("radians", "degrees", [0.5, 1.0], "RPE", "rotation_angle_rad"),
    ]
    n = 5
    st = [0.5 * k for k in range(n)]
    ref = mk_traj(st, _line(n), [0.0] * n)
    est = mk_traj([s + 0.25 for s in st], [[k, k, 0] for k in range(n)], [0.0] * n)
    out += [mk_ape(ref, est, "translation_part"), mk_ape(ref, est, "translation_part", chg="millimeters"),
            mk_ape(ref, est, "translation_part", chg="degrees"), mk_ape(ref, est, "point_distance_error_ratio"),
            mk_rpe(ref, est, "translation_part", 1, "frames"), mk_rpe(ref, est, "point_distance", 2, "frames", True),
            mk_rpe(ref, est, "translation_part", 2, "frames", chg="kilometers")]
    # reference stands still between poses 1 and 2: pair (1,2) has zero reference distance
    ref0 = mk_traj(st, [[0, 0, 0], [1, 0, 0], [1, 0, 0], [3, 0, 0], [3, 0, 0]], [0.0] * n)
    est0 = mk_traj([s + 0.25 for s in st], [[0, 0, 0], [2, 0, 0], [2, 1, 0], [3, 0, 0], [5, 0, 0]], [0.0] * n)
    out += [mk_rpe(ref0, est0, "point_distance_error_ratio", 1, "frames"),
            mk_rpe(ref0, est0, "point_distance_error_ratio", 1, "frames", True),
            mk_rpe(ref0, est0, "point_distance_error_ratio", 2, "frames", True),
            mk_rpe(ref0, est0, "point_distance_error_ratio", 1, "frames", chg="meters"),
            mk_rpe(ref0, est0, "point_distance", 1, "frames", chg="centimeters", support_loop=True)]
    return out


def unit_cases(ctx):
    """All 100 ordered unit pairs x {empty, one value, several values} (exhaustive), classes rotated."""
    rng = ctx.np_rng(3)
    out, k = [], 0
    arrays = [[], [1.0], [0.001, 2.5, 1e6, 1e-12, 123.456], [0.0, 0.3, 0.1]]
    for u in UNITS:
        for v in UNITS:
            for a in arrays + [(rng.uniform(0, 10, int(rng.integers(1, 9))) * 10.0 ** rng.integers(-12, 7)).tolist()]:
                cls = ("PE", "APE", "RPE")[k % 3]
                rel = RELS[k % 7] if cls == "RPE" else RELS[k % 6]
                out.append(mk_unit(u, v, a, cls, rel))
                k += 1
    return out


def mk_alias(u, v, vals, cls="PE", rel="translation_part"):
    return {"kind": "alias", "cls": cls, "rel": rel, "u": u, "v": v, "vals": [hexf(x) for x in vals]}


def alias_cases(ctx):
    """get_result() FIRST, then change_unit: every convertible ordered pair (12 length, rad<->deg), the
    same-unit no-op and some refused pairs, on PE / APE / RPE objects (exhaustive over pairs x classes)."""
    rng = ctx.np_rng(9)
    length = UNITS[1:5]
    pairs = [(a, b) for a in length for b in length if a != b] + [("radians", "degrees"), ("degrees", "radians")]
    pairs += [("meters", "meters"), ("none", "none"), ("meters", "degrees"), ("percent", "meters"),
              ("radians", "kilometers"), ("meters", "seconds")]
    out = []
    for u, v in pairs:
        for cls in ("PE", "APE", "RPE"):
            rel = {"degrees": "rotation_angle_deg", "radians": "rotation_angle_rad"}.get(u, "translation_part")
            arrays = [[1.0, 2.0], [0.25], (rng.uniform(0, 10, int(rng.integers(2, 40))) * 10.0 ** rng.integers(-6, 4)).tolist()]
            for rep in range(ctx.n(0, 3)):
                arrays.append((rng.uniform(0, 1, int(rng.integers(1, 200))) * 10.0 ** rng.integers(-12, 7)).tolist())
            for a in arrays:
                out.append(mk_alias(u, v, a, cls, rel))
    return out


def stats_cases(ctx):
    rng = ctx.np_rng(1)
    out = []
    # exhaustive small exact grid: all arrays of length 1..L over a small dyadic alphabet
    import itertools
    alphabet = [0.0, 0.25, 1.0, 1.5, 3.0]
    for n in range(1, ctx.n(4, 5) + 1):
        for tup in itertools.product(alphabet, repeat=n):
            out.append(mk_stats(list(tup), exact=True))
    grid = len(out)
    # exact regime, longer: small integers / dyadics (all sums exact), lengths around the numpy block sizes
    for n in [1, 2, 7, 8, 9, 15, 16, 17, 127, 128, 129, 136, 255, 256, 257, 300][:ctx.n(16, 16)]:
        for rep in range(ctx.n(2, 6)):
            vals = (rng.integers(0, 64, n) / 4.0).tolist()
            out.append(mk_stats(vals, ("PE", "APE", "RPE")[rep % 3], exact=True))
    if not ctx.quick:
        for n in [1023, 1024, 1025, 2047, 2999]:
            out.append(mk_stats((rng.integers(0, 64, n) / 4.0).tolist(), exact=True))
    # rounded regime: magnitudes 1e-12 .. 1e6, mixed, constant, nearly constant, single value
    for k in range(ctx.n(400, 2500)):
        mode = k % 8
        n = int(rng.integers(1, ctx.n(SORT_CAP[True], SORT_CAP[False])))
        if k % 50 == 0:
            n = int(rng.integers(COQ_CAP[ctx.quick] // 2, COQ_CAP[ctx.quick]))
        mag = 10.0 ** rng.integers(-12, 7)
        if mode == 0:
            vals = rng.uniform(0, 1, n) * mag
        elif mode == 1:
            vals = rng.uniform(0, 1, n) * 10.0 ** rng.integers(-12, 7, n)
        elif mode == 2:
            vals = np.full(n, float(rng.uniform(0, 1) * mag))
        elif mode == 3:
            vals = mag * (1.0 + rng.uniform(0, 1e-9, n))
        elif mode == 4:
            vals = np.abs(rng.normal(0, 1, n)) * mag
        elif mode == 5:
            vals = rng.uniform(0, 1, min(n, 3)) * mag
        elif mode == 6:
            vals = np.sort(rng.uniform(0, 1, n) * mag)[::-1]
        else:
            vals = np.concatenate([rng.uniform(0, 1e-12, n // 2 + 1), rng.uniform(0, 1e6, n // 2 + 1)])
            rng.shuffle(vals)
        out.append(mk_stats(vals.tolist(), ("PE", "APE", "RPE")[k % 3], RELS[k % 6]))
    # large arrays, checked against exact sums (no Coq evaluation)
    sizes = [10 ** 4, 8191, 8193] if ctx.quick else [10 ** 4, 10 ** 5, 10 ** 6, 10 ** 6, 123457, 65536]
    for i, n in enumerate(sizes):
        for dist in ("dyadic", "wide", "constant", "tiny")[:ctx.n(2, 4)]:
            out.append({"kind": "stats", "cls": ("PE", "APE", "RPE")[i % 3], "rel": "translation_part",
                        "gen": {"seed": int(rng.integers(0, 2 ** 31)), "n": n, "dist": dist}})
    return out, grid


def _random_traj_pair(rng, n, exact, zero_steps):
    """Tagged reference/estimate: stamps identify the pose; integer positions in the exact regime."""
    st = np.cumsum(rng.integers(1, 4, n)) * 0.25
    if exact:
        steps = rng.integers(-3, 4, (n, 3))
        if zero_steps:
            steps[rng.random(n) < 0.4] = 0
        steps[0] = 0
        pos = np.cumsum(steps, axis=0).astype(float)
        epos = pos + rng.integers(-2, 3, (n, 3))
        yaw = np.zeros(n) if rng.random() < 0.15 else np.cumsum(rng.integers(0, 3, n)) * 0.125
        eyaw = yaw + rng.integers(0, 2, n) * 0.0625
    else:
        steps = rng.normal(0, 1, (n, 3))
        if zero_steps:
            steps[rng.random(n) < 0.3] = 0
        pos = np.cumsum(steps, axis=0) + rng.choice([0.0, 4.0e5])
        epos = pos + rng.normal(0, 0.05, (n, 3))
        yaw = np.cumsum(rng.uniform(0, 0.25, n))
        eyaw = yaw + rng.normal(0, 0.02, n)
    est_st = st + float(rng.choice([0.0, 0.125, 0.0625]))
    return mk_traj(st.tolist(), pos.tolist(), yaw.tolist()), mk_traj(est_st.tolist(), epos.tolist(), eyaw.tolist())


OPTS = [{}, {}, {}, {"align": True}, {"align": True, "correct_scale": True}, {"correct_scale": True},
        {"align_origin": True}, {"project": "xy"}]
METRIC_UNIT = {"APE": {"translation_part": "meters", "point_distance": "meters", "rotation_angle_deg": "degrees",
                       "rotation_angle_rad": "radians"},
               "RPE": {"translation_part": "meters", "point_distance": "meters", "rotation_angle_deg": "degrees",
                       "rotation_angle_rad": "radians", "point_distance_error_ratio": "percent"}}


def chg_options(cls, rel, rng):
    """None (x2), every convertible target of the relation's unit, and two targets that must be refused."""
    u0 = METRIC_UNIT[cls].get(rel, "none")
    if u0 in UNITS[1:5]:
        conv = UNITS[1:5]
    elif u0 in ("degrees", "radians"):
        conv = ["degrees", "radians"]
    else:
        conv = [u0]
    bad = [u for u in UNITS if u not in conv]
    pick = [bad[int(i)] for i in rng.choice(len(bad), 2, replace=False)]
    return [None, None] + conv + pick


def ape_cases(ctx):
    rng = ctx.np_rng(5)
    out = []
    k = 0
    for rel in RELS:
        unsupported = rel == "point_distance_error_ratio"
        for chg in chg_options("APE", rel, rng)[:3 if unsupported else None]:
            for rep in range(ctx.n(4, 30)):
                n = int(rng.integers(2, ctx.n(10, 40))) if rep else int(rng.integers(1, 3))
                opts = OPTS[k % len(OPTS)] if n >= 4 else {}
                exact = not opts and (k % 4 != 3)
                ref, est = _random_traj_pair(rng, n, exact, zero_steps=(k % 5 == 0))
                out.append(mk_ape(ref, est, rel, chg, opts, exact))
                k += 1
    return out


def rpe_cases(ctx):
    rng = ctx.np_rng(7)
    out = []
    k = 0
    deltas = [("frames", [1, 1, 2, 3]), ("meters", [2.0, 3.0, 4.0, 6.0]), ("radians", [0.125, 0.25, 0.375]),
              ("degrees", [7.0, 14.0, 21.0])]
    for rel in RELS:
        for dunit, ds in deltas:
            for allp in (False, True):
                for chg in chg_options("RPE", rel, rng):
                    for rep in range(ctx.n(1, 8)):
                        n = int(rng.integers(3, ctx.n(12, 40)))
                        delta = float(rng.choice(ds))
                        ratio = rel == "point_distance_error_ratio"
                        exact = k % 4 != 3
                        ref, est = _random_traj_pair(rng, n, exact, zero_steps=ratio or k % 6 == 0)
                        opts = {"align": True} if (k % 9 == 8 and n >= 4) else {}
                        out.append(mk_rpe(ref, est, rel, delta, dunit, allp, chg, opts, exact and not opts,
                                          tol=float(rng.choice([0.25, 0.5])) if dunit != "frames" else 0.1,
                                          pairs_from_ref=(k % 7 == 0), support_loop=(k % 5 == 0)))
                        k += 1
    # exhaustive small exact family for the ratio filter: every 0/1 step pattern of the reference on a line
    import itertools
    for n in range(2, ctx.n(5, 7) + 1):
        for pattern in itertools.product((0, 1), repeat=n - 1):
            x = np.concatenate([[0], np.cumsum(pattern)]).astype(float)
            ref = mk_traj([0.5 * i for i in range(n)], [[a, 0, 0] for a in x], [0.0] * n)
            est = mk_traj([0.5 * i + 0.25 for i in range(n)], [[2 * i, i % 2, 0] for i in range(n)], [0.0] * n)
            for delta in (1, 2):
                for allp in (False, True):
                    if delta < n:
                        out.append(mk_rpe(ref, est, "point_distance_error_ratio", delta, "frames", allp))
    return out


# ------------------------------------------------------------------------------------------------
# translator tie
# ------------------------------------------------------------------------------------------------
GEN_PATH = os.path.join(common.COQ, "generated", "UnitsGen.v")
STUB = ("(* GENERATED stub: the translation of the repository under test FAILED (fail-closed). *)\n"
        "From Coq Require Import List String ZArith QArith.\nFrom Evo Require Import PyAstC12.\n"
        "Import ListNotations.\nOpen Scope string_scope.\n"
        "Definition Unit_members : list (string * expr) := [].\nDefinition LENGTH_UNITS : expr := ENone.\n"
        "Definition ANGLE_UNITS : expr := ENone.\nDefinition METER_SCALE_FACTORS : expr := ENone.\n"
        "Definition PoseRelation_members : list (string * expr) := [].\n"
        "Definition change_unit_params : list string := [].\nDefinition change_unit_body : list stmt := [].\n"
        "Definition ape_unit_dispatch : list stmt := [].\nDefinition rpe_unit_dispatch : list stmt := [].\n"
        "Definition ape_steps : list string := [].\nDefinition rpe_steps : list string := [].\n")


def regenerate(ctx):
    try:
        changed, _ = pyast2coq_c12.regenerate_file(common.REPO, GEN_PATH)
        if changed:
            ctx.notes.append("coq/generated/UnitsGen.v regenerated from %s (content changed)" % common.REPO)
        return []
    except (pyast2coq_c12.Unsupported, OSError, SyntaxError, KeyError, IndexError, AttributeError) as e:
        old = open(GEN_PATH).read() if os.path.exists(GEN_PATH) else None
        if old != STUB:
            with open(GEN_PATH, "w") as f:
                f.write(STUB)
        return [{"kind": "obligation", "failing_input": False, "theorem": "Evo.UnitsTie (translator tie)",
                 "correspondence": "pyast2coq_c12: units.py / metrics.PE.change_unit / main_ape.ape / main_rpe.rpe",
                 "detail": "translation of the repository under test failed (fail-closed): %s: %s"
                           % (type(e).__name__, e), "case": None, "model_output": None, "impl_output": None}]


# ------------------------------------------------------------------------------------------------
def run(ctx, replay=None, proofs_ok=True):
    if not proofs_ok:
        # the case files only need the executable model
        common.build_theories(targets=["theories/Stats.vo"])
    Regimes.exact = Regimes.rounded = Regimes.all_pairs_dropped = 0
    Regimes.outcomes = {}
    grid = 0
    if replay is not None:
        cases = [replay["case"]] if replay.get("case") else []
        parts = {}
    else:
        st, grid = stats_cases(ctx)
        parts = {"corpus": corpus(), "unit": unit_cases(ctx), "alias": alias_cases(ctx), "stats": st,
                 "ape": ape_cases(ctx), "rpe": rpe_cases(ctx)}
        cases = [c for p in parts.values() for c in p]
    if not cases:
        return {"failures": [], "coverage": {"evaluations": 0, "distinct_nontrivial": 0, "rule": "replay of an "
                "obligation (no input case): the theorems were re-checked by the driver", "samples": []}}
    failures, stats = differential(ctx, cases, imports=IMPORTS, impl=impl, expr=make_expr(ctx.quick), judge=judge,
                                   shrink=shrink, nontrivial=nontrivial, per_file=ctx.n(150, 150))
    hist = {}
    for c in cases:
        if c["kind"] == "stats":
            n = c["gen"]["n"] if "gen" in c else len(c["vals"])
            b = "stats:n<=%d%s" % (10 ** len(str(max(n - 1, 0))) if n > 1 else 1, ",exact" if c.get("exact") else "")
        elif c["kind"] == "unit":
            b = "unit:%s" % ("empty" if not c["vals"] else "values")
        elif c["kind"] == "alias":
            b = "alias:%s" % c["cls"]
        else:
            b = "%s:%s%s" % (c["kind"], c["rel"], ",chg" if c.get("chg") else "")
        hist[b] = hist.get(b, 0) + 1
    samples = []
    for name, p in parts.items():
        samples += [c for c in p if "gen" in c or len(str(c)) < 1500][:1]
    if not samples:
        samples = cases[:1]
    cov = {"evaluations": stats["evaluations"], "distinct_nontrivial": stats["distinct_nontrivial"],
           "rule": "corpus + EXHAUSTIVE: all 100 ordered unit pairs x 5 arrays (empty, single, mixed magnitudes, "
                   "with zero, random) on PE/APE/RPE objects; get_result() then change_unit then get_result() for every "
                   "convertible ordered pair x PE/APE/RPE (earlier Result must stay untouched and self-consistent); all arrays of length 1..%d over a 5-value dyadic alphabet "
                   "(exact regime); every 0/1 step pattern of a 2..%d-pose reference line for the ratio filter. "
                   "RANDOM: arrays of 1..%d values (integers/dyadics around numpy's block sizes 8/128; magnitudes "
                   "1e-12..1e6 uniform/mixed/constant/nearly constant/sorted), arrays up to %d values against exact "
                   "sums; ape() on 7 relations x 12 change_unit options x alignment/projection options; rpe() on 7 "
                   "relations x 4 delta units x all_pairs on/off x change_unit options x pairs_from_reference / "
                   "support_loop, integer-grid (exact) and float trajectories, repeated reference positions. "
                   "Distinct by input; non-trivial = statistics of >= 2 different values, any unit pair, an "
                   "ape()/rpe() result with >= 2 error values or a refused change_unit"
                   % (4 if ctx.quick else 5, 5 if ctx.quick else 7, SORT_CAP[ctx.quick], 10 ** 4 if ctx.quick else 10 ** 6),
           "samples": samples, "input_distribution": hist, "exhaustive": False,
           "exhaustive_subspaces": {"ordered unit pairs x {empty, non-empty}": True,
                                    "get_result-then-change_unit: convertible pairs x classes": True,
                                    "dyadic arrays up to length %d" % (4 if ctx.quick else 5): True,
                                    "cases": grid + 500},
           "regimes": {"exact": Regimes.exact, "rounded": Regimes.rounded, "fragile": 0,
                       "note": "counted per compared float: bit-equal with the Coq model / within rtol 1e-9"},
           "out_of_scope": {"rpe() ratio evaluations in which every pair is dropped (no error value; evo raises "
                            "ValueError from np.max of an empty array)": Regimes.all_pairs_dropped},
           "outcomes": dict(sorted(Regimes.outcomes.items())),
           "disagreements": stats["disagreements"]}
    return {"failures": failures, "coverage": cov}


LEVEL_TEXT = ("Machine-checked theorems (Coq, over R) about an executable model of PE.get_statistic/get_all_statistics, "
              "PE.change_unit and the result assembly of ape()/rpe(): every statistic equals its definition (through "
              "numpy's pairwise summation order), rmse^2 = mean^2 + std^2, sse = n rmse^2, min <= mean/median <= max, "
              "mean <= rmse <= max (non-negative values), the median is the middle of a sorted permutation; the "
              "complete 10x10 unit table (no-op / exact factor / refused, refusals leave values and unit untouched, "
              "round trips are the identity); companion arrays have one entry per value and entry k belongs to pose k "
              "(APE) or to the end pose of pair k (RPE, also after zero-distance pairs are dropped), stored "
              "trajectories are the processed ones reduced to pose 0 + pair end poses. Ties: the unit tables and "
              "change_unit are re-translated from the source on every run and the decision table is re-proved on all "
              "2x10x10 combinations; the whole model is run in binary64 against the implementation.")
LEVEL_NOTE = ("Trusted: Coq kernel/VM, the 3 Reals axioms, the hand-written model's correspondence (tested, not proved), the "
              "Python-AST translator and interpreter, numpy's IEEE semantics. The theorems are over R; floats are "
              "compared bit-for-bit (elementwise operations, pairwise sums) or within rtol 1e-9.")
TECHNIQUE = ("Coq proof (list induction, real arithmetic, finite case analysis) + translator tie (Python AST -> Gallina, "
             "vm_compute enumeration) + binary64 model/implementation correspondence by vm_compute")
