(* Linalg.v - 3-vectors, 3x3 matrices and rigid/similarity poses as concrete records over NumOps.
   A pose is the pair (rotation block, translation column) of evo's 4x4 matrix; the bottom row
   (0,0,0,1) is implicit (every 4x4 matrix evo builds or accepts has exactly that row: lie.se3,
   lie.sim3, is_se3/is_sim3 test it with np.equal). Definitions only; proofs are in LinalgR.v. *)
From Coq Require Import List.
From Evo Require Import Num.
Import ListNotations.
Local Open Scope num_scope.

Section Defs.
Context {T : Type} {ops : NumOps T}.

Record V3 := mkV3 { vx : T; vy : T; vz : T }.
Record M3 := mkM3 { m00 : T; m01 : T; m02 : T; m10 : T; m11 : T; m12 : T; m20 : T; m21 : T; m22 : T }.
Record Pose := mkPose { prot : M3; ptr : V3 }.

Definition V0 := mkV3 n0 n0 n0.
Definition vadd a b := mkV3 (vx a +! vx b) (vy a +! vy b) (vz a +! vz b).
Definition vsub a b := mkV3 (vx a -! vx b) (vy a -! vy b) (vz a -! vz b).
Definition vscale k a := mkV3 (k *! vx a) (k *! vy a) (k *! vz a).
Definition vopp a := mkV3 (nopp (vx a)) (nopp (vy a)) (nopp (vz a)).
Definition dot a b := vx a *! vx b +! vy a *! vy b +! vz a *! vz b.
Definition nrm2 a := dot a a.
Definition norm a := nsqrt (nrm2 a).
Definition dist a b := norm (vsub a b).

Definition I3 := mkM3 n1 n0 n0 n0 n1 n0 n0 n0 n1.
Definition M0 := mkM3 n0 n0 n0 n0 n0 n0 n0 n0 n0.
Definition diag a b c := mkM3 a n0 n0 n0 b n0 n0 n0 c.
Definition mv (m : M3) (v : V3) := mkV3
  (m00 m *! vx v +! m01 m *! vy v +! m02 m *! vz v)
  (m10 m *! vx v +! m11 m *! vy v +! m12 m *! vz v)
  (m20 m *! vx v +! m21 m *! vy v +! m22 m *! vz v).
Definition mm (a b : M3) := mkM3
  (m00 a *! m00 b +! m01 a *! m10 b +! m02 a *! m20 b) (m00 a *! m01 b +! m01 a *! m11 b +! m02 a *! m21 b) (m00 a *! m02 b +! m01 a *! m12 b +! m02 a *! m22 b)
  (m10 a *! m00 b +! m11 a *! m10 b +! m12 a *! m20 b) (m10 a *! m01 b +! m11 a *! m11 b +! m12 a *! m21 b) (m10 a *! m02 b +! m11 a *! m12 b +! m12 a *! m22 b)
  (m20 a *! m00 b +! m21 a *! m10 b +! m22 a *! m20 b) (m20 a *! m01 b +! m21 a *! m11 b +! m22 a *! m21 b) (m20 a *! m02 b +! m21 a *! m12 b +! m22 a *! m22 b).
Definition mt (m : M3) := mkM3 (m00 m) (m10 m) (m20 m) (m01 m) (m11 m) (m21 m) (m02 m) (m12 m) (m22 m).
Definition madd (a b : M3) := mkM3 (m00 a +! m00 b) (m01 a +! m01 b) (m02 a +! m02 b) (m10 a +! m10 b) (m11 a +! m11 b) (m12 a +! m12 b) (m20 a +! m20 b) (m21 a +! m21 b) (m22 a +! m22 b).
Definition msub (a b : M3) := mkM3 (m00 a -! m00 b) (m01 a -! m01 b) (m02 a -! m02 b) (m10 a -! m10 b) (m11 a -! m11 b) (m12 a -! m12 b) (m20 a -! m20 b) (m21 a -! m21 b) (m22 a -! m22 b).
Definition mscale k (a : M3) := mkM3 (k *! m00 a) (k *! m01 a) (k *! m02 a) (k *! m10 a) (k *! m11 a) (k *! m12 a) (k *! m20 a) (k *! m21 a) (k *! m22 a).
Definition det (m : M3) :=
  m00 m *! (m11 m *! m22 m -! m12 m *! m21 m) -! m01 m *! (m10 m *! m22 m -! m12 m *! m20 m) +! m02 m *! (m10 m *! m21 m -! m11 m *! m20 m).
Definition tr (m : M3) := m00 m +! m11 m +! m22 m.
(* <a,b>_F and the squared Frobenius norm *)
Definition frob (a b : M3) := m00 a *! m00 b +! m01 a *! m01 b +! m02 a *! m02 b +! m10 a *! m10 b +! m11 a *! m11 b +! m12 a *! m12 b +! m20 a *! m20 b +! m21 a *! m21 b +! m22 a *! m22 b.
Definition fnorm2 (a : M3) := frob a a.
Definition outer (y x : V3) := mkM3 (vx y *! vx x) (vx y *! vy x) (vx y *! vz x) (vy y *! vx x) (vy y *! vy x) (vy y *! vz x) (vz y *! vx x) (vz y *! vy x) (vz y *! vz x).
Definition mlist (m : M3) : list T := [m00 m; m01 m; m02 m; m10 m; m11 m; m12 m; m20 m; m21 m; m22 m].
Definition vlist (v : V3) : list T := [vx v; vy v; vz v].

(* poses: 4x4 products restricted to the top three rows *)
Definition pI := mkPose I3 V0.
Definition pmul (a b : Pose) := mkPose (mm (prot a) (prot b)) (vadd (mv (prot a) (ptr b)) (ptr a)).
(* lie.se3_inverse: r_inv = r^T ; t_inv = -(r_inv t) *)
Definition pinv (p : Pose) := mkPose (mt (prot p)) (vopp (mv (mt (prot p)) (ptr p))).
(* lie.relative_se3 p1 p2 = se3_inverse(p1) . p2 *)
Definition prel (a b : Pose) := pmul (pinv a) b.
Definition plist (p : Pose) : list T := mlist (prot p) ++ vlist (ptr p).
(* lie.sim3 r t s  and application of a 4x4 similarity to a pose from the left *)
Definition sim3 (r : M3) (t : V3) (s : T) := mkPose (mscale s r) t.
End Defs.

Arguments V3 T : clear implicits.
Arguments M3 T : clear implicits.
Arguments Pose T : clear implicits.
