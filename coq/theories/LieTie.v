(* LieTie.v - translator tie of property C09 (and of every property that builds on these helpers).
   EvoGen.LieGen is re-translated from evo/core/lie_algebra.py on every run (harness/pyast_np.py: hat, vee, se3, sim3,
   so3_from_se3, se3_inverse, sim3_scale, sim3_inverse, is_so3, relative_so3, relative_se3).  The theorems below are
   re-checked against it: for EVERY number system (any NumOps instance - in particular the reals of the theorems and
   the binary64 floats of the correspondence runs) the translated functions are the functions of the hand-written
   model Evo.Lie / Evo.Linalg, so the theorems of LieProofs (inverse laws, group closure, hat/vee, membership) hold of the
   translated source.  np.power(., 1/3) is the oracle [cbrt]; np.linalg.det is the cofactor formula; the defaults of the
   keyword parameters of se3() are not modelled (every call inside the module passes both arguments). *)
From Coq Require Import List Bool.
From Evo Require Import Num Linalg NpDsl Lie.
From EvoGen Require Import LieGen.
Import ListNotations.
Local Open Scope num_scope.

Section Tie.
Context {T : Type} {ops : NumOps T}.
Variable cbrt : T -> T.
Variables rtol atol : T.

Theorem hat_gen_is_model (v : V3 T) : hat_gen v = hat v.
Proof. reflexivity. Qed.
Theorem vee_gen_is_model (m : M3 T) : vee_gen m = vee m.
Proof. reflexivity. Qed.
Theorem se3_gen_is_model (r : M3 T) (t : V3 T) : se3_gen r t = mkPose r t.
Proof. reflexivity. Qed.
Theorem sim3_gen_is_model (r : M3 T) (t : V3 T) (s : T) : sim3_gen r t s = sim3 r t s.
Proof. reflexivity. Qed.
Theorem so3_from_se3_gen_is_model (p : Pose T) : so3_from_se3_gen p = prot p.
Proof. reflexivity. Qed.
Theorem se3_inverse_gen_is_model (p : Pose T) : se3_inverse_gen p = se3_inverse p.
Proof. reflexivity. Qed.
Theorem sim3_scale_gen_is_model (a : Pose T) : sim3_scale_gen cbrt a = cbrt (det (prot a)).
Proof. reflexivity. Qed.
Theorem sim3_inverse_gen_is_model (a : Pose T) : sim3_inverse_gen cbrt a = sim3_inverse_with (cbrt (det (prot a))) a.
Proof. reflexivity. Qed.
Theorem relative_so3_gen_is_model (r1 r2 : M3 T) : relative_so3_gen r1 r2 = relative_so3 r1 r2.
Proof. reflexivity. Qed.
Theorem relative_se3_gen_is_model (p1 p2 : Pose T) : relative_se3_gen p1 p2 = relative_se3 p1 p2.
Proof. reflexivity. Qed.
(* membership: the translated test is the model's test fed with the cofactor determinant *)
Theorem is_so3_gen_is_model (r : M3 T) : is_so3_gen rtol atol r = is_so3_b atol rtol (det r) r.
Proof. reflexivity. Qed.
Theorem lie_gen_is_model :
  (forall v : V3 T, hat_gen v = hat v) /\ (forall m : M3 T, vee_gen m = vee m) /\
  (forall (r : M3 T) (t : V3 T), se3_gen r t = mkPose r t) /\ (forall (r : M3 T) (t : V3 T) (s : T), sim3_gen r t s = sim3 r t s) /\
  (forall p : Pose T, so3_from_se3_gen p = prot p) /\ (forall p : Pose T, se3_inverse_gen p = se3_inverse p) /\
  (forall a : Pose T, sim3_scale_gen cbrt a = cbrt (det (prot a))) /\
  (forall a : Pose T, sim3_inverse_gen cbrt a = sim3_inverse_with (cbrt (det (prot a))) a) /\
  (forall r1 r2 : M3 T, relative_so3_gen r1 r2 = relative_so3 r1 r2) /\
  (forall p1 p2 : Pose T, relative_se3_gen p1 p2 = relative_se3 p1 p2) /\
  (forall r : M3 T, is_so3_gen rtol atol r = is_so3_b atol rtol (det r) r).
Proof.
  repeat split; intros;
    first [apply hat_gen_is_model | apply vee_gen_is_model | apply se3_gen_is_model | apply sim3_gen_is_model
          | apply so3_from_se3_gen_is_model | apply se3_inverse_gen_is_model | apply sim3_scale_gen_is_model
          | apply sim3_inverse_gen_is_model | apply relative_so3_gen_is_model | apply relative_se3_gen_is_model
          | apply is_so3_gen_is_model].
Qed.
End Tie.
