(* C17 - existing output files are never overwritten without confirmation.
   Model Evo.Overwrite, proofs Evo.OverwriteProofs; EvoGen.OverwriteGen is re-translated from the Python
   AST of the repository under test on every run (harness/pyast_fx.py), so the obligations below are
   re-proved against the current source each time. *)
From Coq Require Import List String Bool.
From Evo Require Import Overwrite OverwriteProofs.
From EvoGen Require Import OverwriteGen.
Import ListNotations.
Open Scope string_scope.

(* Soundness of the static checker, for every environment: oracle = (confirm_overwrite, every answer typed,
   every opaque condition, every rebinding of a path variable incl. str / pathlib.Path / file handle, loop
   counts, bytes written); any initial file system; any initial binding.  A file that existed before the call
   is byte-identical afterwards and was not even opened by a write primitive, unless confirm_overwrite is
   false or a prompt about exactly this file was answered exactly "y". *)
Theorem C17_guarded_sound :
  forall (s : stmt), guarded_b s = true ->
  forall (o : oracle) (fs0 : fsys) (rho : nat -> value) (p : path) (b : bytes),
    let st' := final (exec o s (init_state fs0 rho)) in
    fs0 p = Some b ->
    o_flag o = true -> ~ In (p, "y") (s_prompts st') ->
    s_fs st' p = Some b /\ ~ In p (s_writes st').
Proof. exact guarded_sound. Qed.
Print Assumptions C17_guarded_sound.

Theorem C17_changed_only_if_confirmed :
  forall (s : stmt), guarded_b s = true ->
  forall o fs0 rho p b, fs0 p = Some b ->
    s_fs (final (exec o s (init_state fs0 rho))) p <> Some b ->
    o_flag o = false \/ In (p, "y") (s_prompts (final (exec o s (init_state fs0 rho)))).
Proof. exact changed_only_if_confirmed. Qed.
Print Assumptions C17_changed_only_if_confirmed.

(* ---- obligations against the re-translated source ---- *)
(* the seven writers are all there, in the expected order (a vanished writer fails here) *)
Theorem C17_writers_complete : list_string_eqb (map fst writers) expected_writers = true.
Proof. vm_compute. reflexivity. Qed.
Print Assumptions C17_writers_complete.

Theorem C17_every_writer_guarded : forallb (fun w => guarded_b (snd w)) writers = true.
Proof. vm_compute. reflexivity. Qed.
Print Assumptions C17_every_writer_guarded.

(* hence, for each of them and every environment *)
Theorem C17_no_writer_overwrites_unconfirmed :
  forall name s, In (name, s) writers ->
  forall (o : oracle) (fs0 : fsys) (rho : nat -> value) (p : path) (b : bytes),
    fs0 p = Some b -> o_flag o = true ->
    ~ In (p, "y") (s_prompts (final (exec o s (init_state fs0 rho)))) ->
    s_fs (final (exec o s (init_state fs0 rho))) p = Some b /\
    ~ In p (s_writes (final (exec o s (init_state fs0 rho)))).
Proof. exact (all_guarded_sound writers C17_every_writer_guarded). Qed.
Print Assumptions C17_no_writer_overwrites_unconfirmed.

(* user.confirm accepts exactly its key, whose default is "y"; check_and_confirm_overwrite prompts iff the
   file exists and returns true iff it does not exist or the answer is exactly "y" - for every answer *)
Theorem C17_confirm_accepts_exactly_y :
  forall ans, confirm_run user_confirm None ans = (String.eqb ans "y", true).
Proof.
  intros ans. unfold confirm_run, user_confirm. cbn -[String.eqb].
  destruct (String.eqb ans "y"); reflexivity.
Qed.
Print Assumptions C17_confirm_accepts_exactly_y.

Theorem C17_check_meets_spec :
  forall isfile ans, check_run user_confirm user_check_and_confirm_overwrite isfile ans = check_spec isfile ans.
Proof.
  intros [|] ans; unfold check_run, check_spec, confirm_run, user_confirm, user_check_and_confirm_overwrite;
    cbn -[String.eqb]; destruct (String.eqb ans "y"); reflexivity.
Qed.
Print Assumptions C17_check_meets_spec.

(* every call of a writer in main_ape, main_rpe, main_traj, main_res, common_ape_rpe (enumerated from the
   AST) passes confirm_overwrite = not args.no_warnings; each of the five modules has at least one; and
   these modules use no write primitive directly *)
Theorem C17_every_call_site_passes_not_no_warnings :
  forallb site_ok call_sites = true /\ covers_modules call_sites = true.
Proof. split; vm_compute; reflexivity. Qed.
Print Assumptions C17_every_call_site_passes_not_no_warnings.

Theorem C17_cli_flag_is_not_no_warnings :
  forall c, In c call_sites -> forall no_warnings, cli_flag c no_warnings = Some (negb no_warnings).
Proof. exact (all_sites_pass_flag call_sites (proj1 C17_every_call_site_passes_not_no_warnings)). Qed.
Print Assumptions C17_cli_flag_is_not_no_warnings.

Theorem C17_cli_modules_write_only_through_writers : direct_writes = [].
Proof. reflexivity. Qed.
Print Assumptions C17_cli_modules_write_only_through_writers.

(* "... and in those cases the write happens" for the single-file writers: bounded enumeration
   (confirm on/off x exists/not x 7 answers x str/Path x every outcome of up to 3 opaque conditions):
   unless the writer raises, the file is written iff not confirm_overwrite, or it does not exist, or the
   answer is exactly "y" *)
Theorem C17_single_file_writers_write_iff_allowed :
  forallb (fun w => negb (is_single_file (fst w)) || live_b 3 (snd w)) writers = true /\
  List.length (filter (fun w => is_single_file (fst w)) writers) = 5.
Proof. split; vm_compute; reflexivity. Qed.
Print Assumptions C17_single_file_writers_write_iff_allowed.

(* non-vacuity / sensitivity of the checker *)
Theorem C17_checker_rejects_unguarded_and_str_only_guards :
  guarded_b (SWrite 0) = false /\
  guarded_b (SSeq (SIf (CAnd CFlag (CIsInst 0 true false)) (SIf (CNot (CCheck 0)) SReturn SSkip) SSkip) (SWrite 0)) = false /\
  guarded_b (SSeq (SIf (CAnd CFlag (CIsInst 0 true true)) (SIf (CNot (CCheck 0)) SReturn SSkip) SSkip) (SWrite 0)) = true /\
  s_fs (final (exec (mk_oracle true [] [] [] []) (SWrite 0) (init_state (fs_of [5]) (fun _ => VPath 5 KStr)))) 5 = Some 1.
Proof. repeat split; reflexivity. Qed.
Print Assumptions C17_checker_rejects_unguarded_and_str_only_guards.
