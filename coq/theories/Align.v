(* Align.v - executable model of PosePath3D.align / align_origin and of the alignment stage of
   main_ape.ape / main_rpe.rpe (incl. the recorded alignment_transformation_sim3), on pose lists.
   The trajectory-object level (caches) is Evo.Traj; here the operations act on the denoted pose list,
   which TrajProofs.step_refines ties to the object. Definitions only. *)
From Coq Require Import List Arith Bool ZArith.
From Evo Require Import Num Linalg Lie Umeyama Traj.
Import ListNotations.
Local Open Scope num_scope.

Section Model.
Context {T : Type} {ops : NumOps T}.
Variable svd : M3 T -> M3 T * V3 T * M3 T.
Variable eps : T.

Definition positions (P : list (Pose T)) : list (V3 T) := map ptr P.
Definition take (n : option nat) {A} (l : list A) : list A := match n with None => l | Some k => firstn k l end.
Definition se3 (r : M3 T) (t : V3 T) : Pose T := mkPose r t.
Definition scale_poses (k : T) (P : list (Pose T)) : list (Pose T) := map (fun p => mkPose (prot p) (vscale k (ptr p))) P.

(* PosePath3D.align(traj_ref, correct_scale, correct_only_scale, n) *)
Definition align (P ref : list (Pose T)) (correct_scale only_scale : bool) (n : option nat)
  : option (list (Pose T) * (M3 T * V3 T * T)) :=
  let ws := correct_scale || only_scale in
  match umeyama svd eps ws (take n (positions P)) (take n (positions ref)) with
  | None => None
  | Some (r, t, c) =>
      let P' := if only_scale then scale_poses c P
                else if correct_scale then transform_poses (se3 r t) false false (scale_poses c P)
                else transform_poses (se3 r t) false false P in
      Some (P', (r, t, c))
  end.

(* PosePath3D.align_origin(traj_ref): T = ref_0 * est_0^-1 from the left *)
Definition align_origin (P ref : list (Pose T)) : option (list (Pose T) * Pose T) :=
  match P, ref with
  | p0 :: _, r0 :: _ => let To := pmul r0 (se3_inverse p0) in Some (transform_poses To false false P, To)
  | _, _ => None
  end.

(* alignment stage of main_ape.ape / main_rpe.rpe: returns the processed estimate and the recorded 4x4 matrix *)
Definition align_stage (P ref : list (Pose T)) (do_align correct_scale do_origin : bool) (n : option nat)
  : option (list (Pose T) * option (Pose T)) :=
  let only_scale := correct_scale && negb do_align in
  let st1 := if do_align || correct_scale
             then match align P ref correct_scale only_scale n with
                  | None => None
                  | Some (P1, (r, t, c)) =>
                      let '(r, t) := if only_scale then (I3, V0) else (r, t) in
                      Some (P1, Some (sim3 r t c))
                  end
             else Some (P, None) in
  match st1 with
  | None => None
  | Some (P1, rec1) =>
      if do_origin then
        match align_origin P1 ref with
        | None => None
        | Some (P2, To) => Some (P2, Some (match rec1 with None => To | Some A => pmul To A end))
        end
      else Some (P1, rec1)
  end.

(* a 4x4 similarity acting on a point *)
Definition apply4 (A : Pose T) (v : V3 T) : V3 T := vadd (mv (prot A) v) (ptr A).
End Model.
