(* C15 - evo_traj option order and export. Proofs in Evo.TrajCli / Evo.TrajProofs; step order from EvoGen.StepsC15. *)
From Coq Require Import Reals List Bool.
From Evo Require Import Num Linalg LinalgR Lie LieProofs Traj TrajProofs TrajCli.
From EvoGen Require StepsC15.
Import ListNotations.
Local Open Scope R_scope.

Theorem C15_inverted_transform_is_true_inverse : forall (cbrt : R -> R) (r : M3R) (t : V3R) (s : R),
  (forall x, cbrt x * cbrt x * cbrt x = x) -> SO3 r -> 0 < s ->
  pmul (invert_loaded cbrt (sim3 r t s)) (sim3 r t s) = pI /\ pmul (sim3 r t s) (invert_loaded cbrt (sim3 r t s)) = pI.
Proof. exact invert_loaded_two_sided. Qed.
Print Assumptions C15_inverted_transform_is_true_inverse.

(* regression witness for finding F4: se3_inverse applied to a Sim(3) matrix is not an inverse *)
Theorem C15_se3_inverse_on_sim3_refuted : exists (r : M3R) (t : V3R) (s : R), SO3 r /\ 0 < s /\
  pmul (se3_inverse (sim3 r t s)) (sim3 r t s) <> pI.
Proof. exact se3_inverse_on_sim3_refuted. Qed.
Print Assumptions C15_se3_inverse_on_sim3_refuted.

Theorem C15_no_options_nothing_applied : @tail_ops R None None = [].
Proof. exact tail_ops_none. Qed.
Print Assumptions C15_no_options_nothing_applied.
Theorem C15_transform_before_projection : forall A rgt prop sim pl,
  @tail_ops R (Some (A, rgt, prop, sim)) (Some pl) = [Transform A rgt (rgt && prop) sim; Project pl].
Proof. exact tail_ops_order. Qed.
Print Assumptions C15_transform_before_projection.

(* translator tie: the documented order, as re-extracted from the CURRENT main_traj.run *)
From Coq Require Import String.
Local Open Scope string_scope.
Theorem C15_step_order : StepsC15.main_traj_run =
  ["load_trajectories(args)";
   "if[args.downsample] loop[traj in trajectories.values()] traj.downsample(args.downsample)";
   "if[args.downsample] if[ref_traj] ref_traj.downsample(args.downsample)";
   "if[args.motion_filter] loop[traj in trajectories.values()] traj.motion_filter(distance_threshold, angle_threshold, True)";
   "if[args.motion_filter] if[ref_traj] ref_traj.motion_filter(distance_threshold, angle_threshold, True)";
   "if[args.merge] trajectory.merge(trajectories.values())";
   "if[args.t_offset] loop[(name, traj) in trajectories.items()] traj.timestamps += args.t_offset";
   "if[synced] loop[(name, traj) in trajectories.items()] else[args.subcommand == 'kitti'] sync.associate_trajectories(ref_traj, traj, max_diff=args.t_max_diff, first_name='reference', snd_name=name)";
   "if[synced] loop[(name, traj) in trajectories.items()] if[args.align or args.correct_scale] trajectories[name].align(ref_traj_tmp, correct_scale=args.correct_scale, correct_only_scale=args.correct_scale and (not args.align), n=args.n_to_align)";
   "if[synced] loop[(name, traj) in trajectories.items()] if[args.align_origin] trajectories[name].align_origin(ref_traj_tmp)";
   "if[args.transform_left or args.transform_right] file_interface.load_transform(tf_path)";
   "if[args.transform_left or args.transform_right] if[args.invert_transform] lie.sim3_inverse(transform)";
   "if[args.transform_left or args.transform_right] loop[traj in trajectories.values()] traj.transform(transform, right_mul=args.transform_right, propagate=args.propagate_transform)";
   "if[args.project_to_plane] loop[traj in trajectories.values()] traj.project(plane)";
   "if[args.project_to_plane] if[ref_traj] ref_traj.project(plane)";
   "if[args.save_as_tum] loop[(name, traj) in trajectories.items()] file_interface.write_tum_trajectory_file(dest, traj, confirm_overwrite=not args.no_warnings)";
   "if[args.save_as_tum] if[args.ref] file_interface.write_tum_trajectory_file(dest, ref_traj, confirm_overwrite=not args.no_warnings)";
   "if[args.save_as_kitti] loop[(name, traj) in trajectories.items()] file_interface.write_kitti_poses_file(dest, traj, confirm_overwrite=not args.no_warnings)";
   "if[args.save_as_kitti] if[args.ref] file_interface.write_kitti_poses_file(dest, ref_traj, confirm_overwrite=not args.no_warnings)"].
Proof. reflexivity. Qed.
Print Assumptions C15_step_order.

(* ---- more about --invert_transform (added after every property had a check) ---- *)
Theorem C15_inverted_transform_form : forall (cbrt : R -> R) (r : M3R) (t : V3R) (s : R),
  (forall x, cbrt x * cbrt x * cbrt x = x) -> SO3 r -> 0 < s ->
  invert_loaded cbrt (sim3 r t s) = sim3 (mt r) (vopp (mv (mt r) (vscale (1 / s) t))) (1 / s).
Proof. exact invert_loaded_form. Qed.
Print Assumptions C15_inverted_transform_form.
Theorem C15_inverting_twice_is_the_loaded_matrix : forall (cbrt : R -> R) (r : M3R) (t : V3R) (s : R),
  (forall x, cbrt x * cbrt x * cbrt x = x) -> SO3 r -> 0 < s ->
  invert_loaded cbrt (invert_loaded cbrt (sim3 r t s)) = sim3 r t s.
Proof. exact invert_loaded_involutive. Qed.
Print Assumptions C15_inverting_twice_is_the_loaded_matrix.
(* on every trajectory: transforming with the loaded matrix and then with its inversion, on the same side, in either
   order, restores every pose *)
Theorem C15_inverted_transform_undoes_the_transform : forall (cbrt : R -> R) (r : M3R) (t : V3R) (s : R) (P : list PoseR),
  (forall x, cbrt x * cbrt x * cbrt x = x) -> SO3 r -> 0 < s ->
  let A := sim3 r t s in let Ai := invert_loaded cbrt A in
  transform_poses Ai false false (transform_poses A false false P) = P /\
  transform_poses A false false (transform_poses Ai false false P) = P /\
  transform_poses Ai true false (transform_poses A true false P) = P /\
  transform_poses A true false (transform_poses Ai true false P) = P.
Proof. exact invert_loaded_undoes. Qed.
Print Assumptions C15_inverted_transform_undoes_the_transform.
Theorem C15_inverted_se3_is_se3_inverse : forall (cbrt : R -> R) (r : M3R) (t : V3R),
  (forall x, cbrt x * cbrt x * cbrt x = x) -> SO3 r -> invert_loaded cbrt (sim3 r t 1) = se3_inverse (mkPose r t).
Proof. exact invert_loaded_se3. Qed.
Print Assumptions C15_inverted_se3_is_se3_inverse.
