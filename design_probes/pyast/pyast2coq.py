"""Prototype: dump selected Python functions as terms of a Coq deep embedding (fail-closed)."""
import ast, sys
class Unsupported(Exception): pass
def s(x): return '"' + x.replace('"','""') + '"'
def lst(xs): return "[" + "; ".join(xs) + "]"
CMP={ast.Eq:"CEq",ast.NotEq:"CNe",ast.Is:"CIs",ast.IsNot:"CIsNot",ast.In:"CIn",ast.NotIn:"CNotIn",ast.Lt:"CLt",ast.Gt:"CGt",ast.LtE:"CLe",ast.GtE:"CGe"}
BIN={ast.Add:"BAdd",ast.Sub:"BSub",ast.Mult:"BMul",ast.Div:"BDiv"}
def E(e):
    if isinstance(e,ast.Constant):
        v=e.value
        if v is None: return "ENone"
        if isinstance(v,bool): return f"(EBool {str(v).lower()})"
        if isinstance(v,int): return f"(EInt ({v})%Z)"
        if isinstance(v,float):
            from fractions import Fraction
            f=Fraction(repr(v))  # decimal literal as written -> exact rational
            return f"(ENum ({f.numerator} # {f.denominator})%Q)"
        if isinstance(v,str): return f"(EStr {s(v)})"
        raise Unsupported(ast.dump(e))
    if isinstance(e,ast.Name): return f"(EName {s(e.id)})"
    if isinstance(e,ast.Attribute): return f"(EAttr {E(e.value)} {s(e.attr)})"
    if isinstance(e,ast.Compare):
        if len(e.ops)!=1: raise Unsupported("chained compare")
        return f"(ECmp {CMP[type(e.ops[0])]} {E(e.left)} {E(e.comparators[0])})"
    if isinstance(e,ast.BoolOp):
        op="EAnd" if isinstance(e.op,ast.And) else "EOr"
        return f"({op} {lst([E(v) for v in e.values])})"
    if isinstance(e,ast.UnaryOp):
        if isinstance(e.op,ast.Not): return f"(ENot {E(e.operand)})"
        if isinstance(e.op,ast.USub): return f"(ENeg {E(e.operand)})"
        raise Unsupported(ast.dump(e))
    if isinstance(e,ast.BinOp): return f"(EBin {BIN[type(e.op)]} {E(e.left)} {E(e.right)})"
    if isinstance(e,ast.IfExp): return f"(EIf {E(e.test)} {E(e.body)} {E(e.orelse)})"
    if isinstance(e,ast.Tuple): return f"(ETuple {lst([E(v) for v in e.elts])})"
    if isinstance(e,ast.List): return f"(EList {lst([E(v) for v in e.elts])})"
    if isinstance(e,ast.Set): return f"(ESet {lst([E(v) for v in e.elts])})"
    if isinstance(e,ast.Dict): return f"(EDict {lst(['('+E(k)+', '+E(v)+')' for k,v in zip(e.keys,e.values)])})"
    if isinstance(e,ast.Subscript): return f"(ESub {E(e.value)} {E(e.slice)})"
    if isinstance(e,ast.Call):
        if any(isinstance(a,ast.Starred) for a in e.args): raise Unsupported("starred")
        kws=lst(['('+s(k.arg)+', '+E(k.value)+')' for k in e.keywords])
        return f"(ECall {E(e.func)} {lst([E(a) for a in e.args])} {kws})"
    if isinstance(e,ast.JoinedStr):
        parts=[]
        for v in e.values:
            if isinstance(v,ast.Constant): parts.append(f"(EStr {s(v.value)})")
            elif isinstance(v,ast.FormattedValue) and v.format_spec is None and v.conversion==-1: parts.append(E(v.value))
            else: raise Unsupported(ast.dump(v))
        return f"(EFStr {lst(parts)})"
    if isinstance(e,ast.GeneratorExp) and len(e.generators)==1 and not e.generators[0].ifs and isinstance(e.generators[0].target,ast.Name):
        g=e.generators[0]; return f"(EGen {E(e.elt)} {s(g.target.id)} {E(g.iter)})"
    raise Unsupported(type(e).__name__)
def tgt(t):
    if isinstance(t,ast.Name): return s(t.id)
    if isinstance(t,ast.Attribute) and isinstance(t.value,ast.Name): return s(t.value.id+"."+t.attr)
    raise Unsupported("target "+ast.dump(t))
def is_logging(st):
    return isinstance(st,ast.Expr) and isinstance(st.value,ast.Call) and isinstance(st.value.func,ast.Attribute) and isinstance(st.value.func.value,ast.Name) and st.value.func.value.id=="logger"
def S(st):
    if isinstance(st,ast.Assign) and len(st.targets)==1: return f"(SAssign {tgt(st.targets[0])} {E(st.value)})"
    if isinstance(st,ast.AnnAssign) and st.value is not None: return f"(SAssign {tgt(st.target)} {E(st.value)})"
    if isinstance(st,ast.AugAssign): return f"(SAug {BIN[type(st.op)]} {tgt(st.target)} {E(st.value)})"
    if isinstance(st,ast.If): return f"(SIf {E(st.test)} {B(st.body)} {B(st.orelse)})"
    if isinstance(st,ast.Return): return f"(SReturn {E(st.value) if st.value else 'ENone'})"
    if isinstance(st,ast.Raise): return f"(SRaise {E(st.exc)})"
    if isinstance(st,ast.Expr):
        if isinstance(st.value,ast.Constant) and isinstance(st.value.value,str): return None  # docstring
        return f"(SExpr {E(st.value)})"
    raise Unsupported(type(st).__name__)
def B(body):
    out=[]
    for st in body:
        if is_logging(st): continue
        r=S(st)
        if r is not None: out.append(r)
    return lst(out)
def find(tree,qual):
    node=tree
    for p in qual.split("."):
        node=[n for n in node.body if isinstance(n,(ast.FunctionDef,ast.ClassDef)) and n.name==p][0]
    return node
def dump_fn(path,qual,name):
    fn=find(ast.parse(open(path).read()),qual)
    params=lst([s(a.arg) for a in fn.args.args])
    return f"Definition {name}_params : list string := {params}.\nDefinition {name}_body : list stmt := {B(fn.body)}.\n"
def dump_enum(path,cls,name):
    c=find(ast.parse(open(path).read()),cls)
    items=[f"({s(st.targets[0].id)}, {E(st.value)})" for st in c.body if isinstance(st,ast.Assign)]
    return f"Definition {name}_members : list (string * expr) := {lst(items)}.\n"
def dump_const(path,var,name):
    tree=ast.parse(open(path).read())
    st=[n for n in tree.body if isinstance(n,ast.Assign) and isinstance(n.targets[0],ast.Name) and n.targets[0].id==var][0]
    return f"Definition {name} : expr := {E(st.value)}.\n"
if __name__=="__main__":
    out="From Coq Require Import List String ZArith QArith.\nRequire Import PyAst.\nImport ListNotations.\nOpen Scope string_scope.\n\n"
    out+=dump_fn("/repo/evo/tools/plot.py","plot_mode_to_idx","plot_mode_to_idx")
    out+=dump_enum("/repo/evo/tools/plot.py","PlotMode","PlotMode")
    out+=dump_enum("/repo/evo/core/units.py","Unit","Unit")
    out+=dump_const("/repo/evo/core/units.py","LENGTH_UNITS","LENGTH_UNITS")
    out+=dump_const("/repo/evo/core/units.py","ANGLE_UNITS","ANGLE_UNITS")
    out+=dump_const("/repo/evo/core/units.py","METER_SCALE_FACTORS","METER_SCALE_FACTORS")
    out+=dump_fn("/repo/evo/core/metrics.py","PE.change_unit","change_unit")
    out+=dump_fn("/repo/evo/common_ape_rpe.py","get_pose_relation","get_pose_relation")
    out+=dump_fn("/repo/evo/tools/user.py","check_and_confirm_overwrite","check_and_confirm_overwrite")
    out+=dump_fn("/repo/evo/tools/file_interface.py","write_tum_trajectory_file","write_tum")
    open(__import__("os").path.join(__import__("os").path.dirname(__import__("os").path.abspath(__file__)),"Gen.v"),"w").write(out)
    print(out[:3000])
