(* C06 - write/read round trips are lossless. Property theorems only; proofs live in Evo.FileFmtProofs,
   Evo.Codec, Evo.FileFmtCodec.  [fmt]/[parse] is any scalar codec that is exact on the values [ok];
   EvoGen.C06Fmt carries the precision numpy.savetxt actually uses (re-read from numpy/evo on every run). *)
From Coq Require Import Ascii String.
From Coq Require Import Reals ZArith List.
From Flocq Require Import Core.
From Evo Require Import Num FileFmt FileFmtProofs Codec FileFmtCodec.
From EvoGen Require Import C06Fmt.
Import ListNotations.

(* the quaternion column roll of the writer (w to the back) is undone by the roll of the reader *)
Theorem C06_roll_inverse : forall (A : Type) (l : list A), roll1 (rollm1 l) = l /\ rollm1 (roll1 l) = l.
Proof. intros A l. split; [apply roll1_rollm1|apply rollm1_roll1]. Qed.
Print Assumptions C06_roll_inverse.

(* TUM: same number and order of poses, identical value in every slot, for every number of poses *)
Theorem C06_tum_roundtrip :
  forall (T : Type) (ops : NumOps T) (Tok : Type) (fmt : T -> Tok) (parse : Tok -> option T) (ok : T -> Prop),
  (forall x, ok x -> parse (fmt x) = Some x) ->
  forall tr : list (TP T), tr <> [] -> Forall tp_valid tr -> Forall (tp_ok ok) tr ->
  read_tum parse (write_tum fmt tr) = Some tr.
Proof. exact @tum_roundtrip. Qed.
Print Assumptions C06_tum_roundtrip.

Theorem C06_kitti_roundtrip :
  forall (T : Type) (ops : NumOps T) (Tok : Type) (fmt : T -> Tok) (parse : Tok -> option T) (ok : T -> Prop),
  (forall x, ok x -> parse (fmt x) = Some x) ->
  forall tr : list (list T), tr <> [] -> Forall pose_valid tr -> Forall (Forall ok) tr ->
  read_kitti parse (write_kitti fmt tr) = Some tr.
Proof. exact @kitti_roundtrip. Qed.
Print Assumptions C06_kitti_roundtrip.

(* whatever KITTI file is accepted, every pose read has 16 entries and the bottom row 0 0 0 1 *)
Theorem C06_kitti_bottom_row :
  forall (T : Type) (ops : NumOps T) (Tok : Type) (parse : Tok -> option T) raw tr,
  read_kitti parse raw = Some tr -> Forall pose_valid tr.
Proof. exact @kitti_bottom_row. Qed.
Print Assumptions C06_kitti_bottom_row.

(* result archive with embedded trajectories: info, statistics, arrays and trajectories all come back;
   the trajectories dict lists PoseTrajectory3D entries before PosePath3D entries (same mapping) *)
Theorem C06_res_roundtrip_with_trajectories :
  forall (T : Type) (ops : NumOps T) (Tok : Type) (fmt : T -> Tok) (parse : Tok -> option T) (ok : T -> Prop),
  (forall x, ok x -> parse (fmt x) = Some x) ->
  forall (I : Type) (fmtj : T -> Tok) (parsej : Tok -> option T) (okj : T -> Prop),
  (forall x, okj x -> parsej (fmtj x) = Some x) ->
  forall r : Res (T := T) (I := I), stats_ok okj r -> res_valid ok r ->
  load_res parse parsej true (save_res fmt fmtj r) =
  Some (mkRes (r_info r) (r_stats r) (r_arrays r) (tum_first (r_trajs r))).
Proof. exact @res_roundtrip_with_trajectories. Qed.
Print Assumptions C06_res_roundtrip_with_trajectories.

Theorem C06_trajectory_dict_is_the_same_mapping :
  forall (T : Type) (d : list (string * traj (T := T))) k, NoDup (map fst d) -> tget k (tum_first d) = tget k d.
Proof. exact @tum_first_lookup. Qed.
Print Assumptions C06_trajectory_dict_is_the_same_mapping.

Theorem C06_res_roundtrip_without_trajectories :
  forall (T : Type) (ops : NumOps T) (Tok : Type) (fmt : T -> Tok) (parse : Tok -> option T)
         (I : Type) (fmtj : T -> Tok) (parsej : Tok -> option T) (okj : T -> Prop),
  (forall x, okj x -> parsej (fmtj x) = Some x) ->
  forall r : Res (T := T) (I := I), stats_ok okj r ->
  load_res parse parsej false (save_res fmt fmtj r) = Some (mkRes (r_info r) (r_stats r) (r_arrays r) []).
Proof. exact @res_roundtrip_without_trajectories. Qed.
Print Assumptions C06_res_roundtrip_without_trajectories.

(* pandas DataFrame conversion (no codec involved: the columns hold the values themselves) *)
Theorem C06_df_roundtrip_trajectory :
  forall (T : Type) (ops : NumOps T) (tr : list (TP T)), Forall tp_valid tr ->
  df_to_trajectory false (traj_to_df tr) = OutTraj tr.
Proof. exact @df_roundtrip_trajectory. Qed.
Print Assumptions C06_df_roundtrip_trajectory.

Theorem C06_df_roundtrip_path :
  forall (T : Type) (ops : NumOps T) (tr : list (PP T)) as_path, Forall pp_valid tr ->
  df_to_trajectory as_path (path_to_df tr) = OutPath tr.
Proof. exact @df_roundtrip_path. Qed.
Print Assumptions C06_df_roundtrip_path.

(* the scalar codec: >= 18 significant decimal digits, correctly rounded both ways, any tie rules,
   every binary64 real (normal, subnormal, negative, zero) *)
Theorem C06_decimal_codec_roundtrip :
  forall p : Z, (18 <= p)%Z -> forall (c1 c2 : Z -> bool) (x : R),
  generic_format radix2 (FLT_exp (-1074) 53) x ->
  round radix2 (FLT_exp (-1074) 53) (Znearest c2) (round radix10 (FLX_exp p) (Znearest c1) x) = x.
Proof. exact roundtrip. Qed.
Print Assumptions C06_decimal_codec_roundtrip.

(* ... at the precision numpy.savetxt uses for evo's writers (generated obligation 18 <= p) *)
Theorem C06_decimal_codec_roundtrip_at_the_precision_used :
  forall (c1 c2 : Z -> bool) (x : R), b64 x -> rnd64 c2 (rnd_dec savetxt_precision c1 x) = x.
Proof. exact (roundtrip savetxt_precision savetxt_precision_ok). Qed.
Print Assumptions C06_decimal_codec_roundtrip_at_the_precision_used.

(* structure and codec together: TUM / KITTI files of binary64 values written with that precision *)
Theorem C06_tum_roundtrip_binary64_decimal :
  forall (c1 c2 : Z -> bool) (tr : list (TP R)),
  tr <> [] -> Forall tp_valid tr -> Forall (tp_ok b64) tr ->
  read_tum (parse_bin c2) (write_tum (fmt_dec savetxt_precision c1) tr) = Some tr.
Proof. exact (tum_roundtrip_decimal savetxt_precision savetxt_precision_ok). Qed.
Print Assumptions C06_tum_roundtrip_binary64_decimal.

Theorem C06_kitti_roundtrip_binary64_decimal :
  forall (c1 c2 : Z -> bool) (tr : list (list R)),
  tr <> [] -> Forall pose_valid tr -> Forall (Forall b64) tr ->
  read_kitti (parse_bin c2) (write_kitti (fmt_dec savetxt_precision c1) tr) = Some tr.
Proof. exact (kitti_roundtrip_decimal savetxt_precision savetxt_precision_ok). Qed.
Print Assumptions C06_kitti_roundtrip_binary64_decimal.

(* ROS bag export: sec = floor(stamp), nanosec = trunc((stamp - sec) * 1e9); re-read sec + nanosec * 1e-9 *)
Theorem C06_bag_stamp_within_one_nanosecond :
  forall stamp : R, (0 <= stamp)%R ->
  let back := bag_reread floorR truncR e9R em9R stamp in
  (0 <= stamp - back < / 1000000000)%R /\
  (exists s n : Z, bag_sec floorR stamp = IZR s /\ bag_nanosec floorR truncR e9R stamp = IZR n /\
                   (0 <= s)%Z /\ (0 <= n < 1000000000)%Z).
Proof. exact bag_stamp_within_one_ns. Qed.
Print Assumptions C06_bag_stamp_within_one_nanosecond.

(* non-vacuity *)
Theorem C06_example_one_pose :
  exists (ops : NumOps nat),
  read_tum (fun x => Some x) (write_tum (fun x => x) [mkTP 10 [1; 2; 3] [4; 5; 6; 7]]) = Some [mkTP 10 [1; 2; 3] [4; 5; 6; 7]].
Proof. eexists. exact tum_roundtrip_example. Qed.
Print Assumptions C06_example_one_pose.
