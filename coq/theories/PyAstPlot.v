(* PyAstPlot.v - deep embedding of the Python subset used by evo/tools/plot.py:plot_mode_to_idx and
   prepare_axis (translator tie of C20), an interpreter for it, and the boolean checker of the finite
   label/index theorem.  The terms themselves are regenerated from the Python source on every run by
   harness/pyast_plot.py into coq/generated/PlotGen.v; nothing in this file mentions them.

   The interpreter is fail-closed: a construct without a rule evaluates to [None] / [Stuck], which
   makes every theorem about the generated term fail.  matplotlib objects are opaque values
   [VObj class origin]; a method call on one is recorded in an effect log (receiver, method, argument
   values) - the labels are read from that log.  Oracle semantics assumed for library calls (listed
   in the trusted base): [fig.add_subplot(.., projection="3d")] returns an [Axes3D], without the
   keyword an [Axes]; [isinstance] compares that class tag; [plt.gca()] is some other axes object. *)
From Coq Require Import List String ZArith Bool.
Import ListNotations.
Local Open Scope string_scope.

Inductive cmpop := CEq | CNe | CIs | CIsNot | CIn | CNotIn.
Inductive expr :=
| ENone | EBool (b : bool) | EInt (z : Z) | EStr (s : string) | EFloat (repr : string)
| EName (x : string) | EAttr (e : expr) (a : string)
| ECmp (o : cmpop) (a b : expr) | EAnd (l : list expr) | EOr (l : list expr) | ENot (e : expr)
| EIf (c a b : expr)
| ETuple (l : list expr) | ESet (l : list expr)
| ECall (f : expr) (args : list expr) (kw : list (string * expr))
| EFStr (l : list expr).
Inductive stmt :=
| SAssign (t : string) (e : expr)
| SIf (c : expr) (a b : list stmt) | SReturn (e : expr) | SRaise (e : expr) | SExpr (e : expr).

Inductive val :=
| VNone | VBool (b : bool) | VInt (z : Z) | VStr (s : string) | VFloat (repr : string)
| VEnum (c m : string) | VTuple (l : list val)
| VRec (f : list (string * val))          (* a record with known fields (SETTINGS) *)
| VObj (cls origin : string)              (* opaque library object *)
| VExc (c : string) (msg : val).

Fixpoint val_eqb (a b : val) {struct a} : bool :=
  match a, b with
  | VNone, VNone => true | VBool x, VBool y => Bool.eqb x y | VInt x, VInt y => Z.eqb x y
  | VStr x, VStr y => String.eqb x y | VFloat x, VFloat y => String.eqb x y
  | VEnum c m, VEnum c' m' => String.eqb c c' && String.eqb m m'
  | VObj c o, VObj c' o' => String.eqb c c' && String.eqb o o'
  | VTuple l, VTuple l' =>
      (fix go (l : list val) (l' : list val) : bool :=
         match l, l' with [] , [] => true | x :: r, y :: r' => val_eqb x y && go r r' | _, _ => false end) l l'
  | _, _ => false
  end.
Definition mem (v : val) (l : list val) := existsb (val_eqb v) l.

Definition env := list (string * val).
Fixpoint lookup {A} (x : string) (e : list (string * A)) : option A :=
  match e with [] => None | (k, v) :: r => if String.eqb k x then Some v else lookup x r end.
Definition update (x : string) (v : val) (e : env) : env := (x, v) :: e.

(* enum tables: class name -> member name -> value string *)
Definition tables := list (string * list (string * string)).

Definition truthy (v : val) : option bool :=
  match v with
  | VBool b => Some b | VNone => Some false | VEnum _ _ => Some true | VObj _ _ => Some true
  | VInt z => Some (negb (Z.eqb z 0)) | VStr s => Some (negb (String.eqb s ""))
  | VTuple l => Some (match l with [] => false | _ => true end)
  | _ => None end.
(* str() / format() of a value inside an f-string *)
Definition show (v : val) : option string :=
  match v with VStr s => Some s | VEnum c m => Some (c ++ "." ++ m) | _ => None end.
Fixpoint sequence {A} (l : list (option A)) : option (list A) :=
  match l with [] => Some [] | None :: _ => None | Some x :: r => option_map (cons x) (sequence r) end.
Definition has_kw (k : string) (v : val) (kw : list (string * val)) : bool :=
  match lookup k kw with Some w => val_eqb v w | None => false end.

Section Interp.
Variable tabs : tables.

Fixpoint eval (en : env) (e : expr) {struct e} : option val :=
  let evl := fix evl (l : list expr) : option (list val) :=
    match l with [] => Some []
    | x :: r => match eval en x, evl r with Some v, Some vs => Some (v :: vs) | _, _ => None end end in
  let evk := fix evk (l : list (string * expr)) : option (list (string * val)) :=
    match l with [] => Some []
    | (k, x) :: r => match eval en x, evk r with Some v, Some vs => Some ((k, v) :: vs) | _, _ => None end end in
  match e with
  | ENone => Some VNone | EBool b => Some (VBool b) | EInt z => Some (VInt z) | EStr s => Some (VStr s)
  | EFloat s => Some (VFloat s)
  | EName x => lookup x en
  | EAttr a m =>
      match a with
      | EName c =>
          match lookup c tabs with
          | Some members => match lookup m members with Some _ => Some (VEnum c m) | None => None end
          | None =>
              match lookup c en with
              | Some (VRec f) => lookup m f
              | Some (VEnum c' m') =>
                  if String.eqb m "value"
                  then match lookup c' tabs with
                       | Some members => option_map VStr (lookup m' members) | None => None end
                  else None
              | Some (VObj _ o) => Some (VObj "attribute" (o ++ "." ++ m))
              | _ => None end
          end
      | _ => match eval en a with
             | Some (VObj _ o) => Some (VObj "attribute" (o ++ "." ++ m))
             | _ => None end
      end
  | ECmp o a b =>
      match eval en a, eval en b with
      | Some x, Some y =>
          match o with
          | CEq | CIs => Some (VBool (val_eqb x y))
          | CNe | CIsNot => Some (VBool (negb (val_eqb x y)))
          | CIn => match y with VTuple l => Some (VBool (mem x l)) | _ => None end
          | CNotIn => match y with VTuple l => Some (VBool (negb (mem x l))) | _ => None end
          end
      | _, _ => None end
  | EAnd l => (fix go (l : list expr) : option val :=
                 match l with [] => None | [x] => eval en x
                 | x :: r => match eval en x with
                             | Some v => match truthy v with Some true => go r | Some false => Some v | None => None end
                             | None => None end end) l
  | EOr l => (fix go (l : list expr) : option val :=
                 match l with [] => None | [x] => eval en x
                 | x :: r => match eval en x with
                             | Some v => match truthy v with Some false => go r | Some true => Some v | None => None end
                             | None => None end end) l
  | ENot a => match eval en a with Some v => option_map (fun b => VBool (negb b)) (truthy v) | None => None end
  | EIf c a b => match eval en c with
                 | Some v => match truthy v with Some true => eval en a | Some false => eval en b | None => None end
                 | None => None end
  | ETuple l | ESet l => option_map VTuple (evl l)
  | EFStr l => match evl l with
               | Some vs => option_map (fun ss => VStr (String.concat "" ss)) (sequence (map show vs))
               | None => None end
  | ECall f args kw =>
      match evl args, evk kw with
      | Some vs, Some ks =>
          match f with
          | EName fn =>
              if String.eqb fn "isinstance" then
                match vs, args, ks with
                | [VObj c _; _], [_; EName cls], [] => Some (VBool (String.eqb c cls))
                | _, _, _ => None end
              else if String.eqb fn "PlotException" then
                match vs, ks with [m], [] => Some (VExc fn m) | _, _ => None end
              else if String.eqb fn "_get_length_formatter" then
                match vs, ks with
                | [VEnum c m], [] => Some (VObj "FuncFormatter" (fn ++ "(" ++ c ++ "." ++ m ++ ")"))
                | _, _ => None end
              else None
          | EAttr r meth =>
              if String.eqb meth "gca" then
                match r, vs, ks with
                | EName md, [], [] => if String.eqb md "plt" then Some (VObj "Axes" "plt.gca()") else None
                | _, _, _ => None end
              else if String.eqb meth "add_subplot" then
                match eval en r with
                | Some (VObj c o) =>
                    if String.eqb c "Figure" then
                      match ks with
                      | [] => Some (VObj "Axes" (o ++ ".add_subplot"))
                      | [(k, VStr p)] =>
                          if String.eqb k "projection" && String.eqb p "3d"
                          then Some (VObj "Axes3D" (o ++ ".add_subplot")) else None
                      | _ => None end
                    else None
                | _ => None end
              else None
          | _ => None
          end
      | _, _ => None end
  end.

(* effect log: (receiver, method, positional argument values, keyword argument values) *)
Definition effect := (val * string * list val * list (string * val))%type.
Inductive outcome := Normal (e : env) (l : list effect) | Returned (v : val) (l : list effect)
                   | Raised (v : val) (l : list effect) | Stuck.

Fixpoint evlist (en : env) (l : list expr) : option (list val) :=
  match l with [] => Some []
  | x :: r => match eval en x, evlist en r with Some v, Some vs => Some (v :: vs) | _, _ => None end end.
Fixpoint evkws (en : env) (l : list (string * expr)) : option (list (string * val)) :=
  match l with [] => Some []
  | (k, x) :: r => match eval en x, evkws en r with Some v, Some vs => Some ((k, v) :: vs) | _, _ => None end end.

(* an expression statement must be a method call on an opaque object: it is logged *)
Definition exec_call (en : env) (log : list effect) (e : expr) : outcome :=
  match e with
  | ECall (EAttr r m) args kw =>
      match eval en r, evlist en args, evkws en kw with
      | Some (VObj c o), Some vs, Some ks => Normal en (log ++ [(VObj c o, m, vs, ks)])
      | _, _, _ => Stuck end
  | _ => Stuck end.

Fixpoint exec (en : env) (log : list effect) (s : stmt) {struct s} : outcome :=
  let block := fix block (en : env) (log : list effect) (l : list stmt) : outcome :=
    match l with [] => Normal en log
    | x :: r => match exec en log x with Normal en' log' => block en' log' r | o => o end end in
  match s with
  | SAssign t e =>
      match eval en e with
      | Some v =>
          (* an assigned call that creates an axes object is an effect as well *)
          match e with
          | ECall (EAttr r m) args kw =>
              match eval en r, evlist en args, evkws en kw with
              | Some rv, Some vs, Some ks => Normal (update t v en) (log ++ [(rv, m, vs, ks)])
              | _, _, _ => Stuck end
          | _ => Normal (update t v en) log
          end
      | None => Stuck end
  | SIf c a b => match eval en c with
                 | Some v => match truthy v with
                             | Some true => block en log a | Some false => block en log b | None => Stuck end
                 | None => Stuck end
  | SReturn e => match eval en e with Some v => Returned v log | None => Stuck end
  | SRaise e => match eval en e with Some v => Raised v log | None => Stuck end
  | SExpr e => exec_call en log e
  end.
Fixpoint run (en : env) (log : list effect) (l : list stmt) : outcome :=
  match l with [] => Normal en log
  | x :: r => match exec en log x with Normal en' log' => run en' log' r | o => o end end.
End Interp.

(* ------------------------------------------------------------------------------------------ *)
(* Consumers: plot_mode_to_idx and prepare_axis on the regenerated terms                       *)
(* ------------------------------------------------------------------------------------------ *)

(* enum class bodies are dumped as (member, value expression); only string-valued members are kept *)
Fixpoint members_of (l : list (string * expr)) : option (list (string * string)) :=
  match l with
  | [] => Some []
  | (k, EStr v) :: r => option_map (cons (k, v)) (members_of r)
  | _ => None end.
Definition mk_tables (plotmode unit : list (string * expr)) : option tables :=
  match members_of plotmode, members_of unit with
  | Some a, Some b => Some [("PlotMode", a); ("Unit", b)] | _, _ => None end.

(* result of plot_mode_to_idx: (x_idx, y_idx, z_idx) *)
Definition interp_idx (tabs : tables) (body : list stmt) (mode : string) : option (Z * Z * option Z) :=
  match run tabs [("plot_mode", VEnum "PlotMode" mode)] [] body with
  | Returned (VTuple [VInt a; VInt b; VInt c]) [] => Some (a, b, Some c)
  | Returned (VTuple [VInt a; VInt b; VNone]) [] => Some (a, b, None)
  | _ => None end.

(* settings that prepare_axis reads *)
Record axis_flags := mkFlags { fl_invert_x : bool; fl_invert_y : bool; fl_show_axis : bool }.
Definition settings_val (f : axis_flags) : val :=
  VRec [("plot_invert_xaxis", VBool (fl_invert_x f)); ("plot_invert_yaxis", VBool (fl_invert_y f));
        ("plot_show_axis", VBool (fl_show_axis f)); ("plot_3d_zoom", VFloat "plot_3d_zoom")].

Record axis_result := mkAxisResult {
  ar_raised : bool;                 (* PlotException *)
  ar_is3d : bool;
  ar_xlabels : list string;         (* every string passed to set_xlabel of the returned axes, in order *)
  ar_ylabels : list string;
  ar_zlabels : list string;
  ar_foreign_labels : nat;          (* label calls on any other object *)
  ar_inverts : list string;         (* invert_xaxis / invert_yaxis calls (on whatever object) *)
  ar_axis_off : bool;
  ar_formatters : list string }.    (* receivers of set_major_formatter *)

Definition is_label_method (m : string) : bool :=
  String.eqb m "set_xlabel" || String.eqb m "set_ylabel" || String.eqb m "set_zlabel".
Definition labels_on (ax : val) (meth : string) (log : list effect) : list string :=
  flat_map (fun ef => match ef with
                      | (r, m, [VStr s], []) => if val_eqb r ax && String.eqb m meth then [s] else []
                      | _ => [] end) log.
(* label calls that are not a single string on the returned axes *)
Definition foreign_labels (ax : val) (log : list effect) : nat :=
  List.length (filter (fun ef => match ef with
                            | (r, m, [VStr _], []) => is_label_method m && negb (val_eqb r ax)
                            | (_, m, _, _) => is_label_method m end) log).
Definition origin_of (v : val) : string := match v with VObj _ o => o | _ => "?" end.

Definition interp_prepare (tabs : tables) (length_units : expr) (body : list stmt)
           (mode unit : string) (f : axis_flags) : option axis_result :=
  match eval tabs [] length_units with
  | Some lu =>
      let en := [("fig", VObj "Figure" "fig"); ("plot_mode", VEnum "PlotMode" mode);
                 ("subplot_arg", VInt 111); ("length_unit", VEnum "Unit" unit);
                 ("SETTINGS", settings_val f); ("LENGTH_UNITS", lu);
                 ("Axes3D", VObj "type" "Axes3D")] in
      match run tabs en [] body with
      | Raised (VExc c _) _ =>
          if String.eqb c "PlotException" then Some (mkAxisResult true false [] [] [] 0 [] false []) else None
      | Returned ax log =>
          match ax with
          | VObj cls _ =>
              Some (mkAxisResult false (String.eqb cls "Axes3D")
                      (labels_on ax "set_xlabel" log) (labels_on ax "set_ylabel" log) (labels_on ax "set_zlabel" log)
                      (foreign_labels ax log)
                      (flat_map (fun ef => match ef with (_, m, _, _) =>
                                   if String.eqb m "invert_xaxis" || String.eqb m "invert_yaxis" then [m] else [] end) log)
                      (existsb (fun ef => match ef with (r, m, _, _) => val_eqb r ax && String.eqb m "set_axis_off" end) log)
                      (flat_map (fun ef => match ef with (r, m, _, _) =>
                                   if String.eqb m "set_major_formatter" then [origin_of r] else [] end) log))
          | _ => None end
      | _ => None end
  | None => None end.

Definition interp_length_units (tabs : tables) (length_units : expr) : option (list string) :=
  match eval tabs [] length_units with
  | Some (VTuple l) => sequence (map (fun v => match v with VEnum c m => if String.eqb c "Unit" then Some m else None | _ => None end) l)
  | _ => None end.

(* ---- the finite specification: labels name the axes whose indices are returned ---- *)
Definition axis_letter (i : Z) : string :=
  match i with 0%Z => "x" | 1%Z => "y" | 2%Z => "z" | _ => "?" end.
Definition axis_label (i : Z) (unit_value : string) : string :=
  "$" ++ axis_letter i ++ "$ (" ++ unit_value ++ ")".
Definition mode_letters (xi yi : Z) (zi : option Z) : string :=
  axis_letter xi ++ axis_letter yi ++ match zi with Some z => axis_letter z | None => "" end.
Definition in_range (i : Z) : bool := (0 <=? i)%Z && (i <=? 2)%Z.

Definition all_flags : list axis_flags :=
  flat_map (fun a => flat_map (fun b => map (fun c => mkFlags a b c) [false; true]) [false; true]) [false; true].

Definition LabelSpec (tabs : tables) (length_units : expr) (idx_body prep_body : list stmt)
           (mode unit : string) (f : axis_flags) : Prop :=
  exists xi yi zi mode_value unit_value r,
    interp_idx tabs idx_body mode = Some (xi, yi, zi) /\
    lookup "PlotMode" tabs = Some mode_value /\ lookup "Unit" tabs = Some unit_value /\
    (* the indices are the positions of the letters of the mode's own name *)
    lookup mode mode_value = Some (mode_letters xi yi zi) /\
    in_range xi = true /\ in_range yi = true /\ match zi with Some z => in_range z = true | None => True end /\
    interp_prepare tabs length_units prep_body mode unit f = Some r /\
    ar_raised r = false /\
    (* 3-D axes exactly for the mode with a third index *)
    ar_is3d r = (match zi with Some _ => true | None => false end) /\
    (* each label is set exactly once, on the returned axes, names the axis of the returned index and
       carries the value string of the configured length unit *)
    (exists uv, lookup unit unit_value = Some uv /\
       ar_xlabels r = [axis_label xi uv] /\ ar_ylabels r = [axis_label yi uv] /\
       ar_zlabels r = match zi with Some z => [axis_label z uv] | None => [] end) /\
    ar_foreign_labels r = 0%nat.

Definition slist_eqb (a b : list string) : bool := if list_eq_dec string_dec a b then true else false.
Definition label_check (tabs : tables) (length_units : expr) (idx_body prep_body : list stmt)
           (mode unit : string) (f : axis_flags) : bool :=
  match interp_idx tabs idx_body mode, lookup "PlotMode" tabs, lookup "Unit" tabs,
        interp_prepare tabs length_units prep_body mode unit f with
  | Some (xi, yi, zi), Some mv, Some uvs, Some r =>
      match lookup mode mv, lookup unit uvs with
      | Some letters, Some uv =>
          String.eqb letters (mode_letters xi yi zi) && in_range xi && in_range yi &&
          match zi with Some z => in_range z | None => true end &&
          negb (ar_raised r) && Bool.eqb (ar_is3d r) (match zi with Some _ => true | None => false end) &&
          slist_eqb (ar_xlabels r) [axis_label xi uv] && slist_eqb (ar_ylabels r) [axis_label yi uv] &&
          slist_eqb (ar_zlabels r) (match zi with Some z => [axis_label z uv] | None => [] end) &&
          Nat.eqb (ar_foreign_labels r) 0
      | _, _ => false end
  | _, _, _, _ => false end.

Lemma slist_eqb_true a b : slist_eqb a b = true -> a = b.
Proof. unfold slist_eqb; destruct (list_eq_dec string_dec a b); [auto|discriminate]. Qed.

Lemma label_check_sound tabs lu ib pb m u f :
  label_check tabs lu ib pb m u f = true -> LabelSpec tabs lu ib pb m u f.
Proof.
  unfold label_check, LabelSpec.
  destruct (interp_idx tabs ib m) as [[[xi yi] zi]|] eqn:Hi; try discriminate.
  destruct (lookup "PlotMode" tabs) as [mv|] eqn:Hm; try discriminate.
  destruct (lookup "Unit" tabs) as [uvs|] eqn:Hu; try discriminate.
  destruct (interp_prepare tabs lu pb m u f) as [r|] eqn:Hp; try discriminate.
  destruct (lookup m mv) as [letters|] eqn:Hl; try discriminate.
  destruct (lookup u uvs) as [uv|] eqn:Huv; try discriminate.
  intro H. repeat (apply andb_prop in H; destruct H as [H ?]).
  exists xi, yi, zi, mv, uvs, r.
  apply String.eqb_eq in H. subst letters.
  repeat split; auto.
  - destruct zi; auto.
  - destruct (ar_raised r); [discriminate|reflexivity].
  - apply Bool.eqb_prop; assumption.
  - exists uv. repeat split; auto using slist_eqb_true.
  - apply Nat.eqb_eq; assumption.
Qed.

(* refusal of anything that is not a length unit *)
Definition refuse_check (tabs : tables) (length_units : expr) (prep_body : list stmt)
           (mode unit : string) (f : axis_flags) : bool :=
  match interp_prepare tabs length_units prep_body mode unit f with
  | Some r => ar_raised r | None => false end.
