(* Num.v - one model, several number systems.
   Every numeric model function of the development is written once over [NumOps T];
   [R_ops] is used by the theorems, [F_ops] (binary64, PrimFloat) by the correspondence runs. *)
From Coq Require Import Reals ZArith Bool List.
From Coq Require PrimFloat Uint63.
Import ListNotations.

Class NumOps (T : Type) := {
  n0 : T; n1 : T;
  nadd : T -> T -> T; nsub : T -> T -> T; nmul : T -> T -> T; ndiv : T -> T -> T;
  nopp : T -> T; nsqrt : T -> T; nabs : T -> T;
  nleb : T -> T -> bool; nltb : T -> T -> bool; neqb : T -> T -> bool;
  nofZ : Z -> T }.

Declare Scope num_scope.
Delimit Scope num_scope with num.
Infix "+!" := nadd (at level 50, left associativity) : num_scope.
Infix "-!" := nsub (at level 50, left associativity) : num_scope.
Infix "*!" := nmul (at level 40, left associativity) : num_scope.
Infix "/!" := ndiv (at level 40, left associativity) : num_scope.
Infix "<=?!" := nleb (at level 70, no associativity) : num_scope.
Infix "<?!" := nltb (at level 70, no associativity) : num_scope.

Definition Rleb (a b : R) : bool := if Rle_dec a b then true else false.
Definition Rltb (a b : R) : bool := if Rlt_dec a b then true else false.
Definition Reqb (a b : R) : bool := if Req_EM_T a b then true else false.

#[global] Instance R_ops : NumOps R := {|
  n0 := 0%R; n1 := 1%R; nadd := Rplus; nsub := Rminus; nmul := Rmult; ndiv := Rdiv;
  nopp := Ropp; nsqrt := R_sqrt.sqrt; nabs := Rabs;
  nleb := Rleb; nltb := Rltb; neqb := Reqb; nofZ := IZR |}.

Definition F_ofZ (z : Z) : PrimFloat.float :=
  match z with
  | Z0 => PrimFloat.zero
  | Zpos _ => PrimFloat.of_uint63 (Uint63.of_Z z)
  | Zneg p => PrimFloat.opp (PrimFloat.of_uint63 (Uint63.of_Z (Zpos p)))
  end.

#[global] Instance F_ops : NumOps PrimFloat.float := {|
  n0 := PrimFloat.zero; n1 := PrimFloat.one;
  nadd := PrimFloat.add; nsub := PrimFloat.sub; nmul := PrimFloat.mul; ndiv := PrimFloat.div;
  nopp := PrimFloat.opp; nsqrt := PrimFloat.sqrt; nabs := PrimFloat.abs;
  nleb := PrimFloat.leb; nltb := PrimFloat.ltb; neqb := PrimFloat.eqb; nofZ := F_ofZ |}.

Lemma Rleb_true a b : Rleb a b = true <-> (a <= b)%R.
Proof. unfold Rleb; destruct (Rle_dec a b); split; intros; try assumption; try reflexivity; [discriminate|contradiction]. Qed.
Lemma Rleb_false a b : Rleb a b = false <-> (b < a)%R.
Proof. unfold Rleb; destruct (Rle_dec a b) as [H|H]; split; intros H1; try reflexivity; try discriminate.
  - exfalso; apply (Rlt_irrefl a); eapply Rle_lt_trans; eauto.
  - apply Rnot_le_lt; exact H. Qed.
Lemma Rltb_true a b : Rltb a b = true <-> (a < b)%R.
Proof. unfold Rltb; destruct (Rlt_dec a b); split; intros; try assumption; try reflexivity; [discriminate|contradiction]. Qed.
Lemma Rltb_false a b : Rltb a b = false <-> (b <= a)%R.
Proof. unfold Rltb; destruct (Rlt_dec a b) as [H|H]; split; intros H1; try reflexivity; try discriminate.
  - exfalso; apply (Rlt_irrefl a); eapply Rlt_le_trans; eauto.
  - apply Rnot_lt_le; exact H. Qed.
Lemma Reqb_true a b : Reqb a b = true <-> a = b.
Proof. unfold Reqb; destruct (Req_EM_T a b); split; intros; try assumption; try reflexivity; [discriminate|contradiction]. Qed.

(* Reduce the class projections at the real instance. *)
Ltac rnum := cbn [n0 n1 nadd nsub nmul ndiv nopp nsqrt nabs nleb nltb neqb nofZ R_ops] in *.
