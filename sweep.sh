#!/bin/bash
# seed sweep: every ready check with several seeds (quick tier); prints only the runs that do not end with OK
cd "$(dirname "${BASH_SOURCE[0]}")"
for sd in ${SEEDS:-1 2 3}; do
  for p in ${PROPS:-$(cat harness/ready.txt)}; do
    out=$(VERIF_SEED=$sd ./check $p --tier quick 2>&1 | grep "^OK\|VIOLATION\|HARNESS" | head -2 | tr '\n' '|')
    case "$out" in OK*) ;; *) echo "seed=$sd $p $out";; esac
  done
  echo "seed $sd done"
done
git checkout -- evidence 2>/dev/null
