import numpy as np, itertools, copy
from evo.core import sync
from evo.core.trajectory import PoseTrajectory3D
from fractions import Fraction
def mk(st,tag):
    n=len(st); return PoseTrajectory3D(np.array([[tag*1000+i,0,0] for i in range(n)],dtype=float), np.tile([1.,0,0,0],(n,1)), np.array(st,dtype=float))
grid=[k/8 for k in range(0,7)]
bad={};tot=0
for n1 in range(1,4):
  for n2 in range(1,4):
    for s1 in itertools.combinations(grid,n1):
      for s2 in itertools.combinations(grid,n2):
        for md in (0.0,0.125,0.25):
          for off in (0.0,0.125,-0.25):
            tot+=1
            a,b=mk(s1,1),mk(s2,2)
            try: ra,rb=sync.associate_trajectories(a,b,md,off)
            except sync.SyncException: ra=rb=None
            # spec
            short,long_,so,lo=(s1,s2,0.0,off) if n2>n1 else (s2,s1,off,0.0)
            pairs=[]
            for i,ts in enumerate(short):
                d=[abs((tl+lo)-(ts+so)) for tl in long_]
                j=d.index(min(d))
                if d[j]<=md: pairs.append((i,j))
            if ra is None:
                if pairs: bad.setdefault("raised",[]).append((s1,s2,md,off))
                continue
            if n2>n1: got=list(zip([int(x[0])-1000 for x in ra.positions_xyz],[int(x[0])-2000 for x in rb.positions_xyz]))
            else: got=list(zip([int(x[0])-2000 for x in rb.positions_xyz],[int(x[0])-1000 for x in ra.positions_xyz]))
            if got!=pairs: bad.setdefault("pairs",[]).append((s1,s2,md,off,got,pairs))
            js=[j for _,j in got]
            if len(set(js))!=len(js): bad.setdefault("dup",[]).append((s1,s2,md,off,got))
            for (x,y,tx,ty) in zip(ra.positions_xyz,rb.positions_xyz,ra.timestamps,rb.timestamps):
                if abs(tx-(ty+off))>md: bad.setdefault("maxdiff",[]).append((s1,s2,md,off))
                if a.timestamps[int(x[0])-1000]!=tx or b.timestamps[int(y[0])-2000]!=ty: bad.setdefault("stampmix",[]).append((s1,s2))
print(tot,{k:(len(v),v[0]) for k,v in bad.items()})
