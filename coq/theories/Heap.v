(* Heap.v - heap / footprint model of evo's trajectory objects (property C16).

   A store of array cells (loc -> contents, contents of an abstract type V), objects are records of
   locations: one per cached numpy array (_positions_xyz, _orientations_quat_wxyz, timestamps, meta),
   one for the Python list object _poses_se3 and ONE PER POSE MATRIX in that list, exactly as
   evo/core/trajectory.py keeps them.  Every public operation is given the footprint the CURRENT code
   has (read line by line): which caches it fills, which cells it allocates, which it writes in place,
   which locations of its argument the result re-uses.

   New contents come from a content oracle [mk tag index args] (a Section variable: the theorems hold
   for every such function, i.e. whatever numbers numpy computes).  The old behaviour (project() writing
   in place into possibly shared pose cells, split_* returning [self]) is kept as configuration
   [cfg_old]; the current code is [cfg_new].  Definitions only; proofs are in HeapProofs.v. *)
From Coq Require Import List Arith Bool.
Import ListNotations.

Definition loc := nat.

(* content tags (only documentation: which computation produced a cell) *)
Definition tg_init := 0.
Definition tg_pos := 1.      (* np.array([p[:3,3] for p in poses]) *)
Definition tg_quat := 2.     (* np.array([quaternion_from_matrix(p) for p in poses]) *)
Definition tg_pose := 3.     (* lie.se3(quaternion_matrix(q), xyz), pose number = index *)
Definition tg_list := 4.     (* a Python list object (identity only) *)
Definition tg_meta := 5.     (* a fresh {} *)
Definition tg_copy := 6.     (* np.array(x) / copy.deepcopy(x) *)
Definition tg_tr := 7.       (* np.dot(t, p) / np.dot(p, t) *)
Definition tg_trp := 8.      (* propagated right multiplication *)
Definition tg_norm := 9.     (* Sim(3) renormalisation of the rotation block *)
Definition tg_sc := 10.      (* lie.se3(p[:3,:3], s*p[:3,3]) *)
Definition tg_scp := 11.     (* s * positions *)
Definition tg_proj := 12.    (* in-place projection of one pose matrix, index = plane *)
Definition tg_sel := 13.     (* fancy indexing array[ids] *)
Definition tg_merge := 14.   (* np.concatenate(...)[order] *)
Definition tg_out := 15.     (* an output array of a computation *)
Definition tg_add := 16.     (* stamps_2 += offset_2 on the private copy *)

Record cfg := mkCfg { c_inplace_project : bool; c_split_self : bool }.
Definition cfg_new := mkCfg false false.   (* /repo as it is now *)
Definition cfg_old := mkCfg true true.     (* before the fix commits 6234e49 / ce2eb42 *)

Section Model.
Context {V : Type}.
Variable mk : nat -> nat -> list V -> V.

(* ------------------------------------------------------------------ store *)
Record heap := mkHeap { hval : loc -> V; hnext : loc }.
Definition upd (f : loc -> V) (l : loc) (v : V) : loc -> V := fun k => if Nat.eqb k l then v else f k.
Definition alloc (h : heap) (v : V) : heap * loc :=
  (mkHeap (upd (hval h) (hnext h) v) (S (hnext h)), hnext h).
Definition write (h : heap) (l : loc) (v : V) : heap := mkHeap (upd (hval h) l v) (hnext h).
Fixpoint alloc_list (h : heap) (vs : list V) : heap * list loc :=
  match vs with
  | [] => (h, [])
  | v :: r => let (h1, l) := alloc h v in let (h2, ls) := alloc_list h1 r in (h2, l :: ls)
  end.
(* sequential in-place update of the listed cells: for pose in poses: pose[...] = f(pose) *)
Fixpoint write_seq (h : heap) (tag idx : nat) (ls : list loc) : heap :=
  match ls with
  | [] => h
  | l :: r => write_seq (write h l (mk tag idx [hval h l])) tag idx r
  end.

(* ------------------------------------------------------------------ objects *)
Record traj := mkTraj {
  t_n : nat;                            (* number of poses *)
  t_pos : option loc;                   (* _positions_xyz *)
  t_quat : option loc;                  (* _orientations_quat_wxyz *)
  t_poses : option (loc * list loc);    (* _poses_se3: (the list object, one cell per 4x4 matrix) *)
  t_stamps : option loc;                (* timestamps (None: PosePath3D) *)
  t_meta : loc;                         (* meta dict *)
  t_proj : bool }.                      (* _projected *)

Inductive obj :=
| OTraj (t : traj)
| OBag (cells : list loc).   (* any other object: bare arrays, pose lists, metric (error array), Result (np_arrays) *)

Record state := mkState { hp : heap; objs : list obj }.
Definition empty_state (d : V) : state := mkState (mkHeap (fun _ => d) 0) [].

Definition oloc (o : option loc) : list loc := match o with Some l => [l] | None => [] end.
Definition poses_all (t : traj) : list loc := match t_poses t with Some (lid, ps) => lid :: ps | None => [] end.
Definition poses_cells (t : traj) : list loc := match t_poses t with Some (_, ps) => ps | None => [] end.
Definition reach_traj (t : traj) : list loc :=
  oloc (t_pos t) ++ oloc (t_quat t) ++ poses_all t ++ oloc (t_stamps t) ++ [t_meta t].
Definition reach (o : obj) : list loc := match o with OTraj t => reach_traj t | OBag c => c end.

Definition oval (h : heap) (o : option loc) : list V := map (hval h) (oloc o).

(* what can be seen through the public attributes (lazy properties computed on demand) *)
Definition obs_pos (h : heap) (t : traj) : V :=
  match t_pos t with Some l => hval h l | None => mk tg_pos 0 (map (hval h) (poses_cells t)) end.
Definition obs_quat (h : heap) (t : traj) : V :=
  match t_quat t with Some l => hval h l | None => mk tg_quat 0 (map (hval h) (poses_cells t)) end.
Definition obs_poses (h : heap) (t : traj) : list V :=
  match t_poses t with
  | Some (_, ps) => map (hval h) ps
  | None => map (fun k => mk tg_pose k (oval h (t_pos t) ++ oval h (t_quat t))) (seq 0 (t_n t))
  end.
Definition obs_traj (h : heap) (t : traj) : nat * V * V * list V * list V * V * bool :=
  (t_n t, obs_pos h t, obs_quat h t, obs_poses h t, oval h (t_stamps t), hval h (t_meta t), t_proj t).
Inductive view :=
| VTraj (v : nat * V * V * list V * list V * V * bool)
| VBag (v : list V).
Definition obs (h : heap) (o : obj) : view :=
  match o with OTraj t => VTraj (obs_traj h t) | OBag c => VBag (map (hval h) c) end.

(* ------------------------------------------------------------------ lazy properties (cache fills) *)
Inductive getter := GPos | GQuat | GPoses.

Definition fill (g : getter) (h : heap) (t : traj) : heap * traj :=
  match g with
  | GPos =>
      match t_pos t with
      | Some _ => (h, t)
      | None => let (h1, l) := alloc h (mk tg_pos 0 (map (hval h) (poses_cells t))) in
                (h1, mkTraj (t_n t) (Some l) (t_quat t) (t_poses t) (t_stamps t) (t_meta t) (t_proj t))
      end
  | GQuat =>
      match t_quat t with
      | Some _ => (h, t)
      | None => let (h1, l) := alloc h (mk tg_quat 0 (map (hval h) (poses_cells t))) in
                (h1, mkTraj (t_n t) (t_pos t) (Some l) (t_poses t) (t_stamps t) (t_meta t) (t_proj t))
      end
  | GPoses =>
      match t_poses t with
      | Some _ => (h, t)
      | None =>
          let src := oval h (t_pos t) ++ oval h (t_quat t) in
          let (h1, lid) := alloc h (mk tg_list 0 []) in
          let (h2, ls) := alloc_list h1 (map (fun k => mk tg_pose k src) (seq 0 (t_n t))) in
          (h2, mkTraj (t_n t) (t_pos t) (t_quat t) (Some (lid, ls)) (t_stamps t) (t_meta t) (t_proj t))
      end
  end.

(* ------------------------------------------------------------------ in-place methods of PosePath3D / PoseTrajectory3D *)
Inductive pmut :=
| PTransform (right_mul propagate sim3 : bool)   (* sim3: is_sim3(t) and not is_se3(t) *)
| PScale
| PProject (plane : nat)
| PReduce (ids : list nat).

Definition select (ps : list loc) (ids : list nat) : list loc :=
  flat_map (fun i => match nth_error ps i with Some l => [l] | None => [] end) ids.

Definition copy_opt (h : heap) (o : option loc) : heap * option loc :=
  match o with
  | Some l => let (h1, l') := alloc h (mk tg_copy 0 [hval h l]) in (h1, Some l')
  | None => (h, None)
  end.
Definition derive_opt (tag : nat) (h : heap) (o : option loc) : heap * option loc :=
  match o with
  | Some l => let (h1, l') := alloc h (mk tag 0 [hval h l]) in (h1, Some l')
  | None => (h, None)
  end.

(* self._poses_se3 = [f(p) for p in self._poses_se3] : a new list object of new matrices *)
Definition rebuild_poses (tag : nat) (h : heap) (ps : list loc) : heap * (loc * list loc) :=
  let (h1, lid) := alloc h (mk tg_list 0 []) in
  let (h2, ls) := alloc_list h1 (map (fun l => mk tag 0 [hval h l]) ps) in
  (h2, (lid, ls)).

(* trajectory.py transform() once self.poses_se3 exists *)
Definition transform_core (rm prop sim3 : bool) (h0 : heap) (t0 : traj) : heap * traj * list loc :=
  let ps := poses_cells t0 in
  let '(h1, (lid1, ps1)) :=
    if rm && prop then
      (* self._poses_se3 = [self.poses_se3[0]]; then append fresh products *)
      let (ha, lid) := alloc h0 (mk tg_list 0 []) in
      match ps with
      | [] => (ha, (lid, []))
      | p0 :: rest =>
          let (hb, ls) := alloc_list ha (map (fun k => mk tg_trp k (map (hval h0) ps)) (seq 1 (length rest))) in
          (hb, (lid, p0 :: ls))
      end
    else rebuild_poses tg_tr h0 ps in
  let '(h2, (lid2, ps2)) := if sim3 then rebuild_poses tg_norm h1 ps1 else (h1, (lid1, ps1)) in
  (* self._positions_xyz, self._orientations_quat_wxyz = se3_poses_to_xyz_quat_wxyz(self.poses_se3) *)
  let (h3, lp) := alloc h2 (mk tg_pos 0 (map (hval h2) ps2)) in
  let (h4, lq) := alloc h3 (mk tg_quat 0 (map (hval h3) ps2)) in
  (h4, mkTraj (t_n t0) (Some lp) (Some lq) (Some (lid2, ps2)) (t_stamps t0) (t_meta t0) (t_proj t0), []).

(* trajectory.py project() once self.poses_se3 exists *)
Definition project_core (c : cfg) (plane : nat) (h0 : heap) (t0 : traj) : heap * traj * list loc :=
  let ps := poses_cells t0 in
  if c_inplace_project c then
    (* old: for pose in self.poses_se3: pose[...] = ...   (writes whatever cells the list holds) *)
    let h1 := write_seq h0 tg_proj plane ps in
    (h1, mkTraj (t_n t0) None None (t_poses t0) (t_stamps t0) (t_meta t0) true, ps)
  else
    (* new: self._poses_se3 = [np.array(pose) for pose in self.poses_se3]; then write those *)
    let '(h1, (lid, ps')) := rebuild_poses tg_copy h0 ps in
    let h2 := write_seq h1 tg_proj plane ps' in
    (h2, mkTraj (t_n t0) None None (Some (lid, ps')) (t_stamps t0) (t_meta t0) true, ps').

Definition mutate (c : cfg) (p : pmut) (h : heap) (t : traj) : heap * traj * list loc :=
  match p with
  | PTransform rm prop sim3 =>
      (* every branch of transform() starts from the property self.poses_se3 *)
      let (h0, t0) := fill GPoses h t in transform_core rm prop sim3 h0 t0
  | PScale =>
      let '(h1, poses1) :=
        match t_poses t with
        | Some (_, ps) => let '(hh, lp) := rebuild_poses tg_sc h ps in (hh, Some lp)
        | None => (h, None)
        end in
      let (h2, pos2) := derive_opt tg_scp h1 (t_pos t) in
      (h2, mkTraj (t_n t) pos2 (t_quat t) poses1 (t_stamps t) (t_meta t) (t_proj t), [])
  | PProject plane =>
      if t_proj t then (h, t, [])   (* TrajectoryException("path was already projected once") *)
      else let (h0, t0) := fill GPoses h t in project_core c plane h0 t0
  | PReduce ids =>
      let (h1, pos1) := derive_opt tg_sel h (t_pos t) in
      let (h2, quat1) := derive_opt tg_sel h1 (t_quat t) in
      let '(h3, poses1) :=
        match t_poses t with
        | Some (_, ps) => let (hh, lid) := alloc h2 (mk tg_list 0 []) in (hh, Some (lid, select ps ids))
        | None => (h2, None)
        end in
      let (h4, st1) := derive_opt tg_sel h3 (t_stamps t) in
      (h4, mkTraj (length ids) pos1 quat1 poses1 st1 (t_meta t) (t_proj t), [])
  end.

(* ------------------------------------------------------------------ creation of new objects *)
Fixpoint assoc_loc (l : loc) (m : list (loc * loc)) : option loc :=
  match m with
  | [] => None
  | (a, b) :: r => if Nat.eqb a l then Some b else assoc_loc l r
  end.
(* copy.deepcopy of a list of arrays: the memo keeps aliasing inside the list *)
Fixpoint copy_cells (h : heap) (memo : list (loc * loc)) (ls : list loc) : heap * list loc :=
  match ls with
  | [] => (h, [])
  | l :: r =>
      match assoc_loc l memo with
      | Some l' => let (h2, r') := copy_cells h memo r in (h2, l' :: r')
      | None => let (h1, l') := alloc h (mk tg_copy 0 [hval h l]) in
                let (h2, r') := copy_cells h1 ((l, l') :: memo) r in (h2, l' :: r')
      end
  end.

Definition copy_traj (h : heap) (t : traj) : heap * traj :=
  let (h1, pos1) := copy_opt h (t_pos t) in
  let (h2, quat1) := copy_opt h1 (t_quat t) in
  let '(h3, poses1) :=
    match t_poses t with
    | Some (_, ps) => let (ha, lid) := alloc h2 (mk tg_list 0 []) in
                      let (hb, ls) := copy_cells ha [] ps in (hb, Some (lid, ls))
    | None => (h2, None)
    end in
  let (h4, st1) := copy_opt h3 (t_stamps t) in
  let (h5, meta1) := alloc h4 (mk tg_copy 0 [hval h4 (t_meta t)]) in
  (h5, mkTraj (t_n t) pos1 quat1 poses1 st1 meta1 (t_proj t)).

(* PoseTrajectory3D(timestamps=self.timestamps[a:b], poses_se3=self.poses_se3[a:b]) *)
Definition make_part (h : heap) (stamps : option loc) (cells : list loc) : heap * traj :=
  let (h1, lid) := alloc h (mk tg_list 0 []) in          (* the slice is a new list of the SAME matrices *)
  let (h2, st1) := copy_opt h1 stamps in                  (* np.array(view) *)
  let (h3, meta1) := alloc h2 (mk tg_meta 0 []) in
  (h3, mkTraj (length cells) None None (Some (lid, cells)) st1 meta1 false).
Fixpoint make_parts (h : heap) (stamps : option loc) (groups : list (list loc)) : heap * list obj :=
  match groups with
  | [] => (h, [])
  | g :: r => let (h1, t) := make_part h stamps g in
              let (h2, ts) := make_parts h1 stamps r in (h2, OTraj t :: ts)
  end.
Fixpoint slices (l : list loc) (bounds : list nat) (start : nat) : list (list loc) :=
  match bounds with
  | [] => []
  | b :: r => firstn (b - start) (skipn start l) :: slices l r b
  end.

Definition get_traj (st : state) (i : nat) : option traj :=
  match nth_error (objs st) i with Some (OTraj t) => Some t | _ => None end.
Definition get_trajs (st : state) (is_ : list nat) : list traj :=
  flat_map (fun i => match get_traj st i with Some t => [t] | None => [] end) is_.

Inductive knew :=
| NInit (mode n : nat) (stamped : bool)   (* mode 0: from a fresh list of matrices; else: from xyz + quaternions *)
| NCopy (src : nat)                       (* copy.deepcopy *)
| NParts (src : nat) (cuts : list nat)    (* split_*: children built on slices of the parent's pose list *)
| NMerge (srcs : list nat)                (* trajectory.merge *)
| NCtorPoses (src : nat) (share_meta : bool)   (* PoseTrajectory3D(poses_se3=A.poses_se3, timestamps=A.timestamps[, meta=A.meta]) *)
| NCtorPQ (src : nat)                     (* PoseTrajectory3D(A.positions_xyz, A.orientations_quat_wxyz, A.timestamps) *)
| NBag (k : nat)                          (* an output with k new arrays *)
| NBagShare (src : nat).                  (* an output that holds the very arrays of src (PE.get_result) *)

Definition create (d : knew) (st : state) : heap * list obj :=
  let h := hp st in
  match d with
  | NInit mode n stamped =>
      let (h1, st1) := if stamped then let (hh, l) := alloc h (mk tg_init 0 []) in (hh, Some l) else (h, None) in
      let (h2, meta1) := alloc h1 (mk tg_meta 0 []) in
      match mode with
      | 0 => let (h3, lid) := alloc h2 (mk tg_list 0 []) in
             let (h4, ls) := alloc_list h3 (map (fun k => mk tg_init k []) (seq 0 n)) in
             (h4, [OTraj (mkTraj n None None (Some (lid, ls)) st1 meta1 false)])
      | _ => let (h3, lp) := alloc h2 (mk tg_init 1 []) in
             let (h4, lq) := alloc h3 (mk tg_init 2 []) in
             (h4, [OTraj (mkTraj n (Some lp) (Some lq) None st1 meta1 false)])
      end
  | NCopy src =>
      match nth_error (objs st) src with
      | Some (OTraj t) => let (h1, t1) := copy_traj h t in (h1, [OTraj t1])
      | Some (OBag c) => let (h1, c1) := copy_cells h [] c in (h1, [OBag c1])
      | None => (h, [])
      end
  | NParts src cuts =>
      match get_traj st src with
      | Some t => match t_poses t with
                  | Some (_, ps) => make_parts h (t_stamps t) (slices ps (cuts ++ [length ps]) 0)
                  | None => (h, [])
                  end
      | None => (h, [])
      end
  | NMerge srcs =>
      let ts := get_trajs st srcs in
      let (h1, ls) := alloc h (mk tg_merge 0 (flat_map (fun t => oval h (t_stamps t)) ts)) in
      let (h2, lp) := alloc h1 (mk tg_merge 1 (flat_map (fun t => oval h (t_pos t)) ts)) in
      let (h3, lq) := alloc h2 (mk tg_merge 2 (flat_map (fun t => oval h (t_quat t)) ts)) in
      let (h4, meta1) := alloc h3 (mk tg_meta 0 []) in
      (h4, [OTraj (mkTraj (list_sum (map t_n ts)) (Some lp) (Some lq) None (Some ls) meta1 false)])
  | NCtorPoses src share_meta =>
      match get_traj st src with
      | Some t => match t_poses t with
                  | Some lp =>
                      let (h1, st1) := copy_opt h (t_stamps t) in
                      let (h2, meta1) := if share_meta then (h1, t_meta t) else alloc h1 (mk tg_meta 0 []) in
                      (h2, [OTraj (mkTraj (t_n t) None None (Some lp) st1 meta1 false)])
                  | None => (h, [])
                  end
      | None => (h, [])
      end
  | NCtorPQ src =>
      match get_traj st src with
      | Some t => match t_pos t, t_quat t with
                  | Some lp, Some lq =>
                      let (h1, lp') := alloc h (mk tg_copy 0 [hval h lp]) in
                      let (h2, lq') := alloc h1 (mk tg_copy 0 [hval h1 lq]) in
                      let (h3, st1) := copy_opt h2 (t_stamps t) in
                      let (h4, meta1) := alloc h3 (mk tg_meta 0 []) in
                      (h4, [OTraj (mkTraj (t_n t) (Some lp') (Some lq') None st1 meta1 false)])
                  | _, _ => (h, [])
                  end
      | None => (h, [])
      end
  | NBag k =>
      let (h1, ls) := alloc_list h (map (fun i => mk tg_out i []) (seq 0 k)) in (h1, [OBag ls])
  | NBagShare src =>
      match nth_error (objs st) src with
      | Some (OBag c) => (h, [OBag c])
      | _ => (h, [])
      end
  end.

(* ------------------------------------------------------------------ micro steps: one object touched at a time *)
Fixpoint set_nth {A : Type} (i : nat) (x : A) (l : list A) : list A :=
  match l, i with
  | [], _ => []
  | _ :: r, 0 => x :: r
  | y :: r, S k => y :: set_nth k x r
  end.

Inductive micro :=
| KFill (i : nat) (g : getter)     (* read of a lazy property of object i *)
| KMut (i : nat) (p : pmut)        (* in-place method of object i *)
| KNew (d : knew)                  (* creation of new objects *)
| KRebind (i k : nat)              (* object i (a metric) gets k new arrays: process_data *)
| KScratch (i : nat)               (* private copy of array i, then += on the copy: matching_time_indices *)
| KAlias (i : nat).                (* the result is object i itself *)

(* result: new state, cells written in place, handles of the results *)
Definition exec_micro (c : cfg) (k : micro) (st : state) : state * list loc * list nat :=
  match k with
  | KFill i g =>
      match get_traj st i with
      | Some t => let (h', t') := fill g (hp st) t in (mkState h' (set_nth i (OTraj t') (objs st)), [], [])
      | None => (st, [], [])
      end
  | KMut i p =>
      match get_traj st i with
      | Some t => let '(h', t', W) := mutate c p (hp st) t in
                  (mkState h' (set_nth i (OTraj t') (objs st)), W, [])
      | None => (st, [], [])
      end
  | KNew d =>
      let (h', news) := create d st in
      (mkState h' (objs st ++ news), [], seq (length (objs st)) (length news))
  | KRebind i k =>
      match nth_error (objs st) i with
      | Some (OBag _) =>
          let (h', ls) := alloc_list (hp st) (map (fun j => mk tg_out j []) (seq 0 k)) in
          (mkState h' (set_nth i (OBag ls) (objs st)), [], [])
      | _ => (st, [], [])
      end
  | KScratch i =>
      match nth_error (objs st) i with
      | Some (OBag (l :: _)) =>
          let (h1, l') := alloc (hp st) (mk tg_copy 0 [hval (hp st) l]) in
          (mkState (write h1 l' (mk tg_add 0 [hval h1 l'])) (objs st), [l'], [])
      | _ => (st, [], [])
      end
  | KAlias i => (st, [], [i])
  end.

Fixpoint run_micro (c : cfg) (ks : list micro) (st : state) : state * list loc * list nat :=
  match ks with
  | [] => (st, [], [])
  | k :: r => let '(st1, W1, r1) := exec_micro c k st in
              let '(st2, W2, r2) := run_micro c r st1 in
              (st2, W1 ++ W2, r1 ++ r2)
  end.

(* ------------------------------------------------------------------ the public API, as sequences of micro steps *)
Inductive splitk := SplitTime | SplitDist | SplitSpeed.

Inductive reader :=
| RApe (pos_based : bool) (m ref est : nat)            (* APE.process_data *)
| RRpe (pos_based from_ref : bool) (m ref est : nat)   (* RPE.process_data *)
| RStatistic (m : nat)                                 (* get_statistic / get_all_statistics *)
| RGetResult (m : nat)                                 (* get_result: Result holding the metric's error array *)
| RUmeyama (x y : nat)                                 (* geometry.umeyama_alignment *)
| RMatching (s1 s2 : nat)                              (* sync.matching_time_indices *)
| RIdPairs (poses : nat)                               (* id_pairs_from_delta, filter_pairs_*, filter_by_motion *)
| RMergeResults (rs : list nat) (k : nat)              (* result.merge_results *)
| RToDf (t : nat)                                      (* pandas_bridge.trajectory_to_df *)
| RStatsDf (t : nat)                                   (* trajectory_stats_to_df: get_infos + get_statistics *)
| RResultToDf (r : nat)                                (* result_to_df *)
| RWriteTum (t : nat)
| RWriteKitti (t : nat)
| RWriteBag (t : nat)
| RSaveRes (r : nat)
| RPlotPositions (ts : list nat)                       (* plot.traj, trajectories, traj_xyz, traj_colormap, speeds, draw_correspondence_edges, add_start_end_markers *)
| RPlotAxes (t : nat)                                  (* plot.draw_coordinate_axes *)
| RPlotRpy (t : nat)                                   (* plot.traj_rpy: get_orientations_euler *)
| RPlotArray (e : nat)                                 (* plot.error_array *)
| RInfo (t : nat) (with_check : bool).                 (* get_infos, get_statistics, __str__, distances, speeds, path_length[, check] *)

Inductive cmd :=
| CInit (mode n : nat) (stamped : bool)
| CInitBag (k : nat)
| CGet (i : nat) (g : getter)
| CTransform (i : nat) (right_mul propagate sim3 : bool)
| CScale (i : nat)
| CProject (i : nat) (plane : nat)
| CReduce (i : nat) (ids : list nat)                   (* reduce_to_ids, reduce_to_time_range, downsample (when it reduces) *)
| CMotionFilter (i : nat) (ids : list nat)
| CAlign (i ref : nat) (correct_scale only_scale : bool)
| CAlignOrigin (i ref : nat)
| CCopy (src : nat)
| CAssoc (a b : nat) (ids_a ids_b : list nat)
| CMerge (srcs : list nat)
| CSplit (k : splitk) (src : nat) (cuts : list nat)
| CCtorPoses (src : nat) (share_meta : bool)
| CCtorPQ (src : nat)
| CRead (r : reader).

Definition fills (g : getter) (is_ : list nat) : list micro := map (fun i => KFill i g) is_.

Definition reader_prog (r : reader) : list micro :=
  match r with
  | RApe true m ref est => [KFill est GPos; KFill ref GPos; KRebind m 2]
  | RApe false m ref est => [KFill est GPoses; KFill ref GPoses; KRebind m 2]
  | RRpe pb fr m ref est =>
      [KFill (if fr then ref else est) GPoses] ++
      (if pb then [KFill ref GPos; KFill est GPos] else [KFill ref GPoses; KFill est GPoses]) ++ [KRebind m 2]
  | RStatistic m => []
  | RGetResult m => [KNew (NBagShare m)]
  | RUmeyama x y => [KNew (NBag 2)]
  | RMatching s1 s2 => [KScratch s2]
  | RIdPairs p => []
  | RMergeResults rs k =>
      match rs with
      | [r0] => [KAlias r0]          (* if len(results) == 1: return results[0] *)
      | _ => [KNew (NBag k)]         (* deepcopy of the first, then np.add / np.append / np.divide: new arrays *)
      end
  | RToDf t => [KFill t GPos; KFill t GQuat; KNew (NBag 1)]
  | RStatsDf t => [KFill t GPos; KNew (NBag 1)]
  | RResultToDf r => [KNew (NBag 1)]
  | RWriteTum t => [KFill t GPos; KFill t GQuat]
  | RWriteKitti t => [KFill t GPoses]
  | RWriteBag t => [KFill t GPos; KFill t GQuat]
  | RSaveRes r => []
  | RPlotPositions ts => fills GPos ts
  | RPlotAxes t => [KFill t GPoses]
  | RPlotRpy t => []
  | RPlotArray e => []
  | RInfo t chk => [KFill t GPos] ++ (if chk then [KFill t GQuat; KFill t GPoses] else [])
  end.

Definition traj_n (st : state) (i : nat) : nat := match get_traj st i with Some t => t_n t | None => 0 end.

(* compile a call into micro steps; the state is consulted only for sizes and fresh handles *)
Definition compile (c : cfg) (st : state) (x : cmd) : list micro :=
  let nobj := length (objs st) in
  match x with
  | CInit mode n stamped => [KNew (NInit mode n stamped)]
  | CInitBag k => [KNew (NBag k)]
  | CGet i g => [KFill i g]
  | CTransform i rm prop sim3 => [KMut i (PTransform rm prop sim3)]
  | CScale i => [KMut i PScale]
  | CProject i plane => [KMut i (PProject plane)]
  | CReduce i ids => [KMut i (PReduce ids)]
  | CMotionFilter i ids => [KFill i GPoses; KMut i (PReduce ids)]
  | CAlign i ref cs only =>
      [KFill i GPos; KFill ref GPos] ++
      (if only then [KMut i PScale]
       else if cs then [KMut i PScale; KMut i (PTransform false false false)]
       else [KMut i (PTransform false false false)])
  | CAlignOrigin i ref => [KFill i GPoses; KFill ref GPoses; KMut i (PTransform false false false)]
  | CCopy src => [KNew (NCopy src)]
  | CAssoc a b ia ib =>
      [KNew (NCopy a); KNew (NCopy b); KMut nobj (PReduce ia); KMut (S nobj) (PReduce ib)]
  | CMerge srcs => fills GPos srcs ++ fills GQuat srcs ++ [KNew (NMerge srcs)]
  | CSplit k src cuts =>
      let nocut := if c_split_self c then [KAlias src] else [KNew (NCopy src)] in
      if traj_n st src <? 2 then nocut
      else match k with
           | SplitTime => match cuts with [] => nocut | _ => [KFill src GPoses; KNew (NParts src cuts)] end
           | SplitDist => [KFill src GPos; KFill src GPoses; KNew (NParts src cuts)]
           | SplitSpeed => KFill src GPos ::
                           match cuts with [] => nocut | _ => [KFill src GPoses; KNew (NParts src cuts)] end
           end
  | CCtorPoses src sm => [KFill src GPoses; KNew (NCtorPoses src sm)]
  | CCtorPQ src => [KFill src GPos; KFill src GQuat; KNew (NCtorPQ src)]
  | CRead r => reader_prog r
  end.

Definition exec (c : cfg) (x : cmd) (st : state) : state * list loc * list nat :=
  run_micro c (compile c st x) st.

(* a history of calls; the log keeps, per call, the pre-existing cells it wrote and its result handles *)
Fixpoint run (c : cfg) (hist : list cmd) (st : state) : state :=
  match hist with
  | [] => st
  | x :: r => let '(st1, _, _) := exec c x st in run c r st1
  end.

Fixpoint run_log (c : cfg) (hist : list cmd) (st : state) : state * list (list loc * list nat) :=
  match hist with
  | [] => (st, [])
  | x :: r => let '(st1, W, res) := exec c x st in
              let (st2, lg) := run_log c r st1 in
              (st2, (filter (fun l => l <? hnext (hp st)) W, res) :: lg)
  end.

(* the object explicitly operated on by a call (it may change); everything else is an argument *)
Definition cmd_subject (x : cmd) : option nat :=
  match x with
  | CTransform i _ _ _ | CScale i | CProject i _ | CReduce i _ | CMotionFilter i _
  | CAlign i _ _ _ | CAlignOrigin i _ => Some i
  | CRead (RApe _ m _ _) | CRead (RRpe _ _ m _ _) => Some m
  | _ => None
  end.

(* calls that only operate on object b (in-place methods of b, lazy reads of anything) *)
Definition only_on (b : nat) (x : cmd) : bool :=
  match x with
  | CGet _ _ => true
  | CTransform i _ _ _ | CScale i | CProject i _ | CReduce i _ | CMotionFilter i _
  | CAlign i _ _ _ | CAlignOrigin i _ => Nat.eqb i b
  | _ => false
  end.

End Model.

Arguments heap : clear implicits.
Arguments state : clear implicits.
Arguments view : clear implicits.

(* ------------------------------------------------------------------ executable instance for the correspondence run *)
Definition mk0 (tag idx : nat) (args : list nat) : nat := 0.

Definition b2n (b : bool) : nat := if b then 1 else 0.
Definition dump_obj (o : obj) : list (list nat) :=
  match o with
  | OTraj t => [[0; t_n t; b2n (t_proj t)]; oloc (t_pos t); oloc (t_quat t);
                match t_poses t with Some (lid, _) => [lid] | None => [] end;
                poses_cells t; oloc (t_stamps t); [t_meta t]]
  | OBag c => [[1]; c]
  end.

(* location graph of all objects after the history + per call (pre-existing cells written, result handles) *)
Definition report (c : cfg) (hist : list cmd) : list (list (list nat)) * list (list nat * list nat) :=
  let (st, lg) := run_log mk0 c hist (empty_state 0) in (map dump_obj (objs st), lg).
