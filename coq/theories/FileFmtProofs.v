(* FileFmtProofs.v - round-trip theorems for the writer/reader models of FileFmt.v, for every scalar
   codec with parse (fmt x) = Some x, every number of poses; and the ROS-bag time stamp bound over R. *)
From Coq Require Import Ascii String.
From Coq Require Import Reals Lra Lia List Arith Bool ZArith.
From Flocq Require Import Raux.
From Evo Require Import Num FileFmt.
Import ListNotations.

(* ---------- roll ---------- *)
Lemma roll1_rollm1 {A} (l : list A) : roll1 (rollm1 l) = l.
Proof.
  destruct l as [|a r]; [reflexivity|]. unfold rollm1, roll1.
  rewrite rev_app_distr. cbn. now rewrite rev_involutive.
Qed.
Lemma rollm1_roll1 {A} (l : list A) : rollm1 (roll1 l) = l.
Proof.
  unfold roll1. destruct (rev l) as [|z r] eqn:E.
  - apply (f_equal (@rev A)) in E. rewrite rev_involutive in E. now subst.
  - cbn. apply (f_equal (@rev A)) in E. rewrite rev_involutive in E. subst l. reflexivity.
Qed.
Lemma rollm1_length {A} (l : list A) : length (rollm1 l) = length l.
Proof. destruct l; cbn; [reflexivity|]. rewrite app_length. cbn. lia. Qed.
(* which element lands where: roll(-1) of [w;x;y;z] is [x;y;z;w], roll(+1) of [x;y;z;w] is [w;x;y;z] *)
Lemma rollm1_4 {A} (w x y z : A) : rollm1 [w; x; y; z] = [x; y; z; w]. Proof. reflexivity. Qed.
Lemma roll1_4 {A} (w x y z : A) : roll1 [x; y; z; w] = [w; x; y; z]. Proof. reflexivity. Qed.

(* ---------- traverse ---------- *)
Lemma traverse_map {A B} (f : A -> option B) (g : B -> A) (l : list B) :
  (forall x, f (g x) = Some x) -> traverse f (map g l) = Some l.
Proof. intros H. induction l as [|b r IH]; cbn; [reflexivity|]. now rewrite H, IH. Qed.
Lemma traverse_map_in {A B} (f : A -> option B) (g : B -> A) (l : list B) :
  (forall x, In x l -> f (g x) = Some x) -> traverse f (map g l) = Some l.
Proof.
  induction l as [|b r IH]; cbn; intros H; [reflexivity|].
  rewrite H by now left. rewrite IH; [reflexivity|]. intros x Hx. apply H. now right.
Qed.
Lemma In_rollm1 {A} (x : A) l : In x (rollm1 l) -> In x l.
Proof. destruct l as [|a r]; cbn; [tauto|]. intros H. apply in_app_or in H. destruct H as [H|[<-|[]]]; tauto. Qed.
Lemma In_firstn {A} (x : A) n l : In x (firstn n l) -> In x l.
Proof. revert l; induction n as [|n IH]; intros [|a l]; cbn; try tauto. intros [H|H]; [now left|right; now apply IH]. Qed.
Lemma traverse_length {A B} (f : A -> option B) l l' : traverse f l = Some l' -> length l' = length l.
Proof.
  revert l'. induction l as [|a r IH]; cbn; intros l' H; [injection H as <-; reflexivity|].
  destruct (f a); [|discriminate]. destruct (traverse f r) eqn:E; [|discriminate]. injection H as <-. cbn. f_equal. now apply IH.
Qed.
Lemma traverse_nth {A B} (f : A -> option B) l l' i a : traverse f l = Some l' -> nth_error l i = Some a ->
  exists b, nth_error l' i = Some b /\ f a = Some b.
Proof.
  revert l' i. induction l as [|a0 r IH]; cbn; intros l' i H Hn; [destruct i; discriminate|].
  destruct (f a0) eqn:Fa; [|discriminate]. destruct (traverse f r) eqn:E; [|discriminate]. injection H as <-.
  destruct i as [|i]; cbn in *.
  - injection Hn as <-. eauto.
  - eapply IH; eauto.
Qed.
Lemma traverse_None_iff {A B} (f : A -> option B) l : traverse f l = None <-> exists a, In a l /\ f a = None.
Proof.
  induction l as [|a r IH]; cbn.
  - split; [discriminate|intros [a [[] _]]].
  - destruct (f a) eqn:Fa.
    + destruct (traverse f r) eqn:E.
      * split; [discriminate|]. intros [x [[<-|Hx] Hf]]; [congruence|]. exfalso.
        assert (N : @None (list B) = None) by reflexivity. destruct IH as [_ IH].
        assert (HH : Some l = None) by (apply IH; eauto). discriminate.
      * split; [intros _|reflexivity]. destruct IH as [IH _]. destruct (IH eq_refl) as [x [Hx Hf]]. eauto.
    + split; [intros _; eauto|reflexivity].
Qed.

Section Proofs.
Context {T : Type} {ops : NumOps T}.
Context {Tok : Type}.
Variable fmt : T -> Tok.
Variable parse : Tok -> option T.
(* [ok]: the values the codec is exact on (e.g. the binary64 numbers among the reals) *)
Variable ok : T -> Prop.
Hypothesis codec : forall x, ok x -> parse (fmt x) = Some x.

Definition tp_ok (p : TP T) : Prop := ok (tp_stamp p) /\ Forall ok (tp_xyz p) /\ Forall ok (tp_quat p).

Lemma matrix_of_fmt (rows : list (list T)) :
  (forall r r', In r rows -> In r' rows -> length r = length r') ->
  Forall (Forall ok) rows ->
  matrix_of parse (map (map fmt) rows) = Some rows.
Proof.
  intros H Hok. unfold matrix_of. destruct rows as [|r0 rest]; [reflexivity|].
  cbn [map]. set (raw := map fmt r0 :: map (map fmt) rest).
  assert (E : forallb (fun r => Nat.eqb (length r) (length (map fmt r0))) raw = true).
  { apply forallb_forall. intros r Hr. apply Nat.eqb_eq.
    change raw with (map (map fmt) (r0 :: rest)) in Hr. apply in_map_iff in Hr. destruct Hr as [r' [<- Hr']].
    rewrite !map_length. apply H; [exact Hr'|now left]. }
  rewrite E. change raw with (map (map fmt) (r0 :: rest)).
  rewrite Forall_forall in Hok.
  apply traverse_map_in. intros r Hr. apply traverse_map_in. intros x Hx. apply codec.
  specialize (Hok r Hr). rewrite Forall_forall in Hok. now apply Hok.
Qed.

Lemma tum_row_ok (p : TP T) : tp_ok p -> Forall ok (tum_row p).
Proof.
  intros [H1 [H2 H3]]. unfold tum_row. constructor; [exact H1|]. apply Forall_app. split; [exact H2|].
  rewrite Forall_forall in *. intros x Hx. apply H3, In_rollm1, Hx.
Qed.

(* ---------- TUM ---------- *)
Lemma tum_row_length (p : TP T) : tp_valid p -> length (tum_row p) = 8.
Proof. intros [H1 H2]. unfold tum_row. cbn [length]. rewrite app_length, rollm1_length, H1, H2. reflexivity. Qed.

Lemma tum_row_back (p : TP T) : tp_valid p ->
  mkTP (nth 0 (tum_row p) n0) (firstn 3 (skipn 1 (tum_row p))) (roll1 (skipn 4 (tum_row p))) = p.
Proof.
  intros [H1 H2]. destruct p as [s xyz q]. cbn [tp_stamp tp_xyz tp_quat] in *. unfold tum_row. cbn [tp_stamp tp_xyz tp_quat nth skipn].
  destruct xyz as [|x [|y [|z [|? ?]]]]; try discriminate. cbn [app skipn firstn].
  now rewrite roll1_rollm1.
Qed.

Theorem tum_roundtrip (tr : list (TP T)) : tr <> [] -> Forall tp_valid tr -> Forall tp_ok tr ->
  read_tum parse (write_tum fmt tr) = Some tr.
Proof.
  intros Hne Hv Hok. unfold read_tum, write_tum.
  destruct tr as [|p0 rest]; [congruence|]. cbn [map].
  rewrite map_length, tum_row_length by (inversion Hv; assumption). cbn [Nat.eqb negb].
  change (map fmt (tum_row p0) :: map (fun p => map fmt (tum_row p)) rest)
    with (map (fun p => map fmt (tum_row p)) (p0 :: rest)).
  rewrite <- (map_map tum_row (map fmt)).
  rewrite matrix_of_fmt.
  - f_equal. rewrite map_map. rewrite <- (map_id (p0 :: rest)) at 2. apply map_ext_in.
    intros p Hp. apply tum_row_back. rewrite Forall_forall in Hv. now apply Hv.
  - intros r r' Hr Hr'. apply in_map_iff in Hr, Hr'. destruct Hr as [p [<- Hp]], Hr' as [p' [<- Hp']].
    rewrite Forall_forall in Hv. rewrite !tum_row_length by (apply Hv; assumption). reflexivity.
  - apply Forall_forall. intros r Hr. apply in_map_iff in Hr. destruct Hr as [p [<- Hp]].
    apply tum_row_ok. rewrite Forall_forall in Hok. now apply Hok.
Qed.

(* what is written: t x y z qx qy qz qw *)
Theorem tum_written_columns s x y z qw qx qy qz :
  write_tum fmt [mkTP s [x; y; z] [qw; qx; qy; qz]] = [map fmt [s; x; y; z; qx; qy; qz; qw]].
Proof. reflexivity. Qed.

(* ---------- KITTI ---------- *)
Lemma kitti_row_back (p : list T) : pose_valid p -> firstn 12 (firstn (length p - 4) p) ++ [n0; n0; n0; n1] = p.
Proof.
  intros [L B]. rewrite L. cbn [Nat.sub]. rewrite firstn_firstn. cbn [Nat.min].
  rewrite <- B. apply firstn_skipn.
Qed.

Theorem kitti_roundtrip (tr : list (list T)) : tr <> [] -> Forall pose_valid tr -> Forall (Forall ok) tr ->
  read_kitti parse (write_kitti fmt tr) = Some tr.
Proof.
  intros Hne Hv Hok. unfold read_kitti, write_kitti.
  destruct tr as [|p0 rest]; [congruence|]. cbn [map].
  assert (L0 : length (firstn (length p0 - 4) p0) = 12).
  { inversion Hv as [|? ? [L _] _]; subst. rewrite firstn_length, L. reflexivity. }
  rewrite map_length, L0. cbn [Nat.eqb negb].
  change (map fmt (firstn (length p0 - 4) p0) :: map (fun p => map fmt (firstn (length p - 4) p)) rest)
    with (map (fun p => map fmt (firstn (length p - 4) p)) (p0 :: rest)).
  rewrite <- (map_map (fun p => firstn (length p - 4) p) (map fmt)).
  rewrite matrix_of_fmt.
  - f_equal. rewrite map_map. rewrite <- (map_id (p0 :: rest)) at 2. apply map_ext_in.
    intros p Hp. apply kitti_row_back. rewrite Forall_forall in Hv. now apply Hv.
  - intros r r' Hr Hr'. apply in_map_iff in Hr, Hr'. destruct Hr as [p [<- Hp]], Hr' as [p' [<- Hp']].
    rewrite Forall_forall in Hv. destruct (Hv p Hp) as [L _], (Hv p' Hp') as [L' _].
    rewrite !firstn_length, L, L'. reflexivity.
  - apply Forall_forall. intros r Hr. apply in_map_iff in Hr. destruct Hr as [p [<- Hp]].
    rewrite Forall_forall in Hok. specialize (Hok p Hp). rewrite Forall_forall in *.
    intros x Hx. apply Hok. eapply In_firstn; exact Hx.
Qed.

(* every pose a KITTI file is read to has the bottom row 0 0 0 1 and 16 entries *)
Theorem kitti_bottom_row raw tr : read_kitti parse raw = Some tr -> Forall pose_valid tr.
Proof.
  unfold read_kitti. destruct raw as [|r0 rest]; [discriminate|].
  destruct (Nat.eqb (length r0) 12) eqn:E; [|discriminate]. cbn [negb].
  destruct (matrix_of parse (r0 :: rest)) as [mat|] eqn:M; [|discriminate]. intros H. injection H as <-.
  apply Nat.eqb_eq in E.
  unfold matrix_of in M.
  destruct (forallb (fun r => Nat.eqb (length r) (length r0)) (r0 :: rest)) eqn:F; [|discriminate].
  rewrite forallb_forall in F.
  apply Forall_forall. intros p Hp. apply in_map_iff in Hp. destruct Hp as [r [<- Hr]].
  destruct (In_nth_error _ _ Hr) as [i Hi].
  assert (Li : exists raw_r, nth_error (r0 :: rest) i = Some raw_r /\ traverse parse raw_r = Some r).
  { clear -M Hi. revert mat i M Hi. generalize (r0 :: rest). intros l. induction l as [|a l IH]; cbn; intros mat i M Hi.
    - injection M as <-. destruct i; discriminate.
    - destruct (traverse parse a) eqn:Ea; [|discriminate]. destruct (traverse (traverse parse) l) eqn:El; [|discriminate].
      injection M as <-. destruct i as [|i]; cbn in *; [injection Hi as <-; eauto|]. eapply IH; eauto. }
  destruct Li as [raw_r [Hraw Htr]].
  assert (Lr : length r = 12).
  { rewrite (traverse_length _ _ _ Htr). rewrite <- E. apply Nat.eqb_eq, F. eapply nth_error_In; eauto. }
  clear -Lr. do 13 (destruct r as [|? r]; try discriminate). split; reflexivity.
Qed.

(* what is written: the first three rows of the matrix, row-major *)
Theorem kitti_written_entries a b c d e f g h i j k l :
  write_kitti fmt [[a; b; c; d; e; f; g; h; i; j; k; l; n0; n0; n0; n1]] = [map fmt [a; b; c; d; e; f; g; h; i; j; k; l]].
Proof. reflexivity. Qed.

(* ---------- result archive ---------- *)
Context {I : Type}.
Variable fmtj : T -> Tok.
Variable parsej : Tok -> option T.
Variable okj : T -> Prop.
Hypothesis codecj : forall x, okj x -> parsej (fmtj x) = Some x.

Definition traj_valid (t : traj (T := T)) : Prop :=
  match t with
  | TrajT l => l <> [] /\ Forall tp_valid l /\ Forall tp_ok l
  | TrajP l => l <> [] /\ Forall pose_valid l /\ Forall (Forall ok) l
  end.
Definition res_valid (r : Res (T := T) (I := I)) : Prop := Forall (fun kv => traj_valid (snd kv)) (r_trajs r).
Definition stats_ok (r : Res (T := T) (I := I)) : Prop := Forall (fun kv => okj (snd kv)) (r_stats r).

Notation mem_t := (member (T := T) (Tok := Tok) (I := I)).
Notation save := (save_res (I := I) fmt fmtj).
Notation load := (load_res (I := I) parse parsej).

Lemma find_info r : find_member EInfo (save r) = Some (CInfo (r_info r)).
Proof. reflexivity. Qed.
Lemma find_stats r : find_member EStats (save r) = Some (CStats (map (fun kv => (fst kv, fmtj (snd kv))) (r_stats r))).
Proof. reflexivity. Qed.

Lemma parse_stats_fmt (d : list (string * T)) : Forall (fun kv => okj (snd kv)) d ->
  parse_stats parsej (map (fun kv => (fst kv, fmtj (snd kv))) d) = Some d.
Proof.
  unfold parse_stats. induction d as [|[k v] r IH]; intros H; cbn; [reflexivity|].
  inversion H as [|? ? Hv Hr]; subst. cbn in Hv. rewrite codecj by exact Hv.
  cbn in IH. now rewrite IH.
Qed.

Notation encA := (enc_array (T := T) (Tok := Tok) (I := I)).
Notation encT := (enc_traj (I := I) fmt).

Lemma load_arrays_save r : load_arrays (save r) = r_arrays r.
Proof.
  unfold save_res, load_arrays. cbn [app flat_map dec_array]. rewrite flat_map_app.
  assert (A : forall l : list (string * list T), flat_map dec_array (map encA l) = l).
  { induction l as [|[k a] l IH]; cbn; [reflexivity|]. now rewrite IH. }
  rewrite A.
  assert (B : forall l : list (string * traj), flat_map dec_array (map encT l) = []).
  { induction l as [|[k [t|t]] l IH]; cbn; [reflexivity|exact IH|exact IH]. }
  rewrite B. apply app_nil_r.
Qed.

Lemma traverse_skip_arrays (f : mem_t -> option (list (string * traj (T := T)))) (l : list (string * list T)) rest :
  (forall kv, f (encA kv) = Some []) ->
  traverse f (map encA l ++ rest) = match traverse f rest with Some x => Some (map (fun _ => []) l ++ x) | None => None end.
Proof.
  intros Hf. induction l as [|kv l IH]; cbn [map app traverse].
  - destruct (traverse f rest); reflexivity.
  - rewrite Hf, IH. destruct (traverse f rest); reflexivity.
Qed.

Lemma dec_tum_enc (l : list (string * traj)) : Forall (fun kv => traj_valid (snd kv)) l ->
  exists x, traverse (dec_tum parse) (map encT l) = Some x /\ concat x = filter is_trajT l.
Proof.
  induction l as [|[k t] l IH]; intros Hl; [exists []; split; reflexivity|].
  inversion Hl as [|? ? Hk Hl']; subst. destruct (IH Hl') as [x [Hx Cx]]. cbn [map traverse].
  destruct t as [tl|tl]; unfold enc_traj at 1; cbn [snd fst dec_tum].
  - destruct Hk as [Hne [Hv Ho]]. rewrite (tum_roundtrip tl Hne Hv Ho), Hx.
    eexists; split; [reflexivity|]. cbn. now rewrite Cx.
  - rewrite Hx. eexists; split; [reflexivity|]. cbn. exact Cx.
Qed.
Lemma dec_kitti_enc (l : list (string * traj)) : Forall (fun kv => traj_valid (snd kv)) l ->
  exists x, traverse (dec_kitti parse) (map encT l) = Some x /\ concat x = filter (fun kv => negb (is_trajT kv)) l.
Proof.
  induction l as [|[k t] l IH]; intros Hl; [exists []; split; reflexivity|].
  inversion Hl as [|? ? Hk Hl']; subst. destruct (IH Hl') as [x [Hx Cx]]. cbn [map traverse].
  destruct t as [tl|tl]; unfold enc_traj at 1; cbn [snd fst dec_kitti].
  - rewrite Hx. eexists; split; [reflexivity|]. cbn. exact Cx.
  - destruct Hk as [Hne [Hv Ho]]. rewrite (kitti_roundtrip tl Hne Hv Ho), Hx.
    eexists; split; [reflexivity|]. cbn. now rewrite Cx.
Qed.

Lemma concat_skip {A B} (l : list A) (x : list (list B)) : concat (map (fun _ => []) l ++ x) = concat x.
Proof. induction l; cbn; auto. Qed.

Lemma load_trajs_save r : res_valid r -> load_trajs parse (save r) = Some (tum_first (r_trajs r)).
Proof.
  intros V. unfold load_trajs, save_res. cbn [app traverse dec_tum dec_kitti].
  rewrite !traverse_skip_arrays by reflexivity.
  destruct (dec_tum_enc _ V) as [xt [Ht Ct]]. destruct (dec_kitti_enc _ V) as [xk [Hk Ck]].
  rewrite Ht, Hk. unfold tum_first. cbn [concat app]. rewrite !concat_skip, Ct, Ck. reflexivity.
Qed.

Theorem res_roundtrip_with_trajectories r : stats_ok r -> res_valid r ->
  load true (save r) = Some (mkRes (r_info r) (r_stats r) (r_arrays r) (tum_first (r_trajs r))).
Proof.
  intros S V. unfold load_res. rewrite find_info, find_stats, parse_stats_fmt by exact S.
  rewrite load_trajs_save by exact V. now rewrite load_arrays_save.
Qed.

Theorem res_roundtrip_without_trajectories r : stats_ok r ->
  load false (save r) = Some (mkRes (r_info r) (r_stats r) (r_arrays r) []).
Proof. intros S. unfold load_res. rewrite find_info, find_stats, parse_stats_fmt by exact S. now rewrite load_arrays_save. Qed.

(* the re-ordering of the trajectories dict is invisible to lookups (dict equality ignores order) *)
Fixpoint tget (k : string) (d : list (string * traj (T := T))) : option traj :=
  match d with
  | [] => None
  | (k', v) :: r => if String.eqb k' k then Some v else tget k r
  end.
Theorem tum_first_lookup (d : list (string * traj)) k : NoDup (map fst d) -> tget k (tum_first d) = tget k d.
Proof.
  unfold tum_first. induction d as [|[k0 t] d IH]; intros ND; [reflexivity|].
  inversion ND as [|? ? Hn ND']; subst. specialize (IH ND').
  assert (G : forall (p : string * traj -> bool) (l : list (string * traj)), ~ In k0 (map fst l) -> tget k0 (filter p l) = None).
  { intros p l. induction l as [|[k1 t1] l IHl]; intros H; [reflexivity|]. cbn in *.
    destruct (p (k1, t1)); cbn; [|apply IHl; tauto].
    destruct (String.eqb_spec k1 k0); [subst; tauto|apply IHl; tauto]. }
  assert (App : forall a b, tget k (a ++ b) = match tget k a with Some v => Some v | None => tget k b end).
  { induction a as [|[k1 t1] a IHa]; intros b; [reflexivity|]. cbn. destruct (String.eqb k1 k); [reflexivity|apply IHa]. }
  destruct t as [tl|tl]; cbn [filter is_trajT snd negb app tget].
  - destruct (String.eqb_spec k0 k) as [->|Ne]; [reflexivity|exact IH].
  - rewrite App in *. cbn [tget].
    destruct (String.eqb_spec k0 k) as [->|Ne].
    + rewrite (G is_trajT d Hn). reflexivity.
    + exact IH.
Qed.

(* ---------- DataFrame ---------- *)
Lemma rows3_cons (a b c : T) A B C : rows_of [a :: A; b :: B; c :: C] = [a; b; c] :: rows_of [A; B; C].
Proof. reflexivity. Qed.
Lemma rows4_cons (a b c d : T) A B C D :
  rows_of [a :: A; b :: B; c :: C; d :: D] = [a; b; c; d] :: rows_of [A; B; C; D].
Proof. reflexivity. Qed.
Lemma rows_of_3 (l : list (list T)) : (forall r, In r l -> length r = 3) ->
  rows_of [colk 0 l; colk 1 l; colk 2 l] = l.
Proof.
  induction l as [|r l IH]; intros H; [reflexivity|].
  assert (Hr : length r = 3) by (apply H; now left).
  destruct r as [|x [|y [|z [|? ?]]]]; try discriminate.
  specialize (IH (fun r Hr => H r (or_intror Hr))).
  change (colk 0 ([x; y; z] :: l)) with (x :: colk 0 l).
  change (colk 1 ([x; y; z] :: l)) with (y :: colk 1 l).
  change (colk 2 ([x; y; z] :: l)) with (z :: colk 2 l).
  now rewrite rows3_cons, IH.
Qed.
Lemma rows_of_4 (l : list (list T)) : (forall r, In r l -> length r = 4) ->
  rows_of [colk 0 l; colk 1 l; colk 2 l; colk 3 l] = l.
Proof.
  induction l as [|r l IH]; intros H; [reflexivity|].
  assert (Hr : length r = 4) by (apply H; now left).
  destruct r as [|w [|x [|y [|z [|? ?]]]]]; try discriminate.
  specialize (IH (fun r Hr => H r (or_intror Hr))).
  change (colk 0 ([w; x; y; z] :: l)) with (w :: colk 0 l).
  change (colk 1 ([w; x; y; z] :: l)) with (x :: colk 1 l).
  change (colk 2 ([w; x; y; z] :: l)) with (y :: colk 2 l).
  change (colk 3 ([w; x; y; z] :: l)) with (z :: colk 3 l).
  now rewrite rows4_cons, IH.
Qed.

Lemma zip_tp_maps (tr : list (TP T)) : zip_tp (map tp_stamp tr) (map tp_xyz tr) (map tp_quat tr) = tr.
Proof. induction tr as [|[s x q] tr IH]; cbn; [reflexivity|now rewrite IH]. Qed.
Lemma zip_pp_maps (tr : list (PP T)) : zip_pp (map pp_xyz tr) (map pp_quat tr) = tr.
Proof. induction tr as [|[x q] tr IH]; cbn; [reflexivity|now rewrite IH]. Qed.

Lemma df_cols_back (xyz quat : list (list T)) :
  (forall r, In r xyz -> length r = 3) -> (forall r, In r quat -> length r = 4) ->
  rows_of (map (fun k => dfget k (df_columns xyz quat)) ["x"; "y"; "z"]%string) = xyz /\
  rows_of (map (fun k => dfget k (df_columns xyz quat)) ["qw"; "qx"; "qy"; "qz"]%string) = quat.
Proof.
  intros H3 H4. split.
  - change (map (fun k => dfget k (df_columns xyz quat)) ["x"; "y"; "z"]%string) with [colk 0 xyz; colk 1 xyz; colk 2 xyz].
    now apply rows_of_3.
  - change (map (fun k => dfget k (df_columns xyz quat)) ["qw"; "qx"; "qy"; "qz"]%string)
      with [colk 0 quat; colk 1 quat; colk 2 quat; colk 3 quat].
    now apply rows_of_4.
Qed.

Theorem df_roundtrip_trajectory (tr : list (TP T)) : Forall tp_valid tr ->
  df_to_trajectory false (traj_to_df tr) = OutTraj tr.
Proof.
  intros V. rewrite Forall_forall in V. unfold df_to_trajectory, traj_to_df. cbn [df_cols df_index].
  destruct (df_cols_back (map tp_xyz tr) (map tp_quat tr)) as [Hx Hq].
  - intros r Hr. apply in_map_iff in Hr. destruct Hr as [p [<- Hp]]. apply (V p Hp).
  - intros r Hr. apply in_map_iff in Hr. destruct Hr as [p [<- Hp]]. apply (V p Hp).
  - rewrite Hx, Hq. now rewrite zip_tp_maps.
Qed.

Theorem df_roundtrip_path (tr : list (PP T)) as_path : Forall pp_valid tr ->
  df_to_trajectory as_path (path_to_df tr) = OutPath tr.
Proof.
  intros V. rewrite Forall_forall in V. unfold df_to_trajectory, path_to_df. cbn [df_cols df_index].
  destruct (df_cols_back (map pp_xyz tr) (map pp_quat tr)) as [Hx Hq].
  - intros r Hr. apply in_map_iff in Hr. destruct Hr as [p [<- Hp]]. apply (V p Hp).
  - intros r Hr. apply in_map_iff in Hr. destruct Hr as [p [<- Hp]]. apply (V p Hp).
  - rewrite Hx, Hq. now rewrite zip_pp_maps.
Qed.

End Proofs.

(* ---------- non-vacuity: the identity codec on any carrier ---------- *)
Example tum_roundtrip_example :
  read_tum (T := nat) (ops := Build_NumOps nat 0 1 Nat.add Nat.sub Nat.mul Nat.div (fun x => x) (fun x => x) (fun x => x) Nat.leb Nat.ltb Nat.eqb Z.to_nat)
           (fun x => Some x) (write_tum (fun x => x) [mkTP 10 [1; 2; 3] [4; 5; 6; 7]]) = Some [mkTP 10 [1; 2; 3] [4; 5; 6; 7]].
Proof. reflexivity. Qed.

(* ---------- ROS bag time stamps over R ---------- *)
Section BagR.
Local Open Scope R_scope.
Definition floorR (x : R) : R := IZR (Zfloor x).
Definition truncR (x : R) : R := IZR (Ztrunc x).
Definition e9R : R := 1000000000.
Definition em9R : R := / 1000000000.

(* stamp - (sec + nanosec * 1e-9) lies in [0, 1e-9): re-read time stamps are within one nanosecond *)
Theorem bag_stamp_within_one_ns (stamp : R) : 0 <= stamp ->
  let back := bag_reread floorR truncR e9R em9R stamp in
  0 <= stamp - back < / 1000000000 /\
  (exists s n : Z, bag_sec floorR stamp = IZR s /\ bag_nanosec floorR truncR e9R stamp = IZR n /\
                   (0 <= s)%Z /\ (0 <= n < 1000000000)%Z).
Proof.
  intros Hs. cbn zeta. unfold bag_reread, bag_nanosec, bag_sec. rnum. unfold floorR, truncR, e9R, em9R.
  set (s := Zfloor stamp).
  assert (Fl : IZR s <= stamp < IZR s + 1) by (split; [apply Zfloor_lb|apply Zfloor_ub]).
  set (f := (stamp - IZR s) * 1000000000).
  assert (Hf : 0 <= f < 1000000000) by (unfold f; lra).
  assert (Tr : Ztrunc f = Zfloor f) by (apply Ztrunc_floor; lra).
  rewrite Tr. set (n := Zfloor f).
  assert (Fn : IZR n <= f < IZR n + 1) by (split; [apply Zfloor_lb|apply Zfloor_ub]).
  split.
  - unfold f in Fn. split.
    + apply Rmult_le_reg_r with 1000000000; [lra|]. field_simplify. lra.
    + apply Rmult_lt_reg_r with 1000000000; [lra|]. field_simplify. lra.
  - exists s, n. repeat split.
    + apply Zfloor_lub. exact Hs.
    + apply Zfloor_lub. lra.
    + apply lt_IZR. lra.
Qed.
End BagR.
