"""C06 - write/read round trips are lossless (evo/tools/file_interface.py TUM/KITTI/result zip/ROS1 bag,
evo/tools/pandas_bridge.py) against the Coq model Evo.FileFmt (+ Evo.Codec for the decimal codec).

Three layers per case:
  spec   - the property itself on the implementation: reader output == writer input, bit for bit
  model  - the written file (tokens -> float()) == FileFmt.write_* of the input, and FileFmt.read_* of the
           written file == what evo's reader returned (small cases; tokens are binary64 values)
  format - (translator tie, regenerate) the precision numpy.savetxt uses for evo's writers, re-read from numpy
           and from the AST of the writers; generated obligation 18 <= p feeds the codec theorem
"""
import ast
import copy
import inspect
import io
import json
import math
import os
import re
import shutil
import struct
import tempfile
import zipfile
from fractions import Fraction
from pathlib import Path

import numpy as np

from harness import common
from harness.common import cf, cflist, cnat, cstr, cbool, differential, hexf, unhex

ID = "C06"
IMPORTS = "From Evo Require Import Num FileFmt.\n"
COQ_TARGETS = ["theories/FileFmtCodec.vo", "generated/C06Fmt.vo"]
TRUSTED = ["model Evo.FileFmt written by hand from file_interface.py / pandas_bridge.py; tie = differential run, bit for bit",
           "scalar codec: CPython's '%.18e' % x and float(s) ARE correctly rounding decimal<->binary64 conversions "
           "(David Gay's algorithm) and preserve the sign of zero; json.dumps/loads use float.__repr__/float (shortest "
           "round-tripping decimal); np.save/np.load move raw IEEE bytes; zipfile is a lossless container - all measured "
           "bit for bit on every case, none proved",
           "numpy.savetxt's default fmt is read with inspect at run time; the writers' np.savetxt calls are checked in the "
           "AST to pass no fmt (fail closed otherwise)",
           "zip member name <-> (stem, suffix) pairing (str.format, str.endswith, pathlib.stem) is represented by a tagged pair",
           "rosbags (ROS1 writer/reader, message (de)serialisation) is an oracle; only the sec/nanosec arithmetic is modelled; "
           "the ROS2 writer of the installed rosbags needs a 'version' argument evo does not pass (environment) and is not run"]
ASSUMPTIONS = ["valid trajectories: finite float64 values, one quaternion (4) and position (3) per pose, at least one pose; KITTI "
               "poses with bottom row exactly 0 0 0 1; timestamps float64 (integer-dtype timestamps make df_to_trajectory return "
               "a PosePath3D - outside 'identical float64 value')",
               "bag: 0 <= stamp < 2^31 s; 'within one nanosecond' is judged on the binary64 results with a slack of one part in "
               "10^6 of a nanosecond plus the spacing of doubles at the stamp"]

SMALL = 40    # cases with at most this many poses are also evaluated in the model


def bits(x):
    return struct.pack("<d", float(x))


def arr_bits_equal(a, b):
    a = np.ascontiguousarray(np.asarray(a, dtype=np.float64))
    b = np.ascontiguousarray(np.asarray(b, dtype=np.float64))
    return a.shape == b.shape and a.tobytes() == b.tobytes()


# ------------------------------------------------------------------ hard values
def hard_scalar(rng, mode=None):
    m = int(rng.integers(0, 9)) if mode is None else mode
    if m == 0:   # needs all 17 digits
        return float(rng.uniform(-10, 10))
    if m == 1:   # 1e-300 .. 1e300
        return float(rng.choice([-1, 1]) * rng.uniform(1, 10) * 10.0 ** int(rng.integers(-300, 301)))
    if m == 2:   # subnormals
        return float(rng.choice([-1, 1]) * int(rng.integers(1, 2 ** 40)) * 5e-324)
    if m == 3:
        return float(rng.choice([0.0, -0.0, 5e-324, -5e-324, 2.2250738585072014e-308, 2.225073858507201e-308,
                                 1.7976931348623157e308, -1.7976931348623157e308, 9007199254740993.0, 0.1, 0.3,
                                 9.999999999999999e22, 1e23, 8.41e21, 2.0 ** -1074, 2.0 ** -1022, 1.0 - 2.0 ** -53,
                                 5e-324 * 3, 1 / 3, 2 / 3, 123456789.12345679, 4.35, 0.30000000000000004]))
    if m == 4:   # neighbours of short decimals
        base = float(rng.choice([0.1, 0.5, 1.0, 1e10, 1e-10, 299792458.0, 1e22, 1e-5])) * float(rng.integers(1, 10))
        return float(np.nextafter(base, rng.choice([-np.inf, np.inf])))
    if m == 5:   # UTM-like coordinates
        return float(rng.uniform(1e5, 6e6))
    if m == 6:   # powers of two and their neighbours
        e = int(rng.integers(-1070, 1020))
        return float(np.nextafter(2.0 ** e, rng.choice([-np.inf, np.inf, 2.0 ** e])))
    if m == 7:
        return float(rng.normal(0, 1e3))
    return float(rng.integers(-1000, 1000))


def epoch_stamps(rng, n):
    t0 = float(rng.integers(1_200_000_000, 1_900_000_000))
    steps = rng.integers(1, 2_000_000_000, n).astype(float) * 1e-9
    return np.unique(t0 + np.cumsum(steps))


def unit_quats(rng, n):
    q = rng.normal(0, 1, (n, 4))
    q /= np.linalg.norm(q, axis=1)[:, None]
    k = rng.integers(0, 12, n)
    q[k == 0] = [1.0, 0.0, 0.0, 0.0]
    q[k == 1] = [0.0, -0.0, 1.0, 0.0]
    q[k == 2] = [math.sqrt(0.5), 0.0, 0.0, -math.sqrt(0.5)]
    return q


def gen_tum_arrays(seed, n, style):
    rng = np.random.default_rng([seed, 606])
    if style == "epoch":
        st = epoch_stamps(rng, n)
        while len(st) < n:
            st = np.unique(np.concatenate([st, epoch_stamps(rng, n)]))
        st = st[:n]
    elif style == "small":
        st = np.cumsum(rng.uniform(1e-4, 1.0, n))
    else:
        st = np.sort(np.array([abs(hard_scalar(rng, int(rng.choice([0, 1, 3, 5, 7])))) for _ in range(n)]))
    xyz = np.array([[hard_scalar(rng) for _ in range(3)] for _ in range(n)]) if style != "small" else rng.normal(0, 10, (n, 3))
    q = unit_quats(rng, n)
    if style == "hardquat":
        q = np.array([[hard_scalar(rng, int(rng.choice([0, 2, 3, 4, 6]))) for _ in range(4)] for _ in range(n)])
    return st.astype(float), xyz.astype(float), q.astype(float)


def gen_kitti_poses(seed, n, style):
    rng = np.random.default_rng([seed, 607])
    poses = []
    for _ in range(n):
        m = np.eye(4)
        if style == "arbitrary":
            m[:3, :] = np.array([[hard_scalar(rng) for _ in range(4)] for _ in range(3)])
        else:
            qm, _ = np.linalg.qr(rng.normal(0, 1, (3, 3)))
            if np.linalg.det(qm) < 0:
                qm[:, 0] *= -1
            m[:3, :3] = qm
            m[:3, 3] = [hard_scalar(rng) for _ in range(3)]
        poses.append(m)
    return poses


def tum_arrays(case):
    if "gen" in case:
        g = case["gen"]
        return gen_tum_arrays(g["seed"], g["n"], g["style"])
    d = case["data"]
    return (np.array([unhex(x) for x in d["stamps"]], dtype=float),
            np.array([[unhex(x) for x in r] for r in d["xyz"]], dtype=float).reshape(-1, 3),
            np.array([[unhex(x) for x in r] for r in d["quat"]], dtype=float).reshape(-1, 4))


def kitti_poses(case):
    if "gen" in case:
        g = case["gen"]
        return gen_kitti_poses(g["seed"], g["n"], g["style"])
    return [np.array([unhex(x) for x in p], dtype=float).reshape(4, 4) for p in case["data"]["poses"]]


def n_poses(case):
    if case.get("kind") == "clibag":
        return sum(n_poses(t[2]) for t in case["topics"])
    if "gen" in case:
        return case["gen"]["n"]
    d = case["data"]
    return len(d["stamps"]) if "stamps" in d else len(d["poses"])


def tokens_of_text(text):
    return [[hexf(float(t)) for t in line.split(" ")] for line in text.split("\n") if line != ""]


# ------------------------------------------------------------------ implementation side
def _set_tokens(out, raw):
    """the written file as rows of binary64 tokens for the model; a file that is not such a table is recorded, not raised"""
    try:
        out["tokens"] = tokens_of_text(raw.decode("utf-8"))
    except Exception as e:  # noqa
        out["garbled"] = "%s: %s" % (type(e).__name__, str(e)[:120])


def _first_diff(names, want, got):
    for nm, w, g in zip(names, want, got):
        w = np.asarray(w, dtype=float)
        g = np.asarray(g, dtype=float)
        if w.shape != g.shape:
            return "%s: shape %r written, %r read" % (nm, w.shape, g.shape)
        bad = np.nonzero(w.view(np.uint64).ravel() != g.view(np.uint64).ravel())[0] if w.size else []
        if len(bad):
            i = int(bad[0])
            return "%s[%d]: written %s (%r), read %s (%r)" % (nm, i, hexf(w.ravel()[i]), float(w.ravel()[i]),
                                                               hexf(g.ravel()[i]), float(g.ravel()[i]))
    return None


def _io_variant(variant, d, fname, writer, reader, obj, binary=False, prior=None):
    """write obj with the given path/handle variant, read it back; returns (read object, raw file content).
    prior: a DIFFERENT object that is first saved to the same path and loaded (same variant) before obj is saved over it -
    'saving and loading it again yields the same data' also holds for the second save to a path within one process"""
    p = os.path.join(d, fname)
    if prior is not None and variant != "memory":
        _io_variant(variant, d, fname, writer, reader, prior, binary=binary)
    if variant == "str":
        writer(p, obj)
        raw = open(p, "rb").read()
        return reader(p), raw
    if variant == "pathlib":
        writer(Path(p), obj)
        raw = open(p, "rb").read()
        return reader(Path(p)), raw
    if variant == "handle":
        with open(p, "wb" if binary else "w") as f:
            writer(f, obj)
        raw = open(p, "rb").read()
        with open(p, "rb" if binary else "r") as f:
            return reader(f), raw
    if variant == "memory":
        buf = io.BytesIO() if binary else io.StringIO()
        writer(buf, obj)
        raw = buf.getvalue() if binary else buf.getvalue().encode("utf-8")
        return reader(io.BytesIO(raw) if binary else io.StringIO(raw.decode("utf-8"))), raw
    raise ValueError(variant)


def impl_tum(case):
    from evo.tools import file_interface as fi
    from evo.core.trajectory import PoseTrajectory3D
    st, xyz, q = tum_arrays(case)
    traj = PoseTrajectory3D(xyz.copy(), q.copy(), st.copy())
    prior = None
    if case.get("prior") is not None:
        pst, pxyz, pq = tum_arrays(case["prior"])
        prior = PoseTrajectory3D(pxyz, pq, pst)
    d = tempfile.mkdtemp(prefix="c06_")
    try:
        r, raw = _io_variant(case["variant"], d, "traj_ü.tum", fi.write_tum_trajectory_file, fi.read_tum_trajectory_file, traj,
                             prior=prior)
    except Exception as e:  # noqa
        return {"error": type(e).__name__ + ": " + str(e)[:200]}
    finally:
        shutil.rmtree(d, ignore_errors=True)
    out = {"n_read": int(r.num_poses), "type": type(r).__name__,
           "diff": _first_diff(["timestamps", "positions_xyz", "orientations_quat_wxyz"], [st, xyz, q],
                               [r.timestamps, r.positions_xyz, r.orientations_quat_wxyz]),
           "input_unchanged": arr_bits_equal(traj.timestamps, st) and arr_bits_equal(traj.positions_xyz, xyz)
           and arr_bits_equal(traj.orientations_quat_wxyz, q)}
    if len(st) <= SMALL:
        _set_tokens(out, raw)
        out["read"] = [[hexf(r.timestamps[i]), [hexf(v) for v in r.positions_xyz[i]], [hexf(v) for v in r.orientations_quat_wxyz[i]]]
                       for i in range(r.num_poses)]
    return out


def impl_kitti(case):
    from evo.tools import file_interface as fi
    from evo.core.trajectory import PosePath3D
    poses = kitti_poses(case)
    path = PosePath3D(poses_se3=[p.copy() for p in poses])
    prior = PosePath3D(poses_se3=kitti_poses(case["prior"])) if case.get("prior") is not None else None
    d = tempfile.mkdtemp(prefix="c06_")
    try:
        r, raw = _io_variant(case["variant"], d, "poses.kitti", fi.write_kitti_poses_file, fi.read_kitti_poses_file, path,
                             prior=prior)
    except Exception as e:  # noqa
        return {"error": type(e).__name__ + ": " + str(e)[:200]}
    finally:
        shutil.rmtree(d, ignore_errors=True)
    got = [np.asarray(p, dtype=float) for p in r.poses_se3]
    out = {"n_read": len(got), "type": type(r).__name__,
           "diff": _first_diff(["pose %d" % i for i in range(len(poses))], poses, got) if len(got) == len(poses) else "pose count",
           "input_unchanged": all(arr_bits_equal(a, b) for a, b in zip(path.poses_se3, poses))}
    if len(poses) <= SMALL:
        _set_tokens(out, raw)
        out["read"] = [[hexf(v) for v in p.ravel()] for p in got]
    return out


def _build_result(case):
    from evo.core import result
    from evo.core.trajectory import PoseTrajectory3D, PosePath3D
    d = case["data"]
    r = result.Result()
    r.info = copy.deepcopy(d["info"])
    r.stats = {k: unhex(v) for k, v in d["stats"]}
    for k, a in d["arrays"]:
        r.add_np_array(k, np.array([unhex(x) for x in a], dtype=float))
    for name, t in d["trajs"]:
        if t["type"] == "tum":
            st, xyz, q = tum_arrays(t)
            r.add_trajectory(name, PoseTrajectory3D(xyz, q, st))
        else:
            r.add_trajectory(name, PosePath3D(poses_se3=kitti_poses(t)))
    return r


def _same_f64(got, want):
    """the identical float64 value (bit for bit); something that is not a number at all is never the same"""
    try:
        return bits(got) == bits(want)
    except (TypeError, ValueError):
        return False


def _hexf_or_repr(v):
    try:
        return hexf(v)
    except (TypeError, ValueError):
        return repr(v)


def _member_class(name):
    if name == "info.json":
        return 0, "info"
    if name == "stats.json":
        return 1, "stats"
    for suffix, code in ((".npy", 2), (".npz", 2), (".tum", 3), (".kitti", 4)):
        if name.endswith(suffix):
            return code, name[:-len(suffix)]
    return None, name


def _parse_member(code, stem, data, dd):
    if code == 0:
        return [0, stem, "info", json.loads(data.decode("utf-8")) == dd["info"]]
    if code == 1:
        toks = json.loads(data.decode("utf-8"), parse_float=lambda s: ("tok", s), parse_int=lambda s: ("tok", s),
                          parse_constant=lambda s: ("tok", s))
        return [1, stem, "stats", [[k, hexf(float(v[1]))] for k, v in toks.items()]]
    if code == 2:
        a = np.load(io.BytesIO(data))
        return [2, stem, "npy", [hexf(x) for x in np.asarray(a, dtype=float).ravel()]]
    if code in (3, 4):
        return [code, stem, "text", tokens_of_text(data.decode("utf-8"))]
    return [9, stem, "unknown", None]


def impl_res(case):
    from evo.tools import file_interface as fi
    r = _build_result(case)
    lt = bool(case["load_trajectories"])
    d = tempfile.mkdtemp(prefix="c06_")
    try:
        got, raw = _io_variant(case["variant"], d, "res_é.zip", fi.save_res_file,
                               lambda p: fi.load_res_file(p, load_trajectories=lt), r, binary=True)
    except Exception as e:  # noqa
        return {"error": type(e).__name__ + ": " + str(e)[:200]}
    finally:
        shutil.rmtree(d, ignore_errors=True)
    dd = case["data"]
    diff = None
    if got.info != dd["info"]:
        diff = "info differs: %r" % (got.info,)
    elif list(got.stats.keys()) != [k for k, _ in dd["stats"]] or any(not _same_f64(got.stats[k], unhex(v)) for k, v in dd["stats"]):
        bad = [(k, _hexf_or_repr(got.stats.get(k)), v) for k, v in dd["stats"] if k not in got.stats or not _same_f64(got.stats[k], unhex(v))]
        diff = "stats differ: %r%s" % ([(k, _hexf_or_repr(v)) for k, v in got.stats.items()],
                                       "; first: statistic %r saved as %s came back as %s" % (bad[0][0], bad[0][2], bad[0][1]) if bad else "")
    elif list(got.np_arrays.keys()) != [k for k, _ in dd["arrays"]]:
        diff = "array names differ: %r" % (list(got.np_arrays.keys()),)
    else:
        for k, a in dd["arrays"]:
            g = got.np_arrays[k]
            if g.dtype != np.float64 or not arr_bits_equal(g, [unhex(x) for x in a]):
                diff = "array %r differs" % k
    want_tr = dict(dd["trajs"]) if lt else {}
    if diff is None and set(got.trajectories.keys()) != set(want_tr.keys()):
        diff = "trajectory names differ: %r" % (list(got.trajectories.keys()),)
    tv = []
    if diff is None:
        for name, tr in got.trajectories.items():
            t = want_tr[name]
            if t["type"] == "tum":
                st, xyz, q = tum_arrays(t)
                if type(tr).__name__ != "PoseTrajectory3D":
                    diff = "trajectory %r came back as %s" % (name, type(tr).__name__)
                    break
                diff = _first_diff([name + ".timestamps", name + ".positions_xyz", name + ".orientations_quat_wxyz"], [st, xyz, q],
                                   [tr.timestamps, tr.positions_xyz, tr.orientations_quat_wxyz])
                tv.append([name, 0, [[hexf(tr.timestamps[i]), [hexf(v) for v in tr.positions_xyz[i]],
                                      [hexf(v) for v in tr.orientations_quat_wxyz[i]]] for i in range(tr.num_poses)], []])
            else:
                poses = kitti_poses(t)
                if type(tr).__name__ != "PosePath3D":
                    diff = "trajectory %r came back as %s" % (name, type(tr).__name__)
                    break
                gp = [np.asarray(p, dtype=float) for p in tr.poses_se3]
                diff = _first_diff([name + ".pose %d" % i for i in range(len(poses))], poses, gp) if len(gp) == len(poses) else name + ": pose count"
                tv.append([name, 1, [], [[hexf(v) for v in p.ravel()] for p in gp]])
            if diff:
                break
    out = {"diff": diff}
    # the archive as written, for the model
    # (a member that evo wrote but that cannot be parsed as what its name says is recorded as "garbled", never raised:
    # what evo writes is the implementation's output, not the harness's)
    members = []
    with zipfile.ZipFile(io.BytesIO(raw)) as z:
        for name in z.namelist():
            code, stem = _member_class(name)
            try:
                members.append(_parse_member(code, stem, z.read(name), dd))
            except Exception as e:  # noqa
                members.append([code if code is not None else 9, stem, "garbled", "%s: %s" % (type(e).__name__, str(e)[:120])])
    out["members"] = members
    out["loaded"] = {"stats": [[k, _hexf_or_repr(v)] for k, v in got.stats.items()],
                     "arrays": [[k, [hexf(x) for x in np.asarray(a, dtype=float).ravel()]] for k, a in got.np_arrays.items()],
                     "trajs": tv}
    return out


def impl_df(case):
    from evo.tools import pandas_bridge as pb
    from evo.core.trajectory import PoseTrajectory3D, PosePath3D
    st, xyz, q = tum_arrays(case)
    as_type = {"none": None, "path": PosePath3D, "traj": PoseTrajectory3D}[case["as_type"]]
    try:
        src = PoseTrajectory3D(xyz.copy(), q.copy(), st.copy()) if case["source"] == "traj" else PosePath3D(xyz.copy(), q.copy())
        df = pb.trajectory_to_df(src)
        back = pb.df_to_trajectory(df, as_type)
    except Exception as e:  # noqa
        return {"error": type(e).__name__ + ": " + str(e)[:200]}
    names, want, got = ["positions_xyz", "orientations_quat_wxyz"], [xyz, q], [back.positions_xyz, back.orientations_quat_wxyz]
    want_type = "PoseTrajectory3D" if (case["source"] == "traj" and case["as_type"] != "path") else "PosePath3D"
    if type(back).__name__ == "PoseTrajectory3D":
        names.append("timestamps")
        want.append(st)
        got.append(back.timestamps)
    out = {"type": type(back).__name__, "want_type": want_type, "n_read": int(back.num_poses), "diff": _first_diff(names, want, got)}
    if len(st) <= SMALL:
        out["df_cols"] = [[str(c), [hexf(v) for v in df[c].to_numpy()]] for c in df.columns]
        if df.index.dtype == np.int_:
            out["df_index"] = [0, len(df.index), [], bool((df.index.to_numpy() == np.arange(len(df.index))).all())]
        else:
            out["df_index"] = [1, 0, [hexf(v) for v in df.index.to_numpy()], True]
        tr = [[hexf(back.timestamps[i]) if type(back).__name__ == "PoseTrajectory3D" else None,
               [hexf(v) for v in back.positions_xyz[i]], [hexf(v) for v in back.orientations_quat_wxyz[i]]]
              for i in range(back.num_poses)]
        out["back"] = tr
    return out


def impl_bag(case):
    from evo.tools import file_interface as fi
    from evo.core.trajectory import PoseTrajectory3D
    from rosbags.rosbag1 import Reader, Writer
    from rosbags.typesys import get_typestore, Stores
    st, xyz, q = tum_arrays(case)
    traj = PoseTrajectory3D(xyz.copy(), q.copy(), st.copy())
    frame = case.get("frame_id", "map")
    d = tempfile.mkdtemp(prefix="c06_")
    p = os.path.join(d, "t.bag")
    try:
        w = Writer(p)
        w.open()
        fi.write_bag_trajectory(w, traj, "/traj", frame)
        w.close()
        rd = Reader(p)
        rd.open()
        back = fi.read_bag_trajectory(rd, "/traj")
        ts = get_typestore(Stores.ROS1_NOETIC)
        raw_stamps = []
        for conn, _, rawdata in rd.messages(connections=[c for c in rd.connections if c.topic == "/traj"]):
            msg = ts.deserialize_ros1(rawdata, conn.msgtype)
            raw_stamps.append([int(msg.header.stamp.sec), int(msg.header.stamp.nanosec)])
        rd.close()
    except Exception as e:  # noqa
        return {"error": type(e).__name__ + ": " + str(e)[:200]}
    finally:
        shutil.rmtree(d, ignore_errors=True)
    worst = None
    for a, b in zip(st, back.timestamps):
        err = abs(Fraction(float(a)) - Fraction(float(b)))
        slack = Fraction(1, 10 ** 9) * (1 + Fraction(1, 10 ** 6)) + Fraction(float(np.spacing(a)))
        if err > slack and worst is None:
            worst = "stamp %s (%r) re-read as %s (%r)" % (hexf(a), float(a), hexf(b), float(b))
    # the header stamp itself (sec, nanosec) must be within one nanosecond of the float64 stamp (exact arithmetic)
    for a, (sec, nsec) in zip(st, raw_stamps):
        err = abs(Fraction(float(a)) - (Fraction(sec) + Fraction(nsec, 10 ** 9)))
        if err > Fraction(1, 10 ** 9) * (1 + Fraction(1, 10 ** 6)) and worst is None:
            worst = "stamp %s (%r) exported as sec=%d nanosec=%d (off by %.3g ns)" % (hexf(a), float(a), sec, nsec, float(err) * 1e9)
    return {"n_read": int(back.num_poses), "frame_id": back.meta.get("frame_id"),
            "diff": _first_diff(["positions_xyz", "orientations_quat_wxyz"], [xyz, q], [back.positions_xyz, back.orientations_quat_wxyz]),
            "stamp_diff": worst, "sec_nsec": raw_stamps, "reread": [hexf(v) for v in back.timestamps]}


def _stamp_slack_diff(want, got, what):
    """first stamp of got that is further than one nanosecond (+ the spacing of doubles there) from want, or None"""
    for a, b in zip(want, got):
        err = abs(Fraction(float(a)) - Fraction(float(b)))
        slack = Fraction(1, 10 ** 9) * (1 + Fraction(1, 10 ** 6)) + Fraction(float(np.spacing(a)))
        if err > slack:
            return "%s: stamp %s (%r) re-read as %s (%r)" % (what, hexf(a), float(a), hexf(b), float(b))
    return None


def impl_clibag(case):
    """end to end: a ROS1 bag with one PoseStamped topic per entry of case['topics'] (each in its own frame) is written,
    'evo_traj bag in.bag <est topics> [--ref <topic>] --save_as_bag' is run (main_traj_parser + main_traj.run, scratch working
    directory), and the exported bag is re-read topic by topic: poses bit for bit, stamps within 1 ns, the topic's own frame id"""
    from evo.tools import file_interface as fi
    from evo.core.trajectory import PoseTrajectory3D
    from rosbags.rosbag1 import Reader, Writer
    from evo import main_traj, main_traj_parser
    d = tempfile.mkdtemp(prefix="c06_cli_")
    cwd = os.getcwd()
    written = {}
    try:
        os.chdir(d)
        w = Writer("in.bag")
        w.open()
        try:
            for topic, frame, t in case["topics"]:
                st, xyz, q = tum_arrays(t)
                written[topic] = (st, xyz, q, frame)
                fi.write_bag_trajectory(w, PoseTrajectory3D(xyz.copy(), q.copy(), st.copy()), topic, frame)
        finally:
            w.close()
        # the trajectories evo_traj is going to load and export (the input bag as evo reads it)
        loaded = {}
        with Reader("in.bag") as rd:
            for topic in written:
                loaded[topic] = fi.read_bag_trajectory(rd, topic)
        argv = ["bag", "in.bag"] + (["--all_topics"] if case.get("all_topics") else list(case["est"]))
        if case.get("ref"):
            argv += ["--ref", case["ref"]]
        argv += ["--save_as_bag", "--silent"] + list(case.get("extra", []))
        try:
            main_traj.run(main_traj_parser.parser().parse_args(argv))
        except SystemExit as e:
            return {"error": "evo_traj exited: SystemExit(%r)" % (e.code,), "argv": argv}
        new = sorted(f for f in os.listdir(d) if f.endswith(".bag") and f != "in.bag")
        if len(new) != 1:
            return {"error": "expected one exported bag, found %r" % (new,), "argv": argv}
        exported = list(case["est"]) + ([case["ref"]] if case.get("ref") else [])
        per_topic = []
        with Reader(new[0]) as rd:
            have = sorted({c.topic for c in rd.connections})
            for topic in exported:
                st, xyz, q, frame = written[topic]
                if topic not in have:
                    per_topic.append({"topic": topic, "missing": True, "frame_written": frame})
                    continue
                back = fi.read_bag_trajectory(rd, topic)
                n_ok = int(back.num_poses) == len(st)
                diff = sdiff = None
                if n_ok:
                    diff = _first_diff(["positions_xyz", "orientations_quat_wxyz"], [xyz, q],
                                       [back.positions_xyz, back.orientations_quat_wxyz])
                    sdiff = (_stamp_slack_diff(loaded[topic].timestamps, back.timestamps, "exported trajectory")
                             or _stamp_slack_diff(st, loaded[topic].timestamps, "input bag"))
                per_topic.append({"topic": topic, "missing": False, "n_written": len(st), "n_read": int(back.num_poses),
                                  "is_ref": topic == case.get("ref"),
                                  "frame_written": frame, "frame_loaded": loaded[topic].meta.get("frame_id"),
                                  "frame_read": back.meta.get("frame_id"), "diff": diff, "stamp_diff": sdiff})
        return {"argv": argv, "topics_in_export": have, "per_topic": per_topic}
    except Exception as e:  # noqa
        return {"error": type(e).__name__ + ": " + str(e)[:200]}
    finally:
        os.chdir(cwd)
        shutil.rmtree(d, ignore_errors=True)


def impl(case):
    if case["kind"] == "clibag":
        return impl_clibag(case)
    return {"tum": impl_tum, "kitti": impl_kitti, "res": impl_res, "df": impl_df, "bag": impl_bag}[case["kind"]](case)


# ------------------------------------------------------------------ model side
ID_FN = "(fun x : PrimFloat.float => x)"
SOME_FN = "(fun x : PrimFloat.float => Some x)"


def _cfl(xs):
    return cflist(unhex(x) for x in xs)


def _ctp_list(st, xyz, q):
    return "[" + "; ".join("mkTP %s %s %s" % (cf(s), cflist(x), cflist(qq)) for s, x, qq in zip(st, xyz, q)) + "]"


def _crows(rows):
    return "[" + "; ".join(_cfl(r) for r in rows) + "]"


def _cposes(poses):
    return "[" + "; ".join(cflist(np.asarray(p, dtype=float).ravel()) for p in poses) + "]"


class Names:
    """opaque names (unicode, dots) -> ASCII identifiers for the Coq side"""
    def __init__(self):
        self.m = {}

    def __call__(self, s):
        if s not in self.m:
            self.m[s] = "n%d" % len(self.m)
        return cstr(self.m[s])

    def back(self):
        return {v: k for k, v in self.m.items()}


def expr(case, out):
    k = case["kind"]
    if k == "clibag":      # end-to-end export through evo_traj: judged on the implementation only
        return "(0%nat, 0%nat)"
    small = n_poses(case) <= SMALL if k != "res" else True
    if "error" in out or not small or (k in ("tum", "kitti") and "tokens" not in out):
        return "(0%nat, 0%nat)"
    if k == "res" and any(m[2] == "garbled" for m in out["members"]):
        return "(0%nat, 0%nat)"
    if k == "tum":
        st, xyz, q = tum_arrays(case)
        return "(1%%nat, (write_tum %s %s, tps_view (read_tum %s %s)))" % (ID_FN, _ctp_list(st, xyz, q), SOME_FN, _crows(out["tokens"]))
    if k == "kitti":
        return "(1%%nat, (write_kitti %s %s, read_kitti %s %s))" % (ID_FN, _cposes(kitti_poses(case)), SOME_FN, _crows(out["tokens"]))
    if k == "df":
        st, xyz, q = tum_arrays(case)
        if case["source"] == "traj":
            fwd = "df_view (traj_to_df %s)" % _ctp_list(st, xyz, q)
        else:
            fwd = "df_view (path_to_df [%s])" % "; ".join("mkPP %s %s" % (cflist(x), cflist(qq)) for x, qq in zip(xyz, q))
        cols = "[" + "; ".join("(%s, %s)" % (cstr(c), _cfl(v)) for c, v in out["df_cols"]) + "]"
        kind, n, vals, _ = out["df_index"]
        idx = "IdxRange %s" % cnat(n) if kind == 0 else "IdxFloat %s" % _cfl(vals)
        return "(1%%nat, (%s, df_out_view (df_to_trajectory %s (mkDF %s (%s)))))" % (fwd, cbool(case["as_type"] == "path"), cols, idx)
    if k == "bag":
        st, _, _ = tum_arrays(case)
        return "(1%%nat, map F_bag %s)" % cflist(st)
    # res
    nm = Names()
    d = case["data"]

    def ctraj(t):
        if t["type"] == "tum":
            return "TrajT %s" % _ctp_list(*tum_arrays(t))
        return "TrajP %s" % _cposes(kitti_poses(t))
    res = "(mkRes 0%%nat [%s] [%s] [%s])" % (
        "; ".join("(%s, %s)" % (nm(k_), cf(unhex(v))) for k_, v in d["stats"]),
        "; ".join("(%s, %s)" % (nm(k_), _cfl(a)) for k_, a in d["arrays"]),
        "; ".join("(%s, %s)" % (nm(k_), ctraj(t)) for k_, t in d["trajs"]))
    mem = []
    for code, stem, kind, payload in out["members"]:
        e = ["EInfo", "EStats", "ENpy", "ETum", "EKitti"][code] if code < 5 else None
        if e is None:
            return "(0%nat, 0%nat)"
        if kind == "info":
            c = "CInfo 0%nat"
        elif kind == "stats":
            c = "CStats [%s]" % "; ".join("(%s, %s)" % (nm(k_), cf(unhex(v))) for k_, v in payload)
        elif kind == "npy":
            c = "CNpy %s" % _cfl(payload)
        else:
            c = "CText %s" % _crows(payload)
        mem.append("(%s, %s, %s)" % (e, cstr("info") if code == 0 else cstr("stats") if code == 1 else nm(stem), c))
    case["_names"] = nm.back()
    ar = "([%s] : list (member (T := PrimFloat.float) (Tok := PrimFloat.float) (I := nat)))" % "; ".join(mem)
    return ("(1%%nat, (map member_view (save_res %s %s %s), option_map res_view (load_res %s %s %s %s)))"
            % (ID_FN, ID_FN, res, SOME_FN, SOME_FN, cbool(case["load_trajectories"]), ar))


def _h(x):
    return hexf(x)


def _hl(xs):
    return [hexf(x) for x in xs]


def _unsome(v):
    return v[1] if isinstance(v, tuple) and len(v) == 2 and v[0] == "Some" else v


def judge(case, val, out):
    f = _judge(case, val, out)
    if f is not None and case.get("prior") is not None and f.get("kind") == "spec-violation":
        f["detail"] += (" [second save to this path in one process: a different trajectory of %d poses had been saved to and "
                        "loaded from the same path before]" % n_poses(case["prior"]))
    return f


def _judge(case, val, out):
    k = case["kind"]
    if "error" in out:
        return {"kind": "spec-violation", "failing_input": True, "detail": "writer/reader failed on a valid input: " + out["error"]}
    if k == "clibag":
        cmd = "evo_traj " + " ".join(out["argv"])
        for t in out["per_topic"]:
            role = "reference" if t.get("is_ref") else "estimate"
            if t["missing"]:
                return {"kind": "spec-violation", "failing_input": True,
                        "detail": "%s: topic %r is not in the exported bag (topics %r)" % (cmd, t["topic"], out["topics_in_export"])}
            if t["n_read"] != t["n_written"]:
                return {"kind": "spec-violation", "failing_input": True,
                        "detail": "%s: %s %r has %d poses in the input bag, %d in the exported bag" %
                        (cmd, role, t["topic"], t["n_written"], t["n_read"])}
            if t["diff"]:
                return {"kind": "spec-violation", "failing_input": True,
                        "detail": "%s: %s %r not bit-identical in the exported bag: %s" % (cmd, role, t["topic"], t["diff"])}
            if t["stamp_diff"]:
                return {"kind": "spec-violation", "failing_input": True,
                        "detail": "%s: %s %r time stamp off by more than 1 ns: %s" % (cmd, role, t["topic"], t["stamp_diff"])}
            if t["frame_read"] != t["frame_written"]:
                return {"kind": "spec-violation", "failing_input": True,
                        "detail": "%s: %s %r lives in frame %r in the input bag (loaded with frame_id %r) but is exported with "
                                  "frame id %r" % (cmd, role, t["topic"], t["frame_written"], t["frame_loaded"], t["frame_read"])}
        return None
    # ---- the property itself, on the implementation
    if out.get("input_unchanged") is False:
        return {"kind": "spec-violation", "failing_input": True, "detail": "the object handed to the writer was modified"}
    if k in ("tum", "kitti", "df", "bag") and out.get("n_read") != n_poses(case):
        return {"kind": "spec-violation", "failing_input": True,
                "detail": "%d poses written, %r read back" % (n_poses(case), out.get("n_read"))}
    if k == "df" and out["type"] != out["want_type"]:
        return {"kind": "spec-violation", "failing_input": True, "detail": "DataFrame came back as %s" % out["type"]}
    if out.get("diff"):
        return {"kind": "spec-violation", "failing_input": True, "detail": "not bit-identical after write+read: " + out["diff"]}
    if k == "bag":
        if out.get("stamp_diff"):
            return {"kind": "spec-violation", "failing_input": True, "detail": "bag time stamp off by more than 1 ns: " + out["stamp_diff"]}
        if out.get("frame_id") != case.get("frame_id", "map"):
            return {"kind": "spec-violation", "failing_input": True, "detail": "frame id %r read back as %r" % (case.get("frame_id"), out.get("frame_id"))}
    # ---- model correspondence (small cases)
    def mvi(what, detail):
        return {"kind": "model-vs-impl", "failing_input": False, "correspondence": what, "detail": detail}
    if out.get("garbled"):
        return mvi("FileFmt.write_" + k, "the written file is not a space separated table of numbers (%s)" % out["garbled"])
    if k == "res":
        for code, stem, kind, payload in out["members"]:
            if kind == "garbled":
                return mvi("FileFmt.save_res", "archive member %r (class %r) as written by save_res_file cannot be parsed: %s; "
                           "the model writes one row of numbers per pose" % (stem, code, payload))
    flag, body = val
    if flag == 0:
        return None
    if k == "tum":
        w, r = body
        if [_hl(row) for row in w] != out["tokens"]:
            return mvi("FileFmt.write_tum", "file content differs from the model's rows (column order / count)")
        r = _unsome(r)
        if r is None or [[_h(s), _hl(x), _hl(q)] for s, x, q in r] != out["read"]:
            return mvi("FileFmt.read_tum", "reader output differs from the model applied to the written file")
        return None
    if k == "kitti":
        w, r = body
        if [_hl(row) for row in w] != out["tokens"]:
            return mvi("FileFmt.write_kitti", "file content differs from the model's rows (entry order / count)")
        r = _unsome(r)
        if r is None or [_hl(p) for p in r] != out["read"]:
            return mvi("FileFmt.read_kitti", "reader output differs from the model applied to the written file")
        return None
    if k == "df":
        cols, idx, back = body
        if [[c, _hl(v)] for c, v in cols] != out["df_cols"]:
            return mvi("FileFmt.traj_to_df", "DataFrame columns differ from the model")
        ik, n, vals = idx
        rk, rn, rvals, arange_ok = out["df_index"]
        if (ik, n, _hl(vals)) != (rk, rn, rvals) or not arange_ok:
            return mvi("FileFmt.traj_to_df", "DataFrame index differs from the model")
        bk, trs, pps = back
        if bk == 0:
            got = [[_h(s), _hl(x), _hl(q)] for s, x, q in trs]
        else:
            got = [[None, _hl(x), _hl(q)] for x, q in pps]
        if got != out["back"] or (bk == 0) != (out["type"] == "PoseTrajectory3D"):
            return mvi("FileFmt.df_to_trajectory", "df_to_trajectory differs from the model")
        return None
    if k == "bag":
        for (sec, nsec, back), (isec, insec), ire in zip(body, out["sec_nsec"], out["reread"]):
            if float(sec) != isec or float(nsec) != insec or _h(back) != ire:
                return mvi("FileFmt.F_bag", "sec/nanosec/re-read stamp differ from the model: model %r, impl %r" %
                           ((sec, nsec, _h(back)), (isec, insec, ire)))
        return None
    # res
    names = case.get("_names", {})
    saved, loaded = body
    want = []
    for code, stem, kind, payload in out["members"]:
        if kind == "info" and payload is not True:
            return {"kind": "spec-violation", "failing_input": True, "detail": "info.json does not hold the info dict"}
        want.append((code, stem))
    got_members = []
    for code, nm, cv in saved:
        ck, info, stats, arr, rows = cv
        got_members.append((code, names.get(nm, nm)))
    if got_members != want:
        return mvi("FileFmt.save_res", "archive members %r differ from the model %r" % (want, got_members))
    for (code, nm, cv), (_, stem, kind, payload) in zip(saved, out["members"]):
        ck, info, stats, arr, rows = cv
        ok = True
        if kind == "stats":
            ok = [[names.get(a, a), _h(b)] for a, b in stats] == payload
        elif kind == "npy":
            ok = _hl(arr) == payload
        elif kind == "text":
            ok = [_hl(r) for r in rows] == payload
        if not ok:
            return mvi("FileFmt.save_res", "content of member %r differs from the model" % stem)
    loaded = _unsome(loaded)
    if loaded is None:
        return mvi("FileFmt.load_res", "model refuses the archive that evo loaded")
    info, stats, arrays, trajs = loaded
    L = out["loaded"]
    if [[names.get(a, a), _h(b)] for a, b in stats] != L["stats"] or [[names.get(a, a), _hl(b)] for a, b in arrays] != L["arrays"]:
        return mvi("FileFmt.load_res", "loaded stats/arrays (values or order) differ from the model")
    mt = []
    for nm, (tk, tps, poses) in trajs:
        mt.append([names.get(nm, nm), tk, [[_h(s), _hl(x), _hl(q)] for s, x, q in tps], [_hl(p) for p in poses]])
    if mt != L["trajs"]:
        return mvi("FileFmt.load_res", "loaded trajectories (values or order) differ from the model")
    return None


def nontrivial(case, val, out):
    return "error" not in out and (case["kind"] == "res" or n_poses(case) >= 2)


def shrink(case):
    if case.get("kind") == "clibag":
        for i, name in enumerate(case["est"] if len(case["est"]) > 1 else []):   # fewer estimate topics (evo_traj needs one)
            c = copy.deepcopy(case)
            del c["est"][i]
            c["topics"] = [t for t in c["topics"] if t[0] != name]
            yield c
        if case.get("extra"):
            c = copy.deepcopy(case)
            c["extra"] = []
            yield c
        for i, t in enumerate(case["topics"]):          # fewer poses
            if "gen" in t[2] and t[2]["gen"]["n"] > 1:
                c = copy.deepcopy(case)
                c["topics"][i][2]["gen"]["n"] = max(1, t[2]["gen"]["n"] // 2)
                yield c
        return
    if case.get("prior") is not None:
        c = copy.deepcopy(case)
        del c["prior"]
        yield c
        if "gen" in case["prior"]:
            for n in sorted({1, 2} - {case["prior"]["gen"]["n"]}):
                c = copy.deepcopy(case)
                c["prior"]["gen"]["n"] = n
                yield c
    if "gen" in case and case["kind"] != "res":
        g = case["gen"]
        for n in sorted({1, 2, 3, g["n"] // 2, g["n"] // 10} - {0, g["n"]}):
            c = copy.deepcopy(case)
            c["gen"]["n"] = n
            yield c
        return
    if case["kind"] == "res":
        d = case["data"]
        for key in ("stats", "arrays", "trajs"):
            for i in range(len(d[key])):
                c = copy.deepcopy(case)
                del c["data"][key][i]
                yield c
        return
    d = case.get("data", {})
    n = n_poses(case)
    if n > 1:
        for lo, hi in ((0, n // 2), (n // 2, n)):
            c = copy.deepcopy(case)
            for key in ("stamps", "xyz", "quat", "poses"):
                if key in d:
                    c["data"][key] = d[key][lo:hi]
            yield c


# ------------------------------------------------------------------ generators
VARIANTS = ["str", "pathlib", "handle", "memory"]


def data_case(kind, variant, st, xyz, q, **kw):
    c = {"kind": kind, "variant": variant,
         "data": {"stamps": [hexf(x) for x in st], "xyz": [[hexf(v) for v in r] for r in xyz], "quat": [[hexf(v) for v in r] for r in q]}}
    c.update(kw)
    return c


def corpus():
    cs = []
    # epoch stamps with ns fractions: 8 significant digits / '%.9f' / centisecond rounding all destroy these
    st = [1403636580.838555574, 1403636580.843555450, 1403636580.848555565, 1700000000.000000001 + 0.5]
    xyz = [[4.688319, -1.786938, 0.783338], [1e-300, -1e300, 5e-324], [-0.0, 0.0, 123456789.12345679], [0.1, 0.2, 0.30000000000000004]]
    q = [[0.534108, -0.153029, -0.827383, -0.082152], [1.0, 0.0, -0.0, 0.0], [0.5, 0.5, 0.5, 0.5],
         [0.7071067811865476, 0.0, 0.7071067811865475, 0.0]]
    for v in VARIANTS:
        cs.append(data_case("tum", v, st, xyz, q))
    cs.append(data_case("tum", "str", [0.0], [[0.0, -0.0, 2.2250738585072014e-308]], [[1.0, 0.0, 0.0, 0.0]]))
    cs.append(data_case("df", "none", st, xyz, q, source="traj", as_type="none"))
    cs.append(data_case("df", "none", st, xyz, q, source="traj", as_type="path"))
    cs.append(data_case("df", "none", st, xyz, q, source="path", as_type="none"))
    cs.append(data_case("df", "none", st, xyz, q, source="path", as_type="traj"))
    # float timestamps that LOOK like a default RangeIndex (0.0, 1.0, ..): still a trajectory with timestamps
    cs.append(data_case("df", "none", [0.0, 1.0, 2.0, 3.0], xyz, q, source="traj", as_type="none"))
    cs.append(data_case("df", "none", [0.0], xyz[:1], q[:1], source="traj", as_type="none"))
    cs.append(data_case("df", "none", [5.0, 6.0, 7.0, 8.0], xyz, q, source="traj", as_type="none"))
    cs.append(data_case("bag", "str", sorted(st + [0.999999999, 1.0, 2147483647.999999, 0.0, 1e-9, 123.000000001]), xyz + xyz[:2] + xyz,
                        q + q[:2] + q, frame_id="map_é"))
    for v in VARIANTS:
        cs.append({"kind": "kitti", "variant": v, "gen": {"seed": 1, "n": 3, "style": "rot"}})
    cs.append({"kind": "kitti", "variant": "str", "gen": {"seed": 2, "n": 2, "style": "arbitrary"}})
    info = {"title": "APE w.r.t. translation part (m) – ünïcode ✓", "label": "日本語", "est_name": "/tmp/é st.txt",
            "ref_name": "réf", "nested": {"a": [1, 2.5, "x"], "b": None, "c": True}}
    stats = [["rmse", hexf(0.1)], ["mean", hexf(1 / 3)], ["max", hexf(1.7976931348623157e308)], ["min", hexf(5e-324)],
             ["std", hexf(-0.0)], ["σ", hexf(123456789.12345679)]]
    arrays = [["error_array", [hexf(x) for x in (0.1, 0.2, 0.30000000000000004, 1e-300, 1e300)]], ["timestamps", [hexf(x) for x in st]],
              ["empty", []], ["dotted.name", [hexf(2.0 ** -1074)]]]
    trajs = [["traj_est", {"type": "tum", "gen": {"seed": 3, "n": 3, "style": "epoch"}}],
             ["path.kitti_like", {"type": "kitti", "gen": {"seed": 4, "n": 2, "style": "rot"}}],
             ["réf", {"type": "tum", "gen": {"seed": 5, "n": 2, "style": "hard"}}]]
    for v in VARIANTS:
        for lt in (True, False):
            cs.append({"kind": "res", "variant": v, "load_trajectories": lt,
                       "data": {"info": info, "stats": stats, "arrays": arrays, "trajs": trajs}})
    cs.append({"kind": "res", "variant": "str", "load_trajectories": True, "data": {"info": {}, "stats": [], "arrays": [], "trajs": []}})
    cs.extend(res_order_cases())
    cs.extend(overwrite_cases())
    cs.extend(clibag_cases())
    return cs


def _clibag(topics, est, ref, extra=(), all_topics=False):
    """est: the estimate topics named on the command line (all_topics: --all_topics instead; est then lists every other topic)"""
    return {"kind": "clibag", "variant": "evo_traj", "topics": [[t, f, {"gen": {"seed": sd, "n": n, "style": sty}}]
                                                                 for t, f, sd, n, sty in topics],
            "est": list(est), "ref": ref, "extra": list(extra), "all_topics": bool(all_topics)}


def clibag_cases():
    """evo_traj bag <in.bag> <topics> [--ref <topic>] --save_as_bag: every exported topic (estimates AND the reference) must
    carry its own poses, stamps and its own frame id - the topics of the input bag live in different frames"""
    return [
        _clibag([("/est", "odom", 11, 4, "epoch"), ("/ref", "world", 12, 5, "epoch")], ["/est"], "/ref"),
        _clibag([("/est", "odom", 13, 3, "small"), ("/ref", "", 14, 3, "small")], ["/est"], "/ref"),
        _clibag([("/est", "", 15, 2, "epoch"), ("/ref", "map", 16, 6, "epoch")], ["/est"], "/ref"),
        _clibag([("/a", "map", 17, 3, "epoch"), ("/b/pose", "base_link", 18, 2, "small"), ("/gt", "world/ü", 19, 4, "epoch")],
                ["/a", "/b/pose"], "/gt", ["--no_warnings"]),
        _clibag([("/gt", "world", 20, 4, "epoch"), ("/a", "odom", 21, 3, "epoch"), ("/b", "/robot1/odom", 22, 5, "epoch")],
                ["/b", "/a"], "/gt"),
        _clibag([("/a", "odom", 23, 3, "epoch"), ("/b", "map", 24, 4, "small")], ["/a", "/b"], None),
        _clibag([("/ref", "world", 25, 3, "epoch"), ("/z", "odom", 28, 2, "epoch"), ("/y", "map", 29, 3, "small")], ["/y", "/z"], "/ref",
                all_topics=True),
        _clibag([("/est", "world", 26, 1, "epoch"), ("/ref", "world", 27, 1, "epoch")], ["/est"], "/ref"),
    ]


def overwrite_cases():
    """save A to a path, load it, save a DIFFERENT trajectory B to the same path, load it again (one process, as a batch script
    or evo_traj --save_as_* overwriting a file does): the second load must be B bit for bit (more / fewer / as many poses as A)"""
    cs = []
    i = 0
    for kind, sa, sb in (("tum", "epoch", "hard"), ("kitti", "rot", "arbitrary")):
        for v in ("str", "pathlib", "handle"):
            for na, nb in ((3, 3), (5, 2), (2, 6), (1, 1)):
                cs.append({"kind": kind, "variant": v, "gen": {"seed": 700 + i, "n": nb, "style": sb},
                           "prior": {"gen": {"seed": 800 + i, "n": na, "style": sa}}})
                i += 1
    return cs


def _signed_tum(n, sign):
    """n poses whose coordinates and quaternion components all carry the given sign: same pose count, different text length"""
    st = [hexf(1403636580.5 + 0.25 * i) for i in range(n)]
    xyz = [[hexf(sign * (1.0 + i + 0.125 * j)) for j in range(3)] for i in range(n)]
    q = [[hexf(sign * 0.5)] * 4 for _ in range(n)]
    return {"type": "tum", "data": {"stamps": st, "xyz": xyz, "quat": q}}


def _signed_kitti(n, sign):
    poses = []
    for i in range(n):
        m = np.eye(4)
        m[:3, :] = sign * (1.0 + i + 0.0625 * np.arange(12).reshape(3, 4))
        poses.append([hexf(v) for v in m.ravel()])
    return {"type": "kitti", "data": {"poses": poses}}


def res_order_cases():
    """result archives with two (three) embedded trajectories / arrays whose serialised lengths differ, in both orders
    (reference + estimate as evo_ape/evo_rpe --save_results store them with save_traj_in_zip): every member must hold
    exactly its own trajectory whatever was written before it"""
    cs = []
    info = {"title": "two embedded trajectories", "ref_name": "ref.tum", "est_name": "est.tum"}
    stats = [["rmse", hexf(0.1)]]

    def gen(ty, seed, n):
        return {"type": ty, "gen": {"seed": seed, "n": n, "style": "epoch" if ty == "tum" else "rot"}}
    i = 0
    for ta in ("tum", "kitti"):
        for tb in ("tum", "kitti"):
            for na, nb in ((4, 1), (1, 4), (3, 2), (2, 3), (12, 5)):
                arrays = [["error_array", [hexf(0.1 * j) for j in range(na + 2)]], ["timestamps", [hexf(1.5 * j) for j in range(nb)]]]
                cs.append({"kind": "res", "variant": VARIANTS[i % 4], "load_trajectories": i % 5 != 4,
                           "data": {"info": info, "stats": stats, "arrays": arrays,
                                    "trajs": [["traj_ref", gen(ta, 40 + i, na)], ["traj_est", gen(tb, 80 + i, nb)]]}})
                i += 1
    # the same number of poses, only the count of minus signs differs (a few characters)
    for mk in (_signed_tum, _signed_kitti):
        for n in (1, 3):
            for sa, sb in ((-1.0, 1.0), (1.0, -1.0)):
                cs.append({"kind": "res", "variant": VARIANTS[i % 4], "load_trajectories": True,
                           "data": {"info": info, "stats": stats, "arrays": [], "trajs": [["traj_ref", mk(n, sa)], ["traj_est", mk(n, sb)]]}})
                i += 1
    # three trajectories long / short / middle, and the mixed pair with equal pose counts
    cs.append({"kind": "res", "variant": "memory", "load_trajectories": True,
               "data": {"info": info, "stats": stats, "arrays": [],
                        "trajs": [["a", gen("tum", 7, 5)], ["b", gen("kitti", 8, 1)], ["c", gen("tum", 9, 3)]]}})
    cs.append({"kind": "res", "variant": "str", "load_trajectories": True,
               "data": {"info": info, "stats": stats, "arrays": [], "trajs": [["a", _signed_kitti(2, -1.0)], ["b", _signed_tum(3, 1.0)]]}})
    return cs


def nonfinite_stats_cases(ctx):
    """metric results as evo_ape/evo_rpe compute them for valid trajectories with coordinate magnitudes of 1e154..1e300: the
    error values are finite but their squares overflow, so sse/rmse are +inf, from ~1e200 also mean/max = inf and std = nan.
    'for every ... statistic, the identical float64 value': inf, -inf and nan statistics come back as that float64."""
    rng = ctx.np_rng(31)
    cs = []
    NAN, INF = float("nan"), float("inf")
    patterns = [  # (rmse, mean, median, std, min, max, sse) shapes seen from evo at large magnitudes
        {"rmse": INF, "sse": INF}, {"rmse": INF, "sse": INF, "mean": INF, "max": INF, "std": NAN},
        {"rmse": INF, "sse": INF, "mean": INF, "max": INF, "min": INF, "median": INF, "std": NAN},
        {"std": NAN}, {"min": -INF}, {"rmse": NAN, "mean": NAN, "median": NAN, "std": NAN, "min": NAN, "max": NAN, "sse": NAN}]
    for i in range(ctx.n(36, 240)):
        ks = ["rmse", "mean", "median", "std", "min", "max", "sse"]
        mag = 10.0 ** float(rng.uniform(150, 300))
        stats = {k: float(abs(hard_scalar(rng, 0)) * mag) if rng.random() < 0.5 else abs(hard_scalar(rng)) for k in ks}
        stats.update(patterns[i % len(patterns)])
        keep = [k for k in ks if k in patterns[i % len(patterns)] or rng.random() < 0.7]
        if rng.random() < 0.3:
            rng.shuffle(keep)
        n = int(rng.integers(1, 6))
        arrays = [["error_array", [hexf(abs(hard_scalar(rng, 0)) * mag) for _ in range(n)]],
                  ["timestamps", [hexf(float(j)) for j in range(n)]]][:int(rng.integers(0, 3))]
        info = {"title": "APE w.r.t. translation part (m)", "est_name": "e%d" % i, "ref_name": "r"}
        cs.append({"kind": "res", "variant": VARIANTS[i % 4], "load_trajectories": bool(i % 2),
                   "data": {"info": info, "stats": [[k, hexf(stats[k])] for k in keep], "arrays": arrays, "trajs": []}})
    return cs


def surrogate_info_cases(ctx):
    """'unicode info strings': est_name / ref_name / title as evo_ape stores them for a file whose name is not valid UTF-8
    (os.fsdecode gives lone surrogates U+DC80..U+DCFF for the undecodable bytes), next to astral and other lone surrogates"""
    rng = ctx.np_rng(32)
    cs = []
    # file names as bytes (Latin-1 / truncated UTF-8 / arbitrary high bytes), decoded the way python hands them to evo
    raw = [b"est_caf\xe9.tum", b"/data/run\xff\xfe/traj.txt", b"\x80", b"a\xa0b", b"x\xbf", b"\xf0\x9f\x98\x80 ok\xe4",
           b"r\xc3\xa9f\xe9", b"\xc3", b"t\xe2\x82", b"K\xd6LN/\xfcbung.tum"]
    pieces = [b.decode("utf-8", "surrogateescape") for b in raw]
    for i in range(ctx.n(24, 160)):
        a, b = [pieces[int(j)] for j in rng.integers(0, len(pieces), 2)]
        info = {"title": "APE w.r.t. translation part (m) for " + a, "est_name": a, "ref_name": b, "label": "x"}
        if i % 3 == 0:
            info["nested"] = {"names": [a, b], "k": 1}
        if i % 4 == 1:
            info[b] = "key"
        stats = [["rmse", hexf(abs(hard_scalar(rng, 0)))], ["mean", hexf(abs(hard_scalar(rng, 0)))]]
        cs.append({"kind": "res", "variant": VARIANTS[i % 4], "load_trajectories": bool(i % 2),
                   "data": {"info": info, "stats": stats, "arrays": [["error_array", [hexf(0.5), hexf(0.25)]]], "trajs": []}})
    return cs


def random_cases(ctx):
    rng = ctx.np_rng(3)
    cs = []
    styles = ["epoch", "hard", "small", "hardquat"]
    for i in range(ctx.n(260, 1500)):
        n = int(rng.integers(1, 13)) if i % 7 else int(rng.integers(13, SMALL + 1))
        cs.append({"kind": "tum", "variant": VARIANTS[i % 4], "gen": {"seed": int(rng.integers(0, 2 ** 31)), "n": n, "style": styles[i % 4]}})
    for i in range(ctx.n(120, 800)):
        n = int(rng.integers(1, 10))
        cs.append({"kind": "kitti", "variant": VARIANTS[i % 4],
                   "gen": {"seed": int(rng.integers(0, 2 ** 31)), "n": n, "style": "arbitrary" if i % 3 == 0 else "rot"}})
    for i in range(ctx.n(40, 300)):   # second save to the same path after a load of the first (path and handle variants)
        kind = ["tum", "kitti"][i % 2]
        sty = (styles if kind == "tum" else ["rot", "arbitrary"])
        cs.append({"kind": kind, "variant": ["str", "pathlib", "str", "handle"][(i // 2) % 4],
                   "gen": {"seed": int(rng.integers(0, 2 ** 31)), "n": int(rng.integers(1, 9)), "style": sty[i % len(sty)]},
                   "prior": {"gen": {"seed": int(rng.integers(0, 2 ** 31)), "n": int(rng.integers(1, 9)), "style": sty[(i + 1) % len(sty)]}}})
    for i in range(ctx.n(80, 500)):
        n = int(rng.integers(1, 12))
        cs.append({"kind": "df", "variant": "none", "source": ["traj", "path"][i % 2], "as_type": ["none", "path", "traj"][i % 3],
                   "gen": {"seed": int(rng.integers(0, 2 ** 31)), "n": n, "style": styles[i % 4]}})
    for i in range(ctx.n(40, 300)):
        n = int(rng.integers(1, 15))
        cs.append({"kind": "bag", "variant": "str", "frame_id": ["map", "", "odom/ü", "/map", "/robot1/odom"][i % 5],
                   "gen": {"seed": int(rng.integers(0, 2 ** 31)), "n": n, "style": ["epoch", "small"][i % 2]}})
    frames = ["map", "", "odom", "world", "/map", "/robot1/odom", "base_link", "odom/ü", "ENU"]
    for i in range(ctx.n(14, 120)):   # evo_traj bag ... --save_as_bag end to end: topics in different frames
        k = int(rng.integers(1, 4)) if i % 5 else 1
        has_ref = bool(i % 6 != 5)
        names = ["/t%d" % j if j % 2 else "/ns%d/pose" % j for j in range(k)] + (["/ref"] if has_ref else [])
        fr = [str(x) for x in rng.choice(frames, len(names), replace=False)]
        topics = [(nm, f, int(rng.integers(0, 2 ** 31)), int(rng.integers(1, 9)), ["epoch", "small"][int(rng.integers(0, 2))])
                  for nm, f in zip(names, fr)]
        est = names[:k]
        if k > 1 and rng.random() < 0.5:
            est = est[::-1]
        order = list(range(len(topics)))
        rng.shuffle(order)                       # order of the topics inside the input bag
        cs.append(_clibag([topics[j] for j in order], est, "/ref" if has_ref else None, all_topics=bool(i % 4 == 3)))
    for i in range(ctx.n(60, 400)):
        ks = ["rmse", "mean", "median", "std", "min", "max", "sse", "μ", "a.b"]
        nk = int(rng.integers(0, 6))
        stats = [[k, hexf(hard_scalar(rng))] for k in rng.choice(ks, nk, replace=False)]
        arrays = [[k, [hexf(hard_scalar(rng)) for _ in range(int(rng.integers(0, 7)))]]
                  for k in rng.choice(["error_array", "timestamps", "seconds_from_start", "x.y", "ä"], int(rng.integers(0, 4)), replace=False)]
        trajs = []
        for k in rng.choice(["traj_est", "traj_ref", "p.q", "ü"], int(rng.integers(0, 4)), replace=False):
            ty = "tum" if rng.random() < 0.5 else "kitti"
            trajs.append([str(k), {"type": ty, "gen": {"seed": int(rng.integers(0, 2 ** 31)), "n": int(rng.integers(1, 5)),
                                                        "style": str(rng.choice(styles)) if ty == "tum" else "rot"}}])
        info = {"title": "t %d ✓" % i, "est_name": "e%d" % i, "k": float(rng.normal())}
        cs.append({"kind": "res", "variant": VARIANTS[i % 4], "load_trajectories": bool(i % 3 != 0),
                   "data": {"info": info, "stats": [[str(a), b] for a, b in stats], "arrays": [[str(a), b] for a, b in arrays], "trajs": trajs}})
    cs.extend(nonfinite_stats_cases(ctx))
    cs.extend(surrogate_info_cases(ctx))
    # large trajectories: spec layer only
    sizes = [200, 1000] if ctx.quick else [200, 1000, 10 ** 4, 10 ** 5, 10 ** 5]
    for i, n in enumerate(sizes):
        cs.append({"kind": "tum", "variant": VARIANTS[i % 4], "gen": {"seed": 900 + i, "n": n, "style": styles[i % 2]}})
        cs.append({"kind": "kitti", "variant": VARIANTS[(i + 1) % 4], "gen": {"seed": 950 + i, "n": n, "style": "rot"}})
        cs.append({"kind": "df", "variant": "none", "source": "traj", "as_type": "none", "gen": {"seed": 970 + i, "n": n, "style": "epoch"}})
    return cs


# ------------------------------------------------------------------ translator tie: the precision actually used
GEN_PATH = os.path.join(common.COQ, "generated", "C06Fmt.v")
GEN_TEMPLATE = """(* GENERATED by harness/props/c06.py (regenerate) - do not edit.
   Source: inspect.signature(numpy.savetxt).parameters['fmt'].default = %(default)r
   and the AST of evo/tools/file_interface.py: %(how)s. '%%.<k>e' prints 1 + k significant digits. *)
From Coq Require Import ZArith Lia.
Definition savetxt_precision : Z := %(p)d.
Lemma savetxt_precision_ok : (18 <= savetxt_precision)%%Z.
Proof. unfold savetxt_precision. lia. Qed.
"""


def _savetxt_calls(fn):
    calls = []
    for node in ast.walk(fn):
        if isinstance(node, ast.Call):
            f = node.func
            name = f.attr if isinstance(f, ast.Attribute) else f.id if isinstance(f, ast.Name) else None
            if name == "savetxt":
                calls.append(node)
    return calls


def format_in_use():
    """-> (precision p or None, description, problems)"""
    src = open(os.path.join(common.REPO, "evo", "tools", "file_interface.py")).read()
    tree = ast.parse(src)
    fns = {n.name: n for n in tree.body if isinstance(n, ast.FunctionDef)}
    default = inspect.signature(np.savetxt).parameters["fmt"].default
    problems, fmts = [], []
    for name in ("write_tum_trajectory_file", "write_kitti_poses_file"):
        if name not in fns:
            problems.append("%s not found" % name)
            continue
        calls = _savetxt_calls(fns[name])
        if len(calls) != 1:
            problems.append("%s: %d savetxt calls" % (name, len(calls)))
            continue
        c = calls[0]
        if any(isinstance(a, ast.Starred) for a in c.args) or any(k.arg is None for k in c.keywords):
            problems.append("%s: savetxt called with */** arguments" % name)
            continue
        fmt = default
        kw = {k.arg: k.value for k in c.keywords}
        node = kw.get("fmt", c.args[2] if len(c.args) >= 3 else None)
        if node is not None:
            if isinstance(node, ast.Constant) and isinstance(node.value, str):
                fmt = node.value
            else:
                problems.append("%s: savetxt fmt is not a string literal" % name)
                fmt = None
        extra = set(kw) - {"fmt", "delimiter"}
        if extra or len(c.args) > 3:
            problems.append("%s: savetxt called with unexpected arguments %r" % (name, sorted(extra)))
        fmts.append(fmt)
    ps = []
    for fmt in fmts:
        m = re.fullmatch(r"%\.(\d+)e", fmt) if isinstance(fmt, str) else None
        if m is None:
            problems.append("savetxt format %r is not of the form %%.<k>e" % (fmt,))
            ps.append(0)
        else:
            ps.append(1 + int(m.group(1)))
    p = min(ps) if ps else 0
    how = "write_tum_trajectory_file / write_kitti_poses_file call np.savetxt with formats %r" % (fmts,)
    return p, default, how, problems


def regenerate(ctx):
    p, default, how, problems = format_in_use()
    text = GEN_TEMPLATE % {"default": default, "how": how.replace("*)", "* )"), "p": p}
    if not os.path.exists(GEN_PATH) or open(GEN_PATH).read() != text:
        with open(GEN_PATH, "w") as f:
            f.write(text)
    fails = []
    for pr in problems:
        fails.append({"kind": "obligation", "failing_input": False, "theorem": "C06_decimal_codec_roundtrip_at_the_precision_used",
                      "correspondence": "numpy.savetxt format used by the writers", "detail": pr, "case": {"format": how}})
    if not problems and p < 18:
        fails.append({"kind": "obligation", "failing_input": False, "theorem": "C06_decimal_codec_roundtrip_at_the_precision_used",
                      "correspondence": "generated obligation 18 <= savetxt_precision", "case": {"format": how},
                      "detail": "the writers print %d significant digits; the codec theorem needs 18 (17 digits need the _partial sharp bound)" % p})
    ctx.notes.append("savetxt precision in use: %d significant digits (%s)" % (p, how))
    return fails


def run(ctx, replay=None, proofs_ok=True):
    if replay is not None:
        # a replay of a format obligation has no input case: the corpus is run instead (regenerate() re-reports the obligation)
        cases = [replay["case"]] if "kind" in replay.get("case", {}) else []
        if not cases or not proofs_ok:
            cases = cases + corpus()
    else:
        cases = corpus() + random_cases(ctx)
    failures, stats = differential(ctx, cases, imports=IMPORTS, impl=impl, expr=expr, judge=judge, shrink=shrink,
                                   nontrivial=nontrivial, per_file=60)
    for f in failures:
        f.get("case", {}).pop("_names", None)
    hist = {}
    modelled = 0
    for c in cases:
        c.pop("_names", None)
        n = 0 if c["kind"] == "res" else n_poses(c)
        if c["kind"] == "res" or n <= SMALL:
            modelled += 1
        b = "%s:%s%s" % (c["kind"], c.get("variant", ""), "" if c["kind"] == "res" else ",n<=%d" % (10 ** len(str(max(n - 1, 0)))))
        if c.get("prior") is not None:
            b += ",overwrites-a-loaded-file"
        if c["kind"] == "res":
            b += ",load_trajectories=%s" % c["load_trajectories"]
        hist[b] = hist.get(b, 0) + 1
    cov = {"evaluations": stats["evaluations"], "distinct_nontrivial": stats["distinct_nontrivial"],
           "rule": "corpus (EuRoC-like epoch stamps with ns fractions, 1e-300/1e300/5e-324/-0.0, unicode info, dotted and unicode "
                   "names, empty result, result archives with two or three embedded trajectories / arrays of different serialised "
                   "lengths in both orders incl. equal pose counts that differ only in minus signs; TUM/KITTI save A - load - save a different B to the same path - load sequences in one process) ; evo_traj bag <topics> [--ref] --save_as_bag end to end on input bags whose topics live in different frames: exported poses, stamps and per-topic frame id) + random TUM / KITTI / DataFrame / ROS1-bag / evo_traj-bag-export / result-zip cases over hard scalar classes "
                   "(17-digit, 1e-300..1e300, subnormals, special doubles, neighbours of short decimals and of powers of two, UTM "
                   "sizes) x {str path, pathlib.Path, open handle, in-memory handle}; every case: reader output == writer input "
                   "bit for bit; cases with <= %d poses also: written file == model writer, model reader(file) == evo reader; "
                   "distinct by input; non-trivial = at least two poses (or a result archive) and no error" % SMALL,
           "samples": cases[:2] + cases[-2:], "input_distribution": hist, "model_evaluated_cases": modelled,
           "regimes": {"exact": stats["evaluations"], "rounded": 0, "fragile": 0}, "disagreements": stats["disagreements"],
           "largest_trajectory": max((n_poses(c) for c in cases if c["kind"] != "res"), default=0), "exhaustive": False}
    return {"failures": failures, "coverage": cov}


LEVEL_TEXT = ("Machine-checked theorems (Coq): structural round trips of TUM, KITTI, result archive (with/without embedded "
              "trajectories) and DataFrame conversion for every number of poses and every scalar codec that is exact on the "
              "values; the decimal<->binary64 codec theorem (>= 18 significant digits, correctly rounded both ways, every "
              "binary64 real, every tie rule; Flocq) instantiated at the precision numpy.savetxt really uses for evo's writers "
              "(re-read each run, generated obligation 18 <= p); bag time stamps within 1 ns over the reals. The models are tied "
              "to the code by a bit-for-bit differential run (written bytes parsed by the model, evo's reader vs the model) over "
              "hard values, path/handle variants and 1..10^5 poses.")
LEVEL_NOTE = ("Trusted: Coq kernel/VM, Reals axioms + Classical_Prop.classic (Flocq), that CPython's '%.18e'/float()/repr and "
              "np.save/json/zipfile are the correctly rounding / lossless functions assumed (measured bit for bit, not proved), "
              "the hand-written model's correspondence (tested), rosbags as an oracle. The sharp 17-digit bound is not proved "
              "(not needed: p = 19).")
TECHNIQUE = ("Coq proof (list induction; Flocq error bounds for the codec) + translator tie for the print precision + "
             "bit-for-bit model/implementation correspondence by vm_compute")
