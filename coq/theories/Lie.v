(* Lie.v - executable model of evo/core/lie_algebra.py (definitions only; proofs in LieProofs.v).
   Library kernels appear as arguments ("oracle answers"): the cube root of sim3_scale
   (np.power(det, 1/3)), sin/cos inside scipy's Rotation.from_rotvec. *)
From Coq Require Import List Bool.
From Evo Require Import Num Linalg.
Import ListNotations.
Local Open Scope num_scope.

Section Defs.
Context {T : Type} {ops : NumOps T}.

(* hat / vee exactly as written in the source *)
Definition hat (v : V3 T) : M3 T :=
  mkM3 n0 (nopp (vz v)) (vy v)
       (vz v) n0 (nopp (vx v))
       (nopp (vy v)) (vx v) n0.
Definition vee (m : M3 T) : V3 T := mkV3 (nopp (m12 m)) (m02 m) (nopp (m01 m)).

Definition relative_so3 (r1 r2 : M3 T) : M3 T := mm (mt r1) r2.
Definition se3_inverse (p : Pose T) : Pose T := pinv p.
Definition relative_se3 (p1 p2 : Pose T) : Pose T := prel p1 p2.

(* sim3_scale = cbrt(det(a[:3,:3])): [s] is the oracle's answer, checked by [cbrt_ok] *)
Definition sim3_inverse_with (s : T) (a : Pose T) : Pose T :=
  let r := mt (mscale (n1 /! s) (prot a)) in
  let t := vopp (mv r (vscale (n1 /! s) (ptr a))) in
  sim3 r t (n1 /! s).

(* Rodrigues' formula with A = sin(th)/th, B = (1-cos th)/th^2 supplied:
   exp(hat v) = I + A hat v + B (hat v)^2 *)
Definition rodrigues (v : V3 T) (A B : T) : M3 T :=
  madd (madd I3 (mscale A (hat v))) (mscale B (mm (hat v) (hat v))).

(* cos of the rotation angle, and sin^2, of a rotation matrix *)
Definition cos_angle (r : M3 T) : T := (tr r -! n1) /! (n1 +! n1).
Definition skew_part (r : M3 T) : V3 T := vscale (n1 /! (n1 +! n1)) (vee (msub r (mt r))).

(* np.allclose(a, b, atol=1e-6) with the default rtol=1e-5: |a-b| <= atol + rtol*|b| *)
Definition close_tol (atol rtol a b : T) : bool := nabs (a -! b) <=?! (atol +! rtol *! nabs b).
Definition is_so3_b (atol rtol : T) (detv : T) (r : M3 T) : bool :=
  close_tol atol rtol detv n1 &&
  forallb (fun p => close_tol atol rtol (fst p) (snd p))
          (combine (mlist (mm (mt r) r)) (mlist (@I3 T _))).
(* bottom row of the 4x4 matrix given explicitly *)
Definition bottom_ok (b : T * T * T * T) : bool :=
  let '(b0, b1, b2, b3) := b in neqb b0 n0 && neqb b1 n0 && neqb b2 n0 && neqb b3 n1.
Definition is_se3_b atol rtol detv (p : Pose T) (b : T * T * T * T) : bool :=
  is_so3_b atol rtol detv (prot p) && bottom_ok b.
(* is_sim3: rot_unscaled = rot * (1/s); det of the unscaled block is again an oracle answer *)
Definition is_sim3_b atol rtol (s detu : T) (p : Pose T) (b : T * T * T * T) : bool :=
  is_so3_b atol rtol detu (mscale (n1 /! s) (prot p)) && bottom_ok b.
End Defs.

(* margins of the np.allclose tests (positive = satisfied), used to flag fragile decisions *)
Section Margins.
Context {T : Type} {ops : NumOps T}.
Local Open Scope num_scope.
Definition close_margin (atol rtol a b : T) : T := (atol +! rtol *! nabs b) -! nabs (a -! b).
Definition is_so3_margins (atol rtol detv : T) (r : M3 T) : list T :=
  close_margin atol rtol detv n1 ::
  map (fun p => close_margin atol rtol (fst p) (snd p)) (combine (mlist (mm (mt r) r)) (mlist (@I3 T _))).
End Margins.
