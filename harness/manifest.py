"""Regenerates /verif/MANIFEST.json from the property modules that exist (python -m harness.manifest)."""
import importlib
import json
import os

from harness import common

ALL = ["C%02d" % k for k in range(1, 21)]


def main():
    checks, na = [], []
    for pid in ALL:
        path = os.path.join(common.VERIF, "harness", "props", pid.lower() + ".py")
        ready = open(os.path.join(common.VERIF, "harness", "ready.txt")).read().split()
        if not os.path.exists(path) or pid not in ready:
            na.append({"property_id": pid,
                       "reason": "check not built yet (planned, see DESIGN.md section 4 / %s); not claimed" % pid})
            continue
        m = importlib.import_module("harness.props." + pid.lower())
        checks.append({
            "property_id": pid,
            "quick_cmd": "./check %s --tier quick" % pid,
            "thorough_cmd": "./check %s --tier thorough" % pid,
            "evidence_file": "/verif/evidence/%s.json" % pid,
            "replay_cmd_template": "./check %s --replay {path}" % pid,
            "engine": "coq-proof+correspondence",
            "level_claimed": {"category": "proof", "text": m.LEVEL_TEXT, "design_ref": "DESIGN.md section 4, " + pid},
            "level_note": m.LEVEL_NOTE,
            "technique": m.TECHNIQUE,
        })
    man = {
        "version": 1,
        "setup_cmd": "./setup",
        "hooks": {"guard": "EVO_VERIF", "enable": "no source hooks: all instrumentation is applied from the harness "
                  "process (monkey-patching / tracing); EVO_VERIF=1 is exported by ./check for completeness",
                  "baseline_off_cmd": "cd /repo && /venv/bin/python -m pytest -ra -q -p no:cacheprovider --timeout=900 "
                                      "--continue-on-collection-errors",
                  "source_commits": [], "add_only": True},
        "engines": [{"name": "coq-proof+correspondence", "path": "/verif/coq + /verif/harness",
                     "serves_properties": [c["property_id"] for c in checks],
                     "kind_free_text": "Coq 8.16 theorems over hand-written / re-translated models; models tied to "
                                       "/repo by differential execution (vm_compute vs the Python implementation) and "
                                       "by re-translation of source fragments on every run"}],
        "checks": checks,
        "not_applicable": na,
        "notes": "exit 0 = held; exit 1 + VIOLATION line; exit 2 = harness error. Known findings: known_findings.json.",
    }
    with open(os.path.join(common.VERIF, "MANIFEST.json"), "w") as f:
        json.dump(man, f, indent=1)
    print("checks:", [c["property_id"] for c in checks])


if __name__ == "__main__":
    main()
