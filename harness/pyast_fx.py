"""Translator for C17: Python AST of evo's writer functions / user prompts / CLI call sites -> Coq terms of
Evo.Overwrite (effect language).  Fail-closed: anything that touches a path variable and is not understood
raises Unsupported, which the check reports as a broken tie.

  python -m harness.pyast_fx [repo]      prints the generated Coq file
"""
import ast
import os


class Unsupported(Exception):
    pass


def cstr(s):
    return '"' + s.replace('"', '""') + '"'


# ------------------------------------------------------------------------------------------------
# user.confirm / user.check_and_confirm_overwrite
# ------------------------------------------------------------------------------------------------
def _find(tree, qual):
    node = tree
    for part in qual.split("."):
        cands = [n for n in node.body if isinstance(n, (ast.FunctionDef, ast.ClassDef)) and n.name == part]
        if len(cands) != 1:
            raise Unsupported("cannot find %s" % qual)
        node = cands[0]
    return node


def _is_docstring(st):
    return isinstance(st, ast.Expr) and isinstance(st.value, ast.Constant) and isinstance(st.value.value, str)


def _is_logging(st):
    return (isinstance(st, ast.Expr) and isinstance(st.value, ast.Call) and isinstance(st.value.func, ast.Attribute)
            and isinstance(st.value.func.value, ast.Name) and st.value.func.value.id in ("logger", "logging"))


def _ubexp(e, params):
    """boolean expression of the two user functions"""
    if isinstance(e, ast.Constant) and isinstance(e.value, bool):
        return "(BConst %s)" % str(e.value).lower()
    if isinstance(e, ast.UnaryOp) and isinstance(e.op, ast.Not):
        return "(BNot %s)" % _ubexp(e.operand, params)
    if isinstance(e, ast.BoolOp):
        op = "BAnd" if isinstance(e.op, ast.And) else "BOr"
        out = _ubexp(e.values[0], params)
        for v in e.values[1:]:
            out = "(%s %s %s)" % (op, out, _ubexp(v, params))
        return out
    if isinstance(e, ast.Compare) and len(e.ops) == 1 and isinstance(e.ops[0], (ast.Eq, ast.NotEq)):
        l, r = e.left, e.comparators[0]
        if _is_input_call(r) and not _is_input_call(l):
            l, r = r, l
        if _is_input_call(l):
            if isinstance(r, ast.Name) and r.id == "key" and "key" in params:
                k = "KParam"
            elif isinstance(r, ast.Constant) and isinstance(r.value, str):
                k = "(KLit %s)" % cstr(r.value)
            else:
                raise Unsupported("input() compared with " + ast.dump(r))
            return "(BInputCmp %s %s)" % ("true" if isinstance(e.ops[0], ast.NotEq) else "false", k)
    if isinstance(e, ast.Call):
        f = e.func
        if isinstance(f, ast.Attribute) and f.attr == "isfile" and len(e.args) == 1 and isinstance(e.args[0], ast.Name) \
                and e.args[0].id in params:
            return "BIsFile"
        if isinstance(f, ast.Name) and f.id == "confirm":
            key = None
            if len(e.args) >= 2:
                key = e.args[1]
            for kw in e.keywords:
                if kw.arg == "key":
                    key = kw.value
            if key is None:
                return "(BConfirm None)"
            if isinstance(key, ast.Constant) and isinstance(key.value, str):
                return "(BConfirm (Some %s))" % cstr(key.value)
            raise Unsupported("confirm key " + ast.dump(key))
    raise Unsupported("user.py expression: " + ast.dump(e)[:200])


def _is_input_call(e):
    return isinstance(e, ast.Call) and isinstance(e.func, ast.Name) and e.func.id == "input"


def _ustmts(body, params):
    out = []
    for st in body:
        if _is_docstring(st) or _is_logging(st):
            continue
        if isinstance(st, ast.Return):
            if st.value is None:
                raise Unsupported("bare return in user.py")
            out.append("UReturn %s" % _ubexp(st.value, params))
        elif isinstance(st, ast.If):
            out.append("UIf %s %s %s" % (_ubexp(st.test, params), _ustmts(st.body, params), _ustmts(st.orelse, params)))
        else:
            raise Unsupported("user.py statement: " + type(st).__name__)
    return "[" + "; ".join(out) + "]"


def translate_user(repo):
    tree = ast.parse(open(os.path.join(repo, "evo/tools/user.py")).read())
    out = []
    for name in ("confirm", "check_and_confirm_overwrite"):
        fn = _find(tree, name)
        params = [a.arg for a in fn.args.args]
        default_key = ""
        if "key" in params:
            idx = params.index("key") - (len(params) - len(fn.args.defaults))
            if idx < 0:
                raise Unsupported("confirm: key has no default")
            d = fn.args.defaults[idx]
            if not (isinstance(d, ast.Constant) and isinstance(d.value, str)):
                raise Unsupported("confirm: key default " + ast.dump(d))
            default_key = d.value
        out.append("Definition user_%s : ufun := {| u_default_key := %s; u_body := %s |}."
                   % (name, cstr(default_key), _ustmts(fn.body, params)))
    return out


# ------------------------------------------------------------------------------------------------
# writers
# ------------------------------------------------------------------------------------------------
FLAG = "confirm_overwrite"
CHECK = "check_and_confirm_overwrite"
# callee (by dotted suffix) -> index of the path argument; these create or truncate the named file
WRITE_PRIMS = {"np.savetxt": 0, "numpy.savetxt": 0, "np.save": 0, "zipfile.ZipFile": 0, "open": 0,
               "pd.ExcelWriter": 0, "matplotlib.backends.backend_pdf.PdfPages": 0, "savefig": 0}
# calls that may receive a path variable without touching the file
NEUTRAL_WITH_PATH = {"os.path.splitext", "isinstance", "str", "format", "os.path.basename", "os.path.dirname",
                     "os.path.isfile", "os.path.exists", "Path", "os.fspath"}


def dotted(f):
    if isinstance(f, ast.Name):
        return f.id
    if isinstance(f, ast.Attribute):
        b = dotted(f.value)
        return (b + "." if b else "") + f.attr
    return ""


class Writer:
    def __init__(self, name, body, path_exprs, has_flag=True):
        self.name = name
        self.body = body
        self.vars = {}                    # canonical dump of a path expression -> variable number
        for e in path_exprs:
            self.var(e)
        self.has_flag = has_flag
        self.opaque = []                  # source text of the opaque conditions, by number
        # pre-pass: local names bound to in-memory buffers / to an already opened multi-page pdf
        self.buffers, self.pdfs = set(), set()
        mod = ast.Module(body=body, type_ignores=[])
        for node in ast.walk(mod):
            pairs = []
            if isinstance(node, ast.Assign) and len(node.targets) == 1 and isinstance(node.targets[0], ast.Name):
                pairs.append((node.targets[0].id, node.value))
            if isinstance(node, ast.With):
                for it in node.items:
                    if isinstance(it.optional_vars, ast.Name):
                        pairs.append((it.optional_vars.id, it.context_expr))
            for name_, val in pairs:
                if isinstance(val, ast.Call):
                    d = dotted(val.func)
                    if d in ("io.BytesIO", "io.StringIO", "BytesIO", "StringIO"):
                        self.buffers.add(name_)
                    if d.endswith("PdfPages"):
                        self.pdfs.add(name_)
        # every expression used as the argument of the check or as the target of a write primitive is a
        # path variable
        for node in ast.walk(mod):
            if isinstance(node, ast.Call):
                self.path_arg(node, register=True)

    def var(self, e):
        k = ast.unparse(e)
        if k not in self.vars:
            self.vars[k] = len(self.vars)
        return self.vars[k]

    def is_var(self, e):
        try:
            return ast.unparse(e) in self.vars
        except Exception:
            return False

    def mentions_var(self, e):
        for n in ast.walk(e):
            if isinstance(n, ast.expr) and self.is_var(n):
                return True
        return False

    def carries(self, e):
        """the value of e is (built from) a path variable; nested calls are analysed on their own"""
        if self.is_var(e):
            return True
        if isinstance(e, ast.Call):
            return False
        return any(self.carries(c) for c in ast.iter_child_nodes(e) if isinstance(c, ast.expr))

    def write_callee(self, call):
        d = dotted(call.func)
        if d in WRITE_PRIMS:
            return d
        if isinstance(call.func, ast.Attribute) and call.func.attr == "savefig":
            return "savefig"
        # getattr(df, "to_" + fmt)(path)
        if isinstance(call.func, ast.Call) and dotted(call.func.func) == "getattr" and len(call.func.args) == 2:
            a = call.func.args[1]
            if isinstance(a, ast.BinOp) and isinstance(a.left, ast.Constant) and a.left.value == "to_":
                return "getattr_to"
        return None

    def path_arg(self, call, register=False):
        """the path expression a call writes to / checks, or None"""
        d = dotted(call.func)
        if d.endswith(CHECK):
            if len(call.args) != 1 or call.keywords:
                raise Unsupported("%s: unusual call of %s" % (self.name, CHECK))
            if register:
                self.var(call.args[0])
            return call.args[0]
        w = self.write_callee(call)
        if w is None or not call.args:
            return None
        arg = call.args[0]
        if w == "open":
            mode = None
            if len(call.args) >= 2:
                mode = call.args[1]
            for kw in call.keywords:
                if kw.arg == "mode":
                    mode = kw.value
            if mode is None:
                return None                    # read
            if not (isinstance(mode, ast.Constant) and isinstance(mode.value, str)):
                raise Unsupported("%s: open() with a computed mode" % self.name)
            if not any(c in mode.value for c in "wax+"):
                return None
        if w == "zipfile.ZipFile":
            mode = call.args[1] if len(call.args) >= 2 else None
            for kw in call.keywords:
                if kw.arg == "mode":
                    mode = kw.value
            if mode is None or (isinstance(mode, ast.Constant) and mode.value == "r"):
                return None
        if isinstance(arg, ast.Name) and arg.id in self.buffers:
            return None                        # in-memory buffer
        if w == "savefig" and isinstance(call.func, ast.Attribute) and isinstance(call.func.value, ast.Name) \
                and call.func.value.id in self.pdfs:
            return None                        # pdf.savefig(fig): a page of the already opened PdfPages
        if register:
            self.var(arg)
        return arg

    # ---- conditions
    def cond(self, e):
        if isinstance(e, ast.BoolOp):
            op = "CAnd" if isinstance(e.op, ast.And) else "COr"
            out = self.cond(e.values[0])
            for v in e.values[1:]:
                out = "(%s %s %s)" % (op, out, self.cond(v))
            return out
        if isinstance(e, ast.UnaryOp) and isinstance(e.op, ast.Not):
            return "(CNot %s)" % self.cond(e.operand)
        if isinstance(e, ast.Name) and e.id == FLAG and self.has_flag:
            return "CFlag"
        if isinstance(e, ast.Call):
            d = dotted(e.func)
            if d.endswith(CHECK):
                return "(CCheck %d)" % self.var(self.path_arg(e))
            if d == "isinstance" and len(e.args) == 2 and self.is_var(e.args[0]):
                types = e.args[1].elts if isinstance(e.args[1], ast.Tuple) else [e.args[1]]
                names = {dotted(t) for t in types}
                known = {"str", "Path", "pathlib.Path"}
                if not names <= known:
                    raise Unsupported("%s: isinstance(path, %s)" % (self.name, sorted(names)))
                return "(CIsInst %d %s %s)" % (self.var(e.args[0]), str("str" in names).lower(),
                                              str(bool(names & {"Path", "pathlib.Path"})).lower())
        # anything else: must be free of effects on files
        for n in ast.walk(e):
            if isinstance(n, ast.Call):
                if dotted(n.func).endswith(CHECK) or self.write_callee(n) and self.path_arg(n) is not None:
                    raise Unsupported("%s: check/write inside a condition that is not understood: %s"
                                      % (self.name, ast.unparse(e)))
                if any(self.carries(x) for x in list(n.args) + [k.value for k in n.keywords]) \
                        and dotted(n.func) not in NEUTRAL_WITH_PATH:
                    raise Unsupported("%s: unknown call receiving the path in a condition: %s"
                                      % (self.name, ast.unparse(n)))
        self.opaque.append(ast.unparse(e))
        return "(COpaque %d)" % (len(self.opaque) - 1)

    # ---- expressions evaluated for their effects, in evaluation order
    def effects(self, e):
        out = []
        if e is None:
            return out
        for child in ast.iter_child_nodes(e):
            if isinstance(child, ast.expr):
                out += self.effects(child)
            elif isinstance(child, ast.keyword):
                out += self.effects(child.value)
        if isinstance(e, ast.Call):
            d = dotted(e.func)
            if d.endswith(CHECK):
                raise Unsupported("%s: %s used outside a condition" % (self.name, CHECK))
            tgt = self.path_arg(e)
            if tgt is not None:
                if not self.is_var(tgt):
                    raise Unsupported("%s: write to an untracked path %s" % (self.name, ast.unparse(tgt)))
                out.append("SWrite %d" % self.var(tgt))
            elif any(self.carries(a) for a in list(e.args) + [k.value for k in e.keywords]):
                ok = d in NEUTRAL_WITH_PATH or d.startswith(("logger.", "logging.")) or d.endswith(".format") \
                    or (d == "open")          # open() for reading (path_arg returned None)
                if not ok:
                    raise Unsupported("%s: unknown call receiving the path: %s" % (self.name, ast.unparse(e)))
        return out

    def seq(self, items):
        items = [i for i in items if i != "SSkip"]
        if not items:
            return "SSkip"
        out = items[-1]
        for i in reversed(items[:-1]):
            out = "(SSeq %s %s)" % (i if i.startswith("(") or " " not in i else "(" + i + ")",
                                    out if out.startswith("(") or " " not in out else "(" + out + ")")
        return out

    def block(self, body):
        items = []
        for st in body:
            items.append(self.stmt(st))
        return self.seq(items)

    def stmt(self, st):
        if _is_docstring(st) or isinstance(st, (ast.Pass, ast.Import, ast.ImportFrom)):
            return "SSkip"
        if _is_logging(st):
            return "SSkip"
        if isinstance(st, ast.If):
            c = self.cond(st.test)
            return "(SIf %s %s %s)" % (c, self.paren(self.block(st.body)), self.paren(self.block(st.orelse)))
        if isinstance(st, ast.Return):
            return self.seq(self.effects(st.value) + ["SReturn"])
        if isinstance(st, ast.Raise):
            return "SRaise"
        if isinstance(st, ast.For):
            if st.orelse:
                raise Unsupported("%s: for/else" % self.name)
            if self.mentions_var(st.iter):
                raise Unsupported("%s: loop over a path variable" % self.name)
            pre = self.effects(st.iter)
            return self.seq(pre + ["(SFor %s)" % self.paren(self.block(st.body))])
        if isinstance(st, ast.While):
            raise Unsupported("%s: while loop" % self.name)
        if isinstance(st, ast.With):
            items = []
            for it in st.items:
                items += self.effects(it.context_expr)
            items.append(self.block(st.body))
            return self.seq(items)
        if isinstance(st, ast.Try):
            raise Unsupported("%s: try statement" % self.name)
        if isinstance(st, (ast.Assign, ast.AnnAssign, ast.AugAssign)):
            value = st.value
            targets = st.targets if isinstance(st, ast.Assign) else [st.target]
            items = self.effects(value)
            for t in targets:
                for n in ([t] if not isinstance(t, (ast.Tuple, ast.List)) else t.elts):
                    if self.is_var(n):
                        items.append("SAssign %d" % self.var(n))
            return self.seq(items)
        if isinstance(st, ast.Expr):
            return self.seq(self.effects(st.value))
        if isinstance(st, (ast.Delete, ast.Assert, ast.Global, ast.Nonlocal)):
            return "SSkip"
        raise Unsupported("%s: statement %s" % (self.name, type(st).__name__))

    @staticmethod
    def paren(s):
        return s if s.startswith("(") or " " not in s else "(" + s + ")"


def _generate_branch(tree):
    """the body of `elif args.subcommand == "generate":` inside main_config.main"""
    main = _find(tree, "main")
    for node in ast.walk(main):
        if isinstance(node, ast.If) and isinstance(node.test, ast.Compare) and len(node.test.comparators) == 1:
            c = node.test.comparators[0]
            if isinstance(c, ast.Constant) and c.value == "generate" and ast.unparse(node.test.left) == "args.subcommand":
                return node.body
    raise Unsupported("main_config.main: generate branch not found")


WRITERS = [
    ("write_tum_trajectory_file", "evo/tools/file_interface.py", "write_tum_trajectory_file", "file_path"),
    ("write_kitti_poses_file", "evo/tools/file_interface.py", "write_kitti_poses_file", "file_path"),
    ("save_res_file", "evo/tools/file_interface.py", "save_res_file", "zip_path"),
    ("save_df_as_table", "evo/tools/pandas_bridge.py", "save_df_as_table", "path"),
    ("PlotCollection.serialize", "evo/tools/plot.py", "PlotCollection.serialize", "dest"),
    ("PlotCollection.export", "evo/tools/plot.py", "PlotCollection.export", "file_path"),
]


def translate_writers(repo):
    out, meta = [], {}
    for name, rel, qual, param in WRITERS:
        tree = ast.parse(open(os.path.join(repo, rel)).read())
        fn = _find(tree, qual)
        params = [a.arg for a in fn.args.args] + [a.arg for a in fn.args.kwonlyargs]
        if param not in params:
            raise Unsupported("%s: no parameter %s" % (name, param))
        has_flag = FLAG in params
        w = Writer(name, fn.body, [ast.Name(id=param, ctx=ast.Load())], has_flag)
        term = w.block(fn.body)
        out.append((name, term))
        meta[name] = {"opaque": w.opaque, "vars": {v: k for k, v in w.vars.items()}, "has_flag": has_flag,
                      "flag_default": _flag_default(fn)}
    tree = ast.parse(open(os.path.join(repo, "evo/main_config.py")).read())
    body = _generate_branch(tree)
    out_expr = ast.parse("args.out", mode="eval").body
    w = Writer("main_config.generate", body, [out_expr], has_flag=False)
    out.append(("main_config.generate", w.block(body)))
    meta["main_config.generate"] = {"opaque": w.opaque, "vars": {v: k for k, v in w.vars.items()}, "has_flag": False,
                                    "flag_default": None}
    return out, meta


def _flag_default(fn):
    params = [a.arg for a in fn.args.args]
    if FLAG not in params:
        return None
    idx = params.index(FLAG) - (len(params) - len(fn.args.defaults))
    if idx < 0:
        return None
    d = fn.args.defaults[idx]
    return d.value if isinstance(d, ast.Constant) else None


# ------------------------------------------------------------------------------------------------
# call sites in the command-line modules
# ------------------------------------------------------------------------------------------------
CLI_MODULES = ["main_ape", "main_rpe", "main_traj", "main_res", "common_ape_rpe"]
CALLEES = {"write_tum_trajectory_file", "write_kitti_poses_file", "save_res_file", "save_df_as_table",
           "serialize", "export"}
# direct write primitives that a command-line module must not use itself (a new output option has to go
# through a guarded writer); rosbag writers are outside every property (DESIGN.md section 3)
DIRECT_WRITES = {"np.savetxt", "numpy.savetxt", "np.save", "np.savez", "pickle.dump", "json.dump", "savefig",
                 "to_csv", "to_excel", "to_latex", "to_json", "write_text", "write_bytes", "shutil.copy",
                 "shutil.copyfile", "shutil.move", "os.replace", "os.rename"}


def translate_call_sites(repo):
    sites, direct = [], []
    for mod in CLI_MODULES:
        tree = ast.parse(open(os.path.join(repo, "evo", mod + ".py")).read())
        for node in ast.walk(tree):
            if not isinstance(node, ast.Call):
                continue
            d = dotted(node.func)
            last = d.split(".")[-1] if d else ""
            if last in CALLEES:
                kw = [k for k in node.keywords if k.arg == FLAG]
                if any(k.arg is None for k in node.keywords):
                    arg = 'ArgOther "**kwargs"'
                elif not kw:
                    arg = "ArgDefault"
                elif ast.unparse(kw[0].value) == "not args.no_warnings":
                    arg = "ArgNotNoWarnings"
                else:
                    arg = "ArgOther %s" % cstr(ast.unparse(kw[0].value))
                sites.append((mod, node.lineno, last, arg))
            elif last in DIRECT_WRITES or d in DIRECT_WRITES:
                direct.append((mod, node.lineno, d))
            elif d == "open":
                mode = node.args[1] if len(node.args) >= 2 else None
                for k in node.keywords:
                    if k.arg == "mode":
                        mode = k.value
                if mode is not None and not (isinstance(mode, ast.Constant) and isinstance(mode.value, str)
                                             and not any(c in mode.value for c in "wax+")):
                    direct.append((mod, node.lineno, "open(..., %s)" % ast.unparse(mode)))
    return sorted(sites), sorted(direct)


# ------------------------------------------------------------------------------------------------
def generate(repo):
    """-> (Coq source of coq/generated/OverwriteGen.v, metadata for the harness)"""
    lines = ["(* GENERATED by harness/pyast_fx.py from the Python AST of the repository under test - do not edit. *)",
             "From Coq Require Import List String.",
             "From Evo Require Import Overwrite.",
             "Import ListNotations.",
             "Open Scope string_scope.", ""]
    lines += translate_user(repo)
    lines.append("")
    writers, meta = translate_writers(repo)
    for k, (name, term) in enumerate(writers):
        lines.append("Definition w%d : stmt := %s." % (k, term))
    lines.append("Definition writers : list (string * stmt) := [%s]."
                 % "; ".join("(%s, w%d)" % (cstr(n), k) for k, (n, _) in enumerate(writers)))
    sites, direct = translate_call_sites(repo)
    lines.append("Definition call_sites : list call_site := [%s]."
                 % ";\n  ".join("{| cs_module := %s; cs_line := %d; cs_callee := %s; cs_arg := %s |}"
                                % (cstr(m), ln, cstr(c), a) for m, ln, c, a in sites))
    lines.append("Definition direct_writes : list (string * nat * string) := [%s]."
                 % "; ".join("(%s, %d, %s)" % (cstr(m), ln, cstr(d)) for m, ln, d in direct))
    meta["_sites"] = sites
    meta["_direct"] = direct
    return "\n".join(lines) + "\n", meta


if __name__ == "__main__":
    import sys
    src, meta = generate(sys.argv[1] if len(sys.argv) > 1 else "/repo")
    print(src)
    import json
    print(json.dumps(meta, indent=1, default=str))
