(* GENERATED on every run by harness/steps.py from the current source - do not edit *)
From Coq Require Import String List.
Import ListNotations.
Local Open Scope string_scope.

Definition trajectory_align : list string :=
  ["if[n == -1] geometry.umeyama_alignment(self.positions_xyz.T, traj_ref.positions_xyz.T, with_scale)";
   "else[n == -1] geometry.umeyama_alignment(self.positions_xyz[:n, :].T, traj_ref.positions_xyz[:n, :].T, with_scale)";
   "if[correct_only_scale] self.scale(s)";
   "else[correct_only_scale] if[correct_scale] self.scale(s)";
   "else[correct_only_scale] if[correct_scale] self.transform(lie.se3(r_a, t_a))";
   "else[correct_only_scale] if[correct_scale] lie.se3(r_a, t_a)";
   "else[correct_only_scale] else[correct_scale] self.transform(lie.se3(r_a, t_a))";
   "else[correct_only_scale] else[correct_scale] lie.se3(r_a, t_a)"].

Definition trajectory_align_origin : list string :=
  ["np.dot(traj_ref_origin, lie.se3_inverse(traj_origin))";
   "lie.se3_inverse(traj_origin)";
   "self.transform(to_ref_origin)"].

Definition only_scale_wiring : list string :=
  ["main_ape: only_scale = correct_scale and (not align)";
   "main_rpe: only_scale = correct_scale and (not align)"].

