(* NpDsl.v - the numpy vocabulary the Python-AST translator harness/pyast_np.py emits (definitions only, generic
   over NumOps so that translated functions run in binary64 and are reasoned about over R).
   A 3 x n array is the list of its columns.  Every definition follows the numpy operation it stands for
   (reduction order, division instead of multiplication by the reciprocal, comparison direction of max). *)
From Coq Require Import List Arith Bool ZArith.
From Evo Require Import Num Linalg.
Import ListNotations.
Local Open Scope num_scope.

Section Np.
Context {T : Type} {ops : NumOps T}.
Definition Arr := list (V3 T).

Definition np_ncols (x : Arr) : nat := length x.                      (* x.shape[1] *)
Definition np_shape_eqb (x y : Arr) : bool := Nat.eqb (length x) (length y).   (* x.shape == y.shape (3 rows each) *)
Definition np_of_nat (n : nat) : T := nofZ (Z.of_nat n).               (* an int used in float arithmetic *)
Definition np_of_int (z : Z) : T := nofZ z.
(* x.mean(axis=1): add.reduce along the columns in index order, then true division by n *)
Definition np_sum_axis1 (x : Arr) : V3 T := fold_left vadd x V0.
Definition np_mean_axis1 (x : Arr) : V3 T :=
  let s := np_sum_axis1 x in let n := np_of_nat (length x) in mkV3 (vx s /! n) (vy s /! n) (vz s /! n).
(* x - m[:, np.newaxis] *)
Definition np_sub_col (x : Arr) (m : V3 T) : Arr := map (fun v => vsub v m) x.
(* np.linalg.norm of a 2-D array: Frobenius norm *)
Definition np_fro_norm (x : Arr) : T := nsqrt (fold_left nadd (map nrm2 x) n0).
Definition np_pow2 (a : T) : T := a *! a.                             (* a ** 2 *)
Definition np_col (x : Arr) (i : nat) : V3 T := nth i x V0.           (* x[:, i] *)
(* Python's max(a, b) returns a unless b > a; np.maximum.reduce behaves the same on non-NaN data *)
Definition py_max2 (a b : T) : T := if a <?! b then b else a.
Definition np_max3 (d : V3 T) : T := py_max2 (py_max2 (vx d) (vy d)) (vz d).   (* d.max() *)
(* np.count_nonzero(d > tol) *)
Definition np_count_gt (d : V3 T) (tol : T) : nat :=
  (if tol <?! vx d then 1 else 0) + (if tol <?! vy d then 1 else 0) + (if tol <?! vz d then 1 else 0).
Definition np_diag3 (d : V3 T) : M3 T := diag (vx d) (vy d) (vz d).     (* np.diag(d) *)
Definition m3_set22 (m : M3 T) (v : T) : M3 T :=                       (* m[2, 2] = v *)
  mkM3 (m00 m) (m01 m) (m02 m) (m10 m) (m11 m) (m12 m) (m20 m) (m21 m) v.
(* np.allclose(a, b, atol=atol) with rtol: every |a - b| <= atol + rtol * |b| *)
Definition np_isclose (rtol atol a b : T) : bool := nabs (a -! b) <=?! (atol +! rtol *! nabs b).
Definition np_allclose_s (rtol atol a b : T) : bool := np_isclose rtol atol a b.
Definition np_allclose_m (rtol atol : T) (a b : M3 T) : bool :=
  forallb (fun p => np_isclose rtol atol (fst p) (snd p)) (combine (mlist a) (mlist b)).
(* np.linalg.norm of a 3x3 array (Frobenius), and of E - np.eye(4) for a 4x4 pose matrix E whose bottom row is
   (0,0,0,1): the bottom row of the difference is zero and contributes nothing *)
Definition np_fro_norm_m (m : M3 T) : T := nsqrt (fnorm2 m).
Definition np_fro_norm_p_minus_eye (E : Pose T) : T := nsqrt (fnorm2 (msub (prot E) I3) +! nrm2 (ptr E)).
(* for i in range(n): acc = body acc i *)
Definition py_for_range {S : Type} (n : nat) (body : S -> nat -> S) (init : S) : S := fold_left body (seq 0 n) init.

(* ---- 1-D float arrays (lists), Python dicts keyed by non-negative ints, sorted() on pairs of ints ---- *)
Definition np_add_scalar (l : list T) (a : T) : list T := map (fun s => s +! a) l.     (* l += a / l + a *)
Definition np_sub_scalar (l : list T) (a : T) : list T := map (fun s => s -! a) l.     (* l - a *)
Definition np_abs_list (l : list T) : list T := map nabs l.                            (* np.abs(l) *)
(* np.argmin: index of the first minimal element *)
Fixpoint np_argmin_aux (best : nat) (bv : T) (i : nat) (l : list T) : nat :=
  match l with
  | [] => best
  | x :: r => if x <?! bv then np_argmin_aux i x (S i) r else np_argmin_aux best bv (S i) r
  end.
Definition np_argmin (l : list T) : nat := match l with [] => 0 | x :: r => np_argmin_aux 0 x 1 r end.
Definition np_item (l : list T) (i : nat) : T := nth i l n0.                           (* l[i] *)
(* for i, x in enumerate(l): acc = body acc i x *)
Fixpoint py_for_enumerate_from {St A : Type} (i : nat) (l : list A) (body : St -> nat -> A -> St) (acc : St) : St :=
  match l with [] => acc | x :: r => py_for_enumerate_from (S i) r body (body acc i x) end.
Definition py_for_enumerate {St A : Type} (l : list A) (body : St -> nat -> A -> St) (acc : St) : St :=
  py_for_enumerate_from 0 l body acc.
End Np.

(* a Python dict with int keys, in insertion order *)
Section Dict.
Context {V : Type}.
Definition py_dict := list (nat * V).
Definition py_dict_empty : py_dict := [].
Fixpoint py_dict_lookup (k : nat) (d : py_dict) : option V :=
  match d with [] => None | (k', v) :: r => if Nat.eqb k' k then Some v else py_dict_lookup k r end.
Definition py_dict_mem (k : nat) (d : py_dict) : bool := match py_dict_lookup k d with Some _ => true | None => false end.   (* k in d *)
Definition py_dict_get (dflt : V) (k : nat) (d : py_dict) : V := match py_dict_lookup k d with Some v => v | None => dflt end.   (* d[k] *)
Fixpoint py_dict_replace (k : nat) (v : V) (d : py_dict) : py_dict :=
  match d with [] => [] | (k', w) :: r => if Nat.eqb k' k then (k', v) :: r else (k', w) :: py_dict_replace k v r end.
Definition py_dict_set (k : nat) (v : V) (d : py_dict) : py_dict :=       (* d[k] = v : new keys go to the end, old keys keep their place *)
  match py_dict_lookup k d with None => d ++ [(k, v)] | Some _ => py_dict_replace k v d end.
Definition py_dict_items (d : py_dict) : list (nat * V) := d.              (* d.items() *)
End Dict.

(* sorted() on tuples of two ints: lexicographic order (insertion sort; the result of a comparison sort is unique) *)
Definition py_pair_leb (p q : nat * nat) : bool :=
  if Nat.ltb (fst p) (fst q) then true else if Nat.eqb (fst p) (fst q) then Nat.leb (snd p) (snd q) else false.
Fixpoint py_insert_pair (p : nat * nat) (l : list (nat * nat)) : list (nat * nat) :=
  match l with [] => [p] | q :: r => if py_pair_leb p q then p :: q :: r else q :: py_insert_pair p r end.
Fixpoint py_sorted_pairs (l : list (nat * nat)) : list (nat * nat) :=
  match l with [] => [] | p :: r => py_insert_pair p (py_sorted_pairs r) end.
