"""C16 - no mutation of inputs, no aliasing between derived objects.

Dynamic side of the heap/footprint model Evo.Heap (coq/theories/Heap.v):
 (a) every public computing/writing function of evo.core / evo.tools (module introspection + explicit call table)
     is called on valid inputs with deep bit-level snapshots of all argument objects before/after;
 (b) histories: derive B from A (deepcopy / associate / split_* with and without a cut / merge / constructors),
     mutate B (transform / scale / project / reduce / align ...), re-inspect every other object bitwise after
     every single call (raw attributes and public views, caches populated in both orders);
 (c) the sharing graph of all arrays of all objects after the history (`is`, np.shares_memory) is compared with the
     location graph the Coq model computes (vm_compute) for the same history, plus which caches exist, pose counts,
     the projected flag, result handles and the number of pre-existing arrays written in place per call.
"""
import copy
import importlib
import inspect
import io
import json
import os
import tempfile

import numpy as np

from harness.common import cbool, cnat, cnatlist, differential, HarnessError

ID = "C16"
IMPORTS = "From Evo Require Import Heap.\n"
COQ_TARGETS = ["theories/HeapProofs.vo"]
TRUSTED = [
    "model Evo.Heap written by hand from evo/core/trajectory.py, sync.py, metrics.py, result.py, geometry.py, "
    "filters.py, evo/tools/file_interface.py, pandas_bridge.py, plot.py; tie = differential run: location graph, "
    "cache presence, pose counts, result handles, in-place write counts of the model (vm_compute) vs. "
    "np.shares_memory / `is` / byte snapshots of the implementation on every history",
    "numpy semantics assumed by the model: np.array(x), fancy indexing a[ids], np.dot, np.concatenate, s*a allocate "
    "new arrays; basic slicing of a Python list builds a new list of the same elements; copy.deepcopy copies every "
    "array once per identity (observed on every case through the sharing graph)",
    "byte snapshots (ndarray.tobytes + dtype + shape) and copy.deepcopy are trusted to observe / reproduce objects",
    "contents of cells are abstract in the model (content oracle mk is universally quantified): numeric results of "
    "the operations are the subject of C01-C15, not of C16",
]
ASSUMPTIONS = [
    "valid inputs: trajectories with >= 1 pose, SE(3) matrices, strictly increasing timestamps; ids in range",
    "the constructor sharing its poses_se3 argument list with the caller is construction: the sharing itself is "
    "observed and compared with the model, not judged; what is judged is the property's clause for it (quantifier: "
    "public function, then mutating operations on the output, then re-inspection of the inputs): no later operation "
    "on the constructed object changes the list / matrices / source object it was built from, and vice versa",
    "ROS bag I/O, TF caches, contextily map tiles, interactive windows are outside the property (not called)",
]
LEVEL_TEXT = (
    "Machine-checked theorems (Coq, no axioms) over a heap/footprint model of evo's trajectory objects: frame rule for "
    "every call, the current code writes no pre-existing cell, readers (metrics, statistics, umeyama, matching, id "
    "pairs, merges, DataFrame conversion, writers, plots) and derivations leave the views of all existing objects "
    "unchanged, and the view of an object is unchanged by every history (any length) of calls that operate on other "
    "objects - copies, associated, merged trajectories and split parts alike; for copies/associated/merged this holds "
    "even with an in-place project(); the old behaviour (in-place project on shared pose cells, split_* returning "
    "[self]) is refuted by witnesses. The model is tied to the code on every run by comparing its location graph "
    "with the implementation's sharing graph on systematic 2/3-step and random histories and by bit-level snapshots "
    "of every argument of every public function.")
LEVEL_NOTE = (
    "Trusted: Coq kernel/VM; the hand-written model's correspondence (tested on every run, not proved); numpy/CPython "
    "allocation semantics; snapshot machinery. Theorems are closed under the global context (no axioms).")
TECHNIQUE = ("Coq proof (footprints, separation invariant, induction over operation histories) + model/implementation "
             "correspondence of the location graph by vm_compute + bit-level argument snapshots")

LAZY = ("_positions_xyz", "_orientations_quat_wxyz", "_poses_se3")
PLANES = ("xy", "xz", "yz")


# ================================================================== snapshots
class Keep:
    """Keeps the snapshotted objects alive (so that `id`s stay meaningful); never influences equality."""

    def __init__(self, xs):
        self.xs = list(xs)

    def __eq__(self, other):
        return True

    def __ne__(self, other):
        return False


class TrajSnap:
    """Snapshot of a trajectory object: raw attributes and public views. Equality is the property's notion of
    'unchanged': every attribute that existed is bit-for-bit the same, the only attributes that may appear are the
    lazily computed caches, and every public view is bit-for-bit the same."""

    def __init__(self, o, depth):
        self.cls = type(o).__name__
        self.raw = {k: snap(v, depth + 1) for k, v in o.__dict__.items()}
        self.view = views(o)
        self.keep = dict(o.__dict__)

    def diff(self, other):
        if not isinstance(other, TrajSnap) or other.cls != self.cls:
            return "object replaced"
        for k, v in self.raw.items():
            if k not in other.raw:
                return "attribute %s disappeared" % k
            if other.raw[k] != v:
                return "attribute %s changed" % k
        for k in other.raw:
            if k not in self.raw and k not in LAZY:
                return "new attribute %s" % k
        for k, v in self.view.items():
            if other.view.get(k) != v:
                return "view %s changed" % k
        for k, v in self.keep.items():
            if isinstance(v, (np.ndarray, list, dict)) and other.keep.get(k) is not v:
                return "REBOUND: attribute %s is a new object with equal contents" % k
        return None

    def __eq__(self, other):
        return self.diff(other) is None

    def __ne__(self, other):
        return not self == other


def snap(o, depth=0):
    """Deep, bit-level description of an object (compare the snapshot taken before with the one taken after)."""
    from evo.core.trajectory import PosePath3D
    from evo.core.result import Result
    from evo.core.metrics import PE
    if depth > 8:
        return ("deep", type(o).__name__)
    if isinstance(o, np.ndarray):
        if o.dtype == object:
            return ("ndo", tuple(o.shape), [snap(x, depth + 1) for x in o.ravel().tolist()])
        return ("nd", str(o.dtype), tuple(o.shape), o.tobytes())
    if isinstance(o, np.generic):
        return ("npg", str(o.dtype), o.tobytes())
    if isinstance(o, PosePath3D):
        return TrajSnap(o, depth)
    if isinstance(o, (Result, PE)):
        return ("obj", type(o).__name__, [(k, snap(v, depth + 1)) for k, v in o.__dict__.items()])
    if isinstance(o, dict):
        return ("dict", [(snap(k, depth + 1), snap(v, depth + 1)) for k, v in o.items()])
    if isinstance(o, (list, tuple)):
        return (type(o).__name__, [id(x) for x in o], [snap(x, depth + 1) for x in o], Keep(o))
    try:
        import pandas as pd
        if isinstance(o, pd.DataFrame):
            return ("df", snap(o.to_numpy(), depth + 1), snap(o.index.to_numpy(), depth + 1),
                    [str(c) for c in o.columns])
    except Exception:   # noqa
        pass
    if isinstance(o, float):
        return ("float", o.hex())
    if isinstance(o, (int, bool, str, bytes, type(None))):
        return (type(o).__name__, o)
    return ("repr", type(o).__name__, repr(o)[:200])


def views(o):
    """What can be seen through the public attributes; computed on a deep copy so that the object is not touched."""
    from evo.core.trajectory import PosePath3D, PoseTrajectory3D
    c = copy.deepcopy(o)
    out = {"class": type(c).__name__, "num_poses": c.num_poses,
           "positions_xyz": snap(c.positions_xyz), "orientations_quat_wxyz": snap(c.orientations_quat_wxyz),
           "poses_se3": snap(list(c.poses_se3))[2], "meta": snap(c.meta), "projected": c._projected}
    for name in ("distances", "path_length", "speeds", "timestamps"):
        if name in ("speeds", "timestamps") and not isinstance(c, PoseTrajectory3D):
            continue
        try:
            out[name] = snap(getattr(c, name))
        except Exception as e:   # noqa  (e.g. speeds with equal stamps): the refusal itself is the view
            out[name] = ("raises", type(e).__name__)
    return out


def diff_snap(before, o):
    """None if object o still equals the snapshot taken before, else a short description of the difference."""
    now = snap(o)
    if isinstance(before, TrajSnap):
        return before.diff(now)
    if before != now:
        # locate a nested trajectory difference for the message
        def walk(a, b, path):
            if isinstance(a, TrajSnap):
                d = a.diff(b)
                return None if d is None else "%s: %s" % (path, d)
            # readable paths (message only): attributes of Result / PE objects, keys of dicts
            if (isinstance(a, tuple) and isinstance(b, tuple) and len(a) == len(b) and a and a[0] == b[0]
                    and a[0] in ("obj", "dict") and isinstance(a[-1], list) and isinstance(b[-1], list)
                    and len(a[-1]) == len(b[-1]) and all(ka == kb for (ka, _), (kb, _) in zip(a[-1], b[-1]))):
                for (ka, va), (_, vb) in zip(a[-1], b[-1]):
                    name = ka if isinstance(ka, str) else (ka[1] if isinstance(ka, tuple) and len(ka) == 2 else ka)
                    r = walk(va, vb, ("%s.%s" if a[0] == "obj" else "%s[%r]") % (path, name))
                    if r:
                        return r
                return None if a == b else "%s differs" % path
            if (isinstance(a, tuple) and isinstance(b, tuple) and len(a) == 4 and len(b) == 4 and a[0] == "nd"
                    and b[0] == "nd" and a != b):
                if a[1:3] != b[1:3]:
                    return "%s: array dtype/shape %r -> %r" % (path, a[1:3], b[1:3])
                try:
                    x, y = np.frombuffer(a[3], dtype=a[1]), np.frombuffer(b[3], dtype=b[1])
                    ks = [k for k in range(x.size) if x[k:k + 1].tobytes() != y[k:k + 1].tobytes()]
                    return "%s: array contents changed at flat indices %r (e.g. [%d]: %r -> %r)%s" % (
                        path, ks[:8], ks[0], x[ks[0]].item(), y[ks[0]].item(),
                        "; same multiset of values (reordered)" if sorted(x.tolist()) == sorted(y.tolist()) else "")
                except Exception:   # noqa  (message only)
                    return "%s differs" % path
            if isinstance(a, (list, tuple)) and isinstance(b, (list, tuple)) and len(a) == len(b):
                for k, (x, y) in enumerate(zip(a, b)):
                    r = walk(x, y, "%s[%d]" % (path, k))
                    if r:
                        return r
            return None if a == b else "%s differs" % path
        return walk(before, now, "value") or "value differs"
    return None


# ================================================================== inputs
def rot(rng):
    q = rng.normal(size=4)
    q /= np.linalg.norm(q)
    w, x, y, z = q
    return np.array([[1 - 2 * (y * y + z * z), 2 * (x * y - z * w), 2 * (x * z + y * w)],
                     [2 * (x * y + z * w), 1 - 2 * (x * x + z * z), 2 * (y * z - x * w)],
                     [2 * (x * z - y * w), 2 * (y * z + x * w), 1 - 2 * (x * x + y * y)]])


def se3_of(r, t):
    m = np.eye(4)
    m[:3, :3] = r
    m[:3, 3] = t
    return m


def raw_data(seed, n):
    """n poses: unit steps, 1 s sampling (+- 1 ms jitter); a fast 30 m step before pose 3 and a 10 s time gap with a
    25 m jump before pose 6 - the same stamps for every seed, so that association is unambiguous."""
    rng = np.random.default_rng([1603, int(seed)])
    steps = rng.normal(size=(n, 3))
    steps /= np.linalg.norm(steps, axis=1)[:, None]
    if n > 3:
        steps[3] *= 30.0
    if n > 6:
        steps[6] *= 25.0
    xyz = np.cumsum(steps, axis=0)
    ts = 100.0 + np.arange(n) + 10.0 * (np.arange(n) >= 6) + 0.001 * rng.uniform(-1.0, 1.0, n)
    poses = [se3_of(rot(rng), xyz[i]) for i in range(n)]
    return poses, ts


def make_traj(mode, n, seed, stamped=True, stamp_seed=None):
    from evo.core.trajectory import PosePath3D, PoseTrajectory3D
    import evo.core.transformations as tr
    poses, ts = raw_data(seed, n)
    if stamp_seed is not None:   # poses of `seed`, stamps of `stamp_seed` (identical stamps for different poses)
        ts = raw_data(stamp_seed, n)[1]
    if mode == "mat":
        return PoseTrajectory3D(poses_se3=poses, timestamps=ts) if stamped else PosePath3D(poses_se3=poses)
    xyz = np.array([p[:3, 3] for p in poses])
    quat = np.array([tr.quaternion_from_matrix(p) for p in poses])
    return PoseTrajectory3D(xyz, quat, ts) if stamped else PosePath3D(xyz, quat)


# ================================================================== history interpreter (implementation side)
class Violation(Exception):
    pass


def _cuts_time(t, thr):
    return [int(i) + 1 for i in np.where(np.diff(np.asarray(t.timestamps)) > thr)[0]]


def _step_lengths(t):
    p = np.asarray(copy.deepcopy(t).positions_xyz)
    return np.linalg.norm(p[1:] - p[:-1], axis=1)


def _cuts_dist(t, thr):
    return [int(i) + 1 for i in np.where(_step_lengths(t) > thr)[0]]


def _cuts_speed(t, thr):
    return [int(i) + 1 for i in np.where(_step_lengths(t) / np.diff(np.asarray(t.timestamps)) > thr)[0]]


def _match_ids(ts_a, ts_b, max_diff):
    """independent nearest matching (inputs are built so that it is unambiguous)"""
    ia, ib = [], []
    short_is_a = len(ts_a) <= len(ts_b)
    s, l = (ts_a, ts_b) if short_is_a else (ts_b, ts_a)
    for i, x in enumerate(s):
        j = int(np.argmin(np.abs(l - x)))
        if abs(l[j] - x) <= max_diff:
            (ia if short_is_a else ib).append(i)
            (ib if short_is_a else ia).append(j)
    return ia, ib


def run_history(hist):
    """Execute the history on the implementation. Returns a JSON-able observation."""
    from evo.core import sync, trajectory, lie_algebra as lie, filters
    from evo.core.trajectory import PosePath3D, PoseTrajectory3D, Plane, TrajectoryException
    env, coq, steps, violations, aliased = [], [], [], [], {}
    ctor_children = set()   # objects built by the constructor on another object's list of matrices
    planes = {"xy": Plane.XY, "xz": Plane.XZ, "yz": Plane.YZ}
    tr_rng = np.random.default_rng(77)

    def add_results(objs_):
        hs = []
        for r in objs_:
            found = [k for k, e in enumerate(env) if e is r]
            if found:
                hs.append(found[0])
                aliased[found[0]] = True
            else:
                env.append(r)
                hs.append(len(env) - 1)
        return hs

    res_stack = []

    def resolve(x):
        if isinstance(x, list) and x and x[0] == "pick":
            cand = [h for h, o in enumerate(env) if o.num_poses >= 4] or list(range(len(env)))
            return cand[x[1] % len(cand)]
        if isinstance(x, list) and x and x[0] in ("r", "r2"):
            rs = res_stack[-1 if x[0] == "r" else -2]
            return rs[x[1] % len(rs)]
        if isinstance(x, list):
            return [resolve(y) for y in x]
        return x

    for pos, c in enumerate(hist):
        op = c[0]
        c = [c[0]] + [resolve(x) if (k < 2 or op in ("assoc", "merge", "align", "align_origin")) and not (
            op == "reduce" and k == 1) else x for k, x in enumerate(c[1:])]
        subject = c[1] if op in ("transform", "scale", "project", "reduce", "downsample", "time_range",
                                 "motion_filter", "align", "align_origin", "shift_time") else None
        before = [snap(o) if k != subject else None for k, o in enumerate(env)]
        # every array reachable from any object, to see which are written in place
        held = []
        for o in env:
            if isinstance(o, PosePath3D):
                for v in o.__dict__.values():
                    if isinstance(v, np.ndarray):
                        held.append(v)
                    elif isinstance(v, list):
                        held.extend(x for x in v if isinstance(x, np.ndarray))
        uniq = {id(a): a for a in held}
        held_bytes = {k: a.tobytes() for k, a in uniq.items()}
        subj_view = views(env[subject]) if subject is not None else None
        res, term, note = [], None, {}
        try:
            if op == "init":
                _, mode, n, seed, stamped = c
                res = add_results([make_traj(mode, n, seed, stamped)])
                term = "CInit %s %s %s" % (cnat(0 if mode == "mat" else 1), cnat(n), cbool(stamped))
            elif op == "init_stamps":
                # stamped trajectory with the poses of `seed` and the stamps of `stamp_seed`
                _, mode, n, seed, stamp_seed = c
                res = add_results([make_traj(mode, n, seed, True, stamp_seed)])
                term = "CInit %s %s true" % (cnat(0 if mode == "mat" else 1), cnat(n))
            elif op == "shift_time":
                # caller-side in-place time offset of a derived trajectory (as main_traj --t_offset does); writes the
                # object's own stamps array only, no allocation: not a call of the model (term None)
                env[c[1]].timestamps += c[2]
            elif op == "get":
                _, i, g = c
                {"pos": lambda t: t.positions_xyz, "quat": lambda t: t.orientations_quat_wxyz,
                 "poses": lambda t: t.poses_se3}[g](env[i])
                term = "CGet %s %s" % (cnat(i), {"pos": "GPos", "quat": "GQuat", "poses": "GPoses"}[g])
            elif op == "transform":
                _, i, rm, prop, kind = c
                t = se3_of(rot(tr_rng), tr_rng.normal(size=3))
                if kind == "sim3":
                    t = lie.sim3(t[:3, :3], t[:3, 3], 1.75)
                tb = t.tobytes()
                env[i].transform(t, right_mul=rm, propagate=prop)
                if t.tobytes() != tb:
                    violations.append({"step": pos, "what": "transform() changed its matrix argument"})
                term = "CTransform %s %s %s %s" % (cnat(i), cbool(rm), cbool(prop), cbool(kind == "sim3"))
            elif op == "scale":
                env[c[1]].scale(c[2])
                term = "CScale %s" % cnat(c[1])
            elif op == "project":
                try:
                    env[c[1]].project(planes[c[2]])
                except TrajectoryException:
                    note["raised"] = "TrajectoryException"
                term = "CProject %s %s" % (cnat(c[1]), cnat(PLANES.index(c[2])))
            elif op == "reduce":
                n0 = env[c[1]].num_poses
                ids = {"drop1": [k for k in range(n0) if k != 1 or n0 < 2], "even": list(range(0, n0, 2)),
                       "head": list(range(max(1, n0 - 1)))}[c[2]] if isinstance(c[2], str) else list(c[2])
                arg = np.array(ids, dtype=int) if c[1] % 2 else list(ids)
                ab = snap(arg)
                env[c[1]].reduce_to_ids(arg)
                if snap(arg) != ab:
                    violations.append({"step": pos, "what": "reduce_to_ids() changed its ids argument"})
                term = "CReduce %s %s" % (cnat(c[1]), cnatlist(ids))
            elif op == "downsample":
                n0 = env[c[1]].num_poses
                env[c[1]].downsample(c[2])
                if n0 > c[2]:
                    term = "CReduce %s %s" % (cnat(c[1]), cnatlist(np.linspace(0, n0 - 1, c[2], dtype=int).tolist()))
            elif op == "time_range":
                t = env[c[1]]
                ts = np.asarray(t.timestamps)
                lo, hi = ts[min(1, len(ts) - 1)], ts[-1]
                ids = [int(k) for k in np.where((ts >= lo) & (ts <= hi))[0]]
                t.reduce_to_time_range(lo, hi)
                term = "CReduce %s %s" % (cnat(c[1]), cnatlist(ids))
            elif op == "motion_filter":
                t = env[c[1]]
                ids = [int(k) for k in filters.filter_by_motion(copy.deepcopy(t).poses_se3, c[2], c[3])]
                t.motion_filter(c[2], c[3])
                term = "CMotionFilter %s %s" % (cnat(c[1]), cnatlist(ids))
            elif op == "align":
                _, i, ref, cs, only = c
                nn = -1 if env[i].num_poses == env[ref].num_poses else 3
                env[i].align(env[ref], correct_scale=cs, correct_only_scale=only, n=nn)
                term = "CAlign %s %s %s %s" % (cnat(i), cnat(ref), cbool(cs), cbool(only))
            elif op == "align_origin":
                env[c[1]].align_origin(env[c[2]])
                term = "CAlignOrigin %s %s" % (cnat(c[1]), cnat(c[2]))
            elif op == "copy":
                res = add_results([copy.deepcopy(env[c[1]])])
                term = "CCopy %s" % cnat(c[1])
            elif op == "assoc":
                _, a, b, maxd = c
                ia, ib = _match_ids(np.asarray(env[a].timestamps), np.asarray(env[b].timestamps), maxd)
                r1, r2 = sync.associate_trajectories(env[a], env[b], max_diff=maxd)
                res = add_results([r1, r2])
                term = "CAssoc %s %s %s %s" % (cnat(a), cnat(b), cnatlist(ia), cnatlist(ib))
            elif op == "merge":
                srcs = list(c[1])
                lst = [env[k] for k in srcs]
                res = add_results([trajectory.merge(lst)])
                if len(lst) != len(srcs) or any(x is not env[k] for x, k in zip(lst, srcs)):
                    violations.append({"step": pos, "what": "merge() changed its list argument"})
                term = "CMerge %s" % cnatlist(srcs)
            elif op == "split":
                _, kind, src, thr = c
                t = env[src]
                if kind == "time":
                    cuts, parts = _cuts_time(t, thr), t.split_time_gaps(thr)
                elif kind == "dist":
                    cuts, parts = _cuts_dist(t, thr), t.split_distance_gaps(thr)
                else:
                    cuts, parts = _cuts_speed(t, thr), t.split_speed_outliers(thr)
                res = add_results(list(parts))
                term = "CSplit %s %s %s" % ({"time": "SplitTime", "dist": "SplitDist", "speed": "SplitSpeed"}[kind],
                                            cnat(src), cnatlist(cuts))
            elif op == "ctor_poses":
                _, src, share_meta = c
                t = env[src]
                kw = {"meta": t.meta} if share_meta else {}
                if isinstance(t, PoseTrajectory3D):
                    r = PoseTrajectory3D(poses_se3=t.poses_se3, timestamps=t.timestamps, **kw)
                else:
                    r = PosePath3D(poses_se3=t.poses_se3, **kw)
                res = add_results([r])
                ctor_children.update(res)
                term = "CCtorPoses %s %s" % (cnat(src), cbool(share_meta))
            elif op == "ctor_pq":
                t = env[c[1]]
                if isinstance(t, PoseTrajectory3D):
                    r = PoseTrajectory3D(t.positions_xyz, t.orientations_quat_wxyz, t.timestamps)
                else:
                    r = PosePath3D(t.positions_xyz, t.orientations_quat_wxyz)
                res = add_results([r])
                term = "CCtorPQ %s" % cnat(c[1])
            else:
                raise HarnessError("unknown history command %r" % (c,))
        except HarnessError:
            raise
        except Exception as e:   # noqa
            return {"error": "%s at step %d (%r): %s" % (type(e).__name__, pos, c, str(e)[:200])}
        # ---- every object other than the one operated on must be bit-for-bit what it was
        for k, b in enumerate(before):
            if b is None:
                continue
            d = diff_snap(b, env[k])
            if d is not None:
                violations.append({"step": pos, "what": "object %d (not operated on) changed during %s: %s"
                                                        % (k, op, d),
                                   # constructor arguments shared with the caller are construction, not derivation
                                   "construction": subject in ctor_children or k in ctor_children,
                                   "soft": d.startswith("REBOUND")})
        # ---- an operation through a handle that IS its source object changes the source
        if subject is not None and aliased.get(subject) and views(env[subject]) != subj_view:
            violations.append({"step": pos, "what": "object %d was returned as a derived object but is its source "
                                                    "itself; %s on it changed the source" % (subject, op)})
        written = sum(1 for k, a in uniq.items() if a.tobytes() != held_bytes[k])
        changed = subject is not None and views(env[subject]) != subj_view
        if res:
            res_stack.append(res)
        if term is not None:
            coq.append(term)
            steps.append({"res": res, "written": written, "changed": bool(changed), **note})
    return {"coq": coq, "steps": steps, "violations": violations, "graph": graph_of(env),
            "aliased": sorted(aliased)}


def graph_of(env):
    """Per object: n, projected, and slots; slots share a label iff they are the same array / list / dict."""
    from evo.core.trajectory import PosePath3D
    slots = []   # (handle, field, index, python object)
    shape = []
    for h, o in enumerate(env):
        if not isinstance(o, PosePath3D):
            shape.append(None)
            continue
        d = o.__dict__
        sh = {"n": int(o.num_poses), "proj": bool(o._projected), "pos": "_positions_xyz" in d,
              "quat": "_orientations_quat_wxyz" in d, "poses": len(d["_poses_se3"]) if "_poses_se3" in d else None,
              "stamps": "timestamps" in d}
        shape.append(sh)
        if sh["pos"]:
            slots.append((h, "pos", 0, d["_positions_xyz"]))
        if sh["quat"]:
            slots.append((h, "quat", 0, d["_orientations_quat_wxyz"]))
        if sh["poses"] is not None:
            slots.append((h, "lid", 0, d["_poses_se3"]))
            for k, p in enumerate(d["_poses_se3"]):
                slots.append((h, "pose", k, p))
        if sh["stamps"]:
            slots.append((h, "stamps", 0, d["timestamps"]))
        slots.append((h, "meta", 0, d["meta"]))
    labels = []
    for i, (_, _, _, x) in enumerate(slots):
        lab = i
        for j in range(i):
            y = slots[j][3]
            same = x is y
            if not same and isinstance(x, np.ndarray) and isinstance(y, np.ndarray):
                same = bool(np.may_share_memory(x, y)) and bool(np.shares_memory(x, y))
            if same:
                lab = labels[j]
                break
        labels.append(lab)
    return {"shape": shape, "slots": [[h, f, k] for h, f, k, _ in slots], "labels": labels}


def model_graph(objs_dump):
    """Same canonical form from the model's dump (list of objects as lists of location lists)."""
    slots, locs, shape = [], [], []
    for h, o in enumerate(objs_dump):
        head = o[0]
        if head[0] != 0:
            shape.append(None)
            continue
        _, n, proj = head
        pos, quat, lid, poses, stamps, meta = o[1], o[2], o[3], o[4], o[5], o[6]
        shape.append({"n": n, "proj": bool(proj), "pos": bool(pos), "quat": bool(quat),
                      "poses": len(poses) if lid else None, "stamps": bool(stamps)})
        if pos:
            slots.append([h, "pos", 0]); locs.append(pos[0])
        if quat:
            slots.append([h, "quat", 0]); locs.append(quat[0])
        if lid:
            slots.append([h, "lid", 0]); locs.append(lid[0])
            for k, l in enumerate(poses):
                slots.append([h, "pose", k]); locs.append(l)
        if stamps:
            slots.append([h, "stamps", 0]); locs.append(stamps[0])
        slots.append([h, "meta", 0]); locs.append(meta[0])
    first = {}
    labels = []
    for i, l in enumerate(locs):
        first.setdefault(l, i)
        labels.append(first[l])
    return {"shape": shape, "slots": slots, "labels": labels}


# ================================================================== history cases: expression, judge, generators
def hist_expr(case, out):
    if "coq" not in out:
        return "tt"
    h = "[" + "; ".join(out["coq"]) + "]"
    return "[report cfg_new %s; report cfg_old %s]" % (h, h)


def _cmp_graph(mg, ig):
    if mg["shape"] != ig["shape"]:
        for h, (a, b) in enumerate(zip(mg["shape"], ig["shape"])):
            if a != b:
                return "object %d: model %r, implementation %r" % (h, a, b)
        return "number of objects: model %d, implementation %d" % (len(mg["shape"]), len(ig["shape"]))
    if mg["slots"] != ig["slots"]:
        return "slot lists differ"
    for i, (a, b) in enumerate(zip(mg["labels"], ig["labels"])):
        if a != b:
            s = mg["slots"][i]
            tgt = mg["slots"][b] if b != i else None
            if b != i and a == i:
                return "%r of object %d is shared with %r of object %d in the implementation, fresh in the model" % (
                    s[1:], s[0], tgt[1:], tgt[0])
            return "%r of object %d: model shares with slot %r, implementation with slot %r" % (
                s[1:], s[0], mg["slots"][a], ig["slots"][b])
    return None


def hist_judge(case, val, out):
    if "error" in out:
        return {"kind": "model-vs-impl", "failing_input": False, "correspondence": "Heap.exec (history ran into an "
                "exception on the implementation)", "detail": out["error"]}
    # An object that was not operated on changed bit-for-bit: the history is a failing input of the property.  This
    # includes objects built by the public constructor from another object's pose list (quantifier: "every public
    # ... function of evo.core ... followed by arbitrary mutating operations on the outputs (transform, scale,
    # project, reduce) and re-inspection of the inputs"): sharing the list is construction and is only observed
    # (sharing graph), but a later operation on one object that changes what is seen through the other is not.
    judged = [v for v in out["violations"] if not v.get("soft")]
    if judged:
        v = judged[0]
        return {"kind": "spec-violation", "failing_input": True,
                "detail": "history %s: step %d: %s%s" % (
                    json.dumps(case["hist"]), v["step"], v["what"],
                    " (the two objects are related through the constructor: one was built from the other's "
                    "poses_se3)" if v.get("construction") else "")}
    if out["violations"]:
        v = out["violations"][0]
        return {"kind": "model-vs-impl", "failing_input": False, "correspondence": "Heap.exec (write footprint)",
                "detail": "outside the stated clauses (a cached array replaced by an equal one): history %s: step %d: "
                          "%s" % (json.dumps(case["hist"]), v["step"], v["what"])}
    (new_objs, new_log), (old_objs, old_log) = val
    mg, ig = model_graph(new_objs), out["graph"]
    why = _cmp_graph(mg, ig)
    if why is None:
        for k, (st, (w, res)) in enumerate(zip(out["steps"], new_log)):
            if list(res) != list(st["res"]):
                why = "call %d (%s): result handles model %r, implementation %r" % (k, out["coq"][k], list(res), st["res"])
                break
            if len(w) != st["written"]:
                why = "call %d (%s): pre-existing arrays written in place: model %d, implementation %d" % (
                    k, out["coq"][k], len(w), st["written"])
                break
        if why is None and len(new_log) != len(out["steps"]):
            why = "log lengths differ"
    if why is None:
        return None
    old_matches = _cmp_graph(model_graph(old_objs), ig) is None and all(
        list(res) == list(st["res"]) and len(w) == st["written"] for st, (w, res) in zip(out["steps"], old_log))
    return {"kind": "model-vs-impl", "failing_input": False, "correspondence": "Heap.report cfg_new (location graph)",
            "detail": why + ("; the implementation matches the OLD model cfg_old (regression of fix 6234e49 / "
                             "ce2eb42)" if old_matches else "")}


MUTS = [
    ["transform", False, False, "se3"], ["transform", True, False, "se3"], ["transform", True, True, "se3"],
    ["transform", False, False, "sim3"], ["transform", True, True, "sim3"],
    ["scale", 2.5], ["project", "xy"], ["project", "xz"], ["project", "yz"],
    ["reduce", "drop1"], ["reduce", "even"], ["downsample", 3], ["time_range"], ["motion_filter", 0.5, 0.3],
    ["align", 0, False, False], ["align", 0, True, False], ["align", 0, False, True], ["align", 1, True, False],
    ["align_origin", 0], ["align_origin", 1],
]
SHRINKING = ("reduce", "downsample", "time_range", "motion_filter")


def _mut(m, b):
    return [m[0], b] + list(m[1:])


# (name, commands, number of derived objects) ; src = handle of the source, oth = the other trajectory
def derivations(src, oth):
    return [
        ("copy", [["copy", src]], 1),
        ("assoc", [["assoc", src, oth, 0.01]], 2),
        ("assoc_swapped", [["assoc", oth, src, 0.01]], 2),
        ("split_time_cut", [["split", "time", src, 5.0]], 2),
        ("split_time_nocut", [["split", "time", src, 1e6]], 1),
        ("split_dist_cut", [["split", "dist", src, 10.0]], 3),
        ("split_dist_nocut", [["split", "dist", src, 1e6]], 1),
        ("split_speed_cut", [["split", "speed", src, 10.0]], 2),
        ("split_speed_nocut", [["split", "speed", src, 1e6]], 1),
        ("merge_two", [["merge", [src, oth]]], 1),
        ("merge_one", [["merge", [src]]], 1),
        ("reduce_on_copy", [["copy", src], ["reduce", ["r", 0], "even"]], 1),
        ("ctor_poses", [["ctor_poses", src, False]], 1),
        ("ctor_poses_meta", [["ctor_poses", src, True]], 1),
        ("ctor_pq", [["ctor_pq", src]], 1),
    ]


WARMS = [[], ["pos"], ["poses"], ["pos", "quat", "poses"]]
N_A, N_O = 10, 8


def mk_hist(mode, seed, warm, body, after, stamped=True):
    h = [["init", mode, N_A, seed, stamped], ["init", "pq" if mode == "mat" else "mat", N_O, seed + 1, stamped]]
    h += [["get", 0, g] for g in warm]
    h += body
    h += [["get", 0, g] for g in after]
    return {"kind": "history", "hist": h}


def systematic_histories(ctx):
    """2-step: every derivation x every mutation x both storage modes x cache states of A (quick: every 3rd)."""
    cases, k = [], 0
    for mode in ("mat", "pq"):
        for wi, warm in enumerate(WARMS):
            for dname, dcmds, nres in derivations(0, 1):
                for m in MUTS:
                    k += 1
                    if ctx.quick and (k + wi) % 3 != 0:
                        continue
                    b = ["r", (k // 3) % nres]
                    cases.append(mk_hist(mode, 10 + k % 7, warm, dcmds + [_mut(m, b)], WARMS[(k // 5) % len(WARMS)]))
    # PosePath3D (no timestamps): the derivations and operations that exist for plain paths
    for mode in ("mat", "pq"):
        for dname, dcmds, nres in derivations(0, 1):
            if dname not in ("copy", "split_dist_cut", "split_dist_nocut", "reduce_on_copy", "ctor_poses", "ctor_pq"):
                continue
            for m in MUTS:
                k += 1
                if m[0] == "time_range" or (ctx.quick and k % 3 != 0):
                    continue
                cases.append(mk_hist(mode, 10 + k % 7, WARMS[k % len(WARMS)], dcmds + [_mut(m, ["r", (k // 3) % nres])],
                                     WARMS[(k // 5) % len(WARMS)], stamped=False))
    return cases


def assoc_equal_histories(ctx):
    """Both trajectories have the SAME number of poses and every stamp is matched (identical stamps, or stamps that
    differ by the +-1 ms jitter of raw_data, max_diff 0.01): associate (both argument orders), then operate on one of
    the two associated trajectories (every in-place method, a time offset), then re-inspect the inputs."""
    cases, k = [], 0
    muts = MUTS + [["shift_time", 0.5]]
    for jitter in (False, True):
        for order in ((0, 1), (1, 0)):
            for which in (0, 1):
                for m in muts:
                    k += 1
                    if ctx.quick and which == 1 and (k + order[0]) % 4 != 0:
                        continue      # quick: the second result (always an independent copy so far) every 4th time
                    mode = ("mat", "pq")[(k + (k // len(muts))) % 2]
                    oth = ("pq", "mat")[(k // 3) % 2] if k % 5 else mode
                    seed = 50 + k % 9
                    h = [["init", mode, N_A, seed, True],
                         ["init", oth, N_A, seed + 1, True] if jitter else ["init_stamps", oth, N_A, seed + 1, seed]]
                    h += [["get", 0, g] for g in WARMS[k % len(WARMS)]]
                    h += [["get", 1, g] for g in WARMS[(k // 2) % len(WARMS)]]
                    b = ["r", which]
                    mm = list(m)
                    if m[0] in ("align", "align_origin"):
                        # align the associated trajectory to its partner (the other associated one) or to an input
                        mm[1] = ["r", 1 - which] if k % 2 else m[1]
                    h += [["assoc", order[0], order[1], 0.01], _mut(mm, b)]
                    h += [["get", 0, g] for g in WARMS[(k // 5) % len(WARMS)]]
                    cases.append({"kind": "history", "hist": h})
    return cases


def three_step_histories(ctx):
    """derive; mutate B twice (with reads in between) / derive again from B and mutate the grandchild and B."""
    rng, cases = ctx.rng, []
    ders = derivations(0, 1)
    for k in range(ctx.n(200, 8000)):
        mode = "mat" if k % 2 else "pq"
        warm = WARMS[rng.randrange(len(WARMS))]
        dname, dcmds, nres = ders[rng.randrange(len(ders))]
        b = ["r", rng.randrange(nres)]
        if k % 3 == 0:
            d2 = [d for d in derivations(b, 0) if d[0] in ("copy", "split_dist_cut", "split_dist_nocut", "merge_one",
                                                             "merge_two", "ctor_poses", "ctor_pq", "split_time_nocut",
                                                             "split_speed_nocut", "reduce_on_copy")]
            _, dcmds2, nres2 = d2[rng.randrange(len(d2))]
            c = ["r", rng.randrange(nres2)]
            safe = [m for m in MUTS if m[0] in ("transform", "scale", "project", "align_origin")]
            body = dcmds + dcmds2 + [_mut(safe[rng.randrange(len(safe))], c),
                                     _mut(safe[rng.randrange(len(safe))], ["r2", b[1]])]
            if dcmds2[0][0] == "copy" and len(dcmds2) == 2:
                body = dcmds + dcmds2 + [_mut(safe[rng.randrange(len(safe))], c)]
        else:
            m1 = MUTS[rng.randrange(len(MUTS))]
            pool = [m for m in MUTS if not (m1[0] in SHRINKING and (m[0] in SHRINKING or m[0] == "align"))]
            m2 = pool[rng.randrange(len(pool))]
            body = dcmds + [_mut(m1, b), ["get", b, ["pos", "quat", "poses"][k % 3]], _mut(m2, b)]
            if k % 4 == 0:   # and finally the source itself: the derived objects must not change either
                safe = [m for m in MUTS if m[0] in ("transform", "scale", "project")]
                body.append(_mut(safe[rng.randrange(len(safe))], 0))
        cases.append(mk_hist(mode, 20 + k % 11, warm, body, WARMS[rng.randrange(len(WARMS))]))
    return cases


# ================================================================== (a) every public computing / writing function
TARGET_MODULES = ["evo.core.trajectory", "evo.core.sync", "evo.core.metrics", "evo.core.result", "evo.core.filters",
                  "evo.core.geometry", "evo.core.lie_algebra", "evo.core.transformations", "evo.core.units",
                  "evo.tools.file_interface", "evo.tools.pandas_bridge", "evo.tools.plot", "evo.tools.settings",
                  "evo.tools.settings_template", "evo.tools.tf_id", "evo.tools.user", "evo.tools.log",
                  "evo.tools.tf_cache", "evo.tools.contextily_helper", "evo.tools._typing"]
SKIP_MODULE = {
    "evo.tools.settings": "settings/config files, no array or trajectory arguments (C18/C19)",
    "evo.tools.settings_template": "constants for settings (C18)",
    "evo.tools.tf_id": "TF identifiers / bag hashing (ROS TF, outside every property)",
    "evo.tools.user": "interactive prompts (C17)",
    "evo.tools.log": "logging configuration",
    "evo.tools.tf_cache": "ROS TF cache: tf2_py not installed, outside every property",
    "evo.tools.contextily_helper": "contextily not installed, outside every property",
    "evo.tools._typing": "type aliases only",
    "evo.core.units": "enum and constant tables only",
}
SKIP_NAME = {
    "evo.tools.plot.PlotCollection.tabbed_qt5_window": "interactive window",
    "evo.tools.plot.PlotCollection.tabbed_tk_window": "interactive window",
    "evo.tools.plot.PlotCollection.show": "interactive window",
    "evo.tools.plot.map_tile": "needs contextily and network",
    "evo.tools.plot.ros_map": "needs a ROS map yaml + image file, no trajectory argument",
    "evo.tools.plot.apply_settings": "matplotlib rc configuration, no array argument",
    "evo.tools.file_interface.get_supported_topics": "bag reader introspection only, no array argument",
    "evo.tools.file_interface.has_utf8_bom": "path argument only",
    "evo.core.transformations.Arcball.place": "GUI arcball helper class, not used by evo",
    "evo.core.transformations.Arcball.setaxes": "GUI arcball helper class, not used by evo",
    "evo.core.transformations.Arcball.constrain": "GUI arcball helper class, not used by evo",
    "evo.core.transformations.Arcball.down": "GUI arcball helper class, not used by evo",
    "evo.core.transformations.Arcball.drag": "GUI arcball helper class, not used by evo",
    "evo.core.transformations.Arcball.next": "GUI arcball helper class, not used by evo",
    "evo.core.transformations.Arcball.matrix": "GUI arcball helper class, not used by evo",
    "evo.core.transformations.Arcball.__init__": "GUI arcball helper class, not used by evo",
    "evo.core.metrics.Metric.process_data": "abstract method (covered through APE / RPE)",
    "evo.core.metrics.Metric.get_statistic": "abstract method (covered through PE)",
    "evo.core.metrics.Metric.get_all_statistics": "abstract method (covered through PE)",
    "evo.core.metrics.Metric.get_result": "abstract method (covered through PE)",
    "evo.core.metrics.PE.process_data": "abstract method (covered through APE / RPE)",
    "evo.core.transformations.random_quaternion": "no arguments by default",
    "evo.core.transformations.random_rotation_matrix": "no arguments by default",
    "evo.core.transformations.random_vector": "size argument only",
    "evo.core.transformations.identity_matrix": "no arguments",
    "evo.core.lie_algebra.random_so3": "no arguments",
    "evo.core.lie_algebra.random_se3": "no arguments",
}


def enumerate_public():
    """Qualified names of all public functions and public methods/properties of the target modules."""
    names, failed = [], {}
    for mn in TARGET_MODULES:
        try:
            mod = importlib.import_module(mn)
        except Exception as e:   # noqa
            failed[mn] = type(e).__name__
            continue
        for n, o in sorted(vars(mod).items()):
            if n.startswith("_"):
                continue
            if inspect.isfunction(o) and o.__module__ == mn:
                names.append("%s.%s" % (mn, n))
            elif inspect.isclass(o) and o.__module__ == mn and not issubclass(o, (Exception,)) \
                    and not (hasattr(o, "__members__")):
                for k, v in vars(o).items():
                    public = not k.startswith("_") or k in ("__init__", "__str__", "__eq__")
                    if public and (inspect.isfunction(v) or isinstance(v, (property, staticmethod, classmethod))):
                        names.append("%s.%s.%s" % (mn, n, k))
    return names, failed


class Inputs:
    """Valid inputs for the call table: an associated pair of trajectories, raw arrays, results, figures."""

    def __init__(self, mode, warm, seed):
        from evo.core import metrics, lie_algebra as lie
        from evo.core.trajectory import PosePath3D
        self.mode, self.seed = mode, seed
        self.n = 10
        self.A = make_traj(mode, self.n, seed)
        self.B = make_traj(mode, self.n, seed + 100)
        self.C = make_traj("pq" if mode == "mat" else "mat", 8, seed + 200)
        self.P = make_traj(mode, self.n, seed + 300, stamped=False)
        self.Q = make_traj(mode, self.n, seed + 400, stamped=False)
        self.trajs = {"A": self.A, "B": self.B, "C": self.C, "P": self.P, "Q": self.Q}
        if warm:
            for t in self.trajs.values():
                t.positions_xyz, t.orientations_quat_wxyz, t.poses_se3
        poses, ts = raw_data(seed + 500, self.n)
        self.poses = poses
        self.stamps = ts
        self.stamps2 = ts[1:7] + 0.002
        self.xyz = np.array([p[:3, 3] for p in poses])
        self.xyz2 = np.array([p[:3, 3] for p in raw_data(seed + 600, self.n)[0]])
        import evo.core.transformations as tr
        self.quat = np.array([tr.quaternion_from_matrix(p) for p in poses])
        self.T = poses[0].copy()
        self.T2 = poses[1].copy()
        self.S = lie.sim3(poses[2][:3, :3], poses[2][:3, 3], 1.5)
        self.R = poses[3][:3, :3].copy()
        self.R2 = poses[4][:3, :3].copy()
        self.v = np.array([0.3, -0.2, 0.5])
        self.v2 = np.array([-0.1, 0.7, 0.2])
        self.q = self.quat[0].copy()
        self.q2 = self.quat[1].copy()
        self.ids = [0, 2, 3, 5, 7]
        self.err = np.abs(np.sin(np.arange(self.n) + seed)) + 0.1
        self.tmp = tempfile.mkdtemp(prefix="c16_")

    def metric(self, cls="ape", rel=None, **kw):
        from evo.core import metrics
        rel = rel or metrics.PoseRelation.translation_part
        m = metrics.APE(rel) if cls == "ape" else metrics.RPE(rel, **kw)
        m.process_data((copy.deepcopy(self.A), copy.deepcopy(self.B)))
        return m

    def result(self, k=0):
        m = self.metric()
        m.error = m.error + k
        r = m.get_result("ref", "est%d" % k)
        r.add_trajectory("est", copy.deepcopy(self.B))
        r.add_trajectory("path", copy.deepcopy(self.P))
        return r

    def ax(self, mode3d=False):
        from evo.tools import plot
        import matplotlib.pyplot as plt
        fig = plt.figure()
        return fig, plot.prepare_axis(fig, plot.PlotMode.xyz if mode3d else plot.PlotMode.xy)

    def axarr(self):
        import matplotlib.pyplot as plt
        fig, axarr = plt.subplots(3)
        return axarr

    def cleanup(self):
        import shutil
        import matplotlib.pyplot as plt
        plt.close("all")
        shutil.rmtree(self.tmp, ignore_errors=True)


def call_table():
    """qualified name -> list of variants; a variant maps Inputs to (arguments to snapshot, thunk, model reader).
    The model reader is (trajectory argument names in handle order, Coq reader term using those handles)."""
    from evo.core import (filters, geometry, lie_algebra as lie, metrics, result, sync, trajectory,
                          transformations as tr)
    from evo.core.metrics import PoseRelation as PR, StatisticsType as ST, Unit
    from evo.core.trajectory import PosePath3D, PoseTrajectory3D, Plane
    from evo.tools import file_interface as fi, pandas_bridge as pb, plot
    T = {}

    def add(name, fn):
        T.setdefault(name, []).append(fn)

    tj, sy, me, re_, fl, ge, la, trn = ("evo.core.trajectory.", "evo.core.sync.", "evo.core.metrics.",
                                        "evo.core.result.", "evo.core.filters.", "evo.core.geometry.",
                                        "evo.core.lie_algebra.", "evo.core.transformations.")
    fin, pbn, pl = "evo.tools.file_interface.", "evo.tools.pandas_bridge.", "evo.tools.plot."

    # ---------------- trajectory: constructors, properties, readers
    add(tj + "PosePath3D.__init__", lambda I: ({"xyz": I.xyz, "quat": I.quat},
                                               lambda: PosePath3D(I.xyz, I.quat).poses_se3, None))
    add(tj + "PosePath3D.__init__", lambda I: ({"poses": I.poses, "meta": I.__dict__.setdefault("m", {"k": 1})},
                                               lambda: PosePath3D(poses_se3=I.poses, meta=I.m).positions_xyz, None))
    add(tj + "PoseTrajectory3D.__init__", lambda I: ({"xyz": I.xyz, "quat": I.quat, "stamps": I.stamps},
                                                     lambda: PoseTrajectory3D(I.xyz, I.quat, I.stamps).poses_se3, None))
    add(tj + "PoseTrajectory3D.__init__", lambda I: ({"poses": I.poses, "stamps": I.stamps},
                                                     lambda: PoseTrajectory3D(poses_se3=I.poses, timestamps=I.stamps).distances, None))
    # the constructor is a public function: operate on its output in every in-place way, then re-inspect its inputs
    # (the caller's list of matrices / arrays / the path whose pose list was handed over); a fresh object per operation
    def out_muts(I, ref=None):
        ref = I.Q if ref is None else ref
        ms = [lambda t: t.transform(I.T), lambda t: t.transform(I.T, right_mul=True),
              lambda t: t.transform(I.T, right_mul=True, propagate=True),
              lambda t: t.transform(I.S), lambda t: t.transform(I.S, right_mul=True, propagate=True),
              lambda t: t.scale(1.7), lambda t: t.project(Plane.XY), lambda t: t.project(Plane.YZ),
              lambda t: t.reduce_to_ids(I.ids), lambda t: t.downsample(4), lambda t: t.motion_filter(0.5, 0.2),
              lambda t: t.align(ref, correct_scale=True), lambda t: t.align(ref, correct_only_scale=True, n=5),
              lambda t: t.align(ref), lambda t: t.align_origin(ref)]
        return ms

    def ctor_then_mutate(I, build, reads=True):
        for m in out_muts(I):
            t = build()
            if reads:
                t.positions_xyz, t.orientations_quat_wxyz
            m(t)
            t.positions_xyz, t.orientations_quat_wxyz, t.poses_se3
    for reads in (False, True):
        add(tj + "PosePath3D.__init__", lambda I, r=reads: (
            {"poses": I.poses, "Q": I.Q}, lambda: ctor_then_mutate(I, lambda: PosePath3D(poses_se3=I.poses), r), None))
        add(tj + "PosePath3D.__init__", lambda I, r=reads: (
            {"xyz": I.xyz, "quat": I.quat, "Q": I.Q}, lambda: ctor_then_mutate(I, lambda: PosePath3D(I.xyz, I.quat), r), None))
        add(tj + "PosePath3D.__init__", lambda I, r=reads: (
            {"P": I.P, "Q": I.Q}, lambda: ctor_then_mutate(I, lambda: PosePath3D(poses_se3=I.P.poses_se3, meta=I.P.meta), r), None))
        add(tj + "PoseTrajectory3D.__init__", lambda I, r=reads: (
            {"poses": I.poses, "stamps": I.stamps, "Q": I.Q},
            lambda: ctor_then_mutate(I, lambda: PoseTrajectory3D(poses_se3=I.poses, timestamps=I.stamps), r), None))
        add(tj + "PoseTrajectory3D.__init__", lambda I, r=reads: (
            {"P": I.P, "stamps": I.stamps, "Q": I.Q},    # as contrib/kitti_poses_and_timestamps_to_trajectory.py does
            lambda: ctor_then_mutate(I, lambda: PoseTrajectory3D(poses_se3=I.P.poses_se3, timestamps=I.stamps), r), None))
    for cls, obj in (("PosePath3D", "P"), ("PoseTrajectory3D", "A")):
        rd = lambda r, o=obj: ([o], r)   # noqa
        add(tj + cls + ".__str__", lambda I, o=obj: ({o: I.trajs[o]}, lambda: str(I.trajs[o]), ([o], "RInfo 0 false")))
        add(tj + cls + ".__eq__", lambda I, o=obj: ({o: I.trajs[o], "other": I.B if o == "A" else I.Q},
                                                    lambda: (I.trajs[o] == (I.B if o == "A" else I.Q),
                                                             I.trajs[o] != (I.B if o == "A" else I.Q)), None))
        add(tj + cls + ".check", lambda I, o=obj: ({o: I.trajs[o]}, lambda: I.trajs[o].check(), ([o], "RInfo 0 true")))
        add(tj + cls + ".get_infos", lambda I, o=obj: ({o: I.trajs[o]}, lambda: I.trajs[o].get_infos(), ([o], "RInfo 0 false")))
        add(tj + cls + ".get_statistics", lambda I, o=obj: ({o: I.trajs[o]}, lambda: I.trajs[o].get_statistics(),
                                                            ([o], "RInfo 0 false") if o == "A" else None))
        add(tj + cls + ".split_distance_gaps", lambda I, o=obj: ({o: I.trajs[o]}, lambda: I.trajs[o].split_distance_gaps(10.0), None))
    # comparing is reading: both operands of == / != are arguments. Operands that describe the same poses (all close)
    # while some / all poses store the quaternion with the opposite sign (q and -q are the same rotation: data from
    # another source), in both operand orders; the twin is stored as positions + quaternions (that is where a sign lives)
    def q_twin(I, t, rows):
        key = "twin_%d_%s" % (id(t), "_".join(map(str, rows)))
        if key not in I.__dict__:
            c = copy.deepcopy(t)
            xyz, quat = np.array(c.positions_xyz), np.array(c.orientations_quat_wxyz)
            quat[list(rows)] *= -1.0
            tw = PoseTrajectory3D(xyz, quat, np.array(t.timestamps)) if isinstance(t, PoseTrajectory3D) else PosePath3D(xyz, quat)
            if all(a_ in t.__dict__ for a_ in LAZY):    # same cache state as the table's trajectories
                tw.positions_xyz, tw.orientations_quat_wxyz, tw.poses_se3
            I.__dict__[key] = tw
        return I.__dict__[key]

    def eq_both(x, y):
        return (x == y, x != y, x == y)
    for cls, obj in (("PosePath3D", "P"), ("PoseTrajectory3D", "A")):
        for rows in ((1, 4, 7), tuple(range(10)), (0,), ()):
            add(tj + cls + ".__eq__", lambda I, o=obj, rows=rows: (
                {o: I.trajs[o], "other": q_twin(I, I.trajs[o], rows)},
                lambda: eq_both(I.trajs[o], q_twin(I, I.trajs[o], rows)), None))
            add(tj + cls + ".__eq__", lambda I, o=obj, rows=rows: (
                {"self": q_twin(I, I.trajs[o], rows), o: I.trajs[o]},
                lambda: eq_both(q_twin(I, I.trajs[o], rows), I.trajs[o]), None))
    for prop, rdr in (("positions_xyz", "RPlotPositions [0]"), ("distances", "RInfo 0 false"),
                      ("path_length", "RInfo 0 false"), ("orientations_quat_wxyz", None), ("poses_se3", "RPlotAxes 0"),
                      ("num_poses", "RPlotRpy 0")):
        add(tj + "PosePath3D." + prop, lambda I, p=prop, r=rdr: ({"P": I.P, "A": I.A}, lambda: (getattr(I.P, p), getattr(I.A, p)),
                                                                (["P"], r) if r else None))
    add(tj + "PosePath3D.get_orientations_euler", lambda I: ({"P": I.P}, lambda: I.P.get_orientations_euler(), (["P"], "RPlotRpy 0")))
    add(tj + "PoseTrajectory3D.speeds", lambda I: ({"A": I.A}, lambda: I.A.speeds, (["A"], "RInfo 0 false")))
    add(tj + "PoseTrajectory3D.split_time_gaps", lambda I: ({"A": I.A}, lambda: (I.A.split_time_gaps(5.0), I.A.split_time_gaps(1e6)), None))
    add(tj + "PoseTrajectory3D.split_speed_outliers", lambda I: ({"A": I.A}, lambda: (I.A.split_speed_outliers(10.0), I.A.split_speed_outliers(1e6)), None))
    # in-place methods: the object operated on is exempt, every other argument is checked
    add(tj + "PosePath3D.transform", lambda I: ({"t": I.T, "B": I.B}, lambda: (I.A.transform(I.T), I.P.transform(I.S, right_mul=True, propagate=True)), None))
    add(tj + "PosePath3D.scale", lambda I: ({"B": I.B}, lambda: I.A.scale(2.0), None))
    add(tj + "PosePath3D.project", lambda I: ({"B": I.B}, lambda: (I.A.project(Plane.XY), I.P.project(Plane.XZ)), None))
    add(tj + "PosePath3D.align", lambda I: ({"ref": I.B}, lambda: I.A.align(I.B, correct_scale=True), None))
    add(tj + "PosePath3D.align", lambda I: ({"ref": I.Q}, lambda: I.P.align(I.Q, correct_only_scale=True, n=5), None))
    add(tj + "PosePath3D.align_origin", lambda I: ({"ref": I.B}, lambda: I.A.align_origin(I.B), None))
    add(tj + "PosePath3D.reduce_to_ids", lambda I: ({"ids": I.ids, "B": I.B}, lambda: I.P.reduce_to_ids(I.ids), None))
    add(tj + "PoseTrajectory3D.reduce_to_ids", lambda I: ({"ids": I.__dict__.setdefault("ida", np.array(I.ids)), "B": I.B},
                                                          lambda: I.A.reduce_to_ids(I.ida), None))
    add(tj + "PosePath3D.downsample", lambda I: ({"B": I.B}, lambda: (I.A.downsample(4), I.P.downsample(100)), None))
    add(tj + "PosePath3D.motion_filter", lambda I: ({"B": I.B}, lambda: I.A.motion_filter(0.5, 0.2), None))
    add(tj + "PoseTrajectory3D.reduce_to_time_range", lambda I: ({"B": I.B}, lambda: I.A.reduce_to_time_range(I.stamps[1], I.stamps[-2]), None))
    add(tj + "merge", lambda I: ({"A": I.A, "C": I.C, "lst": I.__dict__.setdefault("lst", [I.A, I.C])},
                                 lambda: trajectory.merge(I.lst), None))
    add(tj + "calc_speed", lambda I: ({"a": I.xyz[0], "b": I.xyz[1]}, lambda: trajectory.calc_speed(I.xyz[0], I.xyz[1], 1.0, 2.0), None))
    add(tj + "calc_angular_speed", lambda I: ({"a": I.T, "b": I.T2}, lambda: trajectory.calc_angular_speed(I.T, I.T2, 1.0, 2.0, True), None))
    add(tj + "xyz_quat_wxyz_to_se3_poses", lambda I: ({"xyz": I.xyz, "quat": I.quat}, lambda: trajectory.xyz_quat_wxyz_to_se3_poses(I.xyz, I.quat), None))
    add(tj + "se3_poses_to_xyz_quat_wxyz", lambda I: ({"poses": I.poses}, lambda: trajectory.se3_poses_to_xyz_quat_wxyz(I.poses), None))

    # ---------------- sync
    add(sy + "matching_time_indices", lambda I: ({"s1": I.stamps, "s2": I.stamps2},
                                                 lambda: sync.matching_time_indices(I.stamps, I.stamps2, 0.01, 0.5), None))
    add(sy + "matching_time_indices", lambda I: ({"A": I.A, "C": I.C},
                                                 lambda: sync.matching_time_indices(I.A.timestamps, I.C.timestamps, 0.01, 0.001), None))
    add(sy + "associate_trajectories", lambda I: ({"A": I.A, "C": I.C}, lambda: sync.associate_trajectories(I.A, I.C, 0.01, 0.001), None))
    add(sy + "associate_trajectories", lambda I: ({"A": I.A, "C": I.C}, lambda: sync.associate_trajectories(I.C, I.A, 0.01), None))

    # associated trajectories are derived objects: operate on them, then re-inspect the inputs. A and B have the same
    # number of poses and every stamp matches (+-1 ms jitter); A and A2 have identical stamps; A and C differ in length
    def assoc_then_mutate(I, x, y, **kw):
        for k in range(len(out_muts(I)) + 2):
            for which in (0, 1):
                r = sync.associate_trajectories(x, y, **kw)
                ms = out_muts(I, r[1 - which]) + [lambda t: t.timestamps.__iadd__(0.5),
                                                  lambda t: t.reduce_to_time_range(I.stamps[1], I.stamps[-2])]
                ms[k](r[which])
                r[which].positions_xyz, r[which].poses_se3
    add(sy + "associate_trajectories", lambda I: ({"A": I.A, "B": I.B, "Q": I.Q}, lambda: assoc_then_mutate(I, I.A, I.B), None))
    add(sy + "associate_trajectories", lambda I: ({"A": I.A, "B": I.B, "Q": I.Q}, lambda: assoc_then_mutate(I, I.B, I.A, max_diff=0.005), None))
    add(sy + "associate_trajectories", lambda I: (
        {"A": I.A, "A2": I.__dict__.setdefault("A2", PoseTrajectory3D(I.xyz2, I.quat, np.array(I.A.timestamps))), "Q": I.Q},
        lambda: assoc_then_mutate(I, I.A, I.A2), None))
    add(sy + "associate_trajectories", lambda I: ({"A": I.A, "C": I.C, "Q": I.Q}, lambda: assoc_then_mutate(I, I.A, I.C), None))
    add(sy + "associate_trajectories", lambda I: ({"A": I.A, "C": I.C, "Q": I.Q}, lambda: assoc_then_mutate(I, I.C, I.A, offset_2=0.001), None))

    # ---------------- metrics
    for rel in PR:
        pos_based = rel in (PR.translation_part, PR.point_distance)
        if rel != PR.point_distance_error_ratio:
            add(me + "APE.process_data", lambda I, rel=rel, pb_=pos_based: (
                {"ref": I.A, "est": I.B, "data": I.__dict__.setdefault("data", (I.A, I.B))},
                lambda: metrics.APE(rel).process_data(I.data),
                (["A", "B"], "RApe %s 2 0 1" % cbool(pb_))))
        rp = rel in (PR.point_distance, PR.point_distance_error_ratio)
        for k, (delta, unit, allp, fromref) in enumerate(((1, Unit.frames, False, False), (2.0, Unit.meters, True, True),
                                                         (20.0, Unit.degrees, False, True), (2.0, Unit.radians, True, False))):
            if (list(PR).index(rel) + k) % 2:
                continue
            add(me + "RPE.process_data", lambda I, rel=rel, rp=rp, d=delta, u=unit, a=allp, f=fromref: (
                {"ref": I.A, "est": I.B},
                lambda: metrics.RPE(rel, d, u, 0.5, a, f).process_data((I.A, I.B)),
                (["A", "B"], "RRpe %s %s 2 0 1" % (cbool(rp), cbool(f)))))
    add(me + "APE.ape_base", lambda I: ({"a": I.T, "b": I.T2}, lambda: metrics.APE.ape_base(I.T, I.T2), None))
    add(me + "RPE.rpe_base", lambda I: ({"a": I.T, "b": I.T2, "c": I.poses[5], "d": I.poses[6]},
                                        lambda: metrics.RPE.rpe_base(I.T, I.T2, I.poses[5], I.poses[6]), None))

    def with_metric(name, f, exempt_metric=False):
        def variant(I, cls):
            m = I.metric(cls, PR.translation_part) if cls == "ape" else I.metric(cls, PR.translation_part, delta=1, delta_unit=Unit.frames)
            args = {} if exempt_metric else {"metric": m}
            return args, (lambda: f(m)), None
        add(name, lambda I: variant(I, "ape"))
        add(name, lambda I: variant(I, "rpe"))
    with_metric(me + "PE.get_statistic", lambda m: [m.get_statistic(s) for s in ST])
    with_metric(me + "PE.get_all_statistics", lambda m: m.get_all_statistics())
    with_metric(me + "PE.get_result", lambda m: m.get_result("a", "b"))
    with_metric(me + "PE.__str__", lambda m: str(m))
    with_metric(me + "PE.change_unit", lambda m: m.change_unit(Unit.millimeters), exempt_metric=True)
    add(me + "APE.__init__", lambda I: ({}, lambda: metrics.APE(PR.rotation_part), None))
    add(me + "RPE.__init__", lambda I: ({}, lambda: metrics.RPE(PR.rotation_part, 2, Unit.frames), None))
    add(me + "APE.__str__", lambda I: ({}, lambda: str(metrics.APE()), None))
    add(me + "RPE.__str__", lambda I: ({}, lambda: str(metrics.RPE()), None))
    add(me + "PE.__init__", lambda I: ({}, lambda: metrics.APE(), None))
    for k, (delta, unit) in enumerate(((2, Unit.frames), (2.0, Unit.meters), (100.0, Unit.degrees), (2.0, Unit.radians))):
        for allp in (False, True):
            add(me + "id_pairs_from_delta", lambda I, d=delta, u=unit, a=allp: (
                {"poses": I.poses, "A": I.A}, lambda: (metrics.id_pairs_from_delta(I.poses, d, u, 0.5, a),
                                                       metrics.id_pairs_from_delta(I.A.poses_se3, d, u, 0.5, a)), None))

    # ---------------- result
    add(re_ + "merge_results", lambda I: (dict(r1=I.__dict__.setdefault("r1", I.result(0)), r2=I.__dict__.setdefault("r2", I.result(1)),
                                               lst=I.__dict__.setdefault("rl", [I.r1, I.r2])), lambda: result.merge_results(I.rl), None))
    add(re_ + "merge_results", lambda I: (dict(r1=I.__dict__.setdefault("r1", I.result(0)), lst=I.__dict__.setdefault("rl1", [I.r1])),
                                          lambda: result.merge_results(I.rl1), None))

    # a merged result is a derived object: mutating it (its trajectories, info, arrays) must not reach the inputs
    def merge_then_mutate(I):
        from evo.core.trajectory import Plane
        m = result.merge_results(I.rl)
        for name, tr_ in m.trajectories.items():
            tr_.scale(2.0)
            tr_.transform(I.T)
            tr_.reduce_to_ids([0, 1])
            tr_.project(Plane.XY)
        m.add_info({"title": "changed", "extra": 1})
        m.add_trajectory("new", I.A)
        for k_ in list(m.np_arrays):
            m.np_arrays[k_] *= 3.0
        m.stats["rmse"] = -1.0
    add(re_ + "merge_results", lambda I: (dict(r1=I.__dict__.setdefault("r1", I.result(0)), r2=I.__dict__.setdefault("r2", I.result(1)),
                                               lst=I.__dict__.setdefault("rl", [I.r1, I.r2])), lambda: merge_then_mutate(I), None))

    def res_variant(f):
        def v(I):
            r, o = I.result(0), I.result(2)
            return {"other": o, "arr": I.err, "traj": I.A, "d": I.__dict__.setdefault("dd", {"k": 1.5})}, (lambda: f(I, r, o)), None
        return v
    add(re_ + "Result.__init__", lambda I: ({}, lambda: result.Result(), None))
    add(re_ + "Result.__str__", res_variant(lambda I, r, o: str(r)))
    add(re_ + "Result.__eq__", res_variant(lambda I, r, o: (r == o, r != o)))
    # results that hold the same trajectories, one of them with q / -q quaternions in some poses (both operand orders)
    def res_eq_variant(rows, swap):
        def v(I):
            r = I.result(0)
            o = copy.deepcopy(r)
            for name in list(o.trajectories):
                o.trajectories[name] = q_twin(I, r.trajectories[name], rows)
            x, y = (o, r) if swap else (r, o)
            return {"self": x, "other": y}, (lambda: eq_both(x, y)), None
        return v
    for rows in ((2, 3, 8), tuple(range(10))):
        for swap in (False, True):
            add(re_ + "Result.__eq__", res_eq_variant(rows, swap))
    add(re_ + "Result.pretty_str", res_variant(lambda I, r, o: r.pretty_str(info=True)))
    add(re_ + "Result.add_np_array", res_variant(lambda I, r, o: r.add_np_array("x", I.err)))
    add(re_ + "Result.add_info", res_variant(lambda I, r, o: r.add_info(I.dd)))
    add(re_ + "Result.add_stats", res_variant(lambda I, r, o: r.add_stats(I.dd)))
    add(re_ + "Result.add_trajectory", res_variant(lambda I, r, o: r.add_trajectory("t", I.A)))

    # ---------------- filters / geometry
    for allp in (False, True):
        add(fl + "filter_pairs_by_index", lambda I, a=allp: ({"poses": I.poses}, lambda: filters.filter_pairs_by_index(I.poses, 2, a), None))
        add(fl + "filter_pairs_by_path", lambda I, a=allp: ({"poses": I.poses}, lambda: filters.filter_pairs_by_path(I.poses, 2.0, 1.0, a), None))
        add(fl + "filter_pairs_by_angle", lambda I, a=allp: ({"poses": I.poses}, lambda: filters.filter_pairs_by_angle(I.poses, 100.0, 50.0, True, a), None))
    add(fl + "filter_by_motion", lambda I: ({"poses": I.poses}, lambda: filters.filter_by_motion(I.poses, 0.5, 10.0, True), None))
    for ws in (False, True):
        add(ge + "umeyama_alignment", lambda I, w=ws: ({"x": I.xyz, "y": I.xyz2, "xt": I.__dict__.setdefault("xt", I.xyz.T.copy()),
                                                        "yt": I.__dict__.setdefault("yt", I.xyz2.T.copy())},
                                                       lambda: (geometry.umeyama_alignment(I.xyz.T, I.xyz2.T, w),
                                                                geometry.umeyama_alignment(I.xt, I.yt, w)), None))
    add(ge + "arc_len", lambda I: ({"x": I.xyz}, lambda: geometry.arc_len(I.xyz), None))
    add(ge + "accumulated_distances", lambda I: ({"x": I.xyz}, lambda: geometry.accumulated_distances(I.xyz), None))

    # ---------------- lie_algebra
    for name, f, argn in (
            ("hat", lambda I: lie.hat(I.v), ["v"]), ("vee", lambda I: lie.vee(lie.hat(I.v)), ["v"]),
            ("so3_exp", lambda I: lie.so3_exp(I.v), ["v"]), ("so3_log", lambda I: (lie.so3_log(I.R), lie.so3_log(I.R, True)), ["R"]),
            ("so3_log_angle", lambda I: lie.so3_log_angle(I.R, True), ["R"]),
            ("se3", lambda I: lie.se3(I.R, I.v), ["R", "v"]), ("sim3", lambda I: lie.sim3(I.R, I.v, 2.0), ["R", "v"]),
            ("so3_from_se3", lambda I: lie.so3_from_se3(I.T), ["T"]), ("se3_inverse", lambda I: lie.se3_inverse(I.T), ["T"]),
            ("sim3_scale", lambda I: lie.sim3_scale(I.S), ["S"]), ("sim3_inverse", lambda I: lie.sim3_inverse(I.S), ["S"]),
            ("is_so3", lambda I: lie.is_so3(I.R), ["R"]), ("is_se3", lambda I: lie.is_se3(I.T), ["T"]),
            ("is_sim3", lambda I: (lie.is_sim3(I.S), lie.is_sim3(I.S, 1.5)), ["S"]),
            ("relative_so3", lambda I: lie.relative_so3(I.R, I.R2), ["R", "R2"]),
            ("relative_se3", lambda I: lie.relative_se3(I.T, I.T2), ["T", "T2"]),
            ("sst_rotation_from_matrix", lambda I: lie.sst_rotation_from_matrix(I.R), ["R"])):
        add(la + name, lambda I, f=f, argn=argn: ({k: getattr(I, k) for k in argn}, lambda: f(I), None))

    # ---------------- transformations (third-party module shipped in evo.core)
    for name, f, argn in (
            ("quaternion_from_matrix", lambda I: tr.quaternion_from_matrix(I.T), ["T"]),
            ("quaternion_matrix", lambda I: tr.quaternion_matrix(I.q), ["q"]),
            ("euler_from_matrix", lambda I: tr.euler_from_matrix(I.T, "sxyz"), ["T"]),
            ("euler_from_quaternion", lambda I: tr.euler_from_quaternion(I.q), ["q"]),
            ("euler_matrix", lambda I: tr.euler_matrix(0.1, 0.2, 0.3), []),
            ("quaternion_from_euler", lambda I: tr.quaternion_from_euler(0.1, 0.2, 0.3), []),
            ("quaternion_about_axis", lambda I: tr.quaternion_about_axis(0.3, I.v), ["v"]),
            ("quaternion_multiply", lambda I: tr.quaternion_multiply(I.q, I.q2), ["q", "q2"]),
            ("quaternion_conjugate", lambda I: tr.quaternion_conjugate(I.q), ["q"]),
            ("quaternion_inverse", lambda I: tr.quaternion_inverse(I.q), ["q"]),
            ("quaternion_real", lambda I: tr.quaternion_real(I.q), ["q"]),
            ("quaternion_imag", lambda I: tr.quaternion_imag(I.q), ["q"]),
            ("quaternion_slerp", lambda I: tr.quaternion_slerp(I.q, I.q2, 0.3), ["q", "q2"]),
            ("translation_matrix", lambda I: tr.translation_matrix(I.v), ["v"]),
            ("translation_from_matrix", lambda I: tr.translation_from_matrix(I.T), ["T"]),
            ("reflection_matrix", lambda I: tr.reflection_matrix(I.v, I.v2), ["v", "v2"]),
            ("reflection_from_matrix", lambda I: tr.reflection_from_matrix(tr.reflection_matrix(I.v, I.v2)), ["v", "v2"]),
            ("rotation_matrix", lambda I: tr.rotation_matrix(0.4, I.v, I.v2), ["v", "v2"]),
            ("rotation_from_matrix", lambda I: tr.rotation_from_matrix(I.T - np.diag([0, 0, 0, 0]) * 0 + 0 * I.T), ["T"]),
            ("scale_matrix", lambda I: tr.scale_matrix(1.5, I.v, I.v2), ["v", "v2"]),
            ("scale_from_matrix", lambda I: tr.scale_from_matrix(tr.scale_matrix(1.5, I.v)), ["v"]),
            ("projection_matrix", lambda I: tr.projection_matrix(I.v, I.v2), ["v", "v2"]),
            ("projection_from_matrix", lambda I: tr.projection_from_matrix(tr.projection_matrix(I.v, I.v2)), ["v", "v2"]),
            ("clip_matrix", lambda I: tr.clip_matrix(0, 1, 0, 1, 1, 2), []),
            ("shear_matrix", lambda I: tr.shear_matrix(0.3, np.array([1., 0, 0]), I.v, np.array([0., 0, 1])), ["v"]),
            ("shear_from_matrix", lambda I: tr.shear_from_matrix(tr.shear_matrix(0.3, np.array([1., 0, 0]), I.v, np.array([0., 0, 1]))), ["v"]),
            ("decompose_matrix", lambda I: tr.decompose_matrix(I.T), ["T"]),
            ("compose_matrix", lambda I: tr.compose_matrix(scale=I.v + 2, angles=I.v2, translate=I.v), ["v", "v2"]),
            ("orthogonalization_matrix", lambda I: tr.orthogonalization_matrix([10, 10, 10], [90, 90, 90]), []),
            ("affine_matrix_from_points", lambda I: tr.affine_matrix_from_points(I.xyz.T, I.xyz2.T), ["xyz", "xyz2"]),
            ("superimposition_matrix", lambda I: tr.superimposition_matrix(I.xyz.T, I.xyz2.T, scale=True), ["xyz", "xyz2"]),
            ("vector_norm", lambda I: tr.vector_norm(I.xyz, axis=1), ["xyz"]),
            ("unit_vector", lambda I: tr.unit_vector(I.xyz, axis=1), ["xyz"]),
            ("vector_product", lambda I: tr.vector_product(I.v, I.v2), ["v", "v2"]),
            ("angle_between_vectors", lambda I: tr.angle_between_vectors(I.v, I.v2), ["v", "v2"]),
            ("inverse_matrix", lambda I: tr.inverse_matrix(I.T), ["T"]),
            ("concatenate_matrices", lambda I: tr.concatenate_matrices(I.T, I.T2), ["T", "T2"]),
            ("is_same_transform", lambda I: tr.is_same_transform(I.T, I.T2), ["T", "T2"]),
            ("arcball_map_to_sphere", lambda I: tr.arcball_map_to_sphere(I.v[:2], I.v2[:2], 1.0), ["v", "v2"]),
            ("arcball_constrain_to_axis", lambda I: tr.arcball_constrain_to_axis(I.v, I.v2), ["v", "v2"]),
            ("arcball_nearest_axis", lambda I: tr.arcball_nearest_axis(I.v, I.__dict__.setdefault("axes", [I.v2, I.v])), ["v", "v2"])):
        add(trn + name, lambda I, f=f, argn=argn: ({k: getattr(I, k) for k in argn}, lambda: f(I), None))

    # ---------------- file_interface
    add(fin + "write_tum_trajectory_file", lambda I: ({"A": I.A}, lambda: (fi.write_tum_trajectory_file(io.StringIO(), I.A),
                                                                          fi.write_tum_trajectory_file(os.path.join(I.tmp, "a.tum"), I.A)),
                                                      (["A"], "RWriteTum 0")))
    add(fin + "write_kitti_poses_file", lambda I: ({"P": I.P}, lambda: fi.write_kitti_poses_file(io.StringIO(), I.P), (["P"], "RWriteKitti 0")))
    add(fin + "write_kitti_poses_file", lambda I: ({"A": I.A}, lambda: fi.write_kitti_poses_file(os.path.join(I.tmp, "a.kitti"), I.A), (["A"], "RWriteKitti 0")))

    def bag(I):
        from rosbags.rosbag1 import Writer
        with Writer(os.path.join(I.tmp, "t%d.bag" % len(os.listdir(I.tmp)))) as w:
            fi.write_bag_trajectory(w, I.A, "/pose", "map")
    add(fin + "write_bag_trajectory", lambda I: ({"A": I.A}, lambda: bag(I), (["A"], "RWriteBag 0")))

    def bag_rt(I):
        from rosbags.rosbag1 import Writer, Reader
        p = os.path.join(I.tmp, "r.bag")
        with Writer(p) as w:
            fi.write_bag_trajectory(w, I.A, "/pose", "map")
        with Reader(p) as r:
            return fi.read_bag_trajectory(r, "/pose")
    add(fin + "read_bag_trajectory", lambda I: ({"A": I.A}, lambda: bag_rt(I), None))

    def save_res(I, r):
        fi.save_res_file(os.path.join(I.tmp, "r.zip"), r)
        return fi.load_res_file(os.path.join(I.tmp, "r.zip"), load_trajectories=True)
    add(fin + "save_res_file", lambda I: ({"res": I.__dict__.setdefault("r1", I.result(0))}, lambda: save_res(I, I.r1), None))
    add(fin + "load_res_file", lambda I: ({"res": I.__dict__.setdefault("r1", I.result(0))}, lambda: save_res(I, I.r1), None))

    def text_rt(I, kind):
        if kind == "tum":
            b = io.StringIO(); fi.write_tum_trajectory_file(b, I.A); b.seek(0); return fi.read_tum_trajectory_file(b)
        if kind == "kitti":
            b = io.StringIO(); fi.write_kitti_poses_file(b, I.A); b.seek(0); return fi.read_kitti_poses_file(b)
        if kind == "euroc":
            rows = "\n".join(",".join(repr(float(x)) for x in [s * 1e9] + list(p) + list(q) + [0] * 9)
                             for s, p, q in zip(I.stamps, I.xyz, I.quat))
            return fi.read_euroc_csv_trajectory(io.StringIO("#header\n" + rows + "\n"))
        return fi.csv_read_matrix(io.StringIO("1,2,3\n#c\n4,5,6\n"))
    add(fin + "read_tum_trajectory_file", lambda I: ({"A": I.A}, lambda: text_rt(I, "tum"), None))
    add(fin + "read_kitti_poses_file", lambda I: ({"A": I.A}, lambda: text_rt(I, "kitti"), None))
    add(fin + "read_euroc_csv_trajectory", lambda I: ({"xyz": I.xyz, "quat": I.quat, "stamps": I.stamps}, lambda: text_rt(I, "euroc"), None))
    add(fin + "csv_read_matrix", lambda I: ({}, lambda: text_rt(I, "csv"), None))

    def load_tf(I):
        p1, p2, p3 = (os.path.join(I.tmp, n) for n in ("t.npy", "t.txt", "t.json"))
        np.save(p1, I.T); np.savetxt(p2, I.S)
        json.dump({"x": 1, "y": 2, "z": 3, "qx": 0, "qy": 0, "qz": 0.6, "qw": 0.8, "scale": 2}, open(p3, "w"))
        return fi.load_transform(p1), fi.load_transform(p2), fi.load_transform(p3), fi.load_transform_json(p3)
    add(fin + "load_transform", lambda I: ({"T": I.T, "S": I.S}, lambda: load_tf(I), None))
    add(fin + "load_transform_json", lambda I: ({"T": I.T, "S": I.S}, lambda: load_tf(I), None))

    # ---------------- pandas_bridge
    add(pbn + "trajectory_to_df", lambda I: ({"A": I.A, "P": I.P}, lambda: (pb.trajectory_to_df(I.A), pb.trajectory_to_df(I.P)), (["A", "P"], "RToDf 0); CRead (RToDf 1")))
    add(pbn + "df_to_trajectory", lambda I: ({"df": I.__dict__.setdefault("df", pb.trajectory_to_df(I.A)),
                                              "df2": I.__dict__.setdefault("df2", pb.trajectory_to_df(I.P))},
                                             lambda: (pb.df_to_trajectory(I.df), pb.df_to_trajectory(I.df2), pb.df_to_trajectory(I.df, PosePath3D)), None))
    add(pbn + "trajectory_stats_to_df", lambda I: ({"A": I.A}, lambda: pb.trajectory_stats_to_df(I.A, "a"), (["A"], "RStatsDf 0")))
    add(pbn + "trajectories_stats_to_df", lambda I: ({"A": I.A, "B": I.B, "d": I.__dict__.setdefault("td", {"a": I.A, "b": I.B})},
                                                     lambda: pb.trajectories_stats_to_df(I.td), (["A", "B"], "RStatsDf 0); CRead (RStatsDf 1")))
    add(pbn + "result_to_df", lambda I: ({"res": I.__dict__.setdefault("r1", I.result(0))}, lambda: pb.result_to_df(I.r1), None))

    def table(I):
        df = pb.result_to_df(I.result(0))
        s = snap(df)
        pb.save_df_as_table(df, os.path.join(I.tmp, "t.csv"), "csv", True)
        if snap(df) != s:
            raise Violation("save_df_as_table changed the DataFrame")
    add(pbn + "save_df_as_table", lambda I: ({}, lambda: table(I), None))

    def load_df(I):
        ps = []
        for k in range(2):
            p = os.path.join(I.tmp, "res%d.zip" % k)
            fi.save_res_file(p, I.result(k))
            ps.append(p)
        return pb.load_results_as_dataframe(ps, merge=True), pb.load_results_as_dataframe(ps, use_filenames=True)
    add(pbn + "load_results_as_dataframe", lambda I: ({}, lambda: load_df(I), None))

    # ---------------- plot
    PM = plot.PlotMode

    def plt_variant(name, f, argn, reader=None):
        add(pl + name, lambda I: ({k: (I.trajs[k] if k in I.trajs else getattr(I, k)) for k in argn}, lambda: f(I), reader))
    plt_variant("traj", lambda I: (plot.traj(I.ax()[1], PM.xy, I.A, label="a", plot_start_end_markers=True),
                                   plot.traj(I.ax(True)[1], PM.xyz, I.A)), ["A"], (["A"], "RPlotPositions [0]"))
    plt_variant("trajectories", lambda I: (plot.trajectories(I.ax()[0], I.A), plot.trajectories(I.ax()[0], [I.A, I.B], PM.xz),
                                           plot.trajectories(I.ax()[0], {"a": I.A, "p": I.P}, PM.xyz, plot_start_end_markers=True)),
                ["A", "B", "P"], (["A", "B", "P"], "RPlotPositions [0; 1; 2]"))
    plt_variant("traj_colormap", lambda I: (lambda fa: plot.traj_colormap(fa[1], I.A, I.err, PM.xyz, 0.05, 1.0, fig=fa[0],
                                                                        plot_start_end_markers=True))(I.ax(True)),
                ["A", "err"], (["A"], "RPlotPositions [0]"))
    plt_variant("draw_coordinate_axes", lambda I: plot.draw_coordinate_axes(I.ax()[1], I.A, PM.xy, 0.3), ["A"], (["A"], "RPlotAxes 0"))
    plt_variant("draw_correspondence_edges", lambda I: plot.draw_correspondence_edges(I.ax()[1], I.A, I.B, PM.xy), ["A", "B"],
                (["A", "B"], "RPlotPositions [0; 1]"))
    plt_variant("traj_xyz", lambda I: (plot.traj_xyz(I.axarr(), I.A, start_timestamp=100.0), plot.traj_xyz(I.axarr(), I.P)), ["A", "P"],
                (["A", "P"], "RPlotPositions [0; 1]"))
    plt_variant("traj_rpy", lambda I: (plot.traj_rpy(I.axarr(), I.A, start_timestamp=100.0), plot.traj_rpy(I.axarr(), I.P)), ["A", "P"],
                (["A", "P"], "RPlotRpy 0"))
    plt_variant("speeds", lambda I: plot.speeds(I.ax()[1], I.A, start_timestamp=100.0), ["A"], (["A"], "RPlotPositions [0]"))
    plt_variant("add_start_end_markers", lambda I: plot.add_start_end_markers(I.ax()[1], PM.xy, I.A, traj_name="a"), ["A"],
                (["A"], "RPlotPositions [0]"))
    plt_variant("error_array", lambda I: (plot.error_array(I.ax()[1], I.err, x_array=I.stamps, statistics={"mean": 0.5, "std": 0.1},
                                                           threshold=0.9),
                                          plot.error_array(I.ax()[1], I.err, cumulative=True)), ["err", "stamps"])
    plt_variant("colored_line_collection", lambda I: (plot.colored_line_collection(I.xyz, ["r"] * (I.n - 1), PM.xy),
                                                      plot.colored_line_collection(I.xyz, ["r"] * (I.n - 1), PM.xyz)), ["xyz"])
    plt_variant("prepare_axis", lambda I: I.ax(True), [])
    plt_variant("set_aspect_equal", lambda I: plot.set_aspect_equal(I.ax(True)[1]), [])
    plt_variant("plot_mode_to_idx", lambda I: [plot.plot_mode_to_idx(m) for m in PM], [])

    def collection(I, what):
        pc = plot.PlotCollection("t")
        fig, ax = I.ax()
        plot.traj(ax, PM.xy, I.A)
        pc.add_figure("f", fig)
        if what == "export":
            pc.export(os.path.join(I.tmp, "p.png"), confirm_overwrite=False)
        elif what == "serialize":
            pc.serialize(os.path.join(I.tmp, "p.pickle"), confirm_overwrite=False)
        pc.close()
        return str(pc)
    for w in ("__init__", "__str__", "add_figure", "export", "serialize", "close"):
        add(pl + "PlotCollection." + w, lambda I, w=w: ({"A": I.A}, lambda: collection(I, w), None))

    # ---------------- the plotting step of evo_ape / evo_rpe ("a plot" of a Result): common_ape_rpe.plot_result
    # builds the raw error plot and the colour-mapped trajectory plot from the Result and the two trajectories with
    # evo.tools.plot; every colormap option of the command line (explicit limits, --plot_colormap_max_percentile),
    # every x dimension, with/without the full reference, pose correspondences, export to a file.  The Result and
    # all trajectories are arguments that are only read; the argparse namespace is the object the function fills in
    # (plot_colormap_min/max receive their defaults) and is not inspected.
    def pr_setup(I, stamped):
        key = "pr_%s" % stamped
        if key not in I.__dict__:
            from evo import main_ape
            ref = I.A if stamped else I.P
            warm = all(a in ref.__dict__ for a in LAZY)
            # estimate = the reference displaced pose by pose by the distances I.err (not monotonic, as any real
            # error curve), in the same storage mode / cache state as the reference
            dirs = I.xyz2 / np.linalg.norm(I.xyz2, axis=1)[:, None]
            src = copy.deepcopy(ref)
            poses = [np.array(p) for p in src.poses_se3]
            for k, p in enumerate(poses):
                p[:3, 3] += I.err[k] * dirs[k]
            if I.mode == "mat":
                est = (PoseTrajectory3D(poses_se3=poses, timestamps=np.array(ref.timestamps)) if stamped
                       else PosePath3D(poses_se3=poses))
            else:
                xyz, quat = np.array([p[:3, 3] for p in poses]), np.array(src.orientations_quat_wxyz)
                est = PoseTrajectory3D(xyz, quat, np.array(ref.timestamps)) if stamped else PosePath3D(xyz, quat)
            if warm:
                est.positions_xyz, est.orientations_quat_wxyz, est.poses_se3
            res = main_ape.ape(ref, est, PR.translation_part, ref_name="ref", est_name="est")
            I.__dict__[key] = (res, ref, est)
        return I.__dict__[key]

    def pr_call(I, stamped, full, settings, over):
        import argparse
        from evo import common_ape_rpe
        from evo.tools.settings import SETTINGS
        res, ref, est = pr_setup(I, stamped)
        ns = dict(plot_mode="xy", plot_x_dimension="index", plot_colormap_min=None, plot_colormap_max=None,
                  plot_colormap_max_percentile=None, map_tile=None, ros_map_yaml=None, plot=False, save_plot=None,
                  serialize_plot=None, no_warnings=True)
        ns.update(over)
        for k_ in ("save_plot", "serialize_plot"):
            if ns[k_]:
                ns[k_] = os.path.join(I.tmp, ns[k_])
        saved = {k_: SETTINGS[k_] for k_ in settings}
        try:
            for k_, v_ in settings.items():
                SETTINGS[k_] = v_
            common_ape_rpe.plot_result(argparse.Namespace(**ns), res, ref, est, traj_ref_full=full)
        finally:
            for k_, v_ in saved.items():
                SETTINGS[k_] = v_

    def pr_variant(stamped, full=False, settings=None, **over):
        def v(I):
            res, ref, est = pr_setup(I, stamped)
            args = {"result": res, "traj_ref": ref, "traj_est": est}
            if full:
                args["traj_ref_full"] = I.B if stamped else I.Q
            return args, (lambda: pr_call(I, stamped, args.get("traj_ref_full"), settings or {}, over)), None
        add("evo.common_ape_rpe.plot_result", v)
    pr_variant(True)
    pr_variant(True, plot_colormap_min=0.0, plot_colormap_max=0.5, plot_x_dimension="seconds")
    pr_variant(True, plot_colormap_max_percentile=90.0)
    pr_variant(True, full=True, plot_colormap_max_percentile=50.0, plot_mode="xyz", plot_x_dimension="distances")
    pr_variant(False, plot_colormap_max_percentile=25.0, plot_colormap_min=0.05, plot_mode="yz", save_plot="pr.png")
    pr_variant(True, settings={"plot_pose_correspondences": True}, plot_colormap_max_percentile=75,
               plot_colormap_max=2.0, plot_mode="zx", plot_x_dimension="seconds")
    pr_variant(False, full=True, plot_colormap_max_percentile=99.0, plot_mode="xz", plot_x_dimension="distances")

    # ---------------- the metric entry points of evo_ape / evo_rpe as a library ("computing a metric"): main_ape.ape and
    # main_rpe.rpe(..., support_loop=True) - the mode for repeated calls on the same objects (notebooks) - without
    # alignment / projection (those operate on traj_est / both trajectories explicitly). Both argument trajectories are
    # snapshotted bit for bit; the call is made twice on the same objects and must give the same Result; the trajectories
    # stored in an rpe(support_loop=True) Result are copies: every in-place operation on them leaves the arguments alone.
    def same_result(r1, r2, what):
        if r1.info != r2.info:
            raise Violation("%s: second call on the same arguments: info %r, first call %r" % (what, r2.info, r1.info))
        if snap(r1.stats) != snap(r2.stats):
            raise Violation("%s: second call on the same arguments gives other statistics: %r, first call %r" % (what, r2.stats, r1.stats))
        if list(r1.np_arrays) != list(r2.np_arrays):
            raise Violation("%s: second call on the same arguments stores other arrays: %r, first call %r" % (
                what, list(r2.np_arrays), list(r1.np_arrays)))
        for k_ in r1.np_arrays:
            if snap(r1.np_arrays[k_]) != snap(r2.np_arrays[k_]):
                raise Violation("%s: second call on the same arguments: array %r has shape %r, first call %r (or other values)" % (
                    what, k_, np.shape(r2.np_arrays[k_]), np.shape(r1.np_arrays[k_])))
        if list(r1.trajectories) != list(r2.trajectories):
            raise Violation("%s: second call on the same arguments stores other trajectories" % what)
        for k_ in r1.trajectories:
            if views(r1.trajectories[k_]) != views(r2.trajectories[k_]):
                raise Violation("%s: second call on the same arguments: stored trajectory %r has %d poses, first call %d "
                                "(or other values)" % (what, k_, r2.trajectories[k_].num_poses, r1.trajectories[k_].num_poses))

    def rpe_twice(I, pairs, rel, delta, unit, kw):
        from evo import main_rpe
        for ref, est in pairs:
            what = "main_rpe.rpe(%s, delta=%r %s%s, support_loop=True)" % (
                rel.name, delta, unit.value, "".join(", %s=%r" % kv for kv in sorted(kw.items())))
            n_ref, n_est = ref.num_poses, est.num_poses
            r1 = main_rpe.rpe(ref, est, rel, delta, unit, support_loop=True, **kw)
            if (ref.num_poses, est.num_poses) != (n_ref, n_est):
                raise Violation("%s: the caller's trajectories had %d / %d poses before the call and have %d / %d after it" % (
                    what, n_ref, n_est, ref.num_poses, est.num_poses))
            r2 = main_rpe.rpe(ref, est, rel, delta, unit, support_loop=True, **kw)
            same_result(r1, r2, what)
            # derived objects: operate on the stored copies in every in-place way
            for m in (lambda t: t.transform(I.T), lambda t: t.transform(I.S, right_mul=True, propagate=True),
                      lambda t: t.scale(1.7), lambda t: t.project(Plane.XY), lambda t: t.project(Plane.YZ),
                      lambda t: t.reduce_to_ids([0]), lambda t: t.downsample(2),
                      lambda t: t.timestamps.__iadd__(0.5) if hasattr(t, "timestamps") else None):
                for t in main_rpe.rpe(ref, est, rel, delta, unit, support_loop=True, **kw).trajectories.values():
                    t.positions_xyz, t.orientations_quat_wxyz
                    m(t)
                    t.positions_xyz, t.poses_se3

    RPE_VARIANTS = [
        (PR.translation_part, 1, Unit.frames, {}),                       # keeps every pose
        (PR.full_transformation, 2, Unit.frames, {}),                    # every 2nd pose
        (PR.rotation_angle_deg, 3, Unit.frames, {"all_pairs": True}),    # poses 3..n-1
        (PR.translation_part, 2.0, Unit.meters, {}),
        (PR.rotation_part, 2.0, Unit.meters, {"all_pairs": True}),
        (PR.point_distance, 2.0, Unit.meters, {"pairs_from_reference": True}),
        (PR.rotation_angle_rad, 0.7, Unit.radians, {}),
        (PR.translation_part, 40.0, Unit.degrees, {"rel_delta_tol": 0.2}),
    ]
    for rel, delta, unit, kw in RPE_VARIANTS:
        add("evo.main_rpe.rpe", lambda I, rel=rel, delta=delta, unit=unit, kw=kw: (
            {"traj_ref": I.A, "traj_est": I.B, "path_ref": I.P, "path_est": I.Q},
            lambda: rpe_twice(I, [(I.A, I.B), (I.P, I.Q)], rel, delta, unit, kw), None))

    def ape_twice(I, pairs, rel, kw):
        from evo import main_ape
        for ref, est in pairs:
            what = "main_ape.ape(%s%s)" % (rel.name, "".join(", %s=%r" % kv for kv in sorted(kw.items())))
            r1 = copy.deepcopy(main_ape.ape(ref, est, rel, **kw))    # the Result holds the argument objects themselves
            r2 = main_ape.ape(ref, est, rel, **kw)
            same_result(r1, r2, what)
    for rel, kw in ((PR.translation_part, {}), (PR.full_transformation, {}), (PR.rotation_angle_deg, {"change_unit": Unit.radians}),
                    (PR.point_distance, {"change_unit": Unit.millimeters})):
        add("evo.main_ape.ape", lambda I, rel=rel, kw=kw: (
            {"traj_ref": I.A, "traj_est": I.B, "path_ref": I.P, "path_est": I.Q},
            lambda: ape_twice(I, [(I.A, I.B), (I.P, I.Q)], rel, kw), None))

    # ---------------- the command line layer of evo_ape / evo_rpe with --plot_full_ref: "the full reference" it hands to
    # the plot is an object derived from the loaded reference (a copy kept for plotting).  Later operations of the same
    # run on the loaded reference - projection (--project_to_plane), the restriction to the delta ids (evo_rpe), alignment,
    # --downsample / --motion_filter - must not change the poses seen through it: at the time of the plot and afterwards
    # it shows exactly the poses of the reference file.  Inputs without timestamps (kitti: no association step in between)
    # and with timestamps (tum).
    def pose_views(t):
        v = views(t)
        return {k_: v[k_] for k_ in ("class", "num_poses", "positions_xyz", "orientations_quat_wxyz", "poses_se3",
                                     "projected", "timestamps") if k_ in v}

    def cli_full_ref(I, app, fmt, extra):
        import logging
        from evo import common_ape_rpe, main_ape, main_ape_parser, main_rpe, main_rpe_parser
        mod, pmod = (main_ape, main_ape_parser) if app == "ape" else (main_rpe, main_rpe_parser)
        ref_file, est_file = os.path.join(I.tmp, "ref." + fmt), os.path.join(I.tmp, "est." + fmt)
        if fmt == "kitti":
            fi.write_kitti_poses_file(ref_file, I.P)
            fi.write_kitti_poses_file(est_file, I.Q)
            load = fi.read_kitti_poses_file
        else:
            fi.write_tum_trajectory_file(ref_file, I.A)
            fi.write_tum_trajectory_file(est_file, I.B)
            load = fi.read_tum_trajectory_file
        extra = list(extra[:-1]) + [os.path.join(I.tmp, extra[-1])]      # the last option is the plot output file
        argv = [fmt, ref_file, est_file] + extra + ["--plot_full_ref", "--no_warnings", "--silent"]
        what = "evo_%s %s" % (app, " ".join(a_ if not a_.startswith(I.tmp) else os.path.basename(a_) for a_ in argv))
        seen = {}
        orig = common_ape_rpe.plot_result

        def spy(args, result, traj_ref, traj_est, traj_ref_full=None):
            seen["full"] = traj_ref_full
            seen["at_plot"] = None if traj_ref_full is None else pose_views(traj_ref_full)
            return orig(args, result, traj_ref, traj_est, traj_ref_full=traj_ref_full)
        lg = logging.getLogger("evo")
        saved = (list(lg.handlers), lg.level, lg.propagate)
        common_ape_rpe.plot_result = spy
        try:
            mod.run(pmod.parser().parse_args(argv))
        finally:
            common_ape_rpe.plot_result = orig
            for h in list(lg.handlers):
                lg.removeHandler(h)
            for h in saved[0]:
                lg.addHandler(h)
            lg.setLevel(saved[1])
            lg.propagate = saved[2]
        if "full" not in seen:
            raise HarnessError("C16: %s did not reach common_ape_rpe.plot_result" % what)
        if seen["full"] is None:
            raise Violation("%s: no full reference was handed to the plot" % what)
        want = pose_views(load(ref_file))
        for when, got in (("when the plot is drawn", seen["at_plot"]), ("after the run", pose_views(seen["full"]))):
            for k_ in want:
                if got.get(k_) != want[k_]:
                    raise Violation(
                        "%s: the full reference kept for the plot (a copy of the loaded reference file, %d poses) shows "
                        "other data %s: %s differs (it has %d poses, projected=%r) - operations of the run on the reference "
                        "(projection / reduction to the delta ids / filtering) reached it" % (
                            what, want["num_poses"], when, k_, got.get("num_poses"), got.get("projected")))

    def cli_variant(app, fmt, extra, slot):
        def v(I):
            warm = all(a_ in I.P.__dict__ for a_ in LAZY)
            # the files do not depend on the storage mode / cache state of the table's trajectories: one slot runs it
            if (I.mode, warm) != slot:
                return {}, (lambda: None), None
            return {"P": I.P, "Q": I.Q, "A": I.A, "B": I.B}, (lambda: cli_full_ref(I, app, fmt, extra)), None
        add("evo.main_%s.run" % app, v)
    SER, PNG = ["--serialize_plot", "full_ref.evo"], ["--save_plot", "full_ref.png"]
    CLI_FULL_REF = [
        ("ape", "kitti", ["--project_to_plane", "xy", "--plot_mode", "xz"], ("mat", False), SER),
        ("ape", "kitti", ["--project_to_plane", "yz", "--align", "--correct_scale"], ("pq", False), SER),
        ("ape", "kitti", ["-r", "full"], ("mat", True), PNG),
        ("ape", "kitti", ["--downsample", "6", "--project_to_plane", "xz"], ("pq", True), SER),
        ("ape", "tum", ["--project_to_plane", "xy", "--align_origin"], ("pq", False), SER),
        ("rpe", "kitti", ["--delta", "3", "--delta_unit", "f", "--plot_mode", "xz"], ("mat", False), SER),
        ("rpe", "kitti", ["--project_to_plane", "xz"], ("pq", False), SER),
        ("rpe", "kitti", ["--delta", "2", "--delta_unit", "f", "--all_pairs", "--project_to_plane", "xy"], ("mat", True), SER),
        ("rpe", "tum", ["--motion_filter", "0.5", "10", "--delta", "2", "--delta_unit", "f"], ("pq", True), SER),
        ("rpe", "tum", ["--delta", "2", "--delta_unit", "f", "--project_to_plane", "yz"], ("mat", False), SER),
    ]
    for app, fmt, extra, slot, outp in CLI_FULL_REF:
        cli_variant(app, fmt, extra + outp, slot)
    return T


def run_call(case):
    """One variant of one table entry: snapshot every argument, call, compare; observe caches for the model."""
    from evo.core.trajectory import PosePath3D
    table = call_table()
    I = Inputs(case["mode"], case["warm"], case["seed"])
    try:
        args, thunk, reader = table[case["fn"]][case["variant"]](I)
        before = {k: (snap(v), v) for k, v in args.items()}
        cold = {k: sorted(a for a in LAZY if a in t.__dict__) for k, t in I.trajs.items()}
        raised = None
        try:
            import contextlib
            with contextlib.redirect_stdout(io.StringIO()):
                thunk()
        except Violation as e:
            return {"changed": [str(e)], "raised": None, "caches": None, "reader": None}
        except Exception as e:   # noqa
            raised = "%s: %s" % (type(e).__name__, str(e)[:160])
        changed = []
        for k, (s0, obj) in before.items():
            d = diff_snap(s0, obj)
            if d is not None:
                changed.append("argument %s: %s" % (k, d))
        out = {"changed": changed, "raised": raised, "reader": None, "caches": None}
        if reader is not None and raised is None:
            names, term = reader
            out["reader"] = {"names": names, "term": term,
                             "stamped": [hasattr(I.trajs[n], "timestamps") for n in names],
                             "mode": [("mat" if "_poses_se3" in cold[n] and "_positions_xyz" not in cold[n] else
                                       "pq" if "_poses_se3" not in cold[n] else "warm") for n in names],
                             "n": [int(I.trajs[n].num_poses) for n in names]}
            out["caches"] = [sorted(a for a in LAZY if a in I.trajs[n].__dict__) for n in names]
        return out
    finally:
        I.cleanup()


def call_expr(case, out):
    rd = out.get("reader")
    if not rd:
        return "tt"
    cmds = []
    for k, n in enumerate(rd["names"]):
        mode = rd["mode"][k]
        cmds.append("CInit %s %s %s" % (cnat(1 if mode == "pq" else 0), cnat(rd["n"][k]), cbool(rd["stamped"][k])))
    while len(cmds) < 2:
        cmds.append("CInitBag 1%nat")
    cmds.append("CInitBag 2%nat")
    for k, n in enumerate(rd["names"]):
        if rd["mode"][k] == "warm":
            cmds += ["CGet %s GPos" % cnat(k), "CGet %s GQuat" % cnat(k), "CGet %s GPoses" % cnat(k)]
    cmds.append("CRead (%s)" % rd["term"])
    return "report cfg_new [%s]" % "; ".join(cmds)


def call_judge(case, val, out):
    if out["changed"] and all("REBOUND" in c for c in out["changed"]):
        return {"kind": "model-vs-impl", "failing_input": False, "correspondence": "Heap.reader_prog (kept: cached arrays)",
                "detail": "%s (variant %d, storage %s, caches %s): %s" % (
                    case["fn"], case["variant"], case["mode"], "warm" if case["warm"] else "cold", "; ".join(out["changed"]))}
    if out["changed"]:
        return {"kind": "spec-violation", "failing_input": True,
                "detail": "%s (variant %d, storage %s, caches %s, seed %d): %s" % (
                    case["fn"], case["variant"], case["mode"], "warm" if case["warm"] else "cold", case["seed"],
                    "; ".join(out["changed"]))}
    if out["raised"]:
        return {"kind": "model-vs-impl", "failing_input": False, "correspondence": "call table (valid inputs)",
                "detail": "%s raised %s on an input that the table considers valid" % (case["fn"], out["raised"])}
    if out.get("reader"):
        objs_dump, log = val
        for k, n in enumerate(out["reader"]["names"]):
            o = objs_dump[k]
            model = sorted(a for a, present in zip(LAZY, (bool(o[1]), bool(o[2]), bool(o[3]))) if present)
            if model != out["caches"][k]:
                return {"kind": "model-vs-impl", "failing_input": False, "correspondence": "Heap.reader_prog",
                        "detail": "%s: caches of argument %s after the call: model %r, implementation %r" % (
                            case["fn"], n, model, out["caches"][k])}
        if any(w for w, _ in log):
            return {"kind": "model-vs-impl", "failing_input": False, "correspondence": "Heap.reader_prog",
                    "detail": "model reader writes a pre-existing cell"}
    return None


def call_cases(ctx):
    table = call_table()
    cases = []
    for fn in sorted(table):
        for v in range(len(table[fn])):
            for mode in ("mat", "pq"):
                for warm in (False, True):
                    for s in range(ctx.n(1, 3)):
                        cases.append({"kind": "call", "fn": fn, "variant": v, "mode": mode, "warm": warm, "seed": 40 + s})
    return cases



# ================================================================== random longer histories (several live objects)
def random_histories(ctx):
    """Several live objects; ["pick", j] = the (j mod k)-th of the k live objects with at least 4 poses."""
    rng, cases = ctx.rng, []
    safe = [["transform", False, False, "se3"], ["transform", True, True, "se3"], ["transform", True, False, "sim3"],
            ["scale", 0.5], ["project", "xy"], ["project", "xz"], ["project", "yz"], ["reduce", "head"],
            ["downsample", 5], ["time_range"], ["align_origin", ["pick", 1]], ["align_origin", ["pick", 2]]]
    for k in range(ctx.n(80, 2500)):
        mode = "mat" if k % 2 else "pq"
        body = []
        for step in range(rng.randrange(3, ctx.n(8, 14))):
            r = rng.random()
            p = ["pick", rng.randrange(64)]
            if r < 0.35:
                d = [["copy", p], ["split", "dist", p, 1e6], ["split", "dist", p, 10.0], ["split", "time", p, 5.0],
                     ["split", "time", p, 1e6], ["split", "speed", p, 1e6], ["merge", [p]],
                     ["ctor_poses", p, True], ["ctor_poses", p, False], ["ctor_pq", p]]
                body.append(d[rng.randrange(len(d))])
            elif r < 0.85:
                body.append(_mut(safe[rng.randrange(len(safe))], p))
            else:
                body.append(["get", p, ["pos", "quat", "poses"][rng.randrange(3)]])
        cases.append(mk_hist(mode, 30 + k % 13, WARMS[rng.randrange(len(WARMS))], body, WARMS[rng.randrange(len(WARMS))]))
    return cases


# ================================================================== driver
def impl(case):
    if case["kind"] == "history":
        return run_history(case["hist"])
    return run_call(case)


def expr(case, out):
    return hist_expr(case, out) if case["kind"] == "history" else call_expr(case, out)


def judge(case, val, out):
    return hist_judge(case, val, out) if case["kind"] == "history" else call_judge(case, val, out)


def nontrivial(case, val, out):
    if case["kind"] == "history":
        # a derived object was really changed by an in-place method and at least 3 objects are alive
        return "steps" in out and any(st.get("changed") for st in out["steps"]) and len(out["graph"]["shape"]) >= 3
    return not out.get("raised")


def shrink(case):
    if case["kind"] != "history":
        return
    h = case["hist"]
    creating = ("init", "init_stamps", "copy", "assoc", "merge", "split", "ctor_poses", "ctor_pq")
    for k in range(len(h) - 1, 1, -1):
        if h[k][0] not in creating:
            yield {"kind": "history", "hist": h[:k] + h[k + 1:]}
    if len(h) > 3:
        yield {"kind": "history", "hist": h[:-1]}


CORPUS = [
    # finding F5a (fixed by 6234e49): read positions; split; project a part
    {"kind": "history", "hist": [["init", "mat", N_A, 1, True], ["init", "pq", N_O, 2, True], ["get", 0, "pos"],
                                 ["split", "time", 0, 5.0], ["project", ["r", 0], "xy"], ["get", 0, "poses"]]},
    {"kind": "history", "hist": [["init", "pq", N_A, 1, True], ["init", "mat", N_O, 2, True],
                                 ["split", "dist", 0, 10.0], ["project", ["r", 1], "xz"]]},
    # finding F5b (fixed by ce2eb42): nothing to cut; operate on the single part
    {"kind": "history", "hist": [["init", "mat", N_A, 1, True], ["init", "pq", N_O, 2, True],
                                 ["split", "time", 0, 1e6], ["scale", ["r", 0], 3.0]]},
    {"kind": "history", "hist": [["init", "pq", N_A, 1, True], ["init", "mat", N_O, 2, True],
                                 ["split", "speed", 0, 1e6], ["transform", ["r", 0], False, False, "se3"]]},
    {"kind": "history", "hist": [["init", "mat", 1, 1, True], ["init", "pq", 1, 2, True],
                                 ["split", "dist", 0, 1.0], ["scale", ["r", 0], 3.0], ["split", "time", 1, 1.0],
                                 ["transform", ["r", 0], True, False, "se3"]]},
    # the constructor shares the caller's list of matrices; project the new object (old code rewrote the source)
    {"kind": "history", "hist": [["init", "mat", N_A, 1, True], ["init", "pq", N_O, 2, True],
                                 ["ctor_poses", 0, True], ["project", ["r", 0], "yz"], ["get", 0, "pos"]]},
    # PosePath3D (no timestamps)
    {"kind": "history", "hist": [["init", "mat", N_A, 1, False], ["init", "pq", N_O, 2, False],
                                 ["split", "dist", 0, 10.0], ["project", ["r", 2], "xy"], ["copy", 1],
                                 ["align_origin", ["r", 0], 0], ["ctor_poses", 1, False], ["ctor_pq", 0]]},
]


def run(ctx, replay=None, proofs_ok=True):
    names, failed = enumerate_public()
    table = call_table()
    if replay is not None:
        cases = [replay["case"]]
    else:
        cases = (CORPUS + call_cases(ctx) + systematic_histories(ctx) + assoc_equal_histories(ctx)
                 + three_step_histories(ctx) + random_histories(ctx))
    failures, stats = differential(ctx, cases, imports=IMPORTS, impl=impl, expr=expr, judge=judge, shrink=shrink,
                                   nontrivial=nontrivial, scope=None, per_file=80)
    covered = [n for n in names if n in table]
    skipped = {}
    for n in names:
        if n in table:
            continue
        mod = next((m for m in SKIP_MODULE if n.startswith(m + ".")), None)
        skipped[n] = SKIP_NAME.get(n) or (SKIP_MODULE[mod] if mod else "UNCOVERED")
    for m, why in failed.items():
        skipped[m + ".*"] = "module not importable here (%s): %s" % (why, SKIP_MODULE.get(m, ""))
    uncovered = sorted(n for n, w in skipped.items() if w == "UNCOVERED")
    if uncovered:
        ctx.notes.append("public functions without a call-table entry: %s" % ", ".join(uncovered))
    hist = {}
    for c in cases:
        if c["kind"] == "history":
            key = "history:len=%d" % len(c["hist"])
        else:
            key = "call:" + c["fn"].split(".")[2]
        hist[key] = hist.get(key, 0) + 1
    n_hist = sum(1 for c in cases if c["kind"] == "history")
    cov = {
        "evaluations": stats["evaluations"], "distinct_nontrivial": stats["distinct_nontrivial"],
        "rule": "(a) every entry of the call table (public functions of evo.core / evo.tools + the plotting step of evo_ape / "
                "evo_rpe, common_ape_rpe.plot_result, with every colormap option + the metric entry points main_ape.ape and "
                "main_rpe.rpe(support_loop=True) with frame / metre / angle deltas, consecutive and all pairs, called twice on the "
                "same objects, in-place operations on the stored copies + == / != of paths, trajectories and Results whose operands "
                "hold the same poses with q / -q quaternions, both operand orders + the command line layer main_ape.run / "
                "main_rpe.run with --plot_full_ref (kitti and tum input, projection / delta > 1 / alignment / downsample / "
                "motion filter): the full reference handed to the plot shows the reference file's poses) x variants x {matrix, xyz+quaternion "
                "storage} x {cold, warm caches}; "
                "(b,c) corpus (F5a/F5b reproducers, PosePath3D) + systematic 2-step histories (15 derivations x 20 "
                "in-place operations x 2 storage modes x 4 cache states of the source; quick: every 3rd) + association of "
                "equally long, fully matched trajectories (identical / jittered stamps, both argument orders) followed by "
                "every in-place operation or a time offset on either result + 3-step "
                "histories + random histories with several live objects; distinct by input; non-trivial = history "
                "with >= 3 live objects in which an in-place method really changed its object / call that returned",
        "samples": [cases[0], cases[min(len(CORPUS), len(cases) - 1)], cases[-1]],
        "input_distribution": hist, "exhaustive": False,
        "functions_public": len(names), "functions_covered": len(covered), "functions_skipped": len(skipped),
        "skipped_reasons": skipped, "call_cases": len(cases) - n_hist, "histories": n_hist,
        "sharing_graph_comparisons": n_hist, "disagreements": stats["disagreements"],
        "observations_outside_the_property": [
            "PosePath3D(poses_se3=lst) keeps the caller's list and matrices (construction, modelled as CCtorPoses)",
            "split parts share the parent's pose matrices (harmless: no operation of the current code writes a "
            "pre-existing array; modelled and proved)",
            "PE.get_result() puts the metric's own error array into the Result; a later PE.change_unit() between "
            "length units rewrites it in place (Result is not derived from a trajectory; modelled as NBagShare)",
            "merge_results([r]) returns r itself",
            "transform(right_mul=True, propagate=True) keeps the first pose matrix of the old list",
            "common_ape_rpe.plot_result() stores the defaults of plot_colormap_min / plot_colormap_max in the argparse "
            "namespace it is given (the options object it fills in; Result and trajectories are snapshotted)",
        ],
        "call_table_entries_outside_core_and_tools": sorted(n for n in table if n not in names),
    }
    return {"failures": failures, "coverage": cov}
