#!/bin/bash
# seed_regress.sh [LANES]: re-run every seeded change against the check recorded in its meta.json (scratch worktrees, never
# /repo itself) and list those no longer caught with a failing input. Seeds are grouped by check so that two runs of the
# same check (or of checks sharing generated files: C01/C02/C09) never overlap.
cd "$(dirname "${BASH_SOURCE[0]}")/.."
LANES=${1:-4}
/venv/bin/python - <<'PY' > /tmp/seed_regress_plan.txt
import glob, json, os
groups = {}
for d in sorted(glob.glob('seeded/C*-*')):
    m = json.load(open(d + '/meta.json'))
    chk = (m.get('check_result') or {}).get('check') or m['property']
    key = 'C01' if chk in ('C01', 'C02', 'C09') else chk
    groups.setdefault(key, []).append((os.path.basename(d), chk))
for k in sorted(groups, key=lambda k: -len(groups[k])):
    print(' '.join('%s:%s' % sc for sc in groups[k]))
PY
run_group() {
  for sc in "$@"; do
    s=${sc%%:*}; c=${sc##*:}
    out=$(harness/seedrun.sh $c seeded/$s/patch.diff 2>&1 | grep "VIOLATION\|^OK\|HARNESS\|check_exit")
    if echo "$out" | grep "VIOLATION" | grep -qv "no-failing-input-found"; then echo "caught $s ($c)"
    elif echo "$out" | grep -q "VIOLATION"; then echo "WEAK $s ($c)"
    else echo "MISSED $s ($c): $(echo "$out" | tr '\n' '|')"; fi
  done
}
export -f run_group
# distribute groups over lanes (largest first, round robin)
i=0; declare -a lane
while read -r line; do lane[$((i % LANES))]+=" $line"; i=$((i+1)); done < /tmp/seed_regress_plan.txt
for k in $(seq 0 $((LANES-1))); do ( run_group ${lane[$k]} ) & done
wait
git checkout -- coq/generated evidence 2>/dev/null
