(* Traj.v - executable model of evo/core/trajectory.py PosePath3D / PoseTrajectory3D: the three lazily
   cached views (positions, quaternions, 4x4 poses), timestamps, and every mutating operation.
   Definitions only (proofs: TrajProofs.v). Library kernels are parameters:
   [qfm]  = transformations.quaternion_from_matrix (eigh-based), [cbrt] = np.power(., 1/3). *)
From Coq Require Import List Arith Bool ZArith.
From Evo Require Import Num Linalg Lie.
Import ListNotations.
Local Open Scope num_scope.

Inductive Plane := XY | XZ | YZ.

Section Model.
Context {T : Type} {ops : NumOps T}.
Variable qfm : M3 T -> (T * T * T * T).      (* rotation block -> quaternion (w, x, y, z) *)
Variable cbrt : T -> T.
Variable eps4 : T.                            (* transformations._EPS = 4 * float eps *)

Definition Q4 : Type := (T * T * T * T)%type.

(* transformations.quaternion_matrix, operation by operation *)
Definition qmat (q : Q4) : M3 T :=
  let '(w, x, y, z) := q in
  let n := w *! w +! x *! x +! y *! y +! z *! z in
  if n <?! eps4 then I3 else
  let k := nsqrt ((n1 +! n1) /! n) in
  let w := w *! k in let x := x *! k in let y := y *! k in let z := z *! k in
  mkM3 (n1 -! y *! y -! z *! z) (x *! y -! z *! w) (x *! z +! y *! w)
       (x *! y +! z *! w) (n1 -! x *! x -! z *! z) (y *! z -! x *! w)
       (x *! z -! y *! w) (y *! z +! x *! w) (n1 -! x *! x -! y *! y).

(* ---- plane projection: exp(axis * euler_sxyz(R)[null_dim]) without transcendental functions ---- *)
Definition rotz (c s : T) := mkM3 c (nopp s) n0 s c n0 n0 n0 n1.
Definition roty (c s : T) := mkM3 c n0 s n0 n1 n0 (nopp s) n0 c.
Definition rotx (c s : T) := mkM3 n1 n0 n0 n0 c (nopp s) n0 s c.
(* (cos, sin) of atan2(a, b) *)
Definition planar_cs (a b : T) : T * T :=
  let h := nsqrt (a *! a +! b *! b) in
  if neqb h n0 then (n1, n0) else (b /! h, a /! h).
Definition proj_rot (pl : Plane) (m : M3 T) : M3 T :=
  let cy := nsqrt (m00 m *! m00 m +! m10 m *! m10 m) in
  match pl with
  | XY => let cs := if eps4 <?! cy then planar_cs (m10 m) (m00 m) else (n1, n0) in rotz (fst cs) (snd cs)
  | XZ => let cs := planar_cs (nopp (m20 m)) cy in roty (fst cs) (snd cs)
  | YZ => let cs := if eps4 <?! cy then planar_cs (m21 m) (m22 m) else planar_cs (nopp (m12 m)) (m11 m) in
          rotx (fst cs) (snd cs)
  end.
Definition proj_pos (pl : Plane) (v : V3 T) : V3 T :=
  match pl with
  | XY => mkV3 (vx v) (vy v) n0
  | XZ => mkV3 (vx v) n0 (vz v)
  | YZ => mkV3 n0 (vy v) (vz v)
  end.
Definition proj_pose (pl : Plane) (p : Pose T) : Pose T := mkPose (proj_rot pl (prot p)) (proj_pos pl (ptr p)).

(* ---- the object ---- *)
Record traj := mkTraj {
  t_pos : option (list (V3 T));
  t_quat : option (list Q4);
  t_poses : option (list (Pose T));
  t_stamps : option (list T);
  t_proj : bool }.

Definition init_poses (ps : list (Pose T)) (st : option (list T)) := mkTraj None None (Some ps) st false.
Definition init_pos_quat (xs : list (V3 T)) (qs : list Q4) (st : option (list T)) := mkTraj (Some xs) (Some qs) None st false.

Fixpoint zip_pose (qs : list Q4) (xs : list (V3 T)) : list (Pose T) :=
  match qs, xs with
  | q :: qs', x :: xs' => mkPose (qmat q) x :: zip_pose qs' xs'
  | _, _ => []
  end.

(* the cached-property reads (each may fill a cache) *)
Definition rd_poses (s : traj) : traj :=
  match t_poses s with
  | Some _ => s
  | None => match t_quat s, t_pos s with
            | Some qs, Some xs => mkTraj (t_pos s) (t_quat s) (Some (zip_pose qs xs)) (t_stamps s) (t_proj s)
            | _, _ => s
            end
  end.
Definition rd_pos (s : traj) : traj :=
  match t_pos s with
  | Some _ => s
  | None => match t_poses s with
            | Some ps => mkTraj (Some (map ptr ps)) (t_quat s) (t_poses s) (t_stamps s) (t_proj s)
            | None => s
            end
  end.
Definition rd_quat (s : traj) : traj :=
  match t_quat s with
  | Some _ => s
  | None => match t_poses s with
            | Some ps => mkTraj (t_pos s) (Some (map (fun p => qfm (prot p)) ps)) (t_poses s) (t_stamps s) (t_proj s)
            | None => s
            end
  end.
Definition poses_of (s : traj) : list (Pose T) := match t_poses (rd_poses s) with Some ps => ps | None => [] end.

(* transform(): left / right / right with propagation *)
Fixpoint propagate_from (prev : Pose T) (ps : list (Pose T)) (prev_new : Pose T) (t : Pose T) : list (Pose T) :=
  match ps with
  | [] => []
  | p :: r => let nw := pmul prev_new (pmul (relative_se3 prev p) t) in nw :: propagate_from p r nw t
  end.
Definition transform_poses (t : Pose T) (rgt propagate : bool) (ps : list (Pose T)) : list (Pose T) :=
  if rgt then
    if propagate then match ps with [] => [] | p0 :: r => p0 :: propagate_from p0 r p0 t end
    else map (fun p => pmul p t) ps
  else map (pmul t) ps.
(* Sim(3) applied: the rotation blocks are divided by their own scale, positions keep the scaling *)
Definition renorm (p : Pose T) : Pose T := mkPose (mscale (n1 /! cbrt (det (prot p))) (prot p)) (ptr p).

Inductive op :=
  | RdPos | RdQuat | RdPoses
  | Transform (t : Pose T) (rgt propagate sim : bool)
  | Scale (s : T)
  | Reduce (ids : list nat)
  | Project (pl : Plane)
  | Copy.

Fixpoint select {A} (l : list A) (ids : list nat) : option (list A) :=
  match ids with
  | [] => Some []
  | i :: r => match nth_error l i, select l r with
              | Some x, Some xs => Some (x :: xs)
              | _, _ => None
              end
  end.
Definition omap {A B} (f : A -> option B) (o : option A) : option (option B) :=
  match o with None => Some None | Some a => match f a with Some b => Some (Some b) | None => None end end.

Definition step (s : traj) (o : op) : option traj :=
  match o with
  | RdPos => Some (rd_pos s)
  | RdQuat => Some (rd_quat s)
  | RdPoses => Some (rd_poses s)
  | Copy => Some s
  | Transform t rgt propagate sim =>
      let ps := transform_poses t rgt propagate (poses_of s) in
      let ps := if sim then map renorm ps else ps in
      Some (mkTraj (Some (map ptr ps)) (Some (map (fun p => qfm (prot p)) ps)) (Some ps) (t_stamps s) (t_proj s))
  | Scale k =>
      Some (mkTraj (option_map (map (vscale k)) (t_pos s)) (t_quat s)
                   (option_map (map (fun p => mkPose (prot p) (vscale k (ptr p)))) (t_poses s))
                   (t_stamps s) (t_proj s))
  | Reduce ids =>
      match omap (fun l => select l ids) (t_pos s), omap (fun l => select l ids) (t_quat s),
            omap (fun l => select l ids) (t_poses s), omap (fun l => select l ids) (t_stamps s) with
      | Some a, Some b, Some c, Some d => Some (mkTraj a b c d (t_proj s))
      | _, _, _, _ => None
      end
  | Project pl =>
      if t_proj s then None else
      Some (mkTraj None None (Some (map (proj_pose pl) (poses_of s))) (t_stamps s) true)
  end.

Fixpoint run (s : traj) (ops_ : list op) : option traj :=
  match ops_ with
  | [] => Some s
  | o :: r => match step s o with Some s' => run s' r | None => None end
  end.

(* derived quantities (all read the positions) *)
Fixpoint step_lengths (xs : list (V3 T)) : list T :=
  match xs with
  | a :: ((b :: _) as r) => norm (vsub a b) :: step_lengths r
  | _ => []
  end.
Fixpoint cumsum (acc : T) (l : list T) : list T :=
  match l with [] => [] | x :: r => (acc +! x) :: cumsum (acc +! x) r end.
Definition distances (xs : list (V3 T)) : list T := n0 :: cumsum n0 (step_lengths xs).
Definition path_length (xs : list (V3 T)) : T := fold_left nadd (step_lengths xs) n0.
End Model.

(* Newton iteration for the cube root, used only to RUN the model in binary64 *)
Section Cbrt.
Context {T : Type} {ops : NumOps T}.
Fixpoint newton_cbrt (fuel : nat) (x y : T) : T :=
  match fuel with
  | O => y
  | S f => newton_cbrt f x (y -! (y *! y *! y -! x) /! (nofZ 3 *! y *! y))
  end.
End Cbrt.

(* ---- helpers used only to RUN the model against the implementation ---- *)
Section Exec.
Context {T : Type} {ops : NumOps T}.
(* Shepperd's quaternion extraction (w, x, y, z); the implementation's eigen-solver based routine is an
   oracle with the same specification (unit quaternion whose matrix is the input), compared up to sign *)
Definition qfm_shep (m : M3 T) : T * T * T * T :=
  let two := n1 +! n1 in
  let t := tr m in
  if n0 <?! t then
    let s := nsqrt (t +! n1) *! two in
    (s /! (two *! two), (m21 m -! m12 m) /! s, (m02 m -! m20 m) /! s, (m10 m -! m01 m) /! s)
  else if (m11 m <?! m00 m) && (m22 m <?! m00 m) then
    let s := nsqrt (n1 +! m00 m -! m11 m -! m22 m) *! two in
    ((m21 m -! m12 m) /! s, s /! (two *! two), (m01 m +! m10 m) /! s, (m02 m +! m20 m) /! s)
  else if m22 m <?! m11 m then
    let s := nsqrt (n1 +! m11 m -! m00 m -! m22 m) *! two in
    ((m02 m -! m20 m) /! s, (m01 m +! m10 m) /! s, s /! (two *! two), (m12 m +! m21 m) /! s)
  else
    let s := nsqrt (n1 +! m22 m -! m00 m -! m11 m) *! two in
    ((m10 m -! m01 m) /! s, (m02 m +! m20 m) /! s, (m12 m +! m21 m) /! s, s /! (two *! two)).

Definition qlist (q : T * T * T * T) : list T := let '(w, x, y, z) := q in [w; x; y; z].
Definition ser (s : @traj T) :=
  (option_map (map vlist) (t_pos s), option_map (map qlist) (t_quat s), option_map (map plist) (t_poses s),
   t_stamps s, t_proj s).
Section Trace.
Variable qfm : M3 T -> (T * T * T * T).
Variable cbrt : T -> T.
Variable eps4 : T.
Fixpoint run_trace (s : @traj T) (os : list (@op T)) : list (option (@traj T)) :=
  match os with
  | [] => []
  | o :: r => match step qfm cbrt eps4 s o with
              | Some s' => Some s' :: run_trace s' r
              | None => [None]
              end
  end.
End Trace.
End Exec.
