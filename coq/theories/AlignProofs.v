(* AlignProofs.v - theorems about the alignment model over R (property C04). *)
From Coq Require Import Reals Lra Psatz Lia List Arith Bool.
From Evo Require Import Num Linalg LinalgR Lie LieProofs Umeyama UmeyamaProofs Traj Align.
Import ListNotations.
Local Open Scope R_scope.

Section Proofs.
Variable svd : M3R -> M3R * V3R * M3R.
Variable eps : R.
Hypothesis eps_nonneg : 0 <= eps.
Notation alignR := (@align R _ svd eps).
Notation stageR := (@align_stage R _ svd eps).

(* a similarity acting on a pose: position c*R*p + t, orientation R*R_p *)
Definition sim_pose (c : R) (r : M3R) (t : V3R) (p : PoseR) : PoseR :=
  mkPose (mm r (prot p)) (vadd (vscale c (mv r (ptr p))) t).

Lemma transform_scale (r : M3R) (t : V3R) c (P : list PoseR) :
  transform_poses (se3 r t) false false (scale_poses c P) = map (sim_pose c r t) P.
Proof.
  unfold transform_poses, scale_poses. rewrite map_map. apply map_ext. intros p.
  unfold pmul, se3, sim_pose. cbn [prot ptr]. now rewrite mv_vscale.
Qed.
Lemma transform_rigid (r : M3R) (t : V3R) (P : list PoseR) :
  transform_poses (se3 r t) false false P = map (sim_pose 1 r t) P.
Proof.
  unfold transform_poses. apply map_ext. intros p. unfold pmul, se3, sim_pose. cbn [prot ptr]. now rewrite vscale_1.
Qed.

(* the alignment applies exactly the returned similarity, determined from the first n pairs only *)
Theorem align_applies_result (P ref : list PoseR) cs os n P' r t c : alignR P ref cs os n = Some (P', (r, t, c)) ->
  umeyama svd eps (cs || os) (take n (positions P)) (take n (positions ref)) = Some (r, t, c) /\
  P' = (if os then map (fun p => mkPose (prot p) (vscale c (ptr p))) P else map (sim_pose c r t) P) /\
  (cs || os = false -> c = 1 -> P' = map (sim_pose 1 r t) P).
Proof.
  unfold align. destruct (umeyama svd eps (cs || os) _ _) as [[[r0 t0] c0]|] eqn:E; [|discriminate].
  intros H. apply (f_equal (fun o => match o with Some q => q | None => (P', (r, t, c)) end)) in H.
  apply pair_equal_spec in H. destruct H as [HP H]. apply pair_equal_spec in H. destruct H as [H Hc].
  apply pair_equal_spec in H. destruct H as [Hr Ht]. subst r0 t0 c0 P'. split; [reflexivity|]. split.
  - destruct os; [reflexivity|]. destruct cs; [apply transform_scale|].
    rewrite transform_rigid.
    (* without scale estimation the scale is exactly 1 *)
    assert (c = 1).
    { unfold umeyama in E. destruct (negb _); [discriminate|]. destruct (svd _) as [[u d] v].
      destruct (negb _); [discriminate|]. cbn [orb] in E. injection E as _ _ <-. reflexivity. }
    now subst c.
  - intros B _. destruct cs, os; try discriminate. apply transform_rigid.
Qed.
Theorem align_refuses_iff_umeyama_refuses (P ref : list PoseR) cs os n :
  alignR P ref cs os n = None <-> umeyama svd eps (cs || os) (take n (positions P)) (take n (positions ref)) = None.
Proof. unfold align. destruct (umeyama _ _ _ _ _) as [[[r t] c]|]; split; congruence. Qed.

(* fit over the poses used: never worse than before, best in its class *)
Lemma apply_sim_id (v : V3R) : apply_sim 1 I3 V0 v = v.
Proof. unfold apply_sim. rewrite mv_I. destruct v as [a b d]. lin_unfold. f_equal; ring. Qed.
Lemma resid_after (c : R) (r : M3R) (t : V3R) (x y : list V3R) :
  resid 1 I3 V0 (map (apply_sim c r t) x) y = resid c r t x y.
Proof.
  unfold resid. revert y. induction x as [|a x IH]; intros [|b y]; cbn [map combine tsum fst snd]; try reflexivity.
  rewrite IH, apply_sim_id. reflexivity.
Qed.
Lemma positions_sim (c : R) (r : M3R) (t : V3R) (P : list PoseR) : positions (map (sim_pose c r t) P) = map (apply_sim c r t) (positions P).
Proof. unfold positions. rewrite !map_map. reflexivity. Qed.
Lemma resid_identity (x y : list V3R) : resid 1 I3 V0 x y = tsum (map (fun p => nrm2 (vsub (snd p) (fst p))) (combine x y)).
Proof.
  unfold resid. f_equal. apply map_ext. intros [a b]. cbn [fst snd]. now rewrite apply_sim_id.
Qed.

Theorem align_never_worse_and_best_in_class (P ref : list PoseR) cs n P' r t c :
  svd_at svd (cov_xy (take n (positions P)) (take n (positions ref))) ->
  alignR P ref cs false n = Some (P', (r, t, c)) ->
  let x := take n (positions P) in let y := take n (positions ref) in
  let x' := map (apply_sim c r t) x in
  (* the aligned positions of the poses used are x' *)
  take n (positions P') = x' /\
  (* sum of squared distances to the reference: not larger than before ... *)
  resid 1 I3 V0 x' y <= resid 1 I3 V0 x y /\
  (* ... and not larger than under any other transformation of the class *)
  (cs = false -> forall R' t', SO3 R' -> resid 1 I3 V0 x' y <= resid 1 R' t' x y) /\
  (cs = true -> forall c' R' t', SO3 R' -> 0 < c' -> resid 1 I3 V0 x' y <= resid c' R' t' x y).
Proof.
  intros Hsvd H. destruct (align_applies_result _ _ _ _ _ _ _ _ _ H) as (Hu & HP & _). cbn zeta.
  rewrite orb_false_r in Hu.
  destruct (umeyama_spec svd eps eps_nonneg cs _ _ r t c Hsvd Hu) as (Hl & Hso & Hc & Hc1 & Hr & Hs).
  subst P'. rewrite resid_after. repeat split.
  - rewrite positions_sim. destruct n as [k|]; cbn [take]; [apply firstn_map|reflexivity].
  - destruct cs.
    + apply (Hs eq_refl 1 I3 V0 SO3_I). lra.
    + apply (Hr eq_refl I3 V0 SO3_I).
  - intros ->. exact (Hr eq_refl).
  - intros ->. exact (Hs eq_refl).
Qed.

(* a second alignment cannot improve the fit: the identity is optimal for the aligned data.
   (That the RETURNED parameters of a second alignment are exactly the identity additionally needs uniqueness
   of the optimum - not proved, covered by the correspondence run: align_twice_identity_partial.) *)
Lemma apply_sim_compose (c' c : R) (R' r : M3R) (t' t v : V3R) :
  apply_sim c' R' t' (apply_sim c r t v) = apply_sim (c' * c) (mm R' r) (vadd (vscale c' (mv R' t)) t') v.
Proof.
  unfold apply_sim. rewrite mv_vadd, mv_vscale, mv_mm.
  destruct (mv R' (mv r v)) as [a b d], (mv R' t) as [e f g], t' as [h i j]. lin_unfold. f_equal; ring.
Qed.
Lemma resid_compose (c' c : R) (R' r : M3R) (t' t : V3R) (x y : list V3R) :
  resid c' R' t' (map (apply_sim c r t) x) y = resid (c' * c) (mm R' r) (vadd (vscale c' (mv R' t)) t') x y.
Proof.
  unfold resid. revert y. induction x as [|a x IH]; intros [|b y]; cbn [map combine tsum fst snd]; try reflexivity.
  rewrite IH, apply_sim_compose. reflexivity.
Qed.
Theorem align_twice_identity_partial (P ref : list PoseR) cs n P' r t c :
  svd_at svd (cov_xy (take n (positions P)) (take n (positions ref))) ->
  alignR P ref cs false n = Some (P', (r, t, c)) ->
  let x' := take n (positions P') in let y := take n (positions ref) in
  (cs = false -> forall R' t', SO3 R' -> resid 1 I3 V0 x' y <= resid 1 R' t' x' y) /\
  (cs = true -> forall c' R' t', SO3 R' -> 0 < c' -> resid 1 I3 V0 x' y <= resid c' R' t' x' y).
Proof.
  intros Hsvd H. destruct (align_never_worse_and_best_in_class P ref cs n P' r t c Hsvd H) as (Ex & _ & Hr & Hs).
  destruct (align_applies_result _ _ _ _ _ _ _ _ _ H) as (Hu & _ & _). rewrite orb_false_r in Hu.
  destruct (umeyama_spec svd eps eps_nonneg cs _ _ r t c Hsvd Hu) as (_ & Hso & Hc & Hc1 & _ & _).
  cbn zeta. rewrite Ex. split.
  - intros -> R' t' HR. pose proof (Hc1 eq_refl) as E1. subst c. rewrite (resid_compose 1 1 R' r t' t), Rmult_1_l.
    apply (Hr eq_refl). now apply SO3_mm.
  - intros -> c' R' t' HR Hc'. rewrite (resid_compose c' c R' r t' t). apply (Hs eq_refl); [now apply SO3_mm|]. now apply Rmult_lt_0_compat.
Qed.

(* origin alignment *)
Theorem origin_maps_first_pose_and_preserves_relative (P ref : list PoseR) P' To :
  Forall SE3 P -> Forall SE3 ref -> align_origin P ref = Some (P', To) ->
  SE3 To /\ P' = map (pmul To) P /\ hd pI P' = hd pI ref /\
  (forall a b, In a P -> In b P -> relative_se3 (pmul To a) (pmul To b) = relative_se3 a b).
Proof.
  intros FP Fr. unfold align_origin. destruct P as [|p0 P0]; [discriminate|]. destruct ref as [|r0 ref0]; [discriminate|].
  intros H. injection H as <- <-. inversion FP as [|? ? Hp0 _]; subst. inversion Fr as [|? ? Hr0 _]; subst.
  assert (HT : SE3 (pmul r0 (se3_inverse p0))) by (apply SE3_pmul; [exact Hr0|now apply SE3_pinv]).
  split; [exact HT|]. split; [reflexivity|]. split.
  - cbn [transform_poses map hd]. rewrite pmul_assoc. unfold se3_inverse. rewrite pinv_left by apply Hp0. apply pmul_I_r.
  - intros a b _ _. unfold relative_se3. apply prel_left_invariant. apply HT.
Qed.

(* the matrix recorded by evo_ape / evo_rpe maps the unaligned estimate positions onto the stored ones *)
Lemma apply4_pmul (A B : PoseR) v : apply4 (pmul A B) v = apply4 A (apply4 B v).
Proof.
  unfold apply4, pmul. cbn [prot ptr]. rewrite mv_mm, mv_vadd, vadd_assoc. reflexivity.
Qed.
Lemma apply4_sim3 (r : M3R) (t : V3R) (c : R) (v : V3R) : apply4 (sim3 r t c) v = apply_sim c r t v.
Proof. unfold apply4, sim3, apply_sim. cbn [prot ptr]. now rewrite mv_mscale. Qed.
Lemma align_origin_map (P ref P2 : list PoseR) (To : PoseR) : align_origin P ref = Some (P2, To) -> P2 = map (pmul To) P.
Proof.
  unfold align_origin. destruct P as [|p0 P0]; [discriminate|]. destruct ref as [|r0 ref0]; [discriminate|].
  intros H. apply (f_equal (fun o => match o with Some q => q | None => (P2, To) end)) in H.
  apply pair_equal_spec in H. destruct H as [H1 H2]. subst. reflexivity.
Qed.
Lemma positions_pmul (To : PoseR) (P : list PoseR) : positions (map (pmul To) P) = map (apply4 To) (positions P).
Proof. unfold positions. rewrite !map_map. apply map_ext. intros p. reflexivity. Qed.
Theorem recorded_matrix_maps_estimate (P ref : list PoseR) da cs dorig n P' A :
  stageR P ref da cs dorig n = Some (P', Some A) -> positions P' = map (apply4 A) (positions P).
Proof.
  unfold align_stage.
  set (os := cs && negb da).
  destruct (da || cs) eqn:Eac.
  - destruct (alignR P ref cs os n) as [[P1 [[r t] c]]|] eqn:Ea; [|cbv beta iota; discriminate].
    destruct (align_applies_result _ _ _ _ _ _ _ _ _ Ea) as (_ & HP1 & _).
    assert (Pos1 : exists A1, (if os then (I3, V0) else (r, t)) = (prot A1, ptr A1) /\ True) by
      (destruct os; [exists (mkPose I3 V0)|exists (mkPose r t)]; split; auto).
    clear Pos1.
    destruct os.
    + (* scale only *)
      assert (Pos1 : positions P1 = map (apply4 (sim3 I3 V0 c)) (positions P)).
      { subst P1. unfold positions. rewrite !map_map. apply map_ext. intros p. cbn [ptr]. rewrite apply4_sim3. unfold apply_sim.
        rewrite mv_I. destruct (vscale c (ptr p)) as [a b d]. lin_unfold. f_equal; ring. }
      cbv beta iota. destruct dorig.
      * destruct (align_origin P1 ref) as [[P2 To]|] eqn:Eo; [|discriminate]. intros H.
        apply (f_equal (fun o => match o with Some q => q | None => (P', Some A) end)) in H. cbv beta iota in H.
        apply pair_equal_spec in H. destruct H as [H1 H2]. subst P'. injection H2 as <-.
        rewrite (align_origin_map _ _ _ _ Eo), positions_pmul, Pos1, map_map. apply map_ext. intros v. now rewrite apply4_pmul.
      * intros H. apply (f_equal (fun o => match o with Some q => q | None => (P', Some A) end)) in H. cbv beta iota in H.
        apply pair_equal_spec in H. destruct H as [H1 H2]. subst P'. injection H2 as <-. exact Pos1.
    + assert (Pos1 : positions P1 = map (apply4 (sim3 r t c)) (positions P)).
      { subst P1. rewrite positions_sim. apply map_ext. intros v. now rewrite apply4_sim3. }
      cbv beta iota. destruct dorig.
      * destruct (align_origin P1 ref) as [[P2 To]|] eqn:Eo; [|discriminate]. intros H.
        apply (f_equal (fun o => match o with Some q => q | None => (P', Some A) end)) in H. cbv beta iota in H.
        apply pair_equal_spec in H. destruct H as [H1 H2]. subst P'. injection H2 as <-.
        rewrite (align_origin_map _ _ _ _ Eo), positions_pmul, Pos1, map_map. apply map_ext. intros v. now rewrite apply4_pmul.
      * intros H. apply (f_equal (fun o => match o with Some q => q | None => (P', Some A) end)) in H. cbv beta iota in H.
        apply pair_equal_spec in H. destruct H as [H1 H2]. subst P'. injection H2 as <-. exact Pos1.
  - destruct dorig; [|discriminate].
    destruct (align_origin P ref) as [[P2 To]|] eqn:Eo; [|discriminate]. intros H.
    apply (f_equal (fun o => match o with Some q => q | None => (P', Some A) end)) in H. cbv beta iota in H.
    apply pair_equal_spec in H. destruct H as [H1 H2]. subst P'. injection H2 as <-.
    rewrite (align_origin_map _ _ _ _ Eo). apply positions_pmul.
Qed.
End Proofs.

(* ---------- alignment over all poses (n = None, not scale-only) brings the centroid of the estimate's positions onto
   the centroid of the reference's positions; with n = Some k it does so for the first k positions ---------- *)
Theorem align_matches_centroids svd eps (P ref : list PoseR) cs n P' r t c :
  take n (positions P) <> [] -> @align R _ svd eps P ref cs false n = Some (P', (r, t, c)) ->
  mean (take n (positions P')) = mean (take n (positions ref)).
Proof.
  intros Hne H. destruct (align_applies_result svd eps P ref cs false n P' r t c H) as (U & EP & _).
  subst P'. rewrite positions_sim.
  assert (T : take n (map (apply_sim c r t) (positions P)) = map (apply_sim c r t) (take n (positions P))).
  { destruct n as [k|]; cbn [take]; [apply firstn_map|reflexivity]. }
  rewrite T. exact (umeyama_aligned_mean svd eps _ _ _ r t c Hne U).
Qed.
