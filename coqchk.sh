#!/bin/bash
# independent re-check of the compiled library + list of axioms (thorough; takes minutes and several GB)
cd "$(dirname "${BASH_SOURCE[0]}")/coq" || exit 2
mods=$(ls theories/*.vo 2>/dev/null | sed 's|theories/\(.*\)\.vo|Evo.\1|')
timeout 3000 coqchk -silent -o -Q theories Evo -Q generated EvoGen $mods 2>&1
