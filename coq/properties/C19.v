(* C19 - the settings file stays loadable across crashes and concurrent starts.
   Property theorems only; model in Evo.SettingsFS, proofs in Evo.SettingsFSProofs. *)
From Coq Require Import List Arith Bool.
From Evo Require Import SettingsFS SettingsFSProofs.
Import ListNotations.

(* Invariant, protocol level.  For ANY participants whose file-system events keep the discipline checked
   by [legal_run_b] (shared files are only ever the target of os.replace of a completely written and
   closed private temp file; mkdir with exist_ok) - any number of processes, any interleaving (the trace
   is an arbitrary list of (process, event)), any crash points (a crashed process contributes no further
   events; every prefix is covered by [firstn k]) - settings.json and assets_version are absent or
   complete in every reachable state. *)
Theorem C19_inv_settings :
  forall (f : fs) (tr : list (nat * ev)), never_partial f -> legal_run_b f tr = true ->
  forall k, never_partial (run f (firstn k tr)).
Proof. exact inv_settings. Qed.
Print Assumptions C19_inv_settings.

(* Monotone history: nothing truncates or deletes a complete shared file. *)
Theorem C19_complete_is_stable :
  forall (f : fs) (tr : list (nat * ev)) (t : target), legal_run_b f tr = true ->
  forall j k, j <= k ->
    is_present (lookup (run f (firstn j tr)) (PShared t)) = true ->
    is_present (lookup (run f (firstn k tr)) (PShared t)) = true.
Proof. exact complete_is_stable. Qed.
Print Assumptions C19_complete_is_stable.

(* evo's own processes (module level of settings.py, optionally followed by evo_config set / set -m /
   reset / reset <params>), with their writes split into any number of chunks: started on any home that
   such operations can have left behind ([glob]: shared files absent or complete, settings.json implies
   assets_version, a current version implies settings absent or with every default key; arbitrary left-over
   temp files), in any number, under any schedule with any crash points: no step of any process raises,
   every import-time load reads a complete document with every default key, and the home is again in
   such a state (in particular never partial). *)
Theorem C19_every_start_loads :
  forall (ps : list prog) (f : fs) (sched : list nat),
    Forall is_evo_prog ps -> glob f ->
    exists f' ps' t, sys_run f ps sched = Some (f', ps', t) /\ glob f' /\ Forall load_ok t.
Proof. exact every_start_loads. Qed.
Print Assumptions C19_every_start_loads.

Theorem C19_reachable_homes_never_partial : forall f, glob f -> never_partial f.
Proof. exact glob_never_partial. Qed.
Print Assumptions C19_reachable_homes_never_partial.

Theorem C19_fresh_home_is_reachable : glob fs_fresh.
Proof. exact glob_fresh. Qed.
Print Assumptions C19_fresh_home_is_reachable.

(* the abstract interpreter that carries the proof accepts every evo program, for every chunking *)
Theorem C19_evo_programs_safe : forall n c, safe_b K0 (evo_prog n c) = true.
Proof. exact evo_prog_safe. Qed.
Print Assumptions C19_evo_programs_safe.

(* non-vacuity: two racing first starts on an empty home complete, both load, no temp file is left *)
Theorem C19_two_first_starts_example :
  exists f' ps' t, sys_run fs_fresh [evo_prog 1 CNone; evo_prog 1 CNone]
                     [0;1;0;1;0;1;0;1;0;1;0;1;0;1;0;1;0;1;0;1;0;1;0;1;0;0;0;0;0;0;1;1;1;1;1;1] = Some (f', ps', t) /\
    ps' = [Done; Done] /\
    length (filter (fun pe => match snd pe with ELoad _ => true | _ => false end) t) = 2 /\
    obs 2 f' = (true, (Present c_defaults, Present c_version), [(Absent, Absent); (Absent, Absent)]).
Proof. exact two_first_starts. Qed.
Print Assumptions C19_two_first_starts_example.

(* regression witnesses for finding F7 (the protocol before the repair) *)
Theorem C19_old_protocol_refuted :
  exists f tr, never_partial f /\ ~ never_partial (run f tr) /\
               tr = [(0, EOpenW (PShared TSet))] /\ legal_run_b f tr = false.
Proof. exact old_protocol_refuted. Qed.
Print Assumptions C19_old_protocol_refuted.

Theorem C19_old_crash_breaks_next_start_refuted :
  exists sched, sys_run (fs_home true (Present c_defaults) (Present (C false false)))
                        [old_start 1 Done; evo_prog 1 CNone] sched = None.
Proof. exact old_crash_breaks_next_start_refuted. Qed.
Print Assumptions C19_old_crash_breaks_next_start_refuted.

Theorem C19_old_two_first_starts_refuted :
  exists sched, sys_run fs_fresh [old_start 1 Done; old_start 1 Done] sched = None.
Proof. exact old_two_first_starts_refuted. Qed.
Print Assumptions C19_old_two_first_starts_refuted.
