(* SubsampleProofs.v - theorems about the Subsample model (C11). *)
From Coq Require Import Reals Lra Lia List Arith Bool ZArith Sorted Permutation.
From Evo Require Import Num Linalg LinalgR Filters FiltersProofs Subsample SubsampleFinite.
Import ListNotations.
Local Open Scope R_scope.

(* ====================================================================================== *)
(* reduce_to_ids keeps order and keeps the per-pose arrays together                       *)
(* ====================================================================================== *)
Lemma select_ids_length {A} (d : A) l ids : length (select_ids d l ids) = length ids.
Proof. apply map_length. Qed.

Lemma select_ids_nth {A} (d : A) l ids k : (k < length ids)%nat ->
  nth k (select_ids d l ids) d = nth (nth k ids 0%nat) l d.
Proof.
  intros H. unfold select_ids. rewrite (nth_indep _ d (nth (nth 0%nat ids 0%nat) l d)) by now rewrite map_length.
  revert k H. induction ids as [|i r IH]; intros [|k] H; cbn in *; try lia; [reflexivity|].
  rewrite (nth_indep _ _ (nth (nth 0%nat r 0%nat) l d)) by (rewrite map_length; lia). apply IH. lia.
Qed.

(* stamp, position and orientation are picked by the same index list: the result of reducing the
   zipped trajectory is the zip of the reduced arrays *)
Lemma select_ids_combine {A B} (da : A) (db : B) la lb ids : length la = length lb ->
  select_ids (da, db) (combine la lb) ids = combine (select_ids da la ids) (select_ids db lb ids).
Proof.
  intros L. unfold select_ids. induction ids as [|i r IH]; cbn; [reflexivity|]. rewrite IH. f_equal.
  apply combine_nth. exact L.
Qed.

(* with increasing in-range ids the kept poses appear in their original relative order *)
Lemma select_ids_order {A} (d : A) l ids : StronglySorted lt ids -> Forall (fun i => (i < length l)%nat) ids ->
  forall k1 k2, (k1 < k2 < length ids)%nat ->
  exists i1 i2, (i1 < i2 < length l)%nat /\ nth k1 (select_ids d l ids) d = nth i1 l d /\
                nth k2 (select_ids d l ids) d = nth i2 l d.
Proof.
  intros S F k1 k2 H. exists (nth k1 ids 0%nat), (nth k2 ids 0%nat).
  rewrite !select_ids_nth by lia. split; [|split; reflexivity].
  assert (M : forall (l0 : list nat), StronglySorted lt l0 -> forall a b, (a < b < length l0)%nat ->
             (nth a l0 0 < nth b l0 0)%nat).
  { clear. induction 1 as [|x r S IH F]; intros a b H; [cbn in H; lia|].
    destruct b as [|b]; [lia|]. destruct a as [|a]; cbn [nth].
    - rewrite Forall_forall in F. apply F. apply nth_In. cbn in H. lia.
    - apply IH. cbn in H. lia. }
  split; [apply M; [exact S|exact H]|]. rewrite Forall_forall in F. apply F. apply nth_In. lia.
Qed.

(* ====================================================================================== *)
(* numpy.where                                                                            *)
(* ====================================================================================== *)
Lemma where_from_spec flags : forall a i,
  In i (where_from a flags) <-> (a <= i /\ i - a < length flags /\ nth (i - a) flags false = true)%nat.
Proof.
  induction flags as [|f r IH]; intros a i; cbn [where_from].
  - cbn. split; [tauto|]. intros (_ & H & _). lia.
  - destruct f; cbn [In]; rewrite IH; split.
    + intros [<-|(H1 & H2 & H3)].
      * rewrite Nat.sub_diag. cbn. repeat split; lia.
      * replace (i - a)%nat with (S (i - S a)) by lia. cbn. repeat split; try lia. exact H3.
    + intros (H1 & H2 & H3). destruct (Nat.eq_dec i a) as [->|Ne]; [now left|right].
      replace (i - a)%nat with (S (i - S a)) in * by lia. cbn in H2, H3. repeat split; try lia. exact H3.
    + intros (H1 & H2 & H3). replace (i - a)%nat with (S (i - S a)) by lia. cbn. repeat split; try lia. exact H3.
    + intros (H1 & H2 & H3). destruct (Nat.eq_dec i a) as [->|Ne].
      * rewrite Nat.sub_diag in H3. cbn in H3. discriminate.
      * replace (i - a)%nat with (S (i - S a)) in * by lia. cbn in H2, H3. repeat split; try lia. exact H3.
Qed.
Lemma where_from_sorted flags : forall a, StronglySorted lt (where_from a flags) /\ Forall (fun i => (a <= i)%nat) (where_from a flags).
Proof.
  induction flags as [|f r IH]; intros a; cbn [where_from]; [split; constructor|].
  destruct (IH (S a)) as [S1 F1].
  assert (F1' : Forall (fun i => (a <= i)%nat) (where_from (S a) r)) by (eapply Forall_impl; [|exact F1]; cbn; intros; lia).
  destruct f; [|split; assumption]. split; [|constructor; [lia|exact F1']].
  constructor; [exact S1|]. eapply Forall_impl; [|exact F1]. cbn. intros; lia.
Qed.
Lemma where_idx_spec flags i : In i (where_idx flags) <-> (i < length flags)%nat /\ nth i flags false = true.
Proof. unfold where_idx. rewrite where_from_spec, Nat.sub_0_r. split; intros; repeat split; try tauto; lia. Qed.
Lemma where_idx_sorted flags : StronglySorted lt (where_idx flags).
Proof. apply where_from_sorted. Qed.

Lemma nth_map_lt {A B} (f : A -> B) (l : list A) (da : A) (db : B) k : (k < length l)%nat ->
  nth k (map f l) db = f (nth k l da).
Proof. revert k. induction l as [|x r IH]; intros [|k] H; cbn in *; try lia; [reflexivity|apply IH; lia]. Qed.

(* ====================================================================================== *)
(* time cropping                                                                          *)
(* ====================================================================================== *)
Theorem crop_ids_spec (ts : list R) (start stop : option R) :
  match crop_ids ts start stop with
  | None => ts = [] \/ (match stop with Some x => x | None => last ts 0 end) < (match start with Some x => x | None => hd 0 ts end)
  | Some ids =>
      ts <> [] /\ StronglySorted lt ids /\
      forall i, In i ids <->
        (i < length ts)%nat /\
        (match start with Some x => x | None => hd 0 ts end) <= nth i ts 0 <= (match stop with Some x => x | None => last ts 0 end)
  end.
Proof.
  unfold crop_ids. destruct ts as [|t0 r]; [now left|].
  assert (Hl : forall d, last (t0 :: r) d = last (t0 :: r) 0).
  { intros d. generalize t0. induction r as [|x r' IH]; intros y; [reflexivity|]. apply (IH x). }
  set (s := match start with Some x => x | None => t0 end).
  rewrite (Hl t0). set (e := match stop with Some x => x | None => last (t0 :: r) 0 end).
  cbn [hd]. fold s. rnum. destruct (Rltb e s) eqn:L.
  - apply Rltb_true in L. now right.
  - apply Rltb_false in L. split; [discriminate|]. split; [apply where_idx_sorted|].
    intros i. rewrite where_idx_spec, map_length. split.
    + intros [Hi H]. split; [exact Hi|].
      rewrite (nth_map_lt _ _ 0) in H by exact Hi. apply andb_prop in H. destruct H as [H1 H2]. apply Rleb_true in H1, H2. lra.
    + intros [Hi H]. split; [exact Hi|].
      rewrite (nth_map_lt _ _ 0) by exact Hi. apply andb_true_intro. split; apply Rleb_true; lra.
Qed.

(* ====================================================================================== *)
(* splitting                                                                              *)
(* ====================================================================================== *)
Lemma skipn_plus {A} : forall m n (l : list A), skipn n (skipn m l) = skipn (m + n) l.
Proof. induction m as [|m IH]; intros n l; [reflexivity|]. destruct l; [now rewrite !skipn_nil|apply IH]. Qed.

Lemma slice_concat {A} (l : list A) : forall b a, StronglySorted le (a :: b) -> (last (a :: b) 0 <= length l)%nat ->
  concat (map (fun ab => slice l (fst ab) (snd ab)) (zip_next (a :: b))) = slice l a (last (a :: b) 0%nat).
Proof.
  induction b as [|c r IH]; intros a S L.
  - cbn. unfold slice. now rewrite Nat.sub_diag.
  - rewrite zip_next_cons. cbn [map concat fst snd]. inversion S as [|? ? S' F]; subst.
    rewrite IH; [|exact S'|exact L].
    change (last (a :: c :: r) 0%nat) with (last (c :: r) 0%nat).
    assert (Hac : (a <= c)%nat) by (rewrite Forall_forall in F; apply F; now left).
    assert (Hcl : (c <= last (c :: r) 0)%nat).
    { clear - S'. revert c S'. induction r as [|x r' IH]; intros c S'; [cbn; lia|].
      inversion S' as [|? ? S'' F]; subst. change (last (c :: x :: r') 0%nat) with (last (x :: r') 0%nat).
      rewrite Forall_forall in F. specialize (F x (or_introl eq_refl)). specialize (IH x S''). lia. }
    unfold slice. set (z := last (c :: r) 0%nat) in *.
    replace (z - a)%nat with ((c - a) + (z - c))%nat by lia. rewrite firstn_plus. f_equal.
    rewrite skipn_plus. f_equal. f_equal. lia.
Qed.

Lemma split_bounds_sorted flags n : (length flags < n)%nat ->
  StronglySorted lt (split_bounds flags n) /\ last (split_bounds flags n) 0%nat = n.
Proof.
  intros H. unfold split_bounds.
  assert (W := where_idx_sorted flags).
  assert (B : Forall (fun i => (i < length flags)%nat) (where_idx flags)).
  { rewrite Forall_forall. intros i Hi. apply where_idx_spec in Hi. tauto. }
  revert W B. generalize (where_idx flags) as g. intros g W B. split.
  - constructor.
    + induction W as [|x r S IH F]; cbn; [repeat constructor|]. inversion B as [|? ? Bx Br]; subst.
      constructor; [apply IH; exact Br|]. apply Forall_app. split.
      * rewrite Forall_forall in *. intros y Hy. apply in_map_iff in Hy. destruct Hy as (z & <- & Hz).
        specialize (F z Hz). lia.
      * constructor; [lia|constructor].
    + apply Forall_app. split; [|constructor; [lia|constructor]].
      rewrite Forall_forall. intros y Hy. apply in_map_iff in Hy. destruct Hy as (z & <- & _). lia.
  - change (0%nat :: map S g ++ [n]) with ((0%nat :: map S g) ++ [n]). apply last_last.
Qed.

Lemma slice_all {A} (l : list A) : slice l 0 (length l) = l.
Proof. unfold slice. rewrite Nat.sub_0_r. cbn. apply firstn_all. Qed.

Lemma sorted_lt_le l : StronglySorted lt l -> StronglySorted le l.
Proof.
  induction 1 as [|x r S IH F]; constructor; [exact IH|]. eapply Forall_impl; [|exact F]. cbn. intros; lia.
Qed.

(* concatenating the parts reproduces the trajectory *)
Theorem split_concat {A} (flags : list bool) (l : list A) : (length flags < length l \/ length l < 2)%nat ->
  concat (split_slices flags l) = l.
Proof.
  intros H. unfold split_slices. destruct (Nat.ltb_spec (length l) 2) as [L|L]; [cbn; apply app_nil_r|].
  destruct (where_idx flags) eqn:E; [cbn; apply app_nil_r|]. try rewrite <- E. clear E.
  assert (Hf : (length flags < length l)%nat) by lia.
  destruct (split_bounds_sorted flags (length l) Hf) as [Sb La].
  unfold split_bounds in *. rewrite slice_concat; [|apply sorted_lt_le; exact Sb|rewrite La; lia].
  rewrite La. apply slice_all.
Qed.

(* the parts are the slices between consecutive bounds; every interior bound is a flagged step,
   and no flagged step lies inside a part *)
Theorem split_parts_spec {A} (flags : list bool) (l : list A) : (length flags < length l)%nat -> (2 <= length l)%nat ->
  where_idx flags <> [] ->
  let b := split_bounds flags (length l) in
  split_slices flags l = map (fun ab => slice l (fst ab) (snd ab)) (zip_next b) /\
  hd 1%nat b = 0%nat /\ last b 0%nat = length l /\ StronglySorted lt b /\
  (forall c, In c b -> c = 0%nat \/ c = length l \/ nth (c - 1) flags false = true) /\
  (forall lo hi, In (lo, hi) (zip_next b) -> (lo < hi <= length l)%nat /\
      forall k, (lo <= k)%nat -> (S k < hi)%nat -> nth k flags false = false).
Proof.
  intros Hf H2 Hne. cbn zeta. destruct (split_bounds_sorted flags (length l) Hf) as [Sb La].
  split; [|split; [reflexivity|split; [exact La|split; [exact Sb|split]]]].
  - unfold split_slices. destruct (Nat.ltb_spec (length l) 2) as [L|L]; [lia|].
    destruct (where_idx flags) eqn:E; [congruence|]. try rewrite <- E. reflexivity.
  - intros c Hc. unfold split_bounds in Hc. destruct Hc as [<-|Hc]; [now left|].
    apply in_app_or in Hc. destruct Hc as [Hc|[<-|[]]]; [|right; now left].
    apply in_map_iff in Hc. destruct Hc as (k & <- & Hk). apply where_idx_spec in Hk. right. right.
    cbn. rewrite Nat.sub_0_r. tauto.
  - intros lo hi I. destruct (in_zip_next_sorted _ Sb lo hi I) as (Lt & Ilo & Ihi).
    assert (Hhi : (hi <= length l)%nat).
    { unfold split_bounds in Ihi. destruct Ihi as [<-|Ihi]; [lia|]. apply in_app_or in Ihi.
      destruct Ihi as [Ihi|[<-|[]]]; [|lia]. apply in_map_iff in Ihi. destruct Ihi as (k & <- & Hk).
      apply where_idx_spec in Hk. lia. }
    split; [lia|]. intros k Hk1 Hk2. destruct (nth k flags false) eqn:Fk; [exfalso|reflexivity].
    assert (Kf : (k < length flags)%nat).
    { destruct (Nat.lt_ge_cases k (length flags)) as [Q|Q]; [exact Q|]. rewrite nth_overflow in Fk by exact Q. discriminate. }
    assert (Ik : In (S k) (split_bounds flags (length l))).
    { unfold split_bounds. right. apply in_or_app. left. apply in_map. apply where_idx_spec. tauto. }
    (* S k is a bound strictly between the consecutive bounds lo and hi *)
    clear - Sb I Ik Hk1 Hk2. revert I Ik. revert Sb. generalize (split_bounds flags (length l)) as b0.
    induction 1 as [|x r Sr IH F]; intros I Ik; [destruct I|].
    rewrite zip_next_cons in I. destruct r as [|y r']; [destruct I|]. destruct I as [E|I].
    + injection E as <- <-. destruct Ik as [E|[E|Ik]]; try lia.
      inversion Sr as [|? ? _ Fy]; subst. rewrite Forall_forall in Fy. specialize (Fy _ Ik). lia.
    + destruct Ik as [E|Ik]; [|apply IH; assumption].
      subst x. destruct (in_zip_next_sorted _ Sr lo hi I) as (_ & Il & _).
      rewrite Forall_forall in F. specialize (F lo Il). lia.
Qed.

(* fewer than two poses or nothing flagged: the trajectory is returned whole *)
Theorem split_whole {A} (flags : list bool) (l : list A) :
  ((length l < 2)%nat \/ (forall k, (k < length flags)%nat -> nth k flags false = false)) -> split_slices flags l = [l].
Proof.
  intros H. unfold split_slices. destruct (Nat.ltb_spec (length l) 2) as [L|L]; [reflexivity|].
  destruct H as [H|H]; [lia|]. destruct (where_idx flags) as [|i r] eqn:E; [reflexivity|exfalso].
  assert (I : In i (where_idx flags)) by (rewrite E; now left). apply where_idx_spec in I.
  rewrite (H i) in I by tauto. destruct I; discriminate.
Qed.

(* the three criteria: which steps are flagged *)
Lemma diff_flags_spec (thr : R) : forall (l : list R),
  length (diff_flags thr l) = (length l - 1)%nat /\
  forall k, (S k < length l)%nat -> (nth k (diff_flags thr l) false = true <-> thr < nth (S k) l 0 - nth k l 0).
Proof.
  induction l as [|a r IH]; [split; [reflexivity|intros k H; cbn in H; lia]|].
  destruct r as [|b r']; [split; [reflexivity|intros k H; cbn in H; lia]|].
  change (diff_flags thr (a :: b :: r')) with ((nltb thr (nsub b a)) :: diff_flags thr (b :: r')).
  destruct IH as [IL IN]. split; [cbn [length] in *; rewrite IL; lia|].
  intros k Hk. destruct k as [|k].
  - cbn [nth]. rnum. apply Rltb_true.
  - cbn [nth]. apply (IN k). cbn [length] in *. lia.
Qed.

Theorem time_gap_flags_spec (dt : R) (ts : list R) :
  length (time_gap_flags dt ts) = (length ts - 1)%nat /\
  forall k, (S k < length ts)%nat -> (nth k (time_gap_flags dt ts) false = true <-> dt < nth (S k) ts 0 - nth k ts 0).
Proof. apply diff_flags_spec. Qed.

(* a distance gap is a step of the accumulated path length, i.e. the distance between the two poses *)
Theorem dist_gap_flags_spec (d0 : V3 R) (dist : R) (ps : list (V3 R)) : ps <> [] ->
  length (dist_gap_flags dist ps) = (length ps - 1)%nat /\
  forall k, (S k < length ps)%nat ->
    (nth k (dist_gap_flags dist ps) false = true <-> dist < norm (vsub (nth k ps d0) (nth (S k) ps d0))).
Proof.
  intros N. unfold dist_gap_flags. destruct (diff_flags_spec dist (acc_dists ps)) as [L H].
  destruct (acc_dists_spec ps N) as [AL AN]. rewrite AL in *. split; [exact L|].
  intros k Hk. rewrite (H k Hk). rewrite acc_dists_diff by lia.
  replace (S k - k)%nat with 1%nat by lia.
  assert (E : firstn 1 (skipn k (seg_norms ps)) = [nth k (seg_norms ps) 0]).
  { assert (Lk : (k < length (seg_norms ps))%nat) by (rewrite seg_norms_length; lia).
    revert Lk. generalize (seg_norms ps) as sn. intros sn. generalize k. clear.
    induction sn as [|x r IH]; intros k Lk; [cbn in Lk; lia|]. destruct k as [|k]; [reflexivity|].
    cbn [skipn nth]. apply IH. cbn in Lk. lia. }
  rewrite E. cbn [sumR]. rewrite Rplus_0_r. rewrite (seg_norms_nth d0) by exact Hk. reflexivity.
Qed.

Lemma speeds_spec (d0 : V3 R) : forall (ps : list (V3 R)) (ts : list R), length ps = length ts ->
  match speeds ps ts with
  | Some sp => length sp = (length ps - 1)%nat /\
               forall k, (S k < length ps)%nat -> 0 < nth (S k) ts 0 - nth k ts 0 /\
                 nth k sp 0 = norm (vsub (nth (S k) ps d0) (nth k ps d0)) / (nth (S k) ts 0 - nth k ts 0)
  | None => exists k, (S k < length ps)%nat /\ nth (S k) ts 0 - nth k ts 0 <= 0
  end.
Proof.
  induction ps as [|p1 pr IH]; intros ts L; [cbn; split; [reflexivity|intros k H; cbn in H; lia]|].
  destruct ts as [|t1 tr]; [discriminate|]. destruct pr as [|p2 pr'].
  - destruct tr; [|discriminate]. cbn. split; [reflexivity|intros k H; lia].
  - destruct tr as [|t2 tr']; [discriminate|].
    change (speeds (p1 :: p2 :: pr') (t1 :: t2 :: tr')) with
      (if nleb (nsub t2 t1) n0 then None
       else match speeds (p2 :: pr') (t2 :: tr') with
            | None => None
            | Some r => Some ((ndiv (norm (vsub p2 p1)) (nsub t2 t1)) :: r)
            end).
    rnum. specialize (IH (t2 :: tr') ltac:(cbn in *; lia)).
    destruct (Rleb (t2 - t1) 0) eqn:Le.
    + apply Rleb_true in Le. exists 0%nat. cbn. split; [lia|exact Le].
    + apply Rleb_false in Le. destruct (speeds (p2 :: pr') (t2 :: tr')) as [r|].
      * destruct IH as [IL IN]. split; [cbn [length] in *; rewrite IL; lia|].
        intros k Hk. destruct k as [|k]; [cbn; split; [exact Le|reflexivity]|].
        cbn [nth]. apply (IN k). cbn [length] in *. lia.
      * destruct IH as (k & Hk & Hle). exists (S k). cbn [length nth] in *. split; [lia|exact Hle].
Qed.

Theorem speed_flags_spec (d0 : V3 R) (vmax : R) (ps : list (V3 R)) (ts : list R) : length ps = length ts ->
  match speed_flags vmax ps ts with
  | Some f => length f = (length ps - 1)%nat /\
              forall k, (S k < length ps)%nat -> 0 < nth (S k) ts 0 - nth k ts 0 /\
                (nth k f false = true <->
                 vmax < norm (vsub (nth (S k) ps d0) (nth k ps d0)) / (nth (S k) ts 0 - nth k ts 0))
  | None => exists k, (S k < length ps)%nat /\ nth (S k) ts 0 - nth k ts 0 <= 0
  end.
Proof.
  intros L. unfold speed_flags. pose proof (speeds_spec d0 ps ts L) as H.
  destruct (speeds ps ts) as [sp|]; [|exact H]. destruct H as [HL HN]. split; [now rewrite map_length|].
  intros k Hk. destruct (HN k Hk) as [H1 H2]. split; [exact H1|].
  rewrite (nth_map_lt _ _ 0) by lia. rewrite H2. rnum. apply Rltb_true.
Qed.

(* ====================================================================================== *)
(* motion filter                                                                          *)
(* ====================================================================================== *)
Section Motion.
Variables (dthr athr : R) (ang : nat -> nat -> R) (D : list R).

(* the decision for pose j when p is the last kept pose *)
Definition keep (p j : nat) : Prop := dthr <= nth j D 0 - nth p D 0 \/ athr <= ang p j.
(* last kept pose before j (dflt when none of R is below j) *)
Definition last_kept (K : list nat) (dflt j : nat) : nat := last (filter (fun k => Nat.ltb k j) K) dflt.

Lemma last_cons_default (l : list nat) : forall x d, last (x :: l) d = last l x.
Proof.
  induction l as [|y r IH]; intros x d; [reflexivity|].
  change (last (x :: y :: r) d) with (last (y :: r) d). rewrite (IH y d), (IH y x). reflexivity.
Qed.

Lemma filter_none_above (K : list nat) j : Forall (fun k => (j <= k)%nat) K -> filter (fun k => Nat.ltb k j) K = [].
Proof.
  induction 1 as [|x r Hx F IH]; [reflexivity|]. cbn [filter]. destruct (Nat.ltb_spec x j); [lia|exact IH].
Qed.

Lemma motion_aux_spec : forall ds i prev, skipn i D = ds -> (prev < i)%nat ->
  let K := motion_aux dthr athr ang prev (nth prev D 0) i ds in
  StronglySorted lt K /\ Forall (fun j => (i <= j < length D)%nat) K /\
  forall j, (i <= j < length D)%nat -> (In j K <-> keep (last_kept K prev j) j).
Proof.
  induction ds as [|d r IH]; intros i prev Hs Hp.
  - cbn. split; [constructor|]. split; [constructor|]. intros j Hj. exfalso.
    assert (H : length (skipn i D) = 0%nat) by now rewrite Hs. rewrite skipn_length in H. lia.
  - destruct (skipn_cons_nth 0 D i d r Hs) as (Hn & Hr & Hi & _).
    cbn [motion_aux]. rnum.
    assert (Step : forall K', K' = motion_aux dthr athr ang i d (S i) r -> keep prev i ->
      StronglySorted lt (i :: K') /\ Forall (fun j => (i <= j < length D)%nat) (i :: K') /\
      forall j, (i <= j < length D)%nat -> (In j (i :: K') <-> keep (last_kept (i :: K') prev j) j)).
    { intros K' EK Kp. specialize (IH (S i) i Hr ltac:(lia)). rewrite Hn in IH. cbn zeta in IH. rewrite <- EK in IH.
      destruct IH as (St & Fo & Iff).
      split; [constructor; [exact St|eapply Forall_impl; [|exact Fo]; cbn; intros; lia]|].
      split; [constructor; [lia|eapply Forall_impl; [|exact Fo]; cbn; intros; lia]|].
      intros j Hj. destruct (Nat.eq_dec j i) as [->|Ne].
      - split; [intros _|intros _; now left]. unfold last_kept. cbn [filter].
        rewrite Nat.ltb_irrefl. rewrite filter_none_above; [exact Kp|].
        eapply Forall_impl; [|exact Fo]. cbn. intros; lia.
      - assert (E : last_kept (i :: K') prev j = last_kept K' i j).
        { unfold last_kept. cbn [filter]. destruct (Nat.ltb_spec i j); [|lia]. apply last_cons_default. }
        rewrite E. rewrite <- (Iff j ltac:(lia)). cbn [In]. split; [intros [->|H]; [congruence|exact H]|now right]. }
    assert (Skip : ~ keep prev i -> let K' := motion_aux dthr athr ang prev (nth prev D 0) (S i) r in
      StronglySorted lt K' /\ Forall (fun j => (i <= j < length D)%nat) K' /\
      forall j, (i <= j < length D)%nat -> (In j K' <-> keep (last_kept K' prev j) j)).
    { intros Nk. specialize (IH (S i) prev Hr ltac:(lia)). cbn zeta in *. destruct IH as (St & Fo & Iff).
      split; [exact St|]. split; [eapply Forall_impl; [|exact Fo]; cbn; intros; lia|].
      intros j Hj. destruct (Nat.eq_dec j i) as [->|Ne]; [|apply Iff; lia].
      split.
      - intros I. rewrite Forall_forall in Fo. specialize (Fo i I). lia.
      - intros Kp. exfalso. apply Nk. unfold last_kept in Kp. rewrite filter_none_above in Kp; [exact Kp|].
        eapply Forall_impl; [|exact Fo]. cbn. intros; lia. }
    destruct (Rleb dthr (d - nth prev D 0)) eqn:L1.
    + apply Rleb_true in L1. apply (Step _ eq_refl). left. rewrite Hn. exact L1.
    + apply Rleb_false in L1. destruct (Rleb athr (ang prev i)) eqn:L2.
      * apply Rleb_true in L2. apply (Step _ eq_refl). now right.
      * apply Rleb_false in L2. apply Skip. intros [H|H]; [rewrite Hn in H|]; lra.
Qed.
End Motion.

(* The motion filter refuses fewer than two poses or a negative threshold. Otherwise pose 0 is kept and a
   later pose j is kept IF AND ONLY IF, with p the last pose kept before j, the path travelled from p to j
   (accumulated distances) reached the distance threshold or the direct rotation angle between p and j
   reached the angle threshold (converted to radians). The kept indices are strictly increasing. *)
Theorem motion_ids_spec (ps : list (V3 R)) (ang : nat -> nat -> R) (dthr athr : R) (degrees : bool) :
  let a := if degrees then athr * (PI / 180) else athr in
  match motion_ids PI ps ang dthr athr degrees with
  | None => (length ps < 2)%nat \/ dthr < 0 \/ athr < 0
  | Some K =>
      (2 <= length ps)%nat /\ 0 <= dthr /\ 0 <= athr /\
      hd 1%nat K = 0%nat /\ StronglySorted lt K /\ Forall (fun j => (j < length ps)%nat) K /\
      forall j, (1 <= j < length ps)%nat ->
        (In j K <-> keep dthr a ang (acc_dists ps) (last_kept K 0 j) j)
  end.
Proof.
  cbn zeta. unfold motion_ids. destruct (Nat.ltb_spec (length ps) 2) as [L|L]; [now left|].
  rnum. destruct (Rltb dthr 0) eqn:A; [apply Rltb_true in A; right; now left|]. apply Rltb_false in A.
  destruct (Rltb athr 0) eqn:B; [apply Rltb_true in B; right; now right|]. apply Rltb_false in B.
  assert (N : ps <> []) by (destruct ps; [cbn in L; lia|discriminate]).
  destruct (acc_dists_spec ps N) as [AL AN].
  set (a := if degrees then deg2rad PI athr else athr).
  assert (Ea : a = if degrees then athr * (PI / 180) else athr) by (unfold a, deg2rad; rnum; reflexivity).
  rewrite <- Ea.
  pose proof (motion_aux_spec dthr a ang (acc_dists ps) (tl (acc_dists ps)) 1 0) as H.
  assert (Hs : skipn 1 (acc_dists ps) = tl (acc_dists ps)) by (destruct (acc_dists ps); reflexivity).
  specialize (H Hs ltac:(lia)). cbn zeta in H.
  assert (H0 : nth 0 (acc_dists ps) 0 = 0) by reflexivity. rewrite H0 in H. rewrite AL in H.
  set (K := motion_aux dthr a ang 0 0 1 (tl (acc_dists ps))) in *. destruct H as (St & Fo & Iff).
  repeat split; try assumption.
  - constructor; [exact St|]. eapply Forall_impl; [|exact Fo]. cbn. intros; lia.
  - constructor; [lia|]. eapply Forall_impl; [|exact Fo]. cbn. intros; lia.
  - intros I. destruct I as [E|I]; [lia|]. 
    assert (E : last_kept (0%nat :: K) 0 j = last_kept K 0 j).
    { unfold last_kept. cbn [filter]. destruct (Nat.ltb_spec 0 j); [|lia]. apply last_cons_default. }
    rewrite E. apply Iff; [lia|exact I].
  - intros Kp. right.
    assert (E : last_kept (0%nat :: K) 0 j = last_kept K 0 j).
    { unfold last_kept. cbn [filter]. destruct (Nat.ltb_spec 0 j); [|lia]. apply last_cons_default. }
    rewrite E in Kp. apply Iff; [lia|exact Kp].
Qed.

(* ====================================================================================== *)
(* merge                                                                                  *)
(* ====================================================================================== *)
Lemma select_ids_seq {A} (d : A) (l : list A) : select_ids d l (seq 0 (length l)) = l.
Proof.
  unfold select_ids. 
  assert (G : forall pre, map (fun i => nth i (pre ++ l) d) (seq (length pre) (length l)) = l).
  { induction l as [|x r IH]; intros pre; [reflexivity|]. cbn [length seq map]. f_equal.
    - rewrite app_nth2 by lia. now rewrite Nat.sub_diag.
    - specialize (IH (pre ++ [x])). rewrite app_length in IH. cbn [length] in IH.
      rewrite Nat.add_1_r in IH. rewrite <- app_assoc in IH. exact IH. }
  apply (G []).
Qed.

(* the merged trajectory: every array indexed by the same order => the merged (stamp, position,
   orientation) triples are a permutation of the input triples; each pose keeps its own stamp and
   orientation; the stamps are in the order the argsort oracle guarantees *)
Theorem merge3_spec {A B} (da : A) (db : B) (order : list nat) (stamps : list R) (xyz : list A) (quat : list B) :
  length xyz = length stamps -> length quat = length stamps -> Permutation order (seq 0 (length stamps)) ->
  let '(s', x', q') := merge3 0 da db order stamps xyz quat in
  combine s' (combine x' q') = select_ids (0, (da, db)) (combine stamps (combine xyz quat)) order /\
  Permutation (combine s' (combine x' q')) (combine stamps (combine xyz quat)) /\
  length s' = length stamps /\ length x' = length stamps /\ length q' = length stamps.
Proof.
  intros Lx Lq P. unfold merge3.
  assert (Lc : length (combine xyz quat) = length stamps) by (rewrite combine_length; lia).
  split; [|split].
  - rewrite <- select_ids_combine by lia. rewrite <- select_ids_combine by lia. reflexivity.
  - rewrite <- select_ids_combine by lia. rewrite <- select_ids_combine by lia.
    set (tr := combine stamps (combine xyz quat)).
    assert (Lt : length tr = length stamps) by (unfold tr; rewrite combine_length; lia).
    rewrite <- (select_ids_seq (0, (da, db)) tr) at 2. rewrite Lt. unfold select_ids. apply Permutation_map. exact P.
  - rewrite !select_ids_length. pose proof (Permutation_length P) as Q. rewrite seq_length in Q. tauto.
Qed.

(* the checker for an argsort answer is sound *)
Lemma sorted_b_sound (l : list R) : sorted_b l = true -> StronglySorted Rle l.
Proof.
  induction l as [|a r IH]; [constructor|]. destruct r as [|b r']; [repeat constructor|].
  change (sorted_b (a :: b :: r')) with (nleb a b && sorted_b (b :: r')). rnum. intros H.
  apply andb_prop in H. destruct H as [H1 H2]. apply Rleb_true in H1. specialize (IH H2).
  constructor; [exact IH|]. inversion IH as [|? ? S F]; subst. constructor; [exact H1|].
  eapply Forall_impl; [|exact F]. cbn. intros; lra.
Qed.
Theorem is_argsort_b_sound (keys : list R) (order inv : list nat) : is_argsort_b keys order inv = true ->
  Permutation order (seq 0 (length keys)) /\ StronglySorted Rle (select_ids 0 keys order).
Proof.
  unfold is_argsort_b. intros H. apply andb_prop in H. destruct H as [H H3]. apply andb_prop in H. destruct H as [H1 H2].
  apply Nat.eqb_eq in H1. split; [|apply sorted_b_sound; exact H3].
  apply Permutation_sym. apply NoDup_Permutation_bis; [apply seq_NoDup|rewrite seq_length; lia|].
  intros i Hi. rewrite forallb_forall in H2. specialize (H2 i Hi). apply Nat.eqb_eq in H2.
  apply in_seq in Hi. destruct (Nat.lt_ge_cases (nth i inv 0%nat) (length order)) as [L|L].
  - rewrite <- H2. apply nth_In. exact L.
  - rewrite nth_overflow in H2 by exact L. lia.
Qed.

(* the oracle's specification is satisfiable: a stable insertion argsort meets it *)
Lemma ins_idx_perm (keys : list R) i l : Permutation (ins_idx keys i l) (i :: l).
Proof.
  induction l as [|j r IH]; cbn [ins_idx]; [reflexivity|]. rnum. destruct (Rltb _ _); [reflexivity|].
  rewrite IH. apply perm_swap.
Qed.
Lemma ins_idx_sorted (keys : list R) i l :
  StronglySorted (fun a b => nth a keys 0 <= nth b keys 0) l ->
  StronglySorted (fun a b => nth a keys 0 <= nth b keys 0) (ins_idx keys i l).
Proof.
  induction 1 as [|j r S IH F]; cbn [ins_idx]; [repeat constructor|]. rnum.
  destruct (Rltb (nth i keys 0) (nth j keys 0)) eqn:L.
  - apply Rltb_true in L. constructor; [constructor; assumption|]. constructor; [lra|].
    eapply Forall_impl; [|exact F]. cbn. intros; lra.
  - apply Rltb_false in L. constructor; [exact IH|].
    eapply Permutation_Forall; [symmetry; apply ins_idx_perm|]. constructor; [exact L|exact F].
Qed.
Theorem argsort_model_spec (keys : list R) :
  Permutation (argsort_model keys) (seq 0 (length keys)) /\
  StronglySorted Rle (select_ids 0 keys (argsort_model keys)).
Proof.
  unfold argsort_model.
  assert (G : forall l acc, StronglySorted (fun a b => nth a keys 0 <= nth b keys 0) acc ->
     Permutation (fold_left (fun acc i => ins_idx keys i acc) l acc) (rev l ++ acc) /\
     StronglySorted (fun a b => nth a keys 0 <= nth b keys 0) (fold_left (fun acc i => ins_idx keys i acc) l acc)).
  { induction l as [|i r IH]; intros acc S; [split; [reflexivity|exact S]|]. cbn [fold_left rev].
    destruct (IH (ins_idx keys i acc) (ins_idx_sorted keys i acc S)) as [P S']. split; [|exact S'].
    rewrite P. rewrite <- app_assoc. cbn. apply Permutation_app_head. apply ins_idx_perm. }
  destruct (G (seq 0 (length keys)) [] ltac:(constructor)) as [P S]. rewrite app_nil_r in P.
  split; [rewrite P; symmetry; apply Permutation_rev|].
  unfold select_ids. clear P. induction S as [|a r S IH F]; cbn; [constructor|].
  constructor; [exact IH|]. rewrite Forall_forall in *. intros x Hx. apply in_map_iff in Hx.
  destruct Hx as (b & <- & Hb). apply F; exact Hb.
Qed.

(* ====================================================================================== *)
(* down-sampling                                                                          *)
(* ====================================================================================== *)
Local Open Scope Z_scope.

Lemma ziota_length len : forall s, length (ziota len s) = len.
Proof. induction len as [|l IH]; intros s; cbn; [reflexivity|now rewrite IH]. Qed.
Lemma ziota_nth len : forall s k, (k < len)%nat -> nth k (ziota len s) 0 = s + Z.of_nat k.
Proof.
  induction len as [|l IH]; intros s k H; [lia|]. destruct k as [|k]; cbn [ziota nth]; [lia|].
  rewrite IH by lia. lia.
Qed.
Lemma ziota_In len : forall s x, In x (ziota len s) <-> s <= x < s + Z.of_nat len.
Proof.
  induction len as [|l IH]; intros s x; cbn [ziota In]; [lia|]. rewrite IH. lia.
Qed.

(* "evenly spaced by index" *)
Definition evenly_spaced (n N : Z) (ids : list Z) : Prop :=
  Z.of_nat (length ids) = N /\ hd 1 ids = 0 /\ (2 <= N -> last ids 0 = n - 1) /\
  forall k, (S k < length ids)%nat ->
    1 <= nth (S k) ids 0 - nth k ids 0 /\
    (nth (S k) ids 0 - nth k ids 0 = (n - 1) / (N - 1) \/
     (nth (S k) ids 0 - nth k ids 0 = (n - 1) / (N - 1) + 1 /\ (n - 1) mod (N - 1) <> 0)).

Lemma forallb_zgaps (p : Z -> bool) : forall l,
  forallb p (zgaps l) = true <-> forall k, (S k < length l)%nat -> p (nth (S k) l 0 - nth k l 0) = true.
Proof.
  induction l as [|a r IH]; [cbn; split; [intros _ k H; lia|reflexivity]|].
  destruct r as [|b r']; [cbn; split; [intros _ k H; lia|reflexivity]|].
  change (zgaps (a :: b :: r')) with ((b - a) :: zgaps (b :: r')). cbn [forallb]. rewrite andb_true_iff, IH. split.
  - intros [H1 H2] k Hk. destruct k as [|k]; [exact H1|]. apply (H2 k). cbn [length] in *. lia.
  - intros H. split; [apply (H 0%nat); cbn; lia|]. intros k Hk. apply (H (S k)). cbn [length] in *. lia.
Qed.

(* the executable checker decides exactly that statement *)
Theorem evenly_spaced_zb_iff n N ids : evenly_spaced_zb n N ids = true <-> evenly_spaced n N ids.
Proof.
  unfold evenly_spaced_zb, evenly_spaced. rewrite !andb_true_iff, forallb_zgaps, orb_true_iff.
  rewrite !Z.eqb_eq, Z.ltb_lt. split.
  - intros (((H1 & H2) & H3) & H4). split; [exact H1|]. split; [exact H2|]. split; [intros; destruct H3; [lia|assumption]|].
    intros k Hk. specialize (H4 k Hk). apply andb_true_iff in H4. destruct H4 as [G1 G2]. apply Z.leb_le in G1.
    split; [exact G1|]. apply orb_true_iff in G2. destruct G2 as [G2|G2]; [left; now apply Z.eqb_eq|right].
    apply andb_true_iff in G2. destruct G2 as [G2 G3]. apply Z.eqb_eq in G2. split; [exact G2|].
    apply negb_true_iff in G3. now apply Z.eqb_neq.
  - intros (H1 & H2 & H3 & H4). split; [split; [split; assumption|]|].
    + destruct (Z.lt_ge_cases N 2); [now left|right; apply H3; lia].
    + intros k Hk. destruct (H4 k Hk) as [G1 G2]. apply andb_true_iff. split; [now apply Z.leb_le|].
      apply orb_true_iff. destruct G2 as [G2|[G2 G3]]; [left; now apply Z.eqb_eq|right].
      apply andb_true_iff. split; [now apply Z.eqb_eq|]. apply negb_true_iff. now apply Z.eqb_neq.
Qed.

(* ---------- the exact-rational model is evenly spaced ---------- *)
Lemma exact_gap (d b a : Z) : 0 < b -> b <= d -> 0 <= a ->
  1 <= (a + d) / b - a / b /\
  ((a + d) / b - a / b = d / b \/ ((a + d) / b - a / b = d / b + 1 /\ d mod b <> 0)).
Proof.
  intros Hb Hd Ha.
  pose proof (Z.div_mod a b ltac:(lia)) as Ea. pose proof (Z.div_mod d b ltac:(lia)) as Ed.
  pose proof (Z.mod_pos_bound a b Hb) as Ba. pose proof (Z.mod_pos_bound d b Hb) as Bd.
  assert (Qd : 1 <= d / b) by (apply Z.div_le_lower_bound; lia).
  assert (E : (a + d) / b = a / b + d / b + (a mod b + d mod b) / b).
  { replace (a + d) with ((a / b + d / b) * b + (a mod b + d mod b)) by lia.
    rewrite Z.div_add_l by lia. reflexivity. }
  assert (C : (a mod b + d mod b) / b = 0 \/ (a mod b + d mod b) / b = 1).
  { destruct (Z.lt_ge_cases (a mod b + d mod b) b) as [L|L].
    - left. apply Z.div_small. lia.
    - right. symmetry. apply (Z.div_unique _ b 1 (a mod b + d mod b - b)); lia. }
  rewrite E. split; [lia|]. destruct C as [C|C]; rewrite C; [left; lia|right]. split; [lia|].
  intros Z0. rewrite Z0 in *. rewrite Z.add_0_r in C. rewrite Z.div_small in C by lia. lia.
Qed.

Theorem exact_z_evenly_spaced n N : 1 <= N <= n -> evenly_spaced n N (exact_z n N).
Proof.
  intros H. unfold evenly_spaced, exact_z. rewrite map_length, ziota_length. split; [lia|].
  assert (Nth : forall k, (k < Z.to_nat N)%nat ->
     nth k (map (fun k0 => k0 * (n - 1) / (N - 1)) (ziota (Z.to_nat N) 0)) 0 = Z.of_nat k * (n - 1) / (N - 1)).
  { intros k Hk. rewrite (nth_map_lt _ _ 0) by now rewrite ziota_length. rewrite ziota_nth by exact Hk. f_equal. }
  split; [|split].
  - destruct (Z.to_nat N) as [|m] eqn:E; [lia|]. cbn. reflexivity.
  - intros H2.
    assert (L : forall (l : list Z), l <> [] -> last l 0 = nth (length l - 1) l 0).
    { induction l as [|x r IH]; [congruence|intros _]. destruct r as [|y r']; [reflexivity|].
      change (last (x :: y :: r') 0) with (last (y :: r') 0). rewrite IH by discriminate.
      cbn [length]. replace (S (S (length r')) - 1)%nat with (S (S (length r') - 1)) by lia. reflexivity. }
    rewrite L by (destruct (Z.to_nat N) eqn:E; [lia|cbn; discriminate]).
    rewrite map_length, ziota_length. rewrite Nth by lia.
    replace (Z.of_nat (Z.to_nat N - 1)) with (N - 1) by lia. rewrite Z.mul_comm. apply Z.div_mul. lia.
  - intros k Hk. rewrite !Nth by lia.
    destruct (Z.eq_dec N 1) as [->|N1]; [cbn in Hk; lia|].
    replace (Z.of_nat (S k) * (n - 1)) with (Z.of_nat k * (n - 1) + (n - 1)) by lia.
    apply exact_gap; try lia. apply Z.mul_nonneg_nonneg; lia.
Qed.

(* ---------- over the reals the sampling model IS the exact-rational model ---------- *)
Lemma floor_near_exact (g : Z) (r : R) : (IZR g <= r < IZR (g + 1))%R -> @floor_near R R_ops g r = g.
Proof.
  intros [H1 H2]. unfold floor_near. cbn [adj_down]. rnum.
  destruct (Rltb r (IZR g)) eqn:A; [apply Rltb_true in A; lra|]. cbn [adj_up]. rnum.
  destruct (Rleb (IZR (g + 1)) r) eqn:B; [apply Rleb_true in B; lra|]. reflexivity.
Qed.

Lemma div_bounds_R (k d b : Z) : 0 < b ->
  (IZR (k * d / b) <= IZR k * (IZR d / IZR b) < IZR (k * d / b + 1))%R.
Proof.
  intros Hb. set (g := k * d / b).
  assert (H1 : b * g <= k * d) by (apply Z.mul_div_le; lia).
  assert (H2 : k * d < b * (g + 1)).
  { pose proof (Z.mul_succ_div_gt (k * d) b Hb) as Q. unfold Z.succ in Q. exact Q. }
  apply IZR_le in H1. apply IZR_lt in H2. rewrite !mult_IZR in *.
  assert (Bp : (0 < IZR b)%R) by (apply IZR_lt; exact Hb).
  replace (IZR k * (IZR d / IZR b))%R with ((IZR k * IZR d) / IZR b)%R by (field; lra).
  split.
  - apply Rmult_le_reg_l with (IZR b); [exact Bp|]. replace (IZR b * (IZR k * IZR d / IZR b))%R with (IZR k * IZR d)%R by (field; lra). exact H1.
  - apply Rmult_lt_reg_l with (IZR b); [exact Bp|]. replace (IZR b * (IZR k * IZR d / IZR b))%R with (IZR k * IZR d)%R by (field; lra). exact H2.
Qed.

Theorem linspace_real_is_exact n N : 1 <= N -> @linspace_z R R_ops n N = exact_z n N.
Proof.
  intros H. unfold linspace_z, exact_z. destruct (Z.eqb_spec N 1) as [->|N1]; [reflexivity|].
  apply map_ext_in. intros k Hk. apply ziota_In in Hk.
  destruct (Z.eqb_spec k (N - 1)) as [E|Ne].
  - rewrite E. symmetry. rewrite Z.mul_comm. apply Z.div_mul. lia.
  - rnum. apply floor_near_exact. apply div_bounds_R. lia.
Qed.

(* ---------- numpy's binary64 linspace, bounded enumeration ---------- *)

Lemma forallb_ziota (p : Z -> bool) len : forall s, forallb p (ziota len s) = true ->
  forall x, s <= x < s + Z.of_nat len -> p x = true.
Proof.
  induction len as [|l IH]; intros s H x Hx; [lia|]. cbn [ziota forallb] in H. apply andb_prop in H.
  destruct H as [H1 H2]. destruct (Z.eq_dec x s) as [->|Ne]; [exact H1|]. apply (IH (s + 1) H2). lia.
Qed.

Theorem linspace_float_evenly_spaced n N : 1 <= N < n -> n <= 300 -> evenly_spaced n N (linspace_zf n N).
Proof.
  intros H Hn. apply evenly_spaced_zb_iff.
  pose proof (forallb_ziota linspace_row_ok 301 0 linspace_even_300 n ltac:(lia)) as E1.
  unfold linspace_row_ok in E1.
  exact (forallb_ziota (fun N0 => evenly_spaced_zb n N0 (linspace_zf n N0)) _ 1 E1 N ltac:(lia)).
Qed.

(* ---------- PosePath3D.downsample ---------- *)
Lemma ziota_to_nat len : forall s, map Z.to_nat (ziota len (Z.of_nat s)) = seq s len.
Proof.
  induction len as [|l IH]; intros s; [reflexivity|]. cbn [ziota map seq]. rewrite Nat2Z.id. f_equal.
  replace (Z.of_nat s + 1) with (Z.of_nat (S s)) by lia. apply IH.
Qed.

Theorem downsample_spec (n N : nat) :
  match @downsample_ids R R_ops n N with
  | None => (N < 1 /\ N < n)%nat
  | Some ids =>
      length ids = Nat.min N n /\
      if Nat.leb n N then ids = seq 0 n
      else ids = map Z.to_nat (exact_z (Z.of_nat n) (Z.of_nat N)) /\
           evenly_spaced (Z.of_nat n) (Z.of_nat N) (exact_z (Z.of_nat n) (Z.of_nat N))
  end.
Proof.
  unfold downsample_ids, downsample_z. destruct (Nat.leb_spec n N) as [L|L].
  - destruct (Z.leb_spec (Z.of_nat n) (Z.of_nat N)) as [L'|L']; [|lia]. cbn [option_map].
    rewrite Nat2Z.id. change 0 with (Z.of_nat 0). rewrite (ziota_to_nat n 0). split; [rewrite seq_length; lia|reflexivity].
  - destruct (Z.leb_spec (Z.of_nat n) (Z.of_nat N)) as [L'|L']; [lia|].
    destruct (Z.ltb_spec (Z.of_nat N) 1) as [L1|L1]; [cbn; lia|]. cbn [option_map].
    rewrite linspace_real_is_exact by lia. split; [|split; [reflexivity|apply exact_z_evenly_spaced; lia]].
    rewrite map_length. unfold exact_z. rewrite map_length, ziota_length. lia.
Qed.

(* the same, for the binary64 reading of the model, within the enumerated bound *)
Theorem downsample_float_spec (n N : nat) : (1 <= N < n)%nat -> (n <= 300)%nat ->
  @downsample_ids PrimFloat.float F_ops n N = Some (map Z.to_nat (linspace_zf (Z.of_nat n) (Z.of_nat N))) /\
  evenly_spaced (Z.of_nat n) (Z.of_nat N) (linspace_zf (Z.of_nat n) (Z.of_nat N)).
Proof.
  intros H Hn. split; [|apply linspace_float_evenly_spaced; lia].
  unfold downsample_ids, downsample_z. destruct (Z.leb_spec (Z.of_nat n) (Z.of_nat N)) as [L|L]; [lia|].
  destruct (Z.ltb_spec (Z.of_nat N) 1) as [L1|L1]; [lia|]. reflexivity.
Qed.

(* evenly spaced lists are strictly increasing and stay within 0 .. n-1 *)
Lemma evenly_spaced_increasing n N ids : evenly_spaced n N ids ->
  forall a b, (a < b < length ids)%nat -> nth a ids 0 < nth b ids 0.
Proof.
  intros (_ & _ & _ & G) a b H. induction b as [|b IH]; [lia|].
  destruct (Nat.eq_dec a b) as [->|Ne].
  - destruct (G b ltac:(lia)) as [G1 _]. lia.
  - specialize (IH ltac:(lia)). destruct (G b ltac:(lia)) as [G1 _]. lia.
Qed.
Local Close Scope Z_scope.

(* ====================================================================================== *)
(* the characterisation of the motion filter determines the kept poses                    *)
(* ====================================================================================== *)
Lemma sorted_ext (K K' : list nat) : StronglySorted lt K -> StronglySorted lt K' ->
  (forall j, In j K <-> In j K') -> K = K'.
Proof.
  intros S. revert K'. induction S as [|a r S IH F]; intros K' S' H.
  - destruct K' as [|b t]; [reflexivity|]. exfalso. apply (H b). now left.
  - destruct S' as [|b t S' F'].
    + exfalso. apply (H a). now left.
    + rewrite Forall_forall in F, F'.
      assert (a = b).
      { destruct (proj1 (H a) (or_introl eq_refl)) as [E|I]; [now symmetry|].
        destruct (proj2 (H b) (or_introl eq_refl)) as [E|I']; [exact E|].
        specialize (F _ I'). specialize (F' _ I). lia. }
      subst b. f_equal. apply IH; [exact S'|]. intros j. split; intros I.
      * destruct (proj1 (H j) (or_intror I)) as [E|I']; [|exact I']. subst j. specialize (F _ I). lia.
      * destruct (proj2 (H j) (or_intror I)) as [E|I']; [|exact I']. subst j. specialize (F' _ I). lia.
Qed.

Lemma filter_sorted (f : nat -> bool) (K : list nat) : StronglySorted lt K -> StronglySorted lt (filter f K).
Proof.
  induction 1 as [|a r S IH F]; cbn; [constructor|]. destruct (f a); [|exact IH].
  constructor; [exact IH|]. rewrite Forall_forall in *. intros x Hx. apply filter_In in Hx. apply F. tauto.
Qed.

Theorem motion_characterisation_unique (dthr a : R) (ang : nat -> nat -> R) (D : list R) (n : nat) (K K' : list nat) :
  (forall L, L = K \/ L = K' ->
     StronglySorted lt L /\ Forall (fun j => (j < n)%nat) L /\ In 0%nat L /\
     forall j, (1 <= j < n)%nat -> (In j L <-> keep dthr a ang D (last_kept L 0 j) j)) ->
  K = K'.
Proof.
  intros H. destruct (H K (or_introl eq_refl)) as (Sk & F & Z & C).
  destruct (H K' (or_intror eq_refl)) as (Sk' & F' & Z' & C'). clear H.
  apply sorted_ext; [exact Sk|exact Sk'|].
  assert (G : forall m j, (j < m)%nat -> (In j K <-> In j K')).
  { induction m as [|m IHm]; intros j Hj; [lia|].
    destruct (Nat.eq_dec j m) as [->|Ne]; [|apply IHm; lia].
    destruct (Nat.eq_dec m 0) as [->|M0]; [tauto|].
    destruct (Nat.lt_ge_cases m n) as [Ln|Ln].
    - rewrite (C m ltac:(lia)), (C' m ltac:(lia)).
      assert (E : filter (fun k => Nat.ltb k m) K = filter (fun k => Nat.ltb k m) K').
      { apply sorted_ext; [apply filter_sorted; exact Sk|apply filter_sorted; exact Sk'|].
        intros k. rewrite !filter_In. split; intros [I Lk]; (split; [|exact Lk]); apply Nat.ltb_lt in Lk;
          apply (IHm k Lk); exact I. }
      unfold last_kept. rewrite E. reflexivity.
    - rewrite Forall_forall in F, F'. split; intros I; [specialize (F _ I)|specialize (F' _ I)]; lia. }
  intros j. apply (G (S j)). lia.
Qed.

Lemma reduce_picks_by_index {A} (d : A) l ids k : (k < length ids)%nat ->
  length (select_ids d l ids) = length ids /\ nth k (select_ids d l ids) d = nth (nth k ids 0%nat) l d.
Proof. intros H. split; [apply select_ids_length|apply select_ids_nth; exact H]. Qed.

(* the binary64 reading really differs from the exact floor (index 11 of 23 samples out of 31 poses):
   numpy keeps pose 14 where the exact rule keeps pose 15 - both lists are evenly spaced *)
Lemma linspace_float_differs_from_exact :
  linspace_zf 31 23 = [0; 1; 2; 4; 5; 6; 8; 9; 10; 12; 13; 14; 16; 17; 19; 20; 21; 23; 24; 25; 27; 28; 30]%Z /\
  exact_z 31 23 = [0; 1; 2; 4; 5; 6; 8; 9; 10; 12; 13; 15; 16; 17; 19; 20; 21; 23; 24; 25; 27; 28; 30]%Z.
Proof. split; vm_compute; reflexivity. Qed.
