"""C09 - Lie-group helpers (evo/core/lie_algebra.py) against the Coq model Evo.Lie (F_ops, tolerance regime)."""
import math
import os

import numpy as np

from harness import common, pyast_np
from harness.common import cf, cflist, close, differential, hexf, unhex

ID = "C09"
IMPORTS = "From Evo Require Import Num Linalg Lie.\n"
COQ_TARGETS = ["theories/LieProofs.vo", "theories/LieTie.vo", "generated/LieGen.vo"]
TRUSTED = ["model Evo.Lie written by hand from evo/core/lie_algebra.py; ties: (T) harness/pyast_np.py re-translates hat, vee, se3, sim3, "
           "so3_from_se3, se3_inverse, sim3_scale, sim3_inverse, is_so3, relative_so3, relative_se3 from the current source into "
           "EvoGen.LieGen on every run and Evo.LieTie proves each translated function equal to the model's for EVERY NumOps instance "
           "(reals and binary64 alike); the translator's reading of the np.ndarray annotations (3-vector / 3x3 / 4x4 pose with bottom "
           "row (0,0,0,1)) is trusted; (H) differential run in binary64 with tolerances",
           "oracles (spec measured on every case, not verified): scipy Rotation.from_rotvec/as_matrix/from_matrix/as_rotvec "
           "(measured against Rodrigues' formula and its inverse relation), np.linalg.det, np.power(.,1/3), BLAS dot order",
           "real-vs-binary64 gap: theorems are over R; float agreement is measured (rtol 1e-9 w.r.t. the input scale)"]
ASSUMPTIONS = ["inputs finite; rotations generated from normalised quaternions / axis-angle; translations 1e-6..1e9; scales 1e-4..1e4"]
ATOL, RTOL = 1e-6, 1e-5


def cm3(m):
    return "(mkM3 %s)" % " ".join(cf(x) for x in np.asarray(m, dtype=float).reshape(9))


def cv3(v):
    return "(mkV3 %s)" % " ".join(cf(x) for x in np.asarray(v, dtype=float).reshape(3))


def cpose(p):
    p = np.asarray(p, dtype=float)
    return "(mkPose %s %s)" % (cm3(p[:3, :3]), cv3(p[:3, 3]))


def H(a):
    return [hexf(x) for x in np.asarray(a, dtype=float).reshape(-1)]


def U(xs, shape):
    return np.array([unhex(x) for x in xs], dtype=float).reshape(shape)


def rot_from_quat(q):
    w, x, y, z = q / np.linalg.norm(q)
    return np.array([[1 - 2 * (y * y + z * z), 2 * (x * y - z * w), 2 * (x * z + y * w)],
                     [2 * (x * y + z * w), 1 - 2 * (x * x + z * z), 2 * (y * z - x * w)],
                     [2 * (x * z - y * w), 2 * (y * z + x * w), 1 - 2 * (x * x + y * y)]])


def rod_coeffs(theta):
    if theta < 1e-3:
        t2 = theta * theta
        return 1 - t2 / 6 + t2 * t2 / 120, 0.5 - t2 / 24 + t2 * t2 / 720
    return math.sin(theta) / theta, 2 * math.sin(theta / 2) ** 2 / (theta * theta)


def rodrigues_py(v):
    th = float(np.linalg.norm(v))
    A, B = rod_coeffs(th)
    K = np.array([[0, -v[2], v[1]], [v[2], 0, -v[0]], [-v[1], v[0], 0]], dtype=float)
    return np.eye(3) + A * K + B * (K @ K)


# ------------------------------------------------------------------ implementation side
def impl(case):
    from evo.core import lie_algebra as lie
    k = case["kind"]
    try:
        if k == "hatvee":
            v = U(case["v"], 3)
            h = lie.hat(v)
            return {"hat": H(h), "vee": H(lie.vee(h))}
        if k == "se3":
            a, b = U(case["a"], (4, 4)), U(case["b"], (4, 4))
            a0, b0 = a.copy(), b.copy()
            inv = lie.se3_inverse(a)
            rel = lie.relative_se3(a, b)
            return {"inv": H(inv), "rel": H(rel), "relso3": H(lie.relative_so3(a[:3, :3], b[:3, :3])),
                    "so3_from_se3": H(lie.so3_from_se3(a)),
                    "unchanged": bool((a == a0).all() and (b == b0).all())}
        if k == "sim3":
            r, t, s = U(case["r"], (3, 3)), U(case["t"], 3), unhex(case["s"])
            S = lie.sim3(r, t, s)
            if case.get("int_dtype"):      # matrices written with integer literals / loaded from an integer .npy
                S = np.rint(S).astype(np.int64)
            sc = float(lie.sim3_scale(S))
            Sinv = lie.sim3_inverse(S)
            return {"S": H(S), "scale": hexf(sc), "inv": H(Sinv), "det": hexf(np.linalg.det(S[:3, :3]))}
        if k == "explog":
            v = U(case["v"], 3)
            R = lie.so3_exp(v)
            w = lie.so3_log(R)
            ang = lie.so3_log_angle(R)
            angd = lie.so3_log_angle(R, True)
            R2 = lie.so3_exp(w)
            skew = lie.so3_log(R, return_skew=True)
            return {"R": H(R), "w": H(w), "angle": hexf(ang), "angle_deg": hexf(angd), "R2": H(R2), "skew": H(skew)}
        if k == "metric":
            a, b, c = (U(case[x], (3, 3)) for x in "abc")
            d = lambda p, q: lie.so3_log_angle(lie.relative_so3(p, q))
            return {"ab": hexf(d(a, b)), "ba": hexf(d(b, a)), "bc": hexf(d(b, c)), "ac": hexf(d(a, c)),
                    "cab": hexf(d(c @ a, c @ b)), "acb": hexf(d(a @ c, b @ c)), "aa": hexf(d(a, a))}
        if k == "member":
            p = U(case["p"], (4, 4))
            out = {"is_so3": bool(lie.is_so3(p[:3, :3])), "is_se3": bool(lie.is_se3(p)),
                   "det": hexf(np.linalg.det(p[:3, :3]))}
            with np.errstate(all="ignore"):
                s = float(lie.sim3_scale(p))
                out["s"] = hexf(s)
                out["is_sim3"] = bool(lie.is_sim3(p))
                out["detu"] = hexf(np.linalg.det(np.multiply(p[:3, :3], 1.0 / s)))
            return out
    except Exception as e:  # noqa
        return {"error": type(e).__name__ + ": " + str(e)[:80]}
    raise ValueError(k)


# ------------------------------------------------------------------ model side
def expr(case, out):
    k = case["kind"]
    if "error" in out:
        return "tt"
    if k == "hatvee":
        v = cv3(U(case["v"], 3))
        return "(mlist (hat %s), vlist (vee (hat %s)))" % (v, v)
    if k == "se3":
        a, b = cpose(U(case["a"], (4, 4))), cpose(U(case["b"], (4, 4)))
        return ("(plist (se3_inverse %s), plist (relative_se3 %s %s), mlist (relative_so3 (prot %s) (prot %s)), "
                "plist (pmul %s (se3_inverse %s)), plist (pmul (se3_inverse %s) %s))" % (a, a, b, a, b, a, a, a, a))
    if k == "sim3":
        r, t, s = cm3(U(case["r"], (3, 3))), cv3(U(case["t"], 3)), cf(unhex(case["s"]))
        S = "(sim3 %s %s %s)" % (r, t, s)
        sc = cf(unhex(out["scale"]))
        return ("(plist %s, plist (sim3_inverse_with %s %s), det (prot %s), "
                "plist (pmul %s (sim3_inverse_with %s %s)))" % (S, sc, S, S, S, sc, S))
    if k == "explog":
        v = U(case["v"], 3)
        th = float(np.linalg.norm(v))
        A, B = rod_coeffs(th)
        R = cm3(U(out["R"], (3, 3)))
        w = U(out["w"], 3)
        A2, B2 = rod_coeffs(float(np.linalg.norm(w)))
        return ("(mlist (rodrigues %s %s %s), cos_angle %s, vlist (skew_part %s), mlist (rodrigues %s %s %s), "
                "mlist (mm (mt %s) %s), det %s)" % (cv3(v), cf(A), cf(B), R, R, cv3(w), cf(A2), cf(B2), R, R, R))
    if k == "metric":
        a, b, c = (cm3(U(case[x], (3, 3))) for x in "abc")
        return ("(cos_angle (relative_so3 %s %s), cos_angle (relative_so3 %s %s), cos_angle (relative_so3 %s %s))"
                % (a, b, b, c, a, c))
    if k == "member":
        p = U(case["p"], (4, 4))
        P = cpose(p)
        bottom = "(%s, %s, %s, %s)" % tuple(cf(x) for x in p[3])
        det = cf(unhex(out["det"]))
        s, detu = unhex(out["s"]), unhex(out["detu"])
        tol = "%s %s" % (cf(ATOL), cf(RTOL))
        sim = "(false, [])"
        if math.isfinite(s) and math.isfinite(detu) and s != 0:
            sim = ("(is_sim3_b %s %s %s %s %s, is_so3_margins %s %s (mscale (ndiv n1 %s) (prot %s)))"
                   % (tol, cf(s), cf(detu), P, bottom, tol, cf(detu), cf(s), P))
        return ("(is_so3_b %s %s (prot %s), is_se3_b %s %s %s %s, is_so3_margins %s %s (prot %s), %s)"
                % (tol, det, P, tol, det, P, bottom, tol, det, P, sim))
    raise ValueError(k)


def _mv(detail, corr="Lie"):
    return {"kind": "model-vs-impl", "failing_input": False, "correspondence": corr, "detail": detail}


def _sv(detail):
    return {"kind": "spec-violation", "failing_input": True, "detail": detail}


def lclose(xs, ys, scale, rtol=1e-9, atol=1e-12):
    return len(xs) == len(ys) and all(close(x, y, rtol=rtol, atol=atol, scale=scale) for x, y in zip(xs, ys))


def judge(case, val, out):
    k = case["kind"]
    if "error" in out:
        return _sv("exception on a valid input: " + out["error"])
    f = lambda key: [unhex(x) for x in out[key]]
    if k == "hatvee":
        mh, mvv = val
        v = [unhex(x) for x in case["v"]]
        if f("vee") != v and not all(a == b or (a != a and b != b) for a, b in zip(f("vee"), v)):
            return _sv("vee(hat(v)) != v")
        if [float(x) for x in mh] != f("hat") or [float(x) for x in mvv] != f("vee"):
            return _mv("hat/vee differ from the model (bit-exact expected)", "Lie.hat/vee")
        return None
    if k == "se3":
        inv_m, rel_m, rso3_m, pr_m, pl_m = val
        a, b = U(case["a"], (4, 4)), U(case["b"], (4, 4))
        scale = max(1.0, float(np.abs(a[:3, 3]).max()), float(np.abs(b[:3, 3]).max()))
        if not out["unchanged"]:
            return _sv("an argument was modified")
        inv, rel = U(out["inv"], (4, 4)), U(out["rel"], (4, 4))
        for M in (inv, rel):
            if list(M[3]) != [0.0, 0.0, 0.0, 1.0]:
                return _sv("bottom row of a result is not (0,0,0,1)")
        ident = [1, 0, 0, 0, 1, 0, 0, 0, 1, 0, 0, 0]
        flat = lambda M: list(M[:3, :3].reshape(9)) + list(M[:3, 3])
        if not lclose(flat(a @ inv), ident, scale) or not lclose(flat(inv @ a), ident, scale):
            return _sv("P * se3_inverse(P) is not the identity")
        if not lclose(flat(a @ rel), flat(b), scale):
            return _sv("P1 * relative_se3(P1,P2) is not P2")
        if not lclose(flat(inv), inv_m, scale) or not lclose(flat(rel), rel_m, scale):
            return _mv("se3_inverse / relative_se3 differ from the model", "Lie.se3_inverse/relative_se3")
        if not lclose(f("relso3"), rso3_m, 1.0) or f("so3_from_se3") != list(a[:3, :3].reshape(9)):
            return _mv("relative_so3 / so3_from_se3 differ from the model", "Lie.relative_so3")
        if not lclose(pr_m, ident, scale) or not lclose(pl_m, ident, scale):
            return _mv("model's own P*P^-1 is not the identity in binary64 (model numerics)", "Lie.se3_inverse")
        return None
    if k == "sim3":
        S_m, inv_m, det_m, prod_m = val
        r, t, s = U(case["r"], (3, 3)), U(case["t"], 3), unhex(case["s"])
        S, Sinv = U(out["S"], (4, 4)), U(out["inv"], (4, 4))
        sc = unhex(out["scale"])
        tscale = max(1.0, float(np.abs(t).max()))
        flat = lambda M: list(M[:3, :3].reshape(9)) + list(M[:3, 3])
        if list(S[3]) != [0, 0, 0, 1] or list(Sinv[3]) != [0, 0, 0, 1]:
            return _sv("bottom row of sim3 / sim3_inverse is not (0,0,0,1)")
        if not close(sc, s, rtol=1e-9, atol=0):
            return _sv("sim3_scale does not recover the scale factor")
        ident = [1, 0, 0, 0, 1, 0, 0, 0, 1, 0, 0, 0]
        # S * S^-1: rotation block relative 1e-9, translation relative to |t| (and |t|/s for the left product)
        pr = S @ Sinv
        pl = Sinv @ S
        if not lclose(flat(pr), ident, tscale) or not lclose(flat(pl), ident, max(1.0, tscale / s)):
            return _sv("S * sim3_inverse(S) is not the identity")
        if not close(sc ** 3, unhex(out["det"]), rtol=1e-12, atol=0):
            return _mv("cube-root oracle: scale^3 != det", "oracle np.power(det,1/3)")
        if not lclose(flat(S), S_m, max(tscale, s)) or not lclose(flat(Sinv), inv_m, max(1.0, 1 / s, tscale / s)):
            return _mv("sim3 / sim3_inverse differ from the model", "Lie.sim3_inverse_with")
        if not close(unhex(out["det"]), det_m, rtol=1e-9, atol=0):
            return _mv("determinant differs from the model's cofactor formula", "oracle np.linalg.det")
        return None
    if k == "explog":
        Rm, cosang, skew_m, R2m, rtr, detR = val
        v = U(case["v"], 3)
        th = float(np.linalg.norm(v))
        R, w, R2 = f("R"), U(out["w"], 3), f("R2")
        ang, angd = unhex(out["angle"]), unhex(out["angle_deg"])
        # spec: exp gives a rotation; exp(log(R)) = R; log(exp(v)) = v inside the open ball; angle in [0, pi]
        if not lclose(rtr, [1, 0, 0, 0, 1, 0, 0, 0, 1], 1.0, atol=1e-12) or not close(detR, 1.0, atol=1e-12):
            return _sv("so3_exp(v) is not a rotation matrix")
        if not lclose(R2, R, 1.0, atol=1e-12):
            return _sv("so3_exp(so3_log(R)) != R")
        if not (0.0 <= ang <= math.pi + 1e-15) or not close(angd, math.degrees(ang), rtol=1e-12):
            return _sv("rotation angle outside [0, pi] or degrees inconsistent")
        if th <= math.pi - 1e-6:
            if not lclose(list(w), list(v), max(th, 1e-300), rtol=1e-9, atol=1e-15 + 1e-9 * th):
                return _sv("so3_log(so3_exp(v)) != v")
            if not close(ang, th, rtol=1e-9, atol=1e-15 if th < 1e-3 else 1e-9):
                return _sv("rotation angle of exp(v) is not |v|")
        else:
            alt = v * (1 - 2 * math.pi / th)
            tol = 1e-6
            if not (lclose(list(w), list(v), 1.0, atol=tol) or lclose(list(w), list(alt), 1.0, atol=tol)):
                return _sv("so3_log(so3_exp(v)) is neither v nor its antipodal representation (|v| ~ pi)")
            if not close(ang, min(th, 2 * math.pi - th), atol=1e-6):
                return _sv("rotation angle of exp(v) is not |v| (near pi)")
        hatw = [0.0, -w[2], w[1], w[2], 0.0, -w[0], -w[1], w[0], 0.0]
        if f("skew") != hatw:
            return _sv("so3_log(return_skew=True) is not hat(so3_log(R))")
        # oracle ties: scipy exp vs Rodrigues (model), scipy log vs the inverse relation (model exp of w = R)
        if not lclose(R, Rm, 1.0, atol=1e-12):
            return _mv("scipy from_rotvec/as_matrix differs from Rodrigues' formula", "oracle so3_exp")
        if not lclose(R, R2m, 1.0, atol=1e-9 if th > math.pi - 1e-6 else 1e-12):
            return _mv("model exp of scipy's log is not R", "oracle so3_log")
        if not close(math.cos(ang), cosang, atol=1e-12):
            return _mv("cos(so3_log_angle) differs from (tr R - 1)/2", "Lie.cos_angle")
        A, _ = rod_coeffs(float(np.linalg.norm(w)))
        if not lclose([A * x for x in w], skew_m, 1.0, atol=1e-12):
            return _mv("sin(th)/th * log(R) differs from vee(R - R^T)/2", "Lie.skew_part")
        return None
    if k == "metric":
        cab, cbc, cac = val
        g = lambda key: unhex(out[key])
        tol = 1e-7   # angles near 0/pi are conditioned like sqrt(eps)
        for key in ("ab", "ba", "bc", "ac", "cab", "acb", "aa"):
            if not (0.0 <= g(key) <= math.pi + 1e-15):
                return _sv("angle outside [0, pi]")
        if not close(g("ab"), g("ba"), atol=tol, rtol=0):
            return _sv("rotation angle metric is not symmetric")
        if not close(g("cab"), g("ab"), atol=tol, rtol=0) or not close(g("acb"), g("ab"), atol=tol, rtol=0):
            return _sv("rotation angle metric is not bi-invariant")
        if g("ac") > g("ab") + g("bc") + tol:
            return _sv("triangle inequality violated")
        if g("aa") > 1e-7:
            return _sv("d(a,a) != 0")
        same = case["a"] == case["b"]
        if not same and g("ab") == 0.0 and np.abs(U(case["a"], 9) - U(case["b"], 9)).max() > 1e-7:
            return _sv("d(a,b) = 0 for different rotations")
        for c_m, key in ((cab, "ab"), (cbc, "bc"), (cac, "ac")):
            if not close(math.cos(g(key)), c_m, atol=1e-12):
                return _mv("cos(angle) differs from the model's (tr - 1)/2", "Lie.cos_angle")
        return None
    if k == "member":
        so3_m, se3_m, margins, (sim_m, sim_margins) = val
        frag = min(abs(float(x)) for x in margins) < 1e-11
        exp = case.get("expect")
        res = None
        if exp is not None:
            for key in ("is_so3", "is_se3", "is_sim3"):
                if key in exp and out[key] != exp[key]:
                    res = _sv("%s returned %s for a matrix constructed as %s" % (key, out[key], case.get("what")))
        if res is None and not frag:
            if out["is_so3"] != so3_m or out["is_se3"] != se3_m:
                res = _mv("is_so3/is_se3 decision differs from the model", "Lie.is_so3_b/is_se3_b")
        if res is None and sim_margins and min(abs(float(x)) for x in sim_margins) >= 1e-11:
            if out["is_sim3"] != sim_m:
                res = _mv("is_sim3 decision differs from the model", "Lie.is_sim3_b")
        return res
    raise ValueError(k)


# ------------------------------------------------------------------ generators
def rand_rot(rng):
    return rot_from_quat(rng.normal(size=4))


def pose(r, t):
    p = np.eye(4)
    p[:3, :3] = r
    p[:3, 3] = t
    return p


def gen(ctx):
    rng = ctx.np_rng(9)
    cases = []
    n = ctx.n(1, 6)
    axes = [np.array(a, dtype=float) for a in ([1, 0, 0], [0, 1, 0], [0, 0, 1], [1, 1, 0], [-1, 2, 3])]
    # hat / vee
    for _ in range(40 * n):
        cases.append({"kind": "hatvee", "v": H(rng.normal(size=3) * 10.0 ** rng.integers(-6, 9))})
    cases.append({"kind": "hatvee", "v": H([0.0, -0.0, 1e-300])})
    # se3
    for i in range(150 * n):
        ta = rng.normal(size=3) * 10.0 ** rng.integers(-6, 10)
        tb = ta + rng.normal(size=3) * 10.0 ** rng.integers(-6, 3) if i % 2 else rng.normal(size=3) * 10.0 ** rng.integers(-6, 10)
        cases.append({"kind": "se3", "a": H(pose(rand_rot(rng), ta)), "b": H(pose(rand_rot(rng), tb))})
    cases.append({"kind": "se3", "a": H(np.eye(4)), "b": H(np.eye(4))})
    # sim3
    for i in range(120 * n):
        s = float(10.0 ** rng.uniform(-4, 4))
        if i % 6 == 5:   # scales next to 1 (inside the tolerance of the SE(3) membership test): still a similarity, not a rigid motion
            s = 1.0 + float(rng.choice([-1.0, 1.0])) * float(rng.choice([1e-9, 1e-7, 1e-6, 3e-6]))
        t = rng.normal(size=3) * 10.0 ** rng.integers(-6, 10)
        cases.append({"kind": "sim3", "r": H(rand_rot(rng)), "t": H(t), "s": hexf(s)})
    # integer-typed Sim(3) matrices (axis-aligned rotation, integer scale and translation)
    perms = [np.eye(3), np.array([[0, -1, 0], [1, 0, 0], [0, 0, 1.0]]), np.array([[0, 0, 1], [1, 0, 0], [0, 1, 0.0]]),
             np.array([[-1, 0, 0], [0, -1, 0], [0, 0, 1.0]])]
    for i in range(12 * n):
        cases.append({"kind": "sim3", "r": H(perms[i % 4]), "t": H(np.rint(rng.normal(size=3) * 10)), "s": hexf(float([1, 2, 3, 5][i % 4])),
                      "int_dtype": True})
    # exp / log: uniform, axis aligned, tiny angles, angles next to pi
    angles = [0.0, 1e-16, 1e-12, 1e-9, 1e-6, 1e-3, 0.5, 1.0, math.pi / 2, 2.0, 3.0, math.pi - 1e-3, math.pi - 1e-6,
              math.pi - 1e-9, math.pi - 1e-12, math.pi]
    for th in angles:
        for ax in axes:
            cases.append({"kind": "explog", "v": H(ax / np.linalg.norm(ax) * th)})
    for _ in range(120 * n):
        ax = rng.normal(size=3)
        ax /= np.linalg.norm(ax)
        th = float(rng.choice([rng.uniform(0, math.pi), 10.0 ** rng.uniform(-16, -3), math.pi - 10.0 ** rng.uniform(-12, -3)]))
        cases.append({"kind": "explog", "v": H(ax * th)})
    # metric axioms on triples
    for i in range(100 * n):
        a = rand_rot(rng)
        b = rand_rot(rng) if i % 4 else a @ rodrigues_py(rng.normal(size=3) * 10.0 ** rng.uniform(-9, -3))
        c = rand_rot(rng) if i % 3 else b @ rodrigues_py(np.array([0, 0, math.pi - 1e-9]))
        cases.append({"kind": "metric", "a": H(a), "b": H(b), "c": H(c)})
    r0 = rand_rot(rng)
    cases.append({"kind": "metric", "a": H(r0), "b": H(r0), "c": H(rand_rot(rng))})
    # membership: genuine, reflections, scaled / sheared near the tolerance, wrong bottom rows
    for i in range(120 * n):
        r, t = rand_rot(rng), rng.normal(size=3) * 10.0 ** rng.integers(-6, 10)
        p = pose(r, t)
        what, exp = "SE(3) element", {"is_so3": True, "is_se3": True, "is_sim3": True}
        m = i % 8
        if m == 1:
            p[:3, :3] = r @ np.diag([1, 1, -1.0])
            what, exp = "reflection", {"is_so3": False, "is_se3": False, "is_sim3": False}
        elif m == 2:
            kk = float(rng.choice([1 + 1e-4, 1 - 1e-4, 1.5, 0.3, 1 + 1e-3]))
            p[:3, :3] = kk * r
            what, exp = "rotation block scaled by %g" % kk, {"is_so3": False, "is_se3": False, "is_sim3": True}
        elif m == 3:
            sh = np.eye(3)
            ii = int(rng.integers(0, 3))
            sh[ii, (ii + 1 + int(rng.integers(0, 2))) % 3] += float(rng.choice([3e-6, 5e-5, 1e-3, 1e-2, 0.2]))   # off-diagonal only
            p[:3, :3] = r @ sh
            what, exp = "sheared rotation block", {"is_so3": False, "is_se3": False, "is_sim3": False}
        elif m == 4:
            p[3] = [[0, 0, 0, 1 + 1e-12], [1e-300, 0, 0, 1], [0, 0, 1e-9, 1], [0, 0, 0, 0.0]][i % 4]
            what, exp = "wrong bottom row", {"is_so3": True, "is_se3": False, "is_sim3": False}
        elif m == 5:   # near-miss at controlled distance from the tolerance (decision compared with the model only)
            eps = float(rng.choice([1.05e-5, 1.15e-5, 3.3e-6, 4.0e-6, 1e-7, 1e-8]))
            if i % 3 == 0:
                p[:3, :3] = (1 + eps) ** (1 / 3) * r
            elif i % 3 == 1:
                p[:3, :3] = r + eps * rng.normal(size=(3, 3))
            else:   # shear keeps det = 1: only the orthogonality test (atol 1e-6 off the diagonal) can reject
                sh = np.eye(3)
                sh[0, 1] = float(rng.choice([5e-7, 9e-7, 1.1e-6, 2e-6]))
                p[:3, :3] = r @ sh
            what, exp = "near-miss", None
        elif m == 6:
            s = float(10.0 ** rng.uniform(-4, 4))
            p[:3, :3] = s * r
            what, exp = "Sim(3) element, scale %g" % s, {"is_sim3": True}
        elif m == 7:
            p[:3, :3] = r @ np.diag([1.0, 1.0, float(rng.choice([1.01, 0.9, 2.0]))])
            what, exp = "non-uniformly scaled block", {"is_so3": False, "is_se3": False, "is_sim3": False}
            if (i // 8) % 2:   # the same defects on top of a uniform scale 1e-4..1e4: still not a similarity
                sc = [1e-4, 1e-4, 1e-3, 1e-3, 1e2, 1e4, 3e-4][(i // 16) % 7] * float(rng.uniform(1.0, 3.0))
                if (i // 16) % 2:
                    sh = np.eye(3)
                    sh[int(rng.integers(0, 3)), int(rng.integers(0, 3))] += float(rng.choice([0.1, 0.2, 0.5]))
                    p[:3, :3] = sc * (r @ sh)
                    what = "sheared/stretched block at scale %.0e" % sc
                else:
                    p[:3, :3] = sc * p[:3, :3]
                    what = "non-uniformly scaled block at scale %.0e" % sc
        c = {"kind": "member", "p": H(p), "what": what}
        if exp is not None:
            c["expect"] = exp
        cases.append(c)
    return cases


def nontrivial(case, val, out):
    return True


GEN_PATH = os.path.join(common.COQ, "generated", "LieGen.v")


def regenerate(ctx):
    """translator tie: coq/generated/LieGen.v from the repository under test (fail-closed, per function)"""
    from harness import pyast_metrics
    return pyast_metrics.regenerate_ties(ctx, common.REPO, common.COQ, only=None, metrics=False)


def run(ctx, replay=None, proofs_ok=True):
    if not proofs_ok:   # the case files only need the executable model
        common.build_theories(targets=["theories/Lie.vo"])
    if replay is not None and not replay.get("case"):
        return {"failures": [], "coverage": {"evaluations": 0, "distinct_nontrivial": 0, "rule": "replay of an obligation "
                "(no input case): the theorems were re-checked by the driver", "samples": []}}
    cases = [replay["case"]] if replay is not None else gen(ctx)
    failures, stats = differential(ctx, cases, imports=IMPORTS, impl=impl, expr=expr, judge=judge,
                                   nontrivial=nontrivial, per_file=120)
    hist = {}
    for c in cases:
        key = c["kind"] + (":" + c["what"].split(",")[0].split(" by")[0] if c["kind"] == "member" else "")
        hist[key] = hist.get(key, 0) + 1
    cov = {"evaluations": stats["evaluations"], "distinct_nontrivial": stats["distinct_nontrivial"],
           "rule": "every helper of lie_algebra.py vs the model: hat/vee bit-exact; SE(3)/Sim(3) inverse + relative pose on "
                   "random rotations with translations 1e-6..1e9 and scales 1e-4..1e4; exp/log on uniform, axis-aligned, "
                   "1e-16..1e-3 and pi-1e-12..pi angles; metric axioms on triples; membership on genuine elements, reflections, "
                   "scaled/sheared blocks, near-misses on both sides of the np.allclose tolerance, wrong bottom rows; "
                   "distinct by input; all generated cases count as non-trivial (no degenerate filler)",
           "samples": [cases[0], cases[len(cases) // 2], cases[-1]], "input_distribution": hist,
           "partial": ["C09_triangle_inequality_partial (full triangle inequality not proved; sampled on every metric case)",
                       "exp o log = id is proved for every rotation with angle < pi (C09_exp_log); at exactly pi the logarithm is not unique - measured on every explog case"],
           "disagreements": stats["disagreements"]}
    return {"failures": failures, "coverage": cov}


LEVEL_TEXT = ("Coq theorems over R for the model of lie_algebra.py: hat/vee inverse, SE(3)/SO(3) inverse and relative-pose laws, "
              "Sim(3) two-sided inverse and scale recovery, Rodrigues exp is a rotation with angle |v| and log(exp v) = v, "
              "rotation-angle metric range/symmetry/bi-invariance/zero-iff-equal, membership decisions accept group elements and "
              "reject reflections, scaled blocks and wrong bottom rows. exp(log R) = R for every rotation with angle < pi; the triangle inequality is NOT proved "
              "(partial, sampled). Tie: differential run of every helper against the model in binary64.")
LEVEL_NOTE = ("Trusted: Coq kernel/VM, Reals axioms + classic, hand-written model (tested correspondence), scipy/numpy kernels as "
              "oracles whose specs are measured per case; no floating-point error analysis (tolerances).")
TECHNIQUE = "Coq proof (ring/field/nsatz identities on 3x3 records, Reals trig) + Python-AST translator of lie_algebra.py with translated = model proved for every number system + model/implementation correspondence by vm_compute"
