(* FileFmt.v - executable model of evo's trajectory/result writers and readers at the level
   "file = list of rows of tokens" (evo/tools/file_interface.py, evo/tools/pandas_bridge.py).
   The scalar codec (number -> token -> number) is a pair of parameters [fmt]/[parse]; the theorems of
   FileFmtProofs.v hold for every codec with parse (fmt x) = Some x, and Codec.v proves that property
   for the decimal codec numpy.savetxt uses ('%.18e').  In the correspondence runs tokens are the
   binary64 values float() returns for the tokens of the real file, fmt = id, parse = Some.
   Generic over NumOps (only 0, 1, 1e9 and one division are used).  Definitions only. *)
From Coq Require Import Ascii String.
From Coq Require Import List Arith Bool ZArith.
From Evo Require Import Num.
Import ListNotations.
Local Open Scope num_scope.

Fixpoint traverse {A B} (f : A -> option B) (l : list A) : option (list B) :=
  match l with
  | [] => Some []
  | a :: r => match f a, traverse f r with
              | Some b, Some r' => Some (b :: r')
              | _, _ => None
              end
  end.

(* numpy.roll(q, 1): last element to the front;  numpy.roll(q, -1): first element to the back *)
Definition roll1 {A} (l : list A) : list A :=
  match rev l with [] => [] | z :: r => z :: rev r end.
Definition rollm1 {A} (l : list A) : list A :=
  match l with [] => [] | a :: r => r ++ [a] end.

Section Model.
Context {T : Type} {ops : NumOps T}.
Context {Tok : Type}.
Variable fmt : T -> Tok.
Variable parse : Tok -> option T.

(* one stamped pose of a PoseTrajectory3D: timestamps[i], positions_xyz[i], orientations_quat_wxyz[i] *)
Record TP := mkTP { tp_stamp : T; tp_xyz : list T; tp_quat : list T }.
(* one pose of a PosePath3D given by positions + quaternions *)
Record PP := mkPP { pp_xyz : list T; pp_quat : list T }.

Definition tp_valid (p : TP) : Prop := length (tp_xyz p) = 3 /\ length (tp_quat p) = 4.
Definition pp_valid (p : PP) : Prop := length (pp_xyz p) = 3 /\ length (pp_quat p) = 4.

(* ---------------- TUM ---------------- *)
(* write_tum_trajectory_file: mat = column_stack((stamps, xyz, roll(quat_wxyz, -1))); savetxt(mat, delimiter=" ") *)
Definition tum_row (p : TP) : list T := tp_stamp p :: tp_xyz p ++ rollm1 (tp_quat p).
Definition write_tum (tr : list TP) : list (list Tok) := map (fun p => map fmt (tum_row p)) tr.

(* np.array(raw_mat).astype(float): a ragged list of rows or a non-numeric token raises ValueError *)
Definition matrix_of (raw : list (list Tok)) : option (list (list T)) :=
  match raw with
  | [] => Some []
  | r0 :: _ => if forallb (fun r => Nat.eqb (length r) (length r0)) raw
               then traverse (traverse parse) raw else None
  end.

(* read_tum_trajectory_file after csv_read_matrix: None = FileInterfaceException *)
Definition read_tum (raw : list (list Tok)) : option (list TP) :=
  match raw with
  | [] => None
  | r0 :: _ =>
      if negb (Nat.eqb (length r0) 8) then None
      else match matrix_of raw with
           | None => None
           | Some mat => Some (map (fun r => mkTP (nth 0 r n0) (firstn 3 (skipn 1 r)) (roll1 (skipn 4 r))) mat)
           end
  end.

(* ---------------- KITTI ---------------- *)
(* a pose is the row-major flattening of the 4x4 matrix (16 entries) *)
Definition pose_valid (p : list T) : Prop := length p = 16 /\ skipn 12 p = [n0; n0; n0; n1].
(* p.flatten()[:-4] *)
Definition write_kitti (tr : list (list T)) : list (list Tok) :=
  map (fun p => map fmt (firstn (length p - 4) p)) tr.
Definition read_kitti (raw : list (list Tok)) : option (list (list T)) :=
  match raw with
  | [] => None
  | r0 :: _ =>
      if negb (Nat.eqb (length r0) 12) then None
      else match matrix_of raw with
           | None => None
           | Some mat => Some (map (fun r => firstn 12 r ++ [n0; n0; n0; n1]) mat)
           end
  end.

(* ---------------- EuRoC (reader only) ---------------- *)
Definition ns_per_s : T := nofZ 1000000000.
Definition read_euroc (raw : list (list Tok)) : option (list TP) :=
  match raw with
  | [] => None
  | r0 :: _ =>
      if Nat.ltb (length r0) 8 then None
      else match matrix_of raw with
           | None => None
           | Some mat => Some (map (fun r => mkTP (nth 0 r n0 /! ns_per_s) (firstn 3 (skipn 1 r)) (firstn 4 (skipn 4 r))) mat)
           end
  end.

(* ---------------- result archive ---------------- *)
(* zip members: "<name><suffix>"; the string pairing name/suffix <-> member name (str.format,
   str.endswith, pathlib stem) is represented by the tagged pair (oracle, exercised with dotted and
   unicode names) *)
Inductive ext := EInfo | EStats | ENpy | ETum | EKitti.
Definition ext_eqb (a b : ext) : bool :=
  match a, b with
  | EInfo, EInfo | EStats, EStats | ENpy, ENpy | ETum, ETum | EKitti, EKitti => true
  | _, _ => false
  end.
Context {I : Type}.   (* the info dict, opaque (json.dumps / json.loads) *)
Variable fmtj : T -> Tok.               (* json.dumps of a float: float.__repr__ *)
Variable parsej : Tok -> option T.      (* json.loads *)
Inductive content :=
| CInfo (i : I)
| CStats (d : list (string * Tok))
| CNpy (a : list T)                      (* np.save / np.load: raw IEEE bytes *)
| CText (rows : list (list Tok)).
Definition member := (ext * string * content)%type.

Inductive traj := TrajT (l : list TP) | TrajP (l : list (list T)).
Record Res := mkRes { r_info : I; r_stats : list (string * T);
                      r_arrays : list (string * list T); r_trajs : list (string * traj) }.

Definition enc_array (kv : string * list T) : member := (ENpy, fst kv, CNpy (snd kv)).
Definition enc_traj (kv : string * traj) : member :=
  match snd kv with
  | TrajT l => (ETum, fst kv, CText (write_tum l))
  | TrajP l => (EKitti, fst kv, CText (write_kitti l))
  end.
Definition save_res (r : Res) : list member :=
  [(EInfo, "info"%string, CInfo (r_info r)); (EStats, "stats"%string, CStats (map (fun kv => (fst kv, fmtj (snd kv))) (r_stats r)))]
  ++ map enc_array (r_arrays r) ++ map enc_traj (r_trajs r).

Fixpoint find_member (e : ext) (ar : list member) : option content :=
  match ar with
  | [] => None
  | (e', _, c) :: r => if ext_eqb e e' then Some c else find_member e r
  end.

Definition parse_stats (d : list (string * Tok)) : option (list (string * T)) :=
  traverse (fun kv => match parsej (snd kv) with Some v => Some (fst kv, v) | None => None end) d.

Definition dec_array (m : member) : list (string * list T) :=
  match m with (ENpy, n, CNpy a) => [(n, a)] | _ => [] end.
Definition load_arrays (ar : list member) : list (string * list T) := flat_map dec_array ar.

(* trajectories: all .tum members first, then all .kitti members (file order within each) *)
Definition dec_tum (m : member) : option (list (string * traj)) :=
  match m with
  | (ETum, n, CText rows) => match read_tum rows with Some l => Some [(n, TrajT l)] | None => None end
  | _ => Some []
  end.
Definition dec_kitti (m : member) : option (list (string * traj)) :=
  match m with
  | (EKitti, n, CText rows) => match read_kitti rows with Some l => Some [(n, TrajP l)] | None => None end
  | _ => Some []
  end.
Definition load_trajs (ar : list member) : option (list (string * traj)) :=
  match traverse dec_tum ar, traverse dec_kitti ar with
  | Some a, Some b => Some (concat a ++ concat b)
  | _, _ => None
  end.

Definition load_res (load_trajectories : bool) (ar : list member) : option Res :=
  match find_member EInfo ar, find_member EStats ar with
  | Some (CInfo i), Some (CStats d) =>
      match parse_stats d with
      | None => None
      | Some st =>
          if load_trajectories
          then match load_trajs ar with
               | Some tj => Some (mkRes i st (load_arrays ar) tj)
               | None => None
               end
          else Some (mkRes i st (load_arrays ar) [])
      end
  | _, _ => None
  end.

(* the trajectories dict after a load: PoseTrajectory3D entries first, then PosePath3D entries *)
Definition is_trajT (kv : string * traj) : bool := match snd kv with TrajT _ => true | TrajP _ => false end.
Definition tum_first (d : list (string * traj)) : list (string * traj) :=
  filter is_trajT d ++ filter (fun kv => negb (is_trajT kv)) d.

(* ---------------- pandas DataFrame ---------------- *)
Inductive index := IdxRange (n : nat)        (* np.arange(0, num_poses): integer dtype *)
                 | IdxFloat (l : list T).    (* the timestamps *)
Record DF := mkDF { df_cols : list (string * list T); df_index : index }.

Definition colk (k : nat) (rows : list (list T)) : list T := map (fun r => nth k r n0) rows.
Definition df_columns (xyz quat : list (list T)) : list (string * list T) :=
  [("x"%string, colk 0 xyz); ("y"%string, colk 1 xyz); ("z"%string, colk 2 xyz);
   ("qw"%string, colk 0 quat); ("qx"%string, colk 1 quat); ("qy"%string, colk 2 quat); ("qz"%string, colk 3 quat)].
Definition traj_to_df (tr : list TP) : DF :=
  mkDF (df_columns (map tp_xyz tr) (map tp_quat tr)) (IdxFloat (map tp_stamp tr)).
Definition path_to_df (tr : list PP) : DF :=
  mkDF (df_columns (map pp_xyz tr) (map pp_quat tr)) (IdxRange (length tr)).

Fixpoint dfget (k : string) (d : list (string * list T)) : list T :=
  match d with
  | [] => []
  | (k', v) :: r => if String.eqb k' k then v else dfget k r
  end.
(* df[[c1, ..., cn]].to_numpy(): rows of the selected columns *)
Fixpoint rows_of (cols : list (list T)) : list (list T) :=
  match cols with
  | [] => []
  | [c] => map (fun x => [x]) c
  | c :: rest => map (fun p => fst p :: snd p) (combine c (rows_of rest))
  end.
Inductive df_out := OutTraj (l : list TP) | OutPath (l : list PP).
Fixpoint zip_tp (s : list T) (x q : list (list T)) : list TP :=
  match s, x, q with
  | a :: s', b :: x', c :: q' => mkTP a b c :: zip_tp s' x' q'
  | _, _, _ => []
  end.
Fixpoint zip_pp (x q : list (list T)) : list PP :=
  match x, q with
  | b :: x', c :: q' => mkPP b c :: zip_pp x' q'
  | _, _ => []
  end.
Definition df_to_trajectory (as_path : bool) (df : DF) : df_out :=
  let quat := rows_of (map (fun k => dfget k (df_cols df)) ["qw"; "qx"; "qy"; "qz"]%string) in
  let xyz := rows_of (map (fun k => dfget k (df_cols df)) ["x"; "y"; "z"]%string) in
  match df_index df with
  | IdxRange _ => OutPath (zip_pp xyz quat)
  | IdxFloat st => if as_path then OutPath (zip_pp xyz quat) else OutTraj (zip_tp st xyz quat)
  end.

End Model.

Arguments TP T : clear implicits.
Arguments PP T : clear implicits.

(* ---------------- ROS bag time stamps ---------------- *)
(* write_bag_trajectory: sec = int(stamp // 1); nanosec = int((stamp - sec) * 1e9)
   read_bag_trajectory:  t.sec + (t.nanosec * 1e-9)
   floor/trunc and the int<->float conversions are parameters (exact for |v| < 2^52). *)
Section Bag.
Context {T : Type} {ops : NumOps T}.
Variable floorT truncT : T -> T.
Variable e9 em9 : T.     (* the literals 1e9 and 1e-9 *)
Definition bag_sec (stamp : T) : T := floorT stamp.
Definition bag_nanosec (stamp : T) : T := truncT ((stamp -! bag_sec stamp) *! e9).
Definition bag_reread (stamp : T) : T := bag_sec stamp +! (bag_nanosec stamp *! em9).
End Bag.

(* binary64 floor for 0 <= x < 2^51 by the add-and-subtract-2^52 trick (exact), trunc = floor there *)
Definition F_two52 : PrimFloat.float := PrimFloat.of_uint63 (Uint63.of_Z 4503599627370496).
Definition F_floor (x : PrimFloat.float) : PrimFloat.float :=
  let r := PrimFloat.sub (PrimFloat.add x F_two52) F_two52 in
  if PrimFloat.ltb x r then PrimFloat.sub r PrimFloat.one else r.
Definition F_e9 : PrimFloat.float := PrimFloat.of_uint63 (Uint63.of_Z 1000000000).
Definition F_em9 : PrimFloat.float := Eval vm_compute in PrimFloat.div PrimFloat.one F_e9.
Definition F_bag (stamp : PrimFloat.float) : PrimFloat.float * PrimFloat.float * PrimFloat.float :=
  (bag_sec F_floor stamp, bag_nanosec F_floor F_floor F_e9 stamp, bag_reread F_floor F_floor F_e9 F_em9 stamp).

(* ---------------- printable views for the correspondence runs (tokens = values) ---------------- *)
Section Views.
Context {T : Type} {ops : NumOps T} {I : Type}.
Definition tp_view (p : TP T) : T * list T * list T := (tp_stamp p, tp_xyz p, tp_quat p).
Definition pp_view (p : PP T) : list T * list T := (pp_xyz p, pp_quat p).
Definition tps_view (o : option (list (TP T))) := option_map (map tp_view) o.
Definition ext_code (e : ext) : nat := match e with EInfo => 0 | EStats => 1 | ENpy => 2 | ETum => 3 | EKitti => 4 end.
(* (kind, info, stats, array, rows) *)
Definition content_view (c : content (T := T) (Tok := T) (I := I)) : nat * option I * list (string * T) * list T * list (list T) :=
  match c with
  | CInfo i => (0, Some i, [], [], [])
  | CStats d => (1, None, d, [], [])
  | CNpy a => (2, None, [], a, [])
  | CText rows => (3, None, [], [], rows)
  end.
Definition member_view (m : member (T := T) (Tok := T) (I := I)) := (ext_code (fst (fst m)), snd (fst m), content_view (snd m)).
Definition traj_view (t : traj (T := T)) : nat * list (T * list T * list T) * list (list T) :=
  match t with TrajT l => (0, map tp_view l, []) | TrajP l => (1, [], l) end.
Definition res_view (r : Res (T := T) (I := I)) :=
  (r_info r, r_stats r, r_arrays r, map (fun kv => (fst kv, traj_view (snd kv))) (r_trajs r)).
Definition index_view (i : index (T := T)) : nat * nat * list T :=
  match i with IdxRange n => (0, n, []) | IdxFloat l => (1, 0, l) end.
Definition df_view (d : DF (T := T)) := (df_cols d, index_view (df_index d)).
Definition df_out_view (o : df_out (T := T)) : nat * list (T * list T * list T) * list (list T * list T) :=
  match o with OutTraj l => (0, map tp_view l, []) | OutPath l => (1, [], map pp_view l) end.
End Views.
