(* FileFmtCodec.v - the structural round-trip theorems of FileFmtProofs instantiated with the decimal
   codec of Codec.v: values are the binary64 numbers among the reals, a token is the real number denoted
   by the printed decimal (p significant digits, correctly rounded, any tie rule), reading rounds it to
   binary64 (correctly, any tie rule).  For p >= 18 every slot of a TUM / KITTI file is read back to the
   identical value. *)
From Coq Require Import Ascii String.
From Coq Require Import Reals ZArith List.
From Flocq Require Import Core.
From Evo Require Import Num FileFmt FileFmtProofs Codec.
Import ListNotations.
Local Open Scope R_scope.

Section Dec.
Variable p : Z.
Hypothesis Hp : (18 <= p)%Z.
Variables c1 c2 : Z -> bool.

Definition fmt_dec (x : R) : R := rnd_dec p c1 x.
Definition parse_bin (y : R) : option R := Some (rnd64 c2 y).

Lemma codec_dec x : b64 x -> parse_bin (fmt_dec x) = Some x.
Proof. intros H. unfold parse_bin, fmt_dec. f_equal. now apply roundtrip. Qed.

Theorem tum_roundtrip_decimal (tr : list (TP R)) :
  tr <> [] -> Forall tp_valid tr -> Forall (tp_ok b64) tr ->
  read_tum parse_bin (write_tum fmt_dec tr) = Some tr.
Proof. apply tum_roundtrip. exact codec_dec. Qed.

Theorem kitti_roundtrip_decimal (tr : list (list R)) :
  tr <> [] -> Forall pose_valid tr -> Forall (Forall b64) tr ->
  read_kitti parse_bin (write_kitti fmt_dec tr) = Some tr.
Proof. apply kitti_roundtrip. exact codec_dec. Qed.
End Dec.
