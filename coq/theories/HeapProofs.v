(* HeapProofs.v - footprint theorems about the heap model Evo.Heap (property C16). *)
From Coq Require Import List Arith Bool Lia.
From Evo Require Import Heap.
Import ListNotations.

#[local] Arguments alloc : simpl never.
#[local] Arguments alloc_list : simpl never.
#[local] Arguments write_seq : simpl never.
#[local] Arguments copy_cells : simpl never.
#[local] Arguments rebuild_poses : simpl never.

Section Proofs.
Context {V : Type}.
Variable mk : nat -> nat -> list V -> V.

Notation heap := (heap V).
Notation state := (state V).

(* ------------------------------------------------------------------ heap extension *)
(* [hext n W h h']: h' extends h; every cell below n outside W kept its contents *)
Definition hext (n : nat) (W : list loc) (h h' : heap) : Prop :=
  hnext h <= hnext h' /\ forall l, l < n -> ~ In l W -> hval h' l = hval h l.

Lemma hext_refl n W h : hext n W h h.
Proof. split; auto. Qed.

Lemma hext_trans n W1 W2 h h1 h2 :
  hext n W1 h h1 -> hext n W2 h1 h2 -> hext n (W1 ++ W2) h h2.
Proof.
  intros [A1 B1] [A2 B2]; split; [lia|].
  intros l Hl Hn. rewrite B2, B1; auto; intro; apply Hn; apply in_or_app; auto.
Qed.

Lemma hext_weaken n W W' h h' : hext n W h h' -> (forall l, In l W -> In l W') -> hext n W' h h'.
Proof. intros [A B] S; split; auto. Qed.

Lemma hext_nil_trans n h h1 h2 : hext n [] h h1 -> hext n [] h1 h2 -> hext n [] h h2.
Proof. intros A B. exact (hext_trans n [] [] h h1 h2 A B). Qed.

Lemma hext_fresh_writes n W h h' :
  hext n W h h' -> (forall l, In l W -> n <= l) -> hext n [] h h'.
Proof.
  intros [A B] F; split; auto. intros l Hl _. apply B; auto. intro HI. apply F in HI. lia.
Qed.

Lemma alloc_spec (h : heap) v h' l :
  alloc h v = (h', l) ->
  l = hnext h /\ hnext h' = S (hnext h) /\ hval h' l = v /\ (forall k, k <> hnext h -> hval h' k = hval h k).
Proof.
  unfold alloc; intros E; inversion E; subst; clear E; cbn. repeat split.
  - unfold upd. now rewrite Nat.eqb_refl.
  - intros k Hk. unfold upd. destruct (Nat.eqb_spec k (hnext h)); congruence.
Qed.

Lemma alloc_hext n (h : heap) v h' l :
  alloc h v = (h', l) -> n <= hnext h -> hext n [] h h'.
Proof.
  intros E Hn. apply alloc_spec in E as (-> & E2 & _ & E4). split; [lia|].
  intros k Hk _. apply E4. lia.
Qed.

Lemma alloc_list_spec vs : forall (h : heap) h' ls,
  alloc_list h vs = (h', ls) ->
  ls = seq (hnext h) (length vs) /\ hnext h' = hnext h + length vs /\
  map (hval h') ls = vs /\ (forall k, k < hnext h -> hval h' k = hval h k).
Proof.
  induction vs as [|v r IH]; intros h h' ls E; unfold alloc_list in E; fold (@alloc_list V) in E.
  - inversion E; subst; cbn. repeat split; auto; lia.
  - destruct (alloc h v) as [h1 l] eqn:E1. destruct (alloc_list h1 r) as [h2 ls2] eqn:E2.
    inversion E; subst; clear E.
    apply alloc_spec in E1 as (-> & N1 & V1 & O1).
    apply IH in E2 as (-> & N2 & M2 & O2).
    cbn [length seq map]. split; [|split; [|split]].
    + rewrite N1. reflexivity.
    + lia.
    + f_equal; [rewrite O2 by lia; exact V1|exact M2].
    + intros k Hk. rewrite O2 by lia. apply O1. lia.
Qed.

Lemma alloc_list_hext n vs (h : heap) h' ls :
  alloc_list h vs = (h', ls) -> n <= hnext h -> hext n [] h h'.
Proof.
  intros E Hn. apply alloc_list_spec in E as (_ & N & _ & O). split; [lia|]. intros; apply O; lia.
Qed.

Lemma write_hext n (h : heap) l v : hext n [l] h (write h l v).
Proof.
  split; cbn; auto. intros k _ Hk. unfold upd. destruct (Nat.eqb_spec k l); auto.
  exfalso; apply Hk; left; auto.
Qed.

Lemma write_seq_next tag idx ls : forall h : heap, hnext (write_seq mk h tag idx ls) = hnext h.
Proof. induction ls; intros; unfold write_seq; fold (@write_seq V); auto. rewrite IHls. reflexivity. Qed.

Lemma write_seq_hext n tag idx ls : forall h : heap, hext n ls h (write_seq mk h tag idx ls).
Proof.
  induction ls as [|l r IH]; intros h; unfold write_seq; fold (@write_seq V).
  - apply hext_refl.
  - eapply hext_weaken.
    + eapply hext_trans; [apply (write_hext n h l)|apply IH].
    + intros x Hx; exact Hx.
Qed.

(* ------------------------------------------------------------------ well-formedness *)
Definition has_src (t : traj) : Prop := t_poses t <> None \/ (t_pos t <> None /\ t_quat t <> None).
Definition wf_traj (n : nat) (t : traj) : Prop := Forall (fun l => l < n) (reach_traj t) /\ has_src t.
Definition wf_obj (n : nat) (o : obj) : Prop :=
  match o with OTraj t => wf_traj n t | OBag c => Forall (fun l => l < n) c end.
Definition wf_state (st : state) : Prop := Forall (wf_obj (hnext (hp st))) (objs st).

Lemma wf_obj_reach n o : wf_obj n o -> Forall (fun l => l < n) (reach o).
Proof. destruct o; cbn; [intros [A _]; exact A|auto]. Qed.

Lemma wf_obj_mono n m o : n <= m -> wf_obj n o -> wf_obj m o.
Proof.
  intros L. destruct o; cbn.
  - intros [A B]; split; auto. eapply Forall_impl; [|exact A]. cbn; intros; lia.
  - intros A. eapply Forall_impl; [|exact A]. cbn; intros; lia.
Qed.

Lemma wf_state_nth st i o : wf_state st -> nth_error (objs st) i = Some o -> wf_obj (hnext (hp st)) o.
Proof. intros W E. eapply Forall_forall in W; eauto. eapply nth_error_In; eauto. Qed.

(* ------------------------------------------------------------------ views depend only on reachable cells *)
Lemma map_ext_in' (f g : loc -> V) ls : (forall l, In l ls -> f l = g l) -> map f ls = map g ls.
Proof. intros; apply map_ext_in; auto. Qed.

Lemma obs_ext (h h' : heap) o :
  (forall l, In l (reach o) -> hval h' l = hval h l) -> obs mk h' o = obs mk h o.
Proof.
  destruct o as [t|c]; cbn; intros E.
  - f_equal. unfold obs_traj, obs_pos, obs_quat, obs_poses, oval, reach_traj, poses_all, poses_cells in *.
    destruct t as [n pos quat poses stamps meta proj]; cbn in *.
    assert (Ep : map (hval h') (oloc pos) = map (hval h) (oloc pos)).
    { apply map_ext_in'. intros; apply E; apply in_or_app; auto. }
    assert (Eq : map (hval h') (oloc quat) = map (hval h) (oloc quat)).
    { apply map_ext_in'. intros; apply E; apply in_or_app; right; apply in_or_app; auto. }
    assert (Es : map (hval h') (oloc stamps) = map (hval h) (oloc stamps)).
    { apply map_ext_in'. intros; apply E. do 3 (apply in_or_app; right). apply in_or_app; auto. }
    assert (Em : hval h' meta = hval h meta).
    { apply E. do 4 (apply in_or_app; right). left; auto. }
    assert (Ec : map (hval h') (match poses with Some (_, ps) => ps | None => [] end) =
                 map (hval h) (match poses with Some (_, ps) => ps | None => [] end)).
    { apply map_ext_in'. intros l Hl; apply E. do 2 (apply in_or_app; right). apply in_or_app; left.
      destruct poses as [[lid ps]|]; cbn in *; auto. }
    rewrite Es, Em.
    destruct pos as [lp|], quat as [lq|], poses as [[lid ps]|]; cbn in *;
      repeat match goal with H : [_] = [_] |- _ => injection H as H end;
      repeat match goal with H : hval h' _ = hval h _ |- _ => rewrite H end;
      try rewrite Ec; reflexivity.
  - f_equal. apply map_ext_in'. auto.
Qed.

(* ------------------------------------------------------------------ list helpers *)
Lemma hext_base_mono n m W (h h' : heap) : n <= m -> hext m W h h' -> hext n W h h'.
Proof. intros L [A B]; split; auto. intros; apply B; auto; lia. Qed.

Lemma Forall_lt_mono n m (ls : list loc) : n <= m -> Forall (fun l => l < n) ls -> Forall (fun l => l < m) ls.
Proof. intros L A. eapply Forall_impl; [|exact A]. cbn; intros; lia. Qed.

Lemma Forall_seq_range a b (P : nat -> Prop) : (forall l, a <= l < a + b -> P l) -> Forall P (seq a b).
Proof. intros H. apply Forall_forall. intros x Hx. apply in_seq in Hx. auto. Qed.

Lemma In_firstn {A} (x : A) : forall n l, In x (firstn n l) -> In x l.
Proof. induction n; intros [|a l] H; cbn in *; try contradiction; auto. destruct H; auto. Qed.
Lemma In_skipn {A} (x : A) : forall n l, In x (skipn n l) -> In x l.
Proof. induction n; intros [|a l] H; cbn in *; try contradiction; auto. Qed.

Lemma select_incl ps ids l : In l (select ps ids) -> In l ps.
Proof.
  unfold select. rewrite in_flat_map. intros (i & _ & Hi).
  destruct (nth_error ps i) eqn:E; cbn in Hi; [|contradiction].
  destruct Hi as [<-|[]]. eapply nth_error_In; eauto.
Qed.

Lemma Forall_select (P : loc -> Prop) ps ids : Forall P ps -> Forall P (select ps ids).
Proof.
  intros H. apply Forall_forall. intros l Hl. apply select_incl in Hl. rewrite Forall_forall in H. auto.
Qed.

Lemma slices_incl ps bounds : forall start g l, In g (slices ps bounds start) -> In l g -> In l ps.
Proof.
  induction bounds as [|b r IH]; intros start g l Hg Hl; cbn in Hg; [contradiction|].
  destruct Hg as [<-|Hg].
  - apply In_firstn in Hl. eapply In_skipn; eauto.
  - eapply IH; eauto.
Qed.

Lemma set_nth_length {A} (x : A) l : forall i, length (set_nth i x l) = length l.
Proof. induction l; intros [|i]; cbn; auto. Qed.

Lemma set_nth_same {A} (x : A) l : forall i, i < length l -> nth_error (set_nth i x l) i = Some x.
Proof. induction l; intros [|i] H; cbn in *; try lia; auto. apply IHl; lia. Qed.

Lemma set_nth_other {A} (x : A) l : forall i j, j <> i -> nth_error (set_nth i x l) j = nth_error l j.
Proof. induction l; intros [|i] [|j] H; cbn in *; auto; try congruence. Qed.

Lemma set_nth_Forall {A} (P : A -> Prop) (x : A) l : forall i, Forall P l -> P x -> Forall P (set_nth i x l).
Proof.
  induction l; intros [|i] H Hx; cbn; auto; inversion H; subst; constructor; auto.
Qed.

(* ------------------------------------------------------------------ tactics for footprints *)
Ltac forall_hyps :=
  repeat match goal with
  | H : Forall _ (_ ++ _) |- _ => apply Forall_app in H; destruct H
  | H : Forall _ (_ :: _) |- _ => apply Forall_cons_iff in H; destruct H
  | H : Forall _ [] |- _ => clear H
  end.

Ltac in_solve := repeat (progress (cbn; rewrite ?in_app_iff)); tauto.

Ltac forall_bound :=
  repeat first
    [ apply Forall_nil
    | apply Forall_cons; [lia|]
    | apply Forall_app; split
    | apply Forall_select
    | (eapply Forall_lt_mono; [|eassumption]; lia)
    | (apply Forall_seq_range; intros; lia)
    | (eapply Forall_impl; [|eassumption]; cbn; intros; lia) ].

Ltac forall_of :=
  repeat first
    [ apply Forall_nil
    | apply Forall_cons; [first [right; lia | left; in_solve]|]
    | apply Forall_app; split
    | apply Forall_select
    | (apply Forall_seq_range; intros; right; lia)
    | (apply Forall_forall; intros; left; in_solve) ].

Definition cache_le (t t' : traj) : Prop :=
  t_n t' = t_n t /\ t_stamps t' = t_stamps t /\ t_meta t' = t_meta t /\ t_proj t' = t_proj t /\
  (forall l, t_pos t = Some l -> t_pos t' = Some l) /\
  (forall l, t_quat t = Some l -> t_quat t' = Some l) /\
  (forall p, t_poses t = Some p -> t_poses t' = Some p).

Lemma cache_le_refl t : cache_le t t.
Proof. unfold cache_le; intuition. Qed.

Lemma wf_traj_lt n t l : wf_traj n t -> In l (reach_traj t) -> l < n.
Proof. intros [A _] H. rewrite Forall_forall in A. auto. Qed.

Lemma obs_traj_ext (h h' : heap) t :
  (forall l, In l (reach_traj t) -> hval h' l = hval h l) -> obs_traj mk h' t = obs_traj mk h t.
Proof. intros E. pose proof (obs_ext h h' (OTraj t) E) as H. cbn in H. congruence. Qed.

(* ------------------------------------------------------------------ lazy properties *)
Lemma fill_spec g (h : heap) t h' t' :
  fill mk g h t = (h', t') -> wf_traj (hnext h) t ->
  hext (hnext h) [] h h' /\ wf_traj (hnext h') t' /\
  Forall (fun l => In l (reach_traj t) \/ hnext h <= l) (reach_traj t') /\
  obs_traj mk h' t' = obs_traj mk h t /\ cache_le t t'.
Proof.
  intros E WF.
  assert (TRIV : (h', t') = (h, t) ->
     hext (hnext h) [] h h' /\ wf_traj (hnext h') t' /\
     Forall (fun l => In l (reach_traj t) \/ hnext h <= l) (reach_traj t') /\
     obs_traj mk h' t' = obs_traj mk h t /\ cache_le t t').
  { intros X; inversion X; subst. split; [apply hext_refl|]. split; [exact WF|]. split.
    - apply Forall_forall; intros; left; auto.
    - split; [reflexivity|apply cache_le_refl]. }
  destruct t as [n pos quat poses stamps meta proj].
  unfold fill in E; cbn in E.
  destruct g.
  - (* positions_xyz *)
    destruct pos as [lp|]; [apply TRIV; congruence|]. clear TRIV.
    destruct (alloc h _) as [h1 l] eqn:E1. inversion E; subst; clear E.
    pose proof (alloc_hext (hnext h) _ _ _ _ E1 (le_n _)) as HX.
    apply alloc_spec in E1 as (-> & N1 & V1 & O1).
    assert (EXT : forall x, In x (reach_traj (mkTraj n None quat poses stamps meta proj)) -> hval h' x = hval h x).
    { intros x Hx. apply O1. pose proof (wf_traj_lt _ _ _ WF Hx). lia. }
    pose proof (obs_traj_ext h h' _ EXT) as OE.
    destruct WF as [WF SRC].
    destruct SRC as [S|[S _]]; [|cbn in S; congruence]. cbn in S.
    destruct poses as [[lid ps]|]; [|congruence].
    split; [exact HX|]. split; [split|].
    + unfold reach_traj in *; cbn in *. rewrite N1. forall_hyps. forall_bound.
    + left; cbn; congruence.
    + split.
      * unfold reach_traj; cbn. forall_of.
      * split; [|unfold cache_le; cbn; intuition congruence].
        assert (Eps : map (hval h') ps = map (hval h) ps).
        { apply map_ext_in'; intros x Hx; apply EXT; unfold reach_traj; in_solve. }
        unfold poses_cells in V1; cbn in V1. rewrite <- Eps in V1.
        rewrite <- OE. unfold obs_traj, obs_pos, obs_quat, obs_poses, poses_cells; cbn.
        rewrite V1. reflexivity.
  - (* orientations_quat_wxyz *)
    destruct quat as [lq|]; [apply TRIV; congruence|]. clear TRIV.
    destruct (alloc h _) as [h1 l] eqn:E1. inversion E; subst; clear E.
    pose proof (alloc_hext (hnext h) _ _ _ _ E1 (le_n _)) as HX.
    apply alloc_spec in E1 as (-> & N1 & V1 & O1).
    assert (EXT : forall x, In x (reach_traj (mkTraj n pos None poses stamps meta proj)) -> hval h' x = hval h x).
    { intros x Hx. apply O1. pose proof (wf_traj_lt _ _ _ WF Hx). lia. }
    pose proof (obs_traj_ext h h' _ EXT) as OE.
    destruct WF as [WF SRC].
    destruct SRC as [S|[_ S]]; [|cbn in S; congruence]. cbn in S.
    destruct poses as [[lid ps]|]; [|congruence].
    split; [exact HX|]. split; [split|].
    + unfold reach_traj in *; cbn in *. rewrite N1. forall_hyps. forall_bound.
    + left; cbn; congruence.
    + split.
      * unfold reach_traj; cbn. forall_of.
      * split; [|unfold cache_le; cbn; intuition congruence].
        assert (Eps : map (hval h') ps = map (hval h) ps).
        { apply map_ext_in'; intros x Hx; apply EXT; unfold reach_traj; in_solve. }
        unfold poses_cells in V1; cbn in V1. rewrite <- Eps in V1.
        rewrite <- OE. unfold obs_traj, obs_pos, obs_quat, obs_poses, poses_cells; cbn.
        rewrite V1. reflexivity.
  - (* poses_se3 *)
    destruct poses as [p|]; [apply TRIV; congruence|]. clear TRIV.
    destruct (alloc h _) as [h1 lid] eqn:E1.
    destruct (alloc_list h1 _) as [h2 ls] eqn:E2. inversion E; subst; clear E.
    pose proof (alloc_hext (hnext h) _ _ _ _ E1 (le_n _)) as HX1.
    apply alloc_spec in E1 as (-> & N1 & V1 & O1).
    assert (L1 : hnext h <= hnext h1) by lia.
    pose proof (alloc_list_hext (hnext h) _ _ _ _ E2 L1) as HX2.
    apply alloc_list_spec in E2 as (-> & N2 & M2 & O2).
    rewrite map_length, seq_length in *.
    assert (EXT : forall x, In x (reach_traj (mkTraj n pos quat None stamps meta proj)) -> hval h' x = hval h x).
    { intros x Hx. pose proof (wf_traj_lt _ _ _ WF Hx). rewrite O2 by lia. apply O1. lia. }
    pose proof (obs_traj_ext h h' _ EXT) as OE.
    destruct WF as [WF SRC].
    destruct SRC as [S|[S1 S2]]; [cbn in S; congruence|]. cbn in S1, S2.
    destruct pos as [lp|]; [|congruence]. destruct quat as [lq|]; [|congruence].
    split; [exact (hext_nil_trans _ _ _ _ HX1 HX2)|]. split; [split|].
    + unfold reach_traj in *; cbn in *. forall_hyps. forall_bound.
    + left; cbn; congruence.
    + split.
      * unfold reach_traj; cbn. forall_of.
      * split; [|unfold cache_le; cbn; intuition congruence].
        assert (Elp : hval h' lp = hval h lp) by (apply EXT; unfold reach_traj; in_solve).
        assert (Elq : hval h' lq = hval h lq) by (apply EXT; unfold reach_traj; in_solve).
        unfold oval in M2; cbn in M2. rewrite <- Elp, <- Elq in M2.
        rewrite <- OE. unfold obs_traj, obs_pos, obs_quat, obs_poses, poses_cells, oval; cbn.
        rewrite M2. reflexivity.
Qed.

(* ------------------------------------------------------------------ in-place methods *)
Definition tstep_ok (c : cfg) (h : heap) (t : traj) (h' : heap) (t' : traj) (W : list loc) : Prop :=
  hext (hnext h) W h h' /\ wf_traj (hnext h') t' /\
  Forall (fun l => In l (reach_traj t) \/ hnext h <= l) (reach_traj t') /\
  Forall (fun l => (c_inplace_project c = true /\ In l (reach_traj t)) \/ hnext h <= l) W.

Lemma tstep_trans c h t h1 t1 W1 h2 t2 W2 :
  tstep_ok c h t h1 t1 W1 -> tstep_ok c h1 t1 h2 t2 W2 -> tstep_ok c h t h2 t2 (W1 ++ W2).
Proof.
  intros (X1 & F1 & R1 & WW1) (X2 & F2 & R2 & WW2).
  assert (L : hnext h <= hnext h1) by (destruct X1; auto).
  split; [|split; [exact F2|split]].
  - eapply hext_trans; [exact X1|]. eapply hext_base_mono; [|exact X2]. exact L.
  - rewrite Forall_forall in *. intros l Hl. destruct (R2 l Hl) as [A|A].
    + destruct (R1 l A); [left; assumption|right; lia].
    + right; lia.
  - rewrite Forall_forall in *. intros l Hl. apply in_app_or in Hl. destruct Hl as [Hl|Hl].
    + apply WW1; exact Hl.
    + destruct (WW2 l Hl) as [[A B]|A].
      * destruct (R1 l B); [left; split; assumption|right; lia].
      * right; lia.
Qed.

Lemma fill_tstep c g h t h' t' :
  fill mk g h t = (h', t') -> wf_traj (hnext h) t -> tstep_ok c h t h' t' [].
Proof.
  intros E WF. destruct (fill_spec _ _ _ _ _ E WF) as (A & B & C & _).
  split; [exact A|split; [exact B|split; [exact C|constructor]]].
Qed.

Lemma fill_poses_some h t h' t' : fill mk GPoses h t = (h', t') -> t_poses t' <> None.
Proof.
  unfold fill. destruct (t_poses t) eqn:E.
  - intros X; inversion X; subst. congruence.
  - destruct (alloc h _). destruct (alloc_list _ _). intros X; inversion X; subst; cbn. congruence.
Qed.

Lemma rebuild_poses_spec tag (h : heap) ps h' lid ls :
  rebuild_poses mk tag h ps = (h', (lid, ls)) ->
  lid = hnext h /\ ls = seq (S (hnext h)) (length ps) /\ hnext h' = S (hnext h + length ps) /\
  (forall k, k < hnext h -> hval h' k = hval h k).
Proof.
  unfold rebuild_poses. destruct (alloc h _) as [h1 l] eqn:E1. destruct (alloc_list h1 _) as [h2 ls2] eqn:E2.
  intros X; inversion X; subst; clear X.
  apply alloc_spec in E1 as (-> & N1 & _ & O1).
  apply alloc_list_spec in E2 as (-> & N2 & _ & O2).
  rewrite map_length in *. rewrite N1 in *. repeat split; auto; try lia.
  intros k Hk. rewrite O2 by lia. apply O1. lia.
Qed.

Ltac destr_allocs :=
  repeat match goal with
  | E : context[alloc ?h ?v] |- _ =>
      let h1 := fresh "hh" in let l := fresh "l" in let E1 := fresh "EA" in
      destruct (alloc h v) as [h1 l] eqn:E1; apply alloc_spec in E1 as (-> & ? & ? & ?); cbn in E
  | E : context[alloc_list ?h ?vs] |- _ =>
      let h1 := fresh "hh" in let l := fresh "ls" in let E1 := fresh "EA" in
      destruct (alloc_list h vs) as [h1 l] eqn:E1; apply alloc_list_spec in E1 as (-> & ? & ? & ?); cbn in E
  | E : context[rebuild_poses ?mk ?tag ?h ?ps] |- _ =>
      let h1 := fresh "hh" in let lid := fresh "lid" in let l := fresh "ls" in let E1 := fresh "EA" in
      destruct (rebuild_poses mk tag h ps) as [h1 [lid l]] eqn:E1;
      apply rebuild_poses_spec in E1 as (-> & -> & ? & ?); cbn in E
  end.

Ltac chain_eq :=
  repeat match goal with
  | O : forall k, k < hnext ?a -> hval ?b k = hval ?a k |- context[hval ?b ?l] => rewrite (O l) by lia
  | O : forall k, k <> hnext ?a -> hval ?b k = hval ?a k |- context[hval ?b ?l] => rewrite (O l) by lia
  end; try reflexivity.

Ltac norm_len := repeat (progress (cbn [length] in *; rewrite ?map_length, ?seq_length, ?app_length in *)).

Ltac solve_hext := split; [norm_len; lia|]; intros ? ? ?; norm_len; chain_eq.
Ltac solve_src := unfold has_src; cbn; first [left; congruence | right; split; congruence].

Lemma write_seq_spec tag idx ls (h : heap) :
  hnext (write_seq mk h tag idx ls) = hnext h /\
  forall k, ~ In k ls -> hval (write_seq mk h tag idx ls) k = hval h k.
Proof.
  split; [apply write_seq_next|].
  intros k Hk. destruct (write_seq_hext (S k) tag idx ls h) as [_ B]. apply B; auto.
Qed.

Lemma transform_core_spec c rm prop sim3 h t h' t' W :
  transform_core mk rm prop sim3 h t = (h', t', W) -> wf_traj (hnext h) t -> tstep_ok c h t h' t' W.
Proof.
  intros E [WF SRC]. destruct t as [n pos quat poses stamps meta proj].
  unfold transform_core, poses_cells in E; cbn in E.
  unfold reach_traj in WF; cbn in WF.
  destruct poses as [[lid ps]|]; cbn in *; forall_hyps;
  destruct rm, prop, sim3; cbn in E; try destruct ps as [|p0 rest]; cbn in E; destr_allocs;
  inversion E; subst; clear E; norm_len;
  (split; [solve_hext|split; [split; [unfold reach_traj; cbn; forall_hyps; norm_len; forall_bound|solve_src]
                            |split; [unfold reach_traj; cbn; norm_len; forall_of|constructor]]]).
Qed.

Lemma project_core_spec c plane h t h' t' W :
  project_core mk c plane h t = (h', t', W) -> wf_traj (hnext h) t -> t_poses t <> None -> tstep_ok c h t h' t' W.
Proof.
  intros E [WF SRC] SOME. destruct t as [n pos quat poses stamps meta proj].
  unfold project_core, poses_cells in E; cbn in E, SOME.
  unfold reach_traj in WF; cbn in WF.
  destruct poses as [[lid ps]|]; [|congruence]. cbn in *. forall_hyps.
  destruct (c_inplace_project c) eqn:CI; cbn in E.
  - (* old: in place on the cells of the list *)
    injection E as <- <- <-.
    destruct (write_seq_spec tg_proj plane ps h) as [N O].
    split; [|split; [split|split]].
    + eapply hext_weaken; [apply write_seq_hext|]. auto.
    + unfold reach_traj; cbn. rewrite N. forall_bound.
    + solve_src.
    + unfold reach_traj; cbn. forall_of.
    + apply Forall_forall. intros l Hl. left. split; [first [assumption|reflexivity]|]. unfold reach_traj; in_solve.
  - (* new: private copies, then in place on the copies *)
    destr_allocs.
    injection E as <- <- <-.
    match goal with |- tstep_ok _ _ _ (write_seq _ ?hh _ _ ?ls) _ _ =>
      destruct (write_seq_spec tg_proj plane ls hh) as [N O] end.
    norm_len.
    split; [|split; [split|split]].
    + split; [rewrite N; lia|]. intros l Hl _. rewrite O.
      * chain_eq.
      * rewrite in_seq. lia.
    + unfold reach_traj; cbn. rewrite N. norm_len. forall_bound.
    + solve_src.
    + unfold reach_traj; cbn. norm_len. forall_of.
    + apply Forall_seq_range. intros; right; lia.
Qed.

Lemma mutate_spec c p h t h' t' W :
  mutate mk c p h t = (h', t', W) -> wf_traj (hnext h) t -> tstep_ok c h t h' t' W.
Proof.
  intros E WF. destruct p as [rm prop sim3| |plane|ids]; unfold mutate in E.
  - (* transform *)
    destruct (fill mk GPoses h t) as [h0 t0] eqn:EF.
    pose proof (fill_tstep c _ _ _ _ _ EF WF) as S1.
    assert (WF0 : wf_traj (hnext h0) t0) by (destruct S1 as (_ & X & _); exact X).
    pose proof (transform_core_spec c _ _ _ _ _ _ _ _ E WF0) as S2.
    exact (tstep_trans _ _ _ _ _ _ _ _ _ S1 S2).
  - (* scale *)
    destruct WF as [WF SRC]. destruct t as [n pos quat poses stamps meta proj].
    unfold reach_traj in WF; cbn in WF. unfold derive_opt in E. cbn in E.
    destruct pos as [lp|], poses as [[lid ps]|]; cbn in *; forall_hyps; destr_allocs;
    inversion E; subst; clear E; norm_len;
    (split; [solve_hext|split; [split; [unfold reach_traj; cbn; forall_hyps; norm_len; forall_bound|
                                          unfold has_src in *; cbn in *; intuition congruence]
                              |split; [unfold reach_traj; cbn; norm_len; forall_of|constructor]]]).
  - (* project *)
    destruct (t_proj t) eqn:PJ.
    + inversion E; subst; clear E. split; [apply hext_refl|split; [exact WF|split; [|constructor]]].
      apply Forall_forall; intros; left; auto.
    + destruct (fill mk GPoses h t) as [h0 t0] eqn:EF.
      pose proof (fill_tstep c _ _ _ _ _ EF WF) as S1.
      assert (WF0 : wf_traj (hnext h0) t0) by (destruct S1 as (_ & X & _); exact X).
      pose proof (project_core_spec c _ _ _ _ _ _ E WF0 (fill_poses_some _ _ _ _ EF)) as S2.
      exact (tstep_trans _ _ _ _ _ _ _ _ _ S1 S2).
  - (* reduce_to_ids *)
    destruct WF as [WF SRC]. destruct t as [n pos quat poses stamps meta proj].
    unfold reach_traj in WF; cbn in WF. unfold derive_opt in E. cbn in E.
    destruct pos as [lp|], quat as [lq|], poses as [[lid ps]|], stamps as [ls|]; cbn in *; forall_hyps; destr_allocs;
    inversion E; subst; clear E; norm_len;
    (split; [solve_hext|split; [split; [unfold reach_traj; cbn; forall_hyps; norm_len; forall_bound|
                                          unfold has_src in *; cbn in *; intuition congruence]
                              |split; [unfold reach_traj; cbn; norm_len; forall_of|constructor]]]).
Qed.

(* ------------------------------------------------------------------ creation of objects *)
Lemma assoc_loc_in l memo l' : assoc_loc l memo = Some l' -> In (l, l') memo.
Proof.
  induction memo as [|[a b] r IH]; cbn; [discriminate|].
  destruct (Nat.eqb_spec a l).
  - intros X; inversion X; subst; auto.
  - auto.
Qed.

Lemma copy_cells_cons (h : heap) memo l r :
  copy_cells mk h memo (l :: r) =
  match assoc_loc l memo with
  | Some l' => let (h2, r') := copy_cells mk h memo r in (h2, l' :: r')
  | None => let (h1, l') := alloc h (mk tg_copy 0 [hval h l]) in
            let (h2, r') := copy_cells mk h1 ((l, l') :: memo) r in (h2, l' :: r')
  end.
Proof. reflexivity. Qed.

Lemma copy_cells_spec n0 ls : forall (h : heap) memo h' ls',
  copy_cells mk h memo ls = (h', ls') -> n0 <= hnext h ->
  Forall (fun ab => n0 <= snd ab < hnext h) memo ->
  hnext h <= hnext h' /\ (forall k, k < hnext h -> hval h' k = hval h k) /\
  Forall (fun l => n0 <= l < hnext h') ls'.
Proof.
  induction ls as [|l r IH]; intros h memo h' ls' E L M.
  - inversion E; subst. repeat split; auto.
  - rewrite copy_cells_cons in E. destruct (assoc_loc l memo) as [l1|] eqn:A.
    + destruct (copy_cells mk h memo r) as [h2 r'] eqn:E2. inversion E; subst; clear E.
      destruct (IH _ _ _ _ E2 L M) as (A1 & A2 & A3). repeat split; auto.
      constructor; auto. apply assoc_loc_in in A. rewrite Forall_forall in M. specialize (M _ A). cbn in M. lia.
    + destruct (alloc h _) as [h1 l1] eqn:E1.
      destruct (copy_cells mk h1 ((l, l1) :: memo) r) as [h2 r'] eqn:E2. inversion E; subst; clear E.
      apply alloc_spec in E1 as (-> & N1 & V1 & O1).
      assert (L1 : n0 <= hnext h1) by lia.
      assert (M1 : Forall (fun ab => n0 <= snd ab < hnext h1) ((l, hnext h) :: memo)).
      { constructor; [cbn; lia|]. eapply Forall_impl; [|exact M]. cbn; intros; lia. }
      destruct (IH _ _ _ _ E2 L1 M1) as (A1 & A2 & A3). repeat split; try lia.
      * intros k Hk. rewrite A2 by lia. apply O1. lia.
      * constructor; auto. lia.
Qed.

Lemma copy_traj_spec (h : heap) t h' t' :
  copy_traj mk h t = (h', t') -> wf_traj (hnext h) t ->
  hext (hnext h) [] h h' /\ wf_traj (hnext h') t' /\ Forall (fun l => hnext h <= l) (reach_traj t').
Proof.
  intros E [WF SRC]. destruct t as [n pos quat poses stamps meta proj].
  unfold copy_traj, copy_opt in E. cbn in E. unfold reach_traj in WF; cbn in WF.
  destruct pos as [lp|], quat as [lq|], poses as [[lid ps]|], stamps as [ls|]; cbn in *; forall_hyps; destr_allocs;
  try match goal with
  | E : context[copy_cells ?mk ?h [] ?ps] |- _ =>
      let h1 := fresh "hc" in let l := fresh "lc" in let E1 := fresh "EC" in
      destruct (copy_cells mk h [] ps) as [h1 l] eqn:E1;
      apply (copy_cells_spec (hnext h)) in E1 as (? & ? & ?); [|lia|constructor]; cbn in E
  end; destr_allocs;
  inversion E; subst; clear E; norm_len;
  (split; [solve_hext|split; [split; [unfold reach_traj; cbn; forall_hyps; norm_len; forall_bound|
                                        unfold has_src in *; cbn in *; intuition congruence]
                            |unfold reach_traj; cbn; norm_len; forall_bound]]).
Qed.

Lemma make_parts_spec groups : forall (h : heap) stamps h' ts,
  make_parts mk h stamps groups = (h', ts) ->
  Forall (fun l => l < hnext h) (oloc stamps) ->
  Forall (fun g => Forall (fun l => l < hnext h) g) groups ->
  hnext h <= hnext h' /\ (forall k, k < hnext h -> hval h' k = hval h k) /\ Forall (wf_obj (hnext h')) ts.
Proof.
  induction groups as [|g r IH]; intros h stamps h' ts E S G; cbn in E.
  - inversion E; subst. repeat split; auto.
  - destruct (make_part mk h stamps g) as [h1 t] eqn:E1.
    destruct (make_parts mk h1 stamps r) as [h2 ts2] eqn:E2. inversion E; subst; clear E.
    inversion G as [|? ? Gg Gr]; subst.
    unfold make_part, copy_opt in E1.
    assert (P1 : hnext h <= hnext h1 /\ (forall k, k < hnext h -> hval h1 k = hval h k) /\ wf_traj (hnext h1) t).
    { destruct stamps as [ls|]; cbn in *; forall_hyps; destr_allocs; inversion E1; subst; clear E1; norm_len;
      (split; [lia|split; [intros; chain_eq|split; [unfold reach_traj; cbn; forall_bound|solve_src]]]). }
    destruct P1 as (L1 & O1 & W1).
    assert (S1 : Forall (fun l => l < hnext h1) (oloc stamps)) by (eapply Forall_lt_mono; [|exact S]; lia).
    assert (G1 : Forall (fun g => Forall (fun l => l < hnext h1) g) r).
    { eapply Forall_impl; [|exact Gr]. cbn; intros; eapply Forall_lt_mono; [|eassumption]; lia. }
    destruct (IH _ _ _ _ E2 S1 G1) as (L2 & O2 & W2).
    split; [lia|split].
    + intros k Hk. rewrite O2 by lia. apply O1; lia.
    + constructor; auto. cbn. destruct W1 as [A B]; split; auto. eapply Forall_lt_mono; [|exact A]. lia.
Qed.

Definition fresh_kind (d : knew) : bool :=
  match d with NInit _ _ _ | NCopy _ | NMerge _ | NCtorPQ _ | NBag _ => true | _ => false end.

Lemma get_traj_wf (st : state) i t : wf_state st -> get_traj st i = Some t -> wf_traj (hnext (hp st)) t.
Proof.
  unfold get_traj. intros W E. destruct (nth_error (objs st) i) as [[t0|c]|] eqn:N; try discriminate.
  inversion E; subst. exact (wf_state_nth _ _ _ W N).
Qed.

Lemma create_spec d (st : state) h' news :
  create mk d st = (h', news) -> wf_state st ->
  hext (hnext (hp st)) [] (hp st) h' /\ Forall (wf_obj (hnext h')) news /\
  (fresh_kind d = true ->
     Forall (fun o => Forall (fun l => hnext (hp st) <= l) (reach o)) news /\ length news <= 1).
Proof.
  intros E WS. destruct st as [h os]. cbn [hp] in *.
  assert (TRIV : (h', news) = (h, []) ->
    hext (hnext h) [] h h' /\ Forall (wf_obj (hnext h')) news /\
    (fresh_kind d = true -> Forall (fun o => Forall (fun l => hnext h <= l) (reach o)) news /\ length news <= 1)).
  { intros X; inversion X; subst. split; [apply hext_refl|split; [constructor|]]. intros _. split; [constructor|cbn; lia]. }
  destruct d as [mode n stamped|src|src cuts|srcs|src sm|src|k|src]; unfold create in E; cbn [hp objs] in E.
  - (* NInit *)
    destruct stamped, mode as [|mode]; cbn in E; destr_allocs; inversion E; subst; clear E; norm_len;
    (split; [solve_hext|split; [constructor; [|constructor]; cbn; split; [unfold reach_traj; cbn; norm_len; forall_bound|solve_src]
                               |intros _; split; [constructor; [|constructor]; cbn; unfold reach_traj; cbn; norm_len; forall_bound|cbn; lia]]]).
  - (* NCopy *)
    destruct (nth_error os src) as [[t|c]|] eqn:N; [| |apply TRIV; congruence].
    + destruct (copy_traj mk h t) as [h1 t1] eqn:EC. inversion E; subst; clear E.
      pose proof (wf_state_nth (mkState h os) _ _ WS N) as WT. cbn in WT.
      destruct (copy_traj_spec _ _ _ _ EC WT) as (A & B & C).
      split; [exact A|split; [constructor; [exact B|constructor]|]]. intros _. split; [constructor; [exact C|constructor]|cbn; lia].
    + destruct (copy_cells mk h [] c) as [h1 c1] eqn:EC. inversion E; subst; clear E.
      apply (copy_cells_spec (hnext h)) in EC as (A & B & C); [|lia|constructor].
      split; [split; [lia|intros; apply B; lia]|split; [constructor; [|constructor]|]].
      * cbn. eapply Forall_impl; [|exact C]. cbn; intros; lia.
      * intros _. split; [constructor; [|constructor]|cbn; lia]. cbn. eapply Forall_impl; [|exact C]. cbn; intros; lia.
  - (* NParts *)
    destruct (get_traj (mkState h os) src) as [t|] eqn:G; [|apply TRIV; congruence].
    destruct (t_poses t) as [[lid ps]|] eqn:P; [|apply TRIV; congruence].
    pose proof (get_traj_wf _ _ _ WS G) as [WT _]. cbn in WT.
    unfold reach_traj, poses_all in WT. rewrite P in WT. forall_hyps.
    apply make_parts_spec in E.
    + destruct E as (A & B & C). split; [split; [exact A|intros; apply B; lia]|split; [exact C|]]. cbn. discriminate.
    + assumption.
    + apply Forall_forall. intros g Hg. apply Forall_forall. intros l Hl.
      pose proof (slices_incl _ _ _ _ _ Hg Hl) as Hin.
      match goal with H : Forall _ ps |- _ => rewrite Forall_forall in H; apply H; exact Hin end.
  - (* NMerge *)
    cbn in E. destr_allocs. inversion E; subst; clear E.
    split; [solve_hext|split; [constructor; [|constructor]; cbn; split; [unfold reach_traj; cbn; forall_bound|solve_src]|]].
    intros _. split; [constructor; [|constructor]; cbn; unfold reach_traj; cbn; forall_bound|cbn; lia].
  - (* NCtorPoses *)
    destruct (get_traj (mkState h os) src) as [t|] eqn:G; [|apply TRIV; congruence].
    destruct (t_poses t) as [[lid ps]|] eqn:P; [|apply TRIV; congruence].
    pose proof (get_traj_wf _ _ _ WS G) as [WT _]. cbn in WT.
    unfold reach_traj, poses_all in WT. rewrite P in WT. unfold copy_opt in E.
    destruct (t_stamps t) as [ls|], sm; cbn in *; forall_hyps; destr_allocs; inversion E; subst; clear E;
    (split; [solve_hext|split; [constructor; [|constructor]; cbn; split; [unfold reach_traj; cbn; forall_bound|solve_src]
                               |cbn; discriminate]]).
  - (* NCtorPQ *)
    destruct (get_traj (mkState h os) src) as [t|] eqn:G; [|apply TRIV; congruence].
    destruct (t_pos t) as [lp|] eqn:P; [|apply TRIV; congruence].
    destruct (t_quat t) as [lq|] eqn:Q; [|apply TRIV; congruence].
    pose proof (get_traj_wf _ _ _ WS G) as [WT _]. cbn in WT.
    unfold reach_traj in WT. rewrite P, Q in WT. unfold copy_opt in E.
    destruct (t_stamps t) as [ls|]; cbn in *; forall_hyps; destr_allocs; inversion E; subst; clear E;
    (split; [solve_hext|split; [constructor; [|constructor]; cbn; split; [unfold reach_traj; cbn; forall_bound|solve_src]
                               |intros _; split; [constructor; [|constructor]; cbn; unfold reach_traj; cbn; forall_bound|cbn; lia]]]).
  - (* NBag *)
    destr_allocs. inversion E; subst; clear E. norm_len.
    split; [solve_hext|split; [constructor; [|constructor]; cbn; norm_len; forall_bound|]].
    intros _. split; [constructor; [|constructor]; cbn; norm_len; forall_bound|cbn; lia].
  - (* NBagShare *)
    destruct (nth_error os src) as [[t|c]|] eqn:N; try (apply TRIV; congruence).
    inversion E; subst; clear E.
    pose proof (wf_state_nth (mkState h' os) _ _ WS N) as WT. cbn in WT.
    split; [apply hext_refl|split; [constructor; [exact WT|constructor]|cbn; discriminate]].
Qed.

(* ------------------------------------------------------------------ micro steps on the state *)
Definition obs_at (st : state) (j : nat) : option (view V) :=
  option_map (obs mk (hp st)) (nth_error (objs st) j).

Definition micro_subject (k : micro) : option nat :=
  match k with KFill i _ | KMut i _ | KRebind i _ => Some i | _ => None end.

Definition cache_le_obj (o o' : obj) : Prop :=
  match o, o' with
  | OTraj t, OTraj t' => cache_le t t'
  | OBag c, OBag c' => c = c'
  | _, _ => False
  end.

Definition micro_post (c : cfg) (k : micro) (st st' : state) (W : list loc) (res : list nat) : Prop :=
  let n := hnext (hp st) in
  hext n W (hp st) (hp st') /\
  wf_state st' /\
  length (objs st) <= length (objs st') /\
  (forall j, j < length (objs st) -> micro_subject k <> Some j -> nth_error (objs st') j = nth_error (objs st) j) /\
  (forall i o, micro_subject k = Some i -> nth_error (objs st) i = Some o ->
      exists o', nth_error (objs st') i = Some o' /\
                 Forall (fun l => In l (reach o) \/ n <= l) (reach o') /\
                 (forall g, k = KFill i g -> obs mk (hp st') o' = obs mk (hp st) o /\ cache_le_obj o o')) /\
  Forall (fun l => n <= l \/ (c_inplace_project c = true /\
                              exists i p o, k = KMut i p /\ nth_error (objs st) i = Some o /\ In l (reach o))) W /\
  (forall j o, length (objs st) <= j -> nth_error (objs st') j = Some o ->
      exists d, k = KNew d /\
                (fresh_kind d = true -> Forall (fun l => n <= l) (reach o) /\ length (objs st') <= S (length (objs st)))) /\
  (forall r, In r res -> (exists i, k = KAlias i) \/ length (objs st) <= r < length (objs st')).

Lemma wf_state_mono (h h' : heap) os : hnext h <= hnext h' -> wf_state (mkState h os) -> Forall (wf_obj (hnext h')) os.
Proof. intros L W. unfold wf_state in W; cbn in W. eapply Forall_impl; [|exact W]. intros; eapply wf_obj_mono; eauto. Qed.

Lemma nth_error_lt {A} (l : list A) i x : nth_error l i = Some x -> i < length l.
Proof. intros E. apply nth_error_Some. congruence. Qed.

Lemma micro_post_id c k (st : state) :
  wf_state st -> (forall d, k <> KNew d) -> micro_post c k st st [] [].
Proof.
  intros W NK. unfold micro_post. split; [apply hext_refl|split; [exact W|split; [lia|split; [auto|split; [|split; [constructor|split]]]]]].
  - intros i o _ E. exists o. split; [exact E|split].
    + apply Forall_forall; intros; left; auto.
    + intros g _. split; [reflexivity|]. destruct o; cbn; [apply cache_le_refl|reflexivity].
  - intros j o L E. apply nth_error_lt in E. lia.
  - intros r [].
Qed.

Lemma micro_ok c k (st st' : state) W res :
  wf_state st -> exec_micro mk c k st = (st', W, res) -> micro_post c k st st' W res.
Proof.
  intros WS E. destruct st as [h os]. unfold exec_micro in E.
  destruct k as [i g|i p|d|i kk|i|i]; cbn [hp objs] in E.
  - (* KFill *)
    destruct (get_traj (mkState h os) i) as [t|] eqn:G;
      [|inversion E; subst; apply micro_post_id; [exact WS|discriminate]].
    destruct (fill mk g h t) as [h1 t1] eqn:EF. inversion E; subst; clear E.
    pose proof (get_traj_wf _ _ _ WS G) as WT. cbn in WT.
    destruct (fill_spec _ _ _ _ _ EF WT) as (A & B & C & D & CL).
    unfold get_traj in G; cbn in G. destruct (nth_error os i) as [[t0|c0]|] eqn:N; try discriminate.
    inversion G; subst t0; clear G. pose proof (nth_error_lt _ _ _ N) as LI.
    unfold micro_post; cbn [hp objs micro_subject].
    split; [exact A|split; [|split; [rewrite set_nth_length; lia|split; [|split; [|split; [constructor|split]]]]]].
    + unfold wf_state; cbn. apply set_nth_Forall; [|exact B]. apply (wf_state_mono h); [destruct A; auto|exact WS].
    + intros j _ NE. apply set_nth_other. congruence.
    + intros i0 o X N0. inversion X; subst i0. rewrite N in N0; inversion N0; subst o.
      exists (OTraj t1). split; [apply set_nth_same; exact LI|split; [exact C|]].
      intros g0 _. split; [cbn; f_equal; exact D|exact CL].
    + intros j o L X. apply nth_error_lt in X. rewrite set_nth_length in X. lia.
    + intros r [].
  - (* KMut *)
    destruct (get_traj (mkState h os) i) as [t|] eqn:G;
      [|inversion E; subst; apply micro_post_id; [exact WS|discriminate]].
    destruct (mutate mk c p h t) as [[h1 t1] W1] eqn:EM. inversion E; subst; clear E.
    pose proof (get_traj_wf _ _ _ WS G) as WT. cbn in WT.
    destruct (mutate_spec _ _ _ _ _ _ _ EM WT) as (A & B & C & D).
    unfold get_traj in G; cbn in G. destruct (nth_error os i) as [[t0|c0]|] eqn:N; try discriminate.
    inversion G; subst t0; clear G. pose proof (nth_error_lt _ _ _ N) as LI.
    unfold micro_post; cbn [hp objs micro_subject].
    split; [exact A|split; [|split; [rewrite set_nth_length; lia|split; [|split; [|split; [|split]]]]]].
    + unfold wf_state; cbn. apply set_nth_Forall; [|exact B]. apply (wf_state_mono h); [destruct A; auto|exact WS].
    + intros j _ NE. apply set_nth_other. congruence.
    + intros i0 o X N0. inversion X; subst i0. rewrite N in N0; inversion N0; subst o.
      exists (OTraj t1). split; [apply set_nth_same; exact LI|split; [exact C|]].
      intros g0 X0. discriminate.
    + eapply Forall_impl; [|exact D]. cbn. intros l [[CI HL]|HL]; [right|left; exact HL].
      split; [exact CI|]. exists i, p, (OTraj t). auto.
    + intros j o L X. apply nth_error_lt in X. rewrite set_nth_length in X. lia.
    + intros r [].
  - (* KNew *)
    destruct (create mk d (mkState h os)) as [h1 news] eqn:EC. inversion E; subst; clear E.
    destruct (create_spec _ _ _ _ EC WS) as (A & B & C). cbn [hp objs] in *.
    unfold micro_post; cbn [hp objs micro_subject].
    split; [exact A|split; [|split; [rewrite app_length; lia|split; [|split; [|split; [constructor|split]]]]]].
    + unfold wf_state; cbn. apply Forall_app; split; [|exact B]. apply (wf_state_mono h); [destruct A; auto|exact WS].
    + intros j L _. apply nth_error_app1. exact L.
    + intros i0 o X. discriminate.
    + intros j o L X. exists d. split; [reflexivity|]. intros FK. destruct (C FK) as [C1 C2].
      rewrite nth_error_app2 in X by exact L. apply nth_error_In in X.
      rewrite Forall_forall in C1. split; [apply C1; exact X|rewrite app_length; lia].
    + intros r Hr. right. apply in_seq in Hr. rewrite app_length. lia.
  - (* KRebind *)
    destruct (nth_error os i) as [[t0|c0]|] eqn:N;
      try (inversion E; subst; apply micro_post_id; [exact WS|discriminate]).
    destr_allocs. inversion E; subst; clear E. norm_len. pose proof (nth_error_lt _ _ _ N) as LI.
    unfold micro_post; cbn [hp objs micro_subject].
    split; [solve_hext|split; [|split; [rewrite set_nth_length; lia|split; [|split; [|split; [constructor|split]]]]]].
    + unfold wf_state; cbn. apply set_nth_Forall; [|cbn; norm_len; forall_bound].
      apply (wf_state_mono h); [lia|exact WS].
    + intros j _ NE. apply set_nth_other. congruence.
    + intros i0 o X N0. inversion X; subst i0. rewrite N in N0; inversion N0; subst o.
      eexists. split; [apply set_nth_same; exact LI|split].
      * cbn. norm_len. apply Forall_seq_range. intros; right; lia.
      * intros g0 X0. discriminate.
    + intros j o L X. apply nth_error_lt in X. rewrite set_nth_length in X. lia.
    + intros r [].
  - (* KScratch *)
    destruct (nth_error os i) as [[t0|[|l0 c0]]|] eqn:N;
      try (inversion E; subst; apply micro_post_id; [exact WS|discriminate]).
    destr_allocs. inversion E; subst; clear E.
    unfold micro_post; cbn [hp objs micro_subject write hval hnext].
    split; [|split; [|split; [lia|split; [auto|split; [|split; [|split]]]]]].
    + split; [cbn; lia|]. intros l Hl Hn. cbn. unfold upd.
      destruct (Nat.eqb_spec l (hnext h)); [lia|]. chain_eq.
    + unfold wf_state; cbn. apply (wf_state_mono h); [lia|exact WS].
    + intros i0 o X. discriminate.
    + constructor; [left; lia|constructor].
    + intros j o L X. apply nth_error_lt in X. lia.
    + intros r [].
  - (* KAlias *)
    inversion E; subst; clear E.
    unfold micro_post; cbn [hp objs micro_subject].
    split; [apply hext_refl|split; [exact WS|split; [lia|split; [auto|split; [|split; [constructor|split]]]]]].
    + intros i0 o X. discriminate.
    + intros j o L X. apply nth_error_lt in X. lia.
    + intros r Hr. left. exists i. reflexivity.
Qed.

End Proofs.
