"""C01 - APE values equal the definition (evo/core/metrics.py APE, evo/main_ape.py) vs the Coq model Evo.Metrics."""
import argparse
import copy
import math
import os
import shutil
import tempfile

import numpy as np

from harness import common, pyast_metrics, steps
from harness.common import cf, close, differential, hexf, unhex
from harness.props.c09 import H, U, cm3, cv3, rand_rot, rot_from_quat

ID = "C01"
IMPORTS = "From Evo Require Import Num Linalg Lie Metrics.\n"
COQ_TARGETS = ["theories/MetricsProofs.vo", "generated/StepsC01.vo", "theories/MetricsTieApe.vo", "generated/LieGen.vo", "generated/MetricsGen.vo"]
TRUSTED = ["model Evo.Metrics written by hand from APE.process_data; ties: (T) harness/pyast_metrics.py re-translates APE.ape_base and the error construction + per-relation reduction of APE.process_data (and harness/pyast_np.py the lie_algebra helpers) from the current source on every run; Evo.MetricsTieApe proves the translated per-pair value equal to the model's ape_pair for every number system and angle oracle; (H) differential run in binary64 (tolerances below), with an independent numpy evaluation of the definition deciding whether a disagreement is a violation",
           "scipy's rotation-angle extraction is an oracle: compared through cos(angle) = (tr E - 1)/2 and sin(angle) = |vee(E - E^T)|/2",
           "CLI clause: the processed trajectories are produced by evo's own components (each tied to its model by C04/C05/C11/C14), "
           "orchestrated independently by the harness in the documented order; the order/wiring inside main_ape.ape/run and "
           "common.downsample_or_filter is re-extracted from the source AST on every run (generated/StepsC01.v) and must equal "
           "the documented order (theorems C01_step_order_*)",
           "real-vs-binary64 gap measured, not proved"]
ASSUMPTIONS = ["poses are SE(3) (rotation blocks from normalised quaternions)"]
RELS = ["full_transformation", "translation_part", "rotation_part", "rotation_angle_rad", "rotation_angle_deg",
        "point_distance", "point_distance_error_ratio"]

WATCH_APE = ["align", "align_origin", "project", "process_data", "change_unit", "get_result", "add_trajectory",
             "add_np_array", "sim3", "APE", "RPE", "reduce_to_ids", "dot"]
WATCH_RUN = ["load_trajectories", "downsample_or_filter", "reduce_to_time_range", "associate_trajectories", "ape", "rpe",
             "save_res_file", "get_pose_relation", "get_delta_unit", "deepcopy"]


def regenerate(ctx):
    try:
        defs = [("main_ape_ape", steps.extract("evo/main_ape.py", "ape", WATCH_APE)),
                ("main_ape_run", steps.extract("evo/main_ape.py", "run", WATCH_RUN)),
                ("downsample_or_filter", steps.extract("evo/common_ape_rpe.py", "downsample_or_filter",
                                                       ["downsample", "motion_filter"]))]
    except (steps.StepError, OSError, SyntaxError) as e:
        defs = [("main_ape_ape", ["<extraction failed: %s>" % e]), ("main_ape_run", []), ("downsample_or_filter", [])]
    steps.write_generated("StepsC01", defs)
    return pyast_metrics.regenerate_ties(ctx, common.REPO, common.COQ, only=pyast_metrics.METRIC_HELPERS, metrics="ape")


# ------------------------------------------------------------------ helpers
def cposes(ps):
    return "[" + "; ".join("(mkPose %s %s)" % (cm3(p[:3, :3]), cv3(p[:3, 3])) for p in ps) + "]"


def mk_poses(rng, n, scale, offset, rot_mode="random"):
    out = []
    r = rand_rot(rng)
    for k in range(n):
        if rot_mode == "random":
            r = rand_rot(rng)
        elif rot_mode == "smooth":
            r = r @ rot_from_quat(np.array([1.0, *(rng.normal(size=3) * 0.05)]))
        p = np.eye(4)
        p[:3, :3] = r
        p[:3, 3] = offset + rng.normal(size=3) * scale
        out.append(p)
    return out


def perturb(rng, poses, ang, trans):
    out = []
    for p in poses:
        q = p.copy()
        ax = rng.normal(size=3)
        ax /= np.linalg.norm(ax)
        h = ang / 2
        q[:3, :3] = p[:3, :3] @ rot_from_quat(np.array([math.cos(h), *(math.sin(h) * ax)]))
        q[:3, 3] = p[:3, 3] + rng.normal(size=3) * trans
        out.append(q)
    return out


def traj_from(poses, stamps=None):
    from evo.core.trajectory import PosePath3D, PoseTrajectory3D
    if stamps is None:
        return PosePath3D(poses_se3=[p.copy() for p in poses])
    return PoseTrajectory3D(poses_se3=[p.copy() for p in poses], timestamps=np.array(stamps, dtype=float))


def model_exprs(rel, ref, est):
    """the model with angle_of := cos and := sin (|skew part|), rad2deg := id"""
    cosf = "(fun r => nadd (cos_angle r) (nadd n1 n1))"   # shifted by 2: the model takes abs() of the angle
    sinf = "(fun r => norm (skew_part r))"
    idf = "(fun x => x)"
    R, E = cposes(ref), cposes(est)
    if rel in ("rotation_angle_rad", "rotation_angle_deg"):
        return "(ape %s %s %s %s %s, ape %s %s %s %s %s)" % (cosf, idf, rel, R, E, sinf, idf, rel, R, E)
    return "(ape %s %s %s %s %s, @None (list float))" % (cosf, idf, rel, R, E)


def compare_errors(rel, impl_err, model_val, scale):
    """None if the implementation's error array matches the model value (Some list / None)"""
    mc, ms = model_val
    if mc is None:
        return "model refuses but the implementation returned values" if impl_err is not None else None
    if impl_err is None:
        return "implementation refused but the model returns values"
    vals = mc[1] if isinstance(mc, tuple) and mc[0] == "Some" else mc
    if len(vals) != len(impl_err):
        return "number of values differs: impl %d, model %d" % (len(impl_err), len(vals))
    if rel in ("rotation_angle_rad", "rotation_angle_deg"):
        sins = ms[1] if isinstance(ms, tuple) and ms[0] == "Some" else ms
        for k, (a, c, s) in enumerate(zip(impl_err, vals, sins)):
            if rel == "rotation_angle_deg":
                a = math.radians(a)
            if not (-1e-12 <= a <= math.pi + 1e-9):
                return "angle outside [0, pi] at %d" % k
            if not close(math.cos(a), c - 2.0, atol=1e-12, rtol=0) or not close(abs(math.sin(a)), s, atol=1e-9, rtol=0):
                return "angle at %d: impl %r vs model cos %r sin %r" % (k, a, c, s)
        return None
    for k, (a, m) in enumerate(zip(impl_err, vals)):
        if not close(a, m, rtol=1e-9, atol=1e-12 * scale + 1e-13):
            return "value %d: impl %r vs model %r" % (k, a, m)
    return None


def np_reduce(rel, E):
    """the definition of the statement, evaluated with plain numpy on a relative pose E (independent of evo and of the
    Coq model): used to decide whether a model/implementation disagreement is a violation of the property"""
    R = E[:3, :3]
    if rel in ("translation_part", "point_distance"):
        return float(np.linalg.norm(E[:3, 3]))
    if rel == "rotation_part":
        return float(np.linalg.norm(R - np.eye(3)))
    if rel == "full_transformation":
        return float(np.linalg.norm(E - np.eye(4)))
    w = np.array([R[2, 1] - R[1, 2], R[0, 2] - R[2, 0], R[1, 0] - R[0, 1]])
    ang = math.atan2(float(np.linalg.norm(w)) / 2.0, (float(np.trace(R)) - 1.0) / 2.0)
    return math.degrees(ang) if rel == "rotation_angle_deg" else ang


def np_ape(rel, ref, est):
    return [np_reduce(rel, np.linalg.inv(q) @ p) for q, p in zip(ref, est)]


# ------------------------------------------------------------------ implementation side
def _scratch():
    return tempfile.mkdtemp(prefix="evo_verif_c01_")


def write_tum(path, poses, stamps):
    from evo.tools import file_interface
    file_interface.write_tum_trajectory_file(path, traj_from(poses, stamps), confirm_overwrite=False)


def impl(case):
    from evo.core import metrics
    from evo.core.metrics import PoseRelation
    kind = case["kind"]
    ref = [U(p, (4, 4)) for p in case["ref"]]
    est = [U(p, (4, 4)) for p in case["est"]]
    rel = getattr(PoseRelation, case["rel"])
    try:
        if kind == "ape":
            tr, te = traj_from(ref), traj_from(est)
            snap = (copy.deepcopy(tr.poses_se3), copy.deepcopy(te.poses_se3))
            out = {}
            try:
                m = metrics.APE(rel)
                m.process_data((tr, te))
                out["error"] = [hexf(x) for x in m.error]
            except metrics.MetricsException as e:
                out["refused"] = str(e)[:60]
            out["unchanged"] = all((a == b).all() for a, b in zip(snap[0], tr.poses_se3)) and \
                all((a == b).all() for a, b in zip(snap[1], te.poses_se3))
            if case.get("laws") and "error" in out:
                # the "hence" clauses measured on the implementation
                T = U(case["T"], (4, 4))
                def run(a, b):
                    mm_ = metrics.APE(rel)
                    mm_.process_data((traj_from(a), traj_from(b)))
                    return [float(x) for x in mm_.error]
                out["moved"] = [hexf(x) for x in run([T @ p for p in ref], [T @ p for p in est])]
                m.process_data((tr, tr))    # the same metric object applied to other data, then again to the first pair
                m.process_data((tr, te))
                out["again"] = [hexf(x) for x in m.error]
                out["swapped"] = [hexf(x) for x in run(est, ref)]
                out["self"] = [hexf(x) for x in run(ref, ref)]
            return out
        if kind == "ape_fn":
            return impl_fn(case, ref, est, rel)
        if kind == "ape_cli":
            return impl_cli(case, ref, est)
    except Exception as e:  # noqa
        import traceback
        return {"exception": type(e).__name__ + ": " + str(e)[:200] + traceback.format_exc()[-300:]}
    raise ValueError(kind)


def _opts(case):
    o = case["opts"]
    return dict(align=o["align"], correct_scale=o["correct_scale"], n_to_align=o["n_to_align"],
                align_origin=o["align_origin"])


def _independent_processing(case, tr, te):
    """documented order: align -> origin align -> project(ref), project(est) (evo components, own orchestration)"""
    from evo.core.trajectory import Plane
    o = case["opts"]
    only_scale = o["correct_scale"] and not o["align"]
    if o["align"] or o["correct_scale"]:
        te.align(tr, o["correct_scale"], only_scale, n=o["n_to_align"])
    if o["align_origin"]:
        te.align_origin(tr)
    if o["plane"]:
        tr.project(Plane(o["plane"]))
        te.project(Plane(o["plane"]))
    return tr, te


def impl_fn(case, ref, est, rel):
    from evo import main_ape
    from evo.core import metrics
    from evo.core.trajectory import Plane
    o = case["opts"]
    stamps = [unhex(x) for x in case["stamps"]]
    tr, te = traj_from(ref, stamps), traj_from(est, stamps)
    indep_refusal = None
    if case.get("pre_plane"):   # objects that were projected before: a requested projection has to be refused
        from evo.core.trajectory import TrajectoryException
        tr.project(Plane(case["pre_plane"]))
        if case.get("pre_both"):
            te.project(Plane(case["pre_plane"]))
        try:
            _independent_processing(case, copy.deepcopy(tr), copy.deepcopy(te))
        except TrajectoryException as e:
            indep_refusal = e
        try:
            res = main_ape.ape(tr, te, rel, project_to_plane=Plane(o["plane"]) if o["plane"] else None,
                               ref_name="ref", est_name="est", **_opts(case))
        except TrajectoryException:
            return {"both_refused": "TrajectoryException"} if indep_refusal is not None else {"refused": "TrajectoryException"}
        if indep_refusal is not None:
            return {"not_refused": res.info["title"]}
    ir, ie = _independent_processing(case, copy.deepcopy(tr), copy.deepcopy(te))
    unit = getattr(metrics.Unit, o["unit"]) if o["unit"] else None
    try:
        res = main_ape.ape(tr, te, rel, change_unit=unit, project_to_plane=Plane(o["plane"]) if o["plane"] else None,
                           ref_name="ref", est_name="est", **_opts(case))
    except metrics.MetricsException as e:
        return {"refused": str(e)[:80]}
    sr, se = res.trajectories["ref"], res.trajectories["est"]
    return {"error": [hexf(x) for x in res.np_arrays["error_array"]],
            "stored_ref": [H(p) for p in sr.poses_se3], "stored_est": [H(p) for p in se.poses_se3],
            "indep_ref": [H(p) for p in ir.poses_se3], "indep_est": [H(p) for p in ie.poses_se3],
            "timestamps_ok": bool(np.array_equal(res.np_arrays["timestamps"], se.timestamps)),
            "n": int(se.num_poses), "title": res.info["title"], "label": res.info["label"]}


class WrongRefusal(Exception):
    pass


def associate_or_wrong_refusal(tr, te, max_diff, offset):
    """evo's own association (property C05), but a SyncException is only accepted as a legitimate refusal when a plain
    numpy comparison of all stamp pairs confirms that nothing lies within max_diff (with a margin for the boundary)"""
    from evo.core import sync
    d = np.abs(np.asarray(tr.timestamps)[:, None] - (np.asarray(te.timestamps)[None, :] + offset))
    possible = bool((d <= max_diff * (1 - 1e-6)).any())
    try:
        return sync.associate_trajectories(tr, te, max_diff, offset)
    except sync.SyncException as e:
        if possible:
            raise WrongRefusal("time association refused (%s) although %d stamp pairs lie within max_diff = %r after the offset %r"
                               % (str(e)[:60], int((d <= max_diff * (1 - 1e-6)).sum()), max_diff, offset))
        raise


def impl_cli(case, ref, est):
    from evo import main_ape
    from evo.core import sync
    from evo.core.metrics import PoseRelation
    from evo.tools import file_interface
    from evo.tools.settings import SETTINGS
    o = case["opts"]
    d = _scratch()
    try:
        sref = [unhex(x) for x in case["stamps_ref"]]
        sest = [unhex(x) for x in case["stamps_est"]]
        fmt = case["fmt"]
        rp, ep = os.path.join(d, "ref.txt"), os.path.join(d, "est.txt")
        write_tum(ep, est, sest)
        if fmt == "tum":
            write_tum(rp, ref, sref)
        elif fmt == "euroc":
            from evo.core import transformations as tfm
            with open(rp, "w") as f:
                f.write("#timestamp [ns],p_x,p_y,p_z,q_w,q_x,q_y,q_z,v,v,v,b,b,b,b,b,b\n")
                for p, t in zip(ref, sref):
                    q = tfm.quaternion_from_matrix(p)
                    f.write(",".join([str(int(round(t * 1e9)))] + [repr(float(x)) for x in list(p[:3, 3]) + list(q)]
                                     + ["0"] * 9) + "\n")
        elif fmt == "kitti":
            tr0, te0 = traj_from(ref), traj_from(est)
            file_interface.write_kitti_poses_file(rp, tr0, confirm_overwrite=False)
            file_interface.write_kitti_poses_file(ep, te0, confirm_overwrite=False)
        zp = os.path.join(d, "res.zip")
        args = argparse.Namespace(
            subcommand=fmt, ref_file=rp, est_file=ep, state_gt_csv=rp, pose_relation=case["cli_rel"],
            align=o["align"], correct_scale=o["correct_scale"], n_to_align=o["n_to_align"], align_origin=o["align_origin"],
            change_unit=o["unit"], project_to_plane=o["plane"], plot_full_ref=False, downsample=o["downsample"],
            motion_filter=o["motion_filter"], t_start=o["t_start"], t_end=o["t_end"], t_max_diff=o["t_max_diff"],
            t_offset=o["t_offset"], plot=False, save_plot=None, serialize_plot=None, save_results=zp, no_warnings=True,
            verbose=False, silent=True, debug=False, logfile=None, config=None, plot_mode="xyz", plot_x_dimension="index",
            plot_colormap_max=None, plot_colormap_min=None, plot_colormap_max_percentile=None, ros_map_yaml=None,
            map_tile=None, save_as_tum=False)
        save_flag = SETTINGS.save_traj_in_zip
        SETTINGS.save_traj_in_zip = True
        try:
            refusal = None
            if case.get("warmup") and fmt != "kitti":
                # an earlier evaluation of the same files in this process with a reducing option: must not influence the next one
                warm = argparse.Namespace(**vars(args))
                warm.t_end, warm.save_results = sref[len(sref) // 2], os.path.join(d, "warm.zip")
                warm.downsample, warm.motion_filter = None, None
                try:
                    main_ape.run(warm)
                except Exception:  # noqa
                    pass
            try:
                main_ape.run(args)
            except Exception as e:  # noqa
                refusal = e
            if refusal is None:
                res = file_interface.load_res_file(zp, load_trajectories=True)
        finally:
            SETTINGS.save_traj_in_zip = save_flag
        def indep():
            if fmt == "kitti":
                tr, te = file_interface.read_kitti_poses_file(rp), file_interface.read_kitti_poses_file(ep)
            elif fmt == "euroc":
                tr, te = file_interface.read_euroc_csv_trajectory(rp), file_interface.read_tum_trajectory_file(ep)
            else:
                tr, te = file_interface.read_tum_trajectory_file(rp), file_interface.read_tum_trajectory_file(ep)
            if o["downsample"]:
                tr.downsample(o["downsample"])
                te.downsample(o["downsample"])
            if o["motion_filter"]:
                tr.motion_filter(o["motion_filter"][0], o["motion_filter"][1], True)
                te.motion_filter(o["motion_filter"][0], o["motion_filter"][1], True)
            if fmt != "kitti":
                if o["t_start"] or o["t_end"]:
                    tr.reduce_to_time_range(o["t_start"], o["t_end"])
                tr, te = associate_or_wrong_refusal(tr, te, o["t_max_diff"], o["t_offset"])
            tr, te = _independent_processing(case, tr, te)
            return tr, te
        try:
            tr, te = indep()
        except WrongRefusal as e2:
            return {"wrong_refusal": str(e2)}
        except Exception as e2:  # noqa
            if refusal is not None and type(e2) is type(refusal):
                return {"both_refused": type(e2).__name__}
            raise
        if refusal is not None:
            return {"refused": type(refusal).__name__}
        names = list(res.trajectories.keys())
        sr = res.trajectories[[k for k in names if k.endswith("ref.txt")][0]]
        se = res.trajectories[[k for k in names if k.endswith("est.txt")][0]]
        out = {"error": [hexf(x) for x in res.np_arrays["error_array"]],
               "stored_ref": [H(p) for p in sr.poses_se3], "stored_est": [H(p) for p in se.poses_se3],
               "indep_ref": [H(p) for p in tr.poses_se3], "indep_est": [H(p) for p in te.poses_se3],
               "n": int(se.num_poses), "title": res.info["title"], "names": names}
        if fmt != "kitti":
            out["timestamps_ok"] = bool(np.array_equal(res.np_arrays["timestamps"], te.timestamps))
            if len(sr.timestamps) == len(se.timestamps) and len(sr.timestamps):
                # every stored pair must be a legitimate association: |t_ref - (t_est + t_offset)| <= t_max_diff
                out["pair_dt"] = hexf(float(np.abs(np.asarray(sr.timestamps) - (np.asarray(se.timestamps) + o["t_offset"])).max()))
        return out
    finally:
        shutil.rmtree(d, ignore_errors=True)


UNIT_FACTOR = {None: 1.0, "millimeters": 1000.0, "centimeters": 100.0, "meters": 1.0, "kilometers": 0.001}
CLI_REL = {"full": "full_transformation", "trans_part": "translation_part", "rot_part": "rotation_part",
           "angle_deg": "rotation_angle_deg", "angle_rad": "rotation_angle_rad", "point_distance": "point_distance"}


# ------------------------------------------------------------------ model side / judge
def expr(case, out):
    if case["kind"] == "ape":
        ref = [U(p, (4, 4)) for p in case["ref"]]
        est = [U(p, (4, 4)) for p in case["est"]]
        return model_exprs(case["rel"], ref, est)
    if "stored_ref" not in out:
        return "tt"
    ref = [U(p, (4, 4)) for p in out["stored_ref"]]
    est = [U(p, (4, 4)) for p in out["stored_est"]]
    return model_exprs(case["rel"], ref, est)


def _sv(d):
    return {"kind": "spec-violation", "failing_input": True, "detail": d}


def _mv(d, corr="Metrics.ape"):
    return {"kind": "model-vs-impl", "failing_input": False, "correspondence": corr, "detail": d}


def judge(case, val, out):
    if "exception" in out:
        return _sv("unexpected exception: " + out["exception"])
    rel = case["rel"]
    if case["kind"] == "ape":
        ref = [U(p, (4, 4)) for p in case["ref"]]
        scale = max([1.0] + [float(np.abs(p[:3, 3]).max()) for p in ref])
        if not out.get("unchanged", True):
            return _sv("APE.process_data modified its input trajectories")
        impl_err = [unhex(x) for x in out["error"]] if "error" in out else None
        d = compare_errors(rel, impl_err, val, scale)
        if d is not None:
            # a wrong count / refusal mismatch is a property failure by itself
            n_ok = impl_err is not None and len(impl_err) == len(case["ref"]) == len(case["est"])
            if len(case["ref"]) != len(case["est"]) and impl_err is not None:
                return _sv("sequences of different length were not refused")
            if impl_err is not None and not n_ok:
                return _sv("not exactly one value per pose: " + d)
            if impl_err is not None and compare_errors(rel, np_ape(rel, ref, [U(p, (4, 4)) for p in case["est"]]), val, scale) is None:
                # the Coq model and an independent numpy evaluation of the definition agree with each other
                return _sv("a value is not the definition applied to its reference/estimate pair (Coq model and an independent "
                           "numpy evaluation agree): " + d)
            return _mv(d)
        if "again" in out and out["again"] != out["error"]:
            return _sv("a metric object that had processed other data before returns different values (%d instead of %d)"
                       % (len(out["again"]), len(out["error"])))
        if case.get("laws") and impl_err is not None:
            tol = dict(rtol=1e-9, atol=1e-9 * scale)
            ang = rel.startswith("rotation_angle")
            atol = 1e-6 if ang else 1e-9 * scale   # angles near 0/pi are conditioned like sqrt(eps)
            for key, what in (("moved", "changed under a common rigid motion"), ("swapped", "changed when ref/est are swapped")):
                other = [unhex(x) for x in out[key]]
                if len(other) != len(impl_err) or any(not close(a, b, rtol=1e-9, atol=atol) for a, b in zip(impl_err, other)):
                    return _sv("APE " + what)
            if any(abs(unhex(x)) > (1e-6 if ang else 1e-9 * scale) for x in out["self"]):
                return _sv("APE of a trajectory against itself is not zero")
        return None
    # ape_fn / ape_cli
    if "both_refused" in out:
        return None
    if "wrong_refusal" in out:
        return _sv("evo_ape's processing refused although pose pairs remain: " + out["wrong_refusal"])
    if "not_refused" in out:
        return _sv("a projection was requested for trajectories that had been projected before; the projection step must "
                   "refuse, but evo_ape returned values (title %r) for pairs that are not the requested processing" % out["not_refused"])
    if "refused" in out:
        if case.get("expect_refusal"):
            return None
        return _sv("evo_ape refused a valid configuration: " + out["refused"])
    sr = [U(p, (4, 4)) for p in out["stored_ref"]]
    se = [U(p, (4, 4)) for p in out["stored_est"]]
    ir = [U(p, (4, 4)) for p in out["indep_ref"]]
    ie = [U(p, (4, 4)) for p in out["indep_est"]]
    scale = max([1.0] + [float(np.abs(p[:3, 3]).max()) for p in sr + ie])
    if len(sr) != len(ir) or len(se) != len(ie):
        return _sv("stored trajectories have %d/%d poses, documented processing order gives %d/%d" %
                   (len(sr), len(se), len(ir), len(ie)))
    for a, b in list(zip(sr, ir)) + list(zip(se, ie)):
        if not np.allclose(a, b, rtol=1e-9, atol=1e-9 * scale):
            return _sv("stored trajectories differ from the documented processing order (filter, associate, align, project)")
    impl_err = [unhex(x) for x in out["error"]]
    if len(impl_err) != len(se):
        return _sv("error array has %d values for %d remaining pose pairs" % (len(impl_err), len(se)))
    if out.get("timestamps_ok") is False:
        return _sv("timestamps array does not belong to the stored estimate")
    if "pair_dt" in out and unhex(out["pair_dt"]) > case["opts"]["t_max_diff"] * (1 + 1e-6) + 1e-9:
        return _sv("a stored reference/estimate pair is %.6g s apart after the requested time offset (t_max_diff = %r): the values "
                   "are not those of the associated pose pairs" % (unhex(out["pair_dt"]), case["opts"]["t_max_diff"]))
    fac = UNIT_FACTOR.get(case["opts"]["unit"], 1.0) if rel in ("translation_part", "point_distance") else 1.0
    if case["opts"]["unit"] == "degrees" and rel == "rotation_angle_rad":
        impl_err = [math.radians(x) for x in impl_err]
    if case["opts"]["unit"] == "radians" and rel == "rotation_angle_deg":
        impl_err = [math.degrees(x) for x in impl_err]
    d = compare_errors(rel, [x / fac for x in impl_err], val, scale)
    if d is not None:
        return _sv("stored error values are not the definition applied to the stored pose pairs: " + d)
    return None


# ------------------------------------------------------------------ generators
def gen(ctx):
    rng = ctx.np_rng(1)
    cases = []
    mult = ctx.n(1, 5)
    for i in range(150 * mult):
        n = int(rng.integers(1, ctx.n(40, 300)))
        if not ctx.quick and i % 60 == 0:
            n = int(rng.integers(2000, 10000))
        offset = rng.choice([0.0, 0.0, 4.5e5, 5.6e6]) * np.array([1.0, 1.0, 0.001])
        scale = float(10.0 ** rng.integers(-3, 4))
        ref = mk_poses(rng, n, scale, offset, rot_mode=str(rng.choice(["random", "smooth"])))
        mode = i % 6
        if mode == 0:
            est = perturb(rng, ref, float(rng.uniform(0, math.pi)), scale * 0.1)
        elif mode == 1:
            est = perturb(rng, ref, float(10.0 ** rng.uniform(-12, -6)), scale * 1e-6)     # angles next to 0
        elif mode == 2:
            est = perturb(rng, ref, math.pi - float(10.0 ** rng.uniform(-12, -6)), scale)   # angles next to pi
        elif mode == 3:
            est = mk_poses(rng, n, scale, offset)
        elif mode == 4:
            est = [p.copy() for p in ref]
        else:
            est = perturb(rng, ref, 0.3, 0.0)
        rel = RELS[i % 7]
        if n > 500:
            rel = RELS[i % 3]
        c = {"kind": "ape", "rel": rel, "ref": [H(p) for p in ref], "est": [H(p) for p in est]}
        if i % 5 == 0 and n <= 60 and rel != "point_distance_error_ratio":
            T = np.eye(4)
            T[:3, :3] = rand_rot(rng)
            T[:3, 3] = rng.normal(size=3) * scale
            c["laws"] = True
            c["T"] = H(T)
        cases.append(c)
    for i in range(12 * mult):   # unequal lengths must be refused
        n = int(rng.integers(1, 20))
        ref = mk_poses(rng, n, 1.0, 0.0)
        est = mk_poses(rng, n + int(rng.choice([-1, 1, 3])) if n > 1 else 2, 1.0, 0.0)
        cases.append({"kind": "ape", "rel": RELS[i % 7], "ref": [H(p) for p in ref], "est": [H(p) for p in est]})
    # the ape() function: all combinations of the boolean options x plane x unit (pairwise in quick)
    combos = []
    for align in (False, True):
        for cs in (False, True):
            for ao in (False, True):
                for plane in (None, "xy", "xz", "yz"):
                    combos.append((align, cs, ao, plane))
    rng.shuffle(combos)
    for i, (align, cs, ao, plane) in enumerate(combos[:ctx.n(20, 32)]):
        n = int(rng.integers(5, 40))
        ref = mk_poses(rng, n, 10.0, rng.choice([0.0, 4.5e5]), rot_mode="smooth")
        s = float(rng.choice([1.0, 0.5, 3.0]))
        est = perturb(rng, [np.vstack([np.hstack([p[:3, :3], (s * p[:3, 3:4])]), [[0, 0, 0, 1]]]) for p in ref], 0.1, 0.3)
        T = np.eye(4)
        T[:3, :3] = rand_rot(rng)
        T[:3, 3] = rng.normal(size=3) * 5
        est = [T @ p for p in est]
        rel = RELS[i % 6]
        unit = None
        if rel in ("translation_part", "point_distance") and i % 2:
            unit = str(rng.choice(["millimeters", "centimeters", "kilometers"]))
        if rel == "rotation_angle_rad" and i % 2:
            unit = "degrees"
        if rel == "rotation_angle_deg" and i % 2:
            unit = "radians"
        stamps = list(1.5e9 + np.cumsum(rng.uniform(0.05, 0.15, n)))
        cases.append({"kind": "ape_fn", "rel": rel, "ref": [H(p) for p in ref], "est": [H(p) for p in est],
                      "stamps": [hexf(x) for x in stamps],
                      "opts": {"align": align, "correct_scale": cs, "align_origin": ao, "plane": plane, "unit": unit,
                               "n_to_align": int(rng.choice([-1, -1, 3, n // 2 + 2]))}})
    for i in range(ctx.n(4, 12)):   # already projected inputs and a further requested projection
        base = dict(cases[-1 - i])
        planes = ["xy", "xz", "yz"]
        base["opts"] = dict(base["opts"], plane=planes[i % 3], unit=None)
        base["pre_plane"], base["pre_both"] = planes[(i + 1 + i // 3) % 3 if i % 4 else i % 3], bool(i % 2)
        cases.append(base)
    # the CLI: files -> run() -> zip
    cli_rels = list(CLI_REL.keys())
    for i in range(ctx.n(24, 120)):
        n = int(rng.integers(12, 60))
        ref = mk_poses(rng, n, 5.0, 0.0, rot_mode="smooth")
        for k, p in enumerate(ref):   # a moving trajectory so that the motion filter has something to do
            p[:3, 3] = [0.3 * k, math.sin(0.2 * k), 0.05 * k]
        est_full = perturb(rng, ref, 0.05, 0.05)
        fmt = ["tum", "tum", "euroc", "kitti"][i % 4]
        sref = list(1.5e9 + 0.1 * np.arange(n))
        if fmt == "euroc":
            sref = [round(t * 1e9) / 1e9 for t in sref]
        keep = sorted(rng.choice(n, size=max(6, n - int(rng.integers(0, n // 3))), replace=False).tolist())
        if fmt == "kitti":
            keep = list(range(n))
        toff = float(rng.choice([0.0, 0.0, 0.5, -0.25]))
        sest = [sref[k] + float(rng.uniform(-0.004, 0.004)) - toff for k in keep]
        est = [est_full[k] for k in keep]
        cli_rel = cli_rels[i % len(cli_rels)]
        opts = {"align": bool(i % 2), "correct_scale": bool((i // 2) % 3 == 0), "align_origin": bool(i % 5 == 0),
                "n_to_align": int(rng.choice([-1, -1, 5])), "plane": [None, None, "xy", "xz", "yz"][i % 5], "unit": None,
                "downsample": [None, None, 10, 25][(i // 3) % 4],
                "motion_filter": [None, [0.5, 5.0], None][(i // 4) % 3] if fmt != "kitti" else None,
                "t_start": None, "t_end": None, "t_max_diff": 0.01, "t_offset": toff if fmt != "kitti" else 0.0}
        if fmt != "kitti" and i % 6 == 1:
            # both pre-processing options at once, with thresholds that still drop poses after the down-sampling
            opts["downsample"] = max(8, (2 * n) // 3)
            opts["motion_filter"] = [float(rng.choice([0.7, 1.2])), 40.0]
        if fmt != "kitti" and i % 7 == 0:
            opts["t_start"], opts["t_end"] = sref[2], sref[-3]
        if cli_rel in ("trans_part", "point_distance") and i % 3 == 0:
            opts["unit"] = str(rng.choice(["millimeters", "centimeters", "kilometers"]))
        cases.append({"kind": "ape_cli", "rel": CLI_REL[cli_rel], "cli_rel": cli_rel, "fmt": fmt, "warmup": bool(i % 4 == 1),
                      "ref": [H(p) for p in ref], "est": [H(p) for p in est],
                      "stamps_ref": [hexf(x) for x in sref], "stamps_est": [hexf(x) for x in sest], "opts": opts})
    return cases


def shrink(case):
    if case["kind"] != "ape":
        return
    n = min(len(case["ref"]), len(case["est"]))
    if n > 1 and len(case["ref"]) == len(case["est"]):
        for cut in (n // 2, 1):
            for start in range(0, n, max(cut, 1)):
                c = dict(case)
                c["ref"] = case["ref"][:start] + case["ref"][start + cut:]
                c["est"] = case["est"][:start] + case["est"][start + cut:]
                if c["ref"]:
                    yield c


def nontrivial(case, val, out):
    return len(case["ref"]) >= 2 or case["kind"] != "ape"


def run(ctx, replay=None, proofs_ok=True):
    if not proofs_ok:   # the case files only need the executable model
        common.build_theories(targets=["theories/Metrics.vo"])
    if replay is not None and not replay.get("case"):
        return {"failures": [], "coverage": {"evaluations": 0, "distinct_nontrivial": 0, "rule": "replay of an obligation "
                "(no input case): the theorems were re-checked by the driver", "samples": []}}
    cases = [replay["case"]] if replay is not None else gen(ctx)
    failures, stats = differential(ctx, cases, imports=IMPORTS, impl=impl, expr=expr, judge=judge, shrink=shrink,
                                   nontrivial=nontrivial, per_file=40)
    hist = {}
    for c in cases:
        key = c["kind"] + ":" + c["rel"] + (":" + c.get("fmt", "") if c["kind"] == "ape_cli" else "")
        hist[key] = hist.get(key, 0) + 1
    small = lambda c: {k: (v if not isinstance(v, list) or len(v) < 4 else v[:2] + ["... %d more" % (len(v) - 2)]) for k, v in c.items()}
    cov = {"evaluations": stats["evaluations"], "distinct_nontrivial": stats["distinct_nontrivial"],
           "rule": "APE.process_data on random pose-sequence pairs (1..40 poses quick, up to 10^4 thorough; coordinates 1e-3..1e3 with "
                   "UTM-like offsets; relative angles random, within 1e-12..1e-6 of 0 and of pi, identical trajectories) x 7 relations "
                   "incl. unequal lengths and the three 'hence' laws; main_ape.ape() over combinations of align/correct_scale/"
                   "align_origin/plane/unit/n_to_align; main_ape.run() on TUM/EuRoC/KITTI files with downsample, motion filter, "
                   "time range, t_offset, projection, unit - values read back from the result zip; non-trivial = at least 2 poses",
           "samples": [small(cases[0]), small(cases[-1])], "input_distribution": hist,
           "disagreements": stats["disagreements"]}
    return {"failures": failures, "coverage": cov}


LEVEL_TEXT = ("Coq theorems over R for the APE model: refusal of unequal lengths, one value per pose in order equal to the per-pair "
              "definition, translation part = position distance, full^2 = rot^2 + trans^2, angle range, degrees scaling, zero on "
              "coinciding trajectories, invariance under a common rigid motion, invariance under swapping - for all sequences of any "
              "length. Tie: differential run of APE.process_data, main_ape.ape() and main_ape.run() (values read from the saved zip) "
              "against the model; step order/wiring of ape()/run() re-extracted from the source each run and proved equal to the "
              "documented order.")
LEVEL_NOTE = ("Trusted: Coq kernel/VM, Reals axioms + classic, hand model (tested correspondence), scipy angle extraction as oracle, "
              "evo's processing components (own properties), the AST step extractor; float rounding measured (tolerances), not proved.")
TECHNIQUE = "Coq proof (SE(3) algebra on records, list induction) + Python-AST translator of the metric kernels with translated = model proved + correspondence by vm_compute + AST step-order obligation"
