"""Translator tie (T) for numeric numpy code: translate a straight-line numpy function of the CURRENT source
(evo/core/geometry.py umeyama_alignment) statement by statement into a Gallina definition over the vocabulary of
coq/theories/NpDsl.v (coq/generated/UmeyamaGen.v).  The translation is typed (3 x n array, 3-vector, 3x3 matrix,
float scalar, compile-time int, nat, bool) and FAIL-CLOSED: any statement, expression, call, attribute or type
combination outside the table below raises Unsupported, which the check reports as a broken tie.
The theorems of coq/theories/UmeyamaTie.v are then re-checked against the regenerated definition."""
import ast
import os


class Unsupported(Exception):
    pass


# types: A = 3 x n array, V = 3-vector, M = 3x3 matrix, S = float scalar, I = compile-time int, N = nat, B = bool
class Val:
    def __init__(self, coq, ty, const=None):
        self.coq, self.ty, self.const = coq, ty, const

    def __repr__(self):
        return "Val(%r, %r, %r)" % (self.coq, self.ty, self.const)


def _p(s):
    return "(" + s + ")"


def to_S(v):
    """numeric promotion to a float scalar"""
    if v.ty == "S":
        return v.coq
    if v.ty == "I":
        if v.const == 0:
            return "n0"
        if v.const == 1:
            return "n1"
        if v.const == -1:
            return "(nopp n1)"
        return "(np_of_int (%d)%%Z)" % v.const
    if v.ty == "N":
        return "(np_of_nat %s)" % v.coq
    raise Unsupported("cannot use a value of type %s as a float scalar" % v.ty)


def to_N(v):
    if v.ty == "N":
        return v.coq
    if v.ty == "I" and v.const >= 0:
        return "%d" % v.const
    raise Unsupported("cannot use a value of type %s as a natural number" % v.ty)


class Translator:
    def __init__(self, dim=3, sigs=None):
        self.dim = dim
        self.sigs = sigs or {}      # sibling functions translated from the same module: name -> ([param types], return type)
        self.literals = {}          # float literals other than 0.0 / 1.0 become Section variables: coq name -> value

    def literal(self, v):
        name = "lit_" + repr(float(v)).replace("-", "m").replace(".", "p").replace("+", "")
        self.literals[name] = float(v)
        return name

    # ---------------------------------------------------------------- expressions
    def expr(self, e, env):
        m = getattr(self, "e_" + type(e).__name__, None)
        if m is None:
            raise Unsupported("expression %s (%s)" % (type(e).__name__, ast.unparse(e)))
        return m(e, env)

    def e_Name(self, e, env):
        if e.id not in env:
            raise Unsupported("unknown name %s" % e.id)
        return env[e.id]

    def e_Constant(self, e, env):
        v = e.value
        if isinstance(v, bool):
            return Val("true" if v else "false", "B")
        if isinstance(v, int):
            return Val(None, "I", v)
        if isinstance(v, float):
            if v == 1.0:
                return Val("n1", "S")
            if v == 0.0 and str(v) == "0.0":
                return Val("n0", "S")
            if v != v or v in (float("inf"), float("-inf")):
                raise Unsupported("float literal %r" % v)
            return Val(self.literal(v), "S")
        raise Unsupported("constant %r" % (v,))

    def e_UnaryOp(self, e, env):
        v = self.expr(e.operand, env)
        if isinstance(e.op, ast.USub):
            if v.ty == "I":
                return Val(None, "I", -v.const)
            if v.ty == "S":
                return Val("(nopp %s)" % v.coq, "S")
            if v.ty == "V":
                return Val("(vopp %s)" % v.coq, "V")
        if isinstance(e.op, ast.Not) and v.ty == "B":
            return Val("(negb %s)" % v.coq, "B")
        raise Unsupported("unary %s on %s" % (type(e.op).__name__, v.ty))

    def e_Attribute(self, e, env):
        if e.attr == "shape":
            v = self.expr(e.value, env)
            if v.ty == "A":
                return Val(v.coq, "SHAPE_A")
            if v.ty == "M":
                return Val(None, "TUPLE_I", (self.dim, self.dim))
            raise Unsupported(".shape of %s" % v.ty)
        if e.attr == "T":
            v = self.expr(e.value, env)
            if v.ty == "M":
                return Val("(mt %s)" % v.coq, "M")
            raise Unsupported(".T of %s" % v.ty)
        if e.attr == "eps":   # np.finfo(<float64 array>.dtype).eps
            c = e.value
            if isinstance(c, ast.Call) and ast.unparse(c.func) == "np.finfo" and len(c.args) == 1 and not c.keywords \
                    and isinstance(c.args[0], ast.Attribute) and c.args[0].attr == "dtype" \
                    and self.expr(c.args[0].value, env).ty in ("V", "M", "A"):
                return Val("eps", "S")
        raise Unsupported("attribute %s" % ast.unparse(e))

    def e_Compare(self, e, env):
        if len(e.ops) != 1:
            raise Unsupported("chained comparison")
        a, b, op = self.expr(e.left, env), self.expr(e.comparators[0], env), e.ops[0]
        if a.ty == "SHAPE_A" and b.ty == "SHAPE_A":
            if isinstance(op, ast.NotEq):
                return Val("(negb (np_shape_eqb %s %s))" % (a.coq, b.coq), "B")
            if isinstance(op, ast.Eq):
                return Val("(np_shape_eqb %s %s)" % (a.coq, b.coq), "B")
        if a.ty == "V" and b.ty == "S" and isinstance(op, ast.Gt):
            return Val((a.coq, b.coq), "V_GT_S")
        if a.ty in ("N", "I") and b.ty in ("N", "I") and isinstance(op, ast.Lt):
            return Val("(Nat.ltb %s %s)" % (to_N(a), to_N(b)), "B")
        if a.ty in ("S", "I", "N") and b.ty in ("S", "I", "N") and "S" in (a.ty, b.ty):
            if isinstance(op, ast.Lt):
                return Val("(%s <?! %s)" % (to_S(a), to_S(b)), "B")
            if isinstance(op, ast.Gt):
                return Val("(%s <?! %s)" % (to_S(b), to_S(a)), "B")
            if isinstance(op, ast.LtE):
                return Val("(%s <=?! %s)" % (to_S(a), to_S(b)), "B")
            if isinstance(op, ast.GtE):
                return Val("(%s <=?! %s)" % (to_S(b), to_S(a)), "B")
        raise Unsupported("comparison %s" % ast.unparse(e))

    def e_BinOp(self, e, env):
        a, b, op = self.expr(e.left, env), self.expr(e.right, env), e.op
        if a.ty == "I" and b.ty == "I":
            f = {ast.Add: lambda x, y: x + y, ast.Sub: lambda x, y: x - y, ast.Mult: lambda x, y: x * y}.get(type(op))
            if f is None:
                raise Unsupported("integer operator %s" % type(op).__name__)
            return Val(None, "I", f(a.const, b.const))
        num = ("S", "I", "N")
        if a.ty in num and b.ty in num:
            sym = {ast.Add: "+!", ast.Sub: "-!", ast.Mult: "*!", ast.Div: "/!"}.get(type(op))
            if sym:
                return Val("(%s %s %s)" % (to_S(a), sym, to_S(b)), "S")
            if isinstance(op, ast.Pow) and b.ty == "I" and b.const == 2:
                return Val("(np_pow2 %s)" % to_S(a), "S")
        if isinstance(op, ast.Mult) and a.ty in num and b.ty == "M":
            return Val("(mscale %s %s)" % (to_S(a), b.coq), "M")
        if isinstance(op, ast.Mult) and a.ty in num and b.ty == "V":
            return Val("(vscale %s %s)" % (to_S(a), b.coq), "V")
        if isinstance(op, ast.Sub):
            if a.ty == "A" and b.ty == "COLB":
                return Val("(np_sub_col %s %s)" % (a.coq, b.coq), "A")
            if a.ty == "V" and b.ty == "V":
                return Val("(vsub %s %s)" % (a.coq, b.coq), "V")
        if isinstance(op, ast.Add) and a.ty == "V" and b.ty == "V":
            return Val("(vadd %s %s)" % (a.coq, b.coq), "V")
        raise Unsupported("operator %s on %s, %s (%s)" % (type(op).__name__, a.ty, b.ty, ast.unparse(e)))

    def _is_full_slice(self, s):
        return isinstance(s, ast.Slice) and s.lower is None and s.upper is None and s.step is None

    def _upto(self, s_, n):
        return isinstance(s_, ast.Slice) and s_.lower is None and s_.step is None and isinstance(s_.upper, ast.Constant) and s_.upper.value == n

    def e_Subscript(self, e, env):
        v = self.expr(e.value, env)
        idx = e.slice
        if v.ty == "V" and not isinstance(idx, (ast.Tuple, ast.Slice)):
            i = self.expr(idx, env)
            if i.ty == "I" and 0 <= i.const < 3:
                return Val("(%s %s)" % (("vx", "vy", "vz")[i.const], v.coq), "S")
        if v.ty == "M" and isinstance(idx, ast.Tuple) and len(idx.elts) == 2 and not any(isinstance(x, ast.Slice) for x in idx.elts):
            i, j = self.expr(idx.elts[0], env), self.expr(idx.elts[1], env)
            if i.ty == "I" and j.ty == "I" and 0 <= i.const < 3 and 0 <= j.const < 3:
                return Val("(m%d%d %s)" % (i.const, j.const, v.coq), "S")
        if v.ty == "P" and isinstance(idx, ast.Tuple) and len(idx.elts) == 2 and self._upto(idx.elts[0], 3):
            if self._upto(idx.elts[1], 3):
                return Val("(prot %s)" % v.coq, "M")
            if isinstance(idx.elts[1], ast.Constant) and idx.elts[1].value == 3:
                return Val("(ptr %s)" % v.coq, "V")
        if isinstance(idx, ast.Tuple) and len(idx.elts) == 2 and self._is_full_slice(idx.elts[0]):
            second = idx.elts[1]
            if v.ty == "V" and ast.unparse(second) in ("np.newaxis", "None"):
                return Val(v.coq, "COLB")
            if v.ty == "A":
                i = self.expr(second, env)
                return Val("(np_col %s %s)" % (v.coq, to_N(i)), "V")
        raise Unsupported("subscript %s" % ast.unparse(e))

    def e_Tuple(self, e, env):
        vs = [self.expr(x, env) for x in e.elts]
        if all(v.ty == "I" for v in vs):
            return Val(None, "TUPLE_I", tuple(v.const for v in vs))
        raise Unsupported("tuple expression %s" % ast.unparse(e))

    def e_List(self, e, env):
        vs = [self.expr(x, env) for x in e.elts]
        if len(vs) == 3 and all(v.ty == "ROW3" for v in vs):
            return Val("(mkM3 %s)" % " ".join(" ".join(v.coq) for v in vs), "ROWS33")
        if len(vs) == 3 and all(v.ty in ("S", "I", "N") for v in vs):
            return Val([to_S(v) for v in vs], "ROW3")
        if len(vs) == 1 and vs[0].ty in ("S", "I"):
            return Val(to_S(vs[0]), "LIST1")
        raise Unsupported("list expression %s" % ast.unparse(e))

    def e_BoolOp(self, e, env):
        vs = [self.expr(x, env) for x in e.values]
        if any(v.ty != "B" for v in vs):
            raise Unsupported("boolean operator on %s" % [v.ty for v in vs])
        op = "&&" if isinstance(e.op, ast.And) else "||"
        out = vs[0].coq
        for v in vs[1:]:
            out = "(%s %s %s)" % (out, op, v.coq)
        return Val(out, "B")

    def e_IfExp(self, e, env):
        c, a, b = self.expr(e.test, env), self.expr(e.body, env), self.expr(e.orelse, env)
        if c.ty != "B":
            raise Unsupported("condition of type %s" % c.ty)
        if a.ty in ("S", "I", "N") and b.ty in ("S", "I", "N"):
            return Val("(if %s then %s else %s)" % (c.coq, to_S(a), to_S(b)), "S")
        if a.ty == b.ty and a.ty in ("V", "M", "A", "B"):
            return Val("(if %s then %s else %s)" % (c.coq, a.coq, b.coq), a.ty)
        raise Unsupported("conditional expression of types %s / %s" % (a.ty, b.ty))

    def e_Call(self, e, env):
        fn = ast.unparse(e.func)
        kw = {k.arg: k.value for k in e.keywords}
        # methods
        if isinstance(e.func, ast.Name) and fn in self.sigs:
            ptys, rty = self.sigs[fn]
            if e.keywords or len(e.args) != len(ptys):
                raise Unsupported("call of %s with other than its %d positional arguments" % (fn, len(ptys)))
            args = [self.expr(a, env) for a in e.args]
            coqargs = []
            for a, ty in zip(args, ptys):
                if ty == "S" and a.ty in ("S", "I", "N"):
                    coqargs.append(to_S(a))
                elif a.ty == ty:
                    coqargs.append(a.coq)
                else:
                    raise Unsupported("argument of type %s where %s expects %s" % (a.ty, fn, ty))
            return Val("(%s_gen %s)" % (fn, " ".join(coqargs)), rty)
        if fn == "np.allclose" and len(e.args) == 2 and [k.arg for k in e.keywords] == ["atol"]:
            a, b, atol = self.expr(e.args[0], env), self.expr(e.args[1], env), self.expr(e.keywords[0].value, env)
            if atol.ty != "S":
                raise Unsupported("atol of type %s" % atol.ty)
            if a.ty == "S" and b.ty == "LIST1":
                return Val("(np_allclose_s np_rtol %s %s %s)" % (atol.coq, a.coq, b.coq), "B")
            if a.ty == "M" and b.ty == "M":
                return Val("(np_allclose_m np_rtol %s %s %s)" % (atol.coq, a.coq, b.coq), "B")
            raise Unsupported("np.allclose on %s, %s" % (a.ty, b.ty))
        if fn == "np.power" and len(e.args) == 2 and not e.keywords and ast.unparse(e.args[1]) == "1 / 3":
            a = self.expr(e.args[0], env)
            if a.ty == "S":
                return Val("(cbrt %s)" % a.coq, "S")
        if isinstance(e.func, ast.Attribute) and e.func.attr == "transpose" and not e.args and not e.keywords:
            recv = self.expr(e.func.value, env)
            if recv.ty == "M":
                return Val("(mt %s)" % recv.coq, "M")
            raise Unsupported(".transpose() of %s" % recv.ty)
        if isinstance(e.func, ast.Attribute) and e.func.attr in ("mean", "max", "dot") \
                and not (isinstance(e.func.value, ast.Name) and e.func.value.id in ("np", "numpy", "math")):
            recv = self.expr(e.func.value, env)
            meth = e.func.attr
            if meth == "mean" and recv.ty == "A" and not e.args and list(kw) == ["axis"] and self.expr(kw["axis"], env).const == 1:
                return Val("(np_mean_axis1 %s)" % recv.coq, "V")
            if meth == "max" and recv.ty == "V" and not e.args and not kw:
                return Val("(np_max3 %s)" % recv.coq, "S")
            if meth == "dot" and len(e.args) == 1 and not kw:
                b = self.expr(e.args[0], env)
                if recv.ty == "M" and b.ty == "M":
                    return Val("(mm %s %s)" % (recv.coq, b.coq), "M")
                if recv.ty == "M" and b.ty == "V":
                    return Val("(mv %s %s)" % (recv.coq, b.coq), "V")
            raise Unsupported("method call %s" % ast.unparse(e))
        if kw:
            raise Unsupported("keyword arguments in %s" % ast.unparse(e))
        args = [self.expr(a, env) for a in e.args]
        tys = [a.ty for a in args]
        if fn == "np.linalg.norm" and tys == ["A"]:
            return Val("(np_fro_norm %s)" % args[0].coq, "S")
        if fn == "np.zeros" and tys == ["TUPLE_I"] and args[0].const == (self.dim, self.dim):
            return Val("M0", "M")
        if fn == "np.eye" and tys == ["I"] and args[0].const == self.dim:
            return Val("I3", "M")
        if fn == "np.eye" and tys == ["I"] and args[0].const == self.dim + 1:
            return Val("pI", "P")
        if fn == "np.array" and tys == ["ROWS33"]:
            return Val(args[0].coq, "M")
        if fn == "np.array" and tys == ["ROW3"]:
            return Val("(mkV3 %s)" % " ".join(args[0].coq), "V")
        if fn == "np.dot" and tys == ["M", "M"]:
            return Val("(mm %s %s)" % (args[0].coq, args[1].coq), "M")
        if fn == "np.dot" and tys == ["M", "V"]:
            return Val("(mv %s %s)" % (args[0].coq, args[1].coq), "V")
        if fn == "np.dot" and tys == ["P", "P"]:
            return Val("(pmul %s %s)" % (args[0].coq, args[1].coq), "P")
        if fn == "np.outer" and tys == ["V", "V"]:
            return Val("(outer %s %s)" % (args[0].coq, args[1].coq), "M")
        if fn == "np.multiply" and len(args) == 2 and tys[0] in ("S", "I", "N"):
            k = to_S(args[0])
            if tys[1] == "M":
                return Val("(mscale %s %s)" % (k, args[1].coq), "M")
            if tys[1] == "V":
                return Val("(vscale %s %s)" % (k, args[1].coq), "V")
            if tys[1] in ("S", "I", "N"):
                return Val("(%s *! %s)" % (k, to_S(args[1])), "S")
        if fn == "np.linalg.svd" and tys == ["M"]:
            return Val("(svd %s)" % args[0].coq, "UDV")
        if fn == "np.linalg.det" and tys == ["M"]:
            return Val("(det %s)" % args[0].coq, "S")
        if fn == "np.trace" and tys == ["M"]:
            return Val("(tr %s)" % args[0].coq, "S")
        if fn == "np.diag" and tys == ["V"]:
            return Val("(np_diag3 %s)" % args[0].coq, "M")
        if fn == "np.count_nonzero" and tys == ["V_GT_S"]:
            return Val("(np_count_gt %s %s)" % args[0].coq, "N")
        if fn == "max":
            if tys == ["TUPLE_I"]:
                return Val(None, "I", max(args[0].const))
            if len(args) == 2 and all(t in ("S", "I", "N") for t in tys):
                return Val("(py_max2 %s %s)" % (to_S(args[0]), to_S(args[1])), "S")
        raise Unsupported("call %s with argument types %s" % (fn, tys))

    # ---------------------------------------------------------------- statements
    def block(self, stmts, env, tail):
        """translate statements; `tail(env)` produces the Coq text that follows the last one"""
        if not stmts:
            return tail(env)
        s, rest = stmts[0], stmts[1:]
        cont = lambda env2: self.block(rest, env2, tail)
        m = getattr(self, "s_" + type(s).__name__, None)
        if m is None:
            raise Unsupported("statement %s (line %d)" % (type(s).__name__, s.lineno))
        return m(s, env, cont, rest)

    def s_Pass(self, s, env, cont, rest):
        return cont(env)

    def s_Expr(self, s, env, cont, rest):
        if isinstance(s.value, ast.Constant) and isinstance(s.value.value, str):
            return cont(env)
        # logging has no effect on the result: logger.debug(...) / logger.info(...) / logger.warning(...) statements are skipped
        if isinstance(s.value, ast.Call) and isinstance(s.value.func, ast.Attribute) and isinstance(s.value.func.value, ast.Name) \
                and s.value.func.value.id in ("logger", "logging") and s.value.func.attr in ("debug", "info", "warning"):
            return cont(env)
        raise Unsupported("expression statement %s" % ast.unparse(s))

    def s_Return(self, s, env, cont, rest):
        if rest:
            raise Unsupported("statements after return")
        if self.rtype is not None:
            v = self.expr(s.value, env)
            if self.rtype == "S" and v.ty in ("S", "I", "N"):
                return to_S(v)
            if v.ty != self.rtype:
                raise Unsupported("return of type %s, %s expected" % (v.ty, self.rtype))
            return v.coq
        if not isinstance(s.value, ast.Tuple):
            raise Unsupported("return value %s" % ast.unparse(s))
        vs = [self.expr(x, env) for x in s.value.elts]
        if [v.ty for v in vs] != ["M", "V", "S"] and [v.ty for v in vs] != ["M", "V", "I"]:
            raise Unsupported("return types %s" % [v.ty for v in vs])
        return "Some (%s, %s, %s)" % (vs[0].coq, vs[1].coq, to_S(vs[2]))

    def s_If(self, s, env, cont, rest):
        c = self.expr(s.test, env)
        if c.ty != "B":
            raise Unsupported("if condition of type %s" % c.ty)
        if len(s.body) == 1 and isinstance(s.body[0], ast.Raise) and not s.orelse:
            exc = s.body[0].exc
            if not (isinstance(exc, ast.Call) and ast.unparse(exc.func) == "GeometryException"):
                raise Unsupported("raise of something else than GeometryException")
            return "if %s then None else\n  %s" % (c.coq, cont(env))
        if s.orelse:
            raise Unsupported("if/else with assignments")
        # conditional update of exactly one already bound name
        names = set()
        for b in s.body:
            if isinstance(b, ast.Assign) and len(b.targets) == 1:
                t = b.targets[0]
                names.add(t.id if isinstance(t, ast.Name) else t.value.id if isinstance(t, ast.Subscript) and isinstance(t.value, ast.Name) else None)
            else:
                raise Unsupported("statement %s inside a conditional update" % type(b).__name__)
        if len(names) != 1 or None in names or list(names)[0] not in env:
            raise Unsupported("conditional update of %r" % names)
        name = list(names)[0]
        inner = self.block(s.body, dict(env), lambda e2: e2[name].coq)
        return "let %s := if %s then (%s) else %s in\n  %s" % (name, c.coq, inner, env[name].coq, cont(env))

    def s_Assign(self, s, env, cont, rest):
        if len(s.targets) != 1:
            raise Unsupported("multiple assignment")
        t = s.targets[0]
        if isinstance(t, ast.Tuple):
            names = [x.id if isinstance(x, ast.Name) else None for x in t.elts]
            if None in names:
                raise Unsupported("tuple target %s" % ast.unparse(t))
            v = self.expr(s.value, env)
            if v.ty == "SHAPE_A" and len(names) == 2:
                env = dict(env)
                env[names[0]] = Val(None, "I", self.dim)
                env[names[1]] = Val(names[1], "N")
                return "let %s := np_ncols %s in\n  %s" % (names[1], v.coq, cont(env))
            if v.ty == "UDV" and len(names) == 3:
                env = dict(env)
                for n_, ty in zip(names, ("M", "V", "M")):
                    env[n_] = Val(n_, ty)
                return "let '(%s, %s, %s) := %s in\n  %s" % (names[0], names[1], names[2], v.coq, cont(env))
            raise Unsupported("tuple assignment from %s" % v.ty)
        if isinstance(t, ast.Subscript) and isinstance(t.value, ast.Name) and t.value.id in env and env[t.value.id].ty == "P":
            name, idx = t.value.id, t.slice
            val = self.expr(s.value, env)
            env2 = dict(env)
            env2[name] = Val(name, "P")
            if isinstance(idx, ast.Tuple) and len(idx.elts) == 2 and self._upto(idx.elts[0], 3):
                if self._upto(idx.elts[1], 3) and val.ty == "M":
                    return "let %s := mkPose %s (ptr %s) in\n  %s" % (name, val.coq, env[name].coq, cont(env2))
                if isinstance(idx.elts[1], ast.Constant) and idx.elts[1].value == 3 and val.ty == "V":
                    return "let %s := mkPose (prot %s) %s in\n  %s" % (name, env[name].coq, val.coq, cont(env2))
            raise Unsupported("block assignment %s = %s" % (ast.unparse(t), val.ty))
        if isinstance(t, ast.Subscript):
            if not isinstance(t.value, ast.Name) or t.value.id not in env or env[t.value.id].ty != "M":
                raise Unsupported("subscript assignment %s" % ast.unparse(t))
            idx = t.slice
            if not (isinstance(idx, ast.Tuple) and len(idx.elts) == 2):
                raise Unsupported("subscript assignment %s" % ast.unparse(t))
            ij = [self.expr(x, env) for x in idx.elts]
            if [v.ty for v in ij] != ["I", "I"] or (ij[0].const, ij[1].const) != (self.dim - 1, self.dim - 1):
                raise Unsupported("only the assignment to element [%d, %d] is translated" % (self.dim - 1, self.dim - 1))
            val = self.expr(s.value, env)
            name = t.value.id
            env = dict(env)
            env[name] = Val(name, "M")
            return "let %s := m3_set22 %s %s in\n  %s" % (name, name, to_S(val), cont(env))
        if not isinstance(t, ast.Name):
            raise Unsupported("assignment target %s" % ast.unparse(t))
        v = self.expr(s.value, env)
        env = dict(env)
        if v.ty == "I":
            env[t.id] = Val(None, "I", v.const)
            return cont(env)
        if v.ty not in ("S", "V", "M", "A", "B", "N", "P"):
            raise Unsupported("assignment of a value of type %s" % v.ty)
        env[t.id] = Val(t.id, v.ty)
        return "let %s := %s in\n  %s" % (t.id, v.coq, cont(env))

    def s_AugAssign(self, s, env, cont, rest):
        if not isinstance(s.target, ast.Name) or s.target.id not in env:
            raise Unsupported("augmented assignment target %s" % ast.unparse(s.target))
        name = s.target.id
        a, b = env[name], self.expr(s.value, env)
        if isinstance(s.op, ast.Add) and a.ty == "M" and b.ty == "M":
            new = "(madd %s %s)" % (a.coq, b.coq)
        elif isinstance(s.op, ast.Add) and a.ty == "V" and b.ty == "V":
            new = "(vadd %s %s)" % (a.coq, b.coq)
        elif isinstance(s.op, ast.Add) and a.ty == "S" and b.ty in ("S", "I", "N"):
            new = "(%s +! %s)" % (a.coq, to_S(b))
        else:
            raise Unsupported("augmented assignment %s on %s, %s" % (type(s.op).__name__, a.ty, b.ty))
        env = dict(env)
        env[name] = Val(name, a.ty)
        return "let %s := %s in\n  %s" % (name, new, cont(env))

    def s_For(self, s, env, cont, rest):
        if s.orelse or not isinstance(s.target, ast.Name):
            raise Unsupported("for loop form")
        it = s.iter
        if not (isinstance(it, ast.Call) and ast.unparse(it.func) == "range" and len(it.args) == 1 and not it.keywords):
            raise Unsupported("loop over %s" % ast.unparse(it))
        n = self.expr(it.args[0], env)
        assigned = set()
        for b in s.body:
            if isinstance(b, ast.AugAssign) and isinstance(b.target, ast.Name):
                assigned.add(b.target.id)
            else:
                raise Unsupported("statement %s in a loop body" % type(b).__name__)
        if len(assigned) != 1 or list(assigned)[0] not in env:
            raise Unsupported("loop must update exactly one bound accumulator, found %r" % assigned)
        acc = list(assigned)[0]
        i = s.target.id
        inner_env = dict(env)
        inner_env[i] = Val(i, "N")
        inner_env[acc] = Val(acc, env[acc].ty)
        body = self.block(s.body, inner_env, lambda e2: e2[acc].coq)
        env = dict(env)
        init = env[acc].coq
        env[acc] = Val(acc, env[acc].ty)
        return "let %s := py_for_range %s (fun %s %s =>\n    %s) %s in\n  %s" % (acc, to_N(n), acc, i, body.replace("\n", "\n  "), init, cont(env))

    # ---------------------------------------------------------------- functions
    COQ_TYPES = {"S": "T", "V": "V3 T", "M": "M3 T", "P": "Pose T", "B": "bool", "A": "(@Arr T)"}

    def function(self, fdef, coq_name, ptypes=None, rtype=None):
        self.rtype = rtype
        if ptypes is not None:
            if len(fdef.args.args) != len(ptypes) or fdef.args.vararg or fdef.args.kwarg or fdef.args.kwonlyargs or fdef.args.posonlyargs:
                raise Unsupported("parameter list of %s changed" % fdef.name)
            env, params = {}, []
            for a, ty in zip(fdef.args.args, ptypes):
                env[a.arg] = Val(a.arg, ty)
                params.append("(%s : %s)" % (a.arg, self.COQ_TYPES[ty]))

            def no_return(_env):
                raise Unsupported("function body does not end in a return")
            body = self.block(fdef.body, env, no_return)
            return "Definition %s %s : %s :=\n  %s." % (coq_name, " ".join(params), self.COQ_TYPES[rtype], body)
        env = {}
        params = []
        for a in fdef.args.args:
            ann = ast.unparse(a.annotation) if a.annotation is not None else None
            if ann == "np.ndarray":
                env[a.arg] = Val(a.arg, "A")
                params.append("(%s : @Arr T)" % a.arg)
            elif ann == "bool":
                env[a.arg] = Val(a.arg, "B")
                params.append("(%s : bool)" % a.arg)
            else:
                raise Unsupported("parameter %s : %s" % (a.arg, ann))
        if fdef.args.vararg or fdef.args.kwarg or fdef.args.kwonlyargs or fdef.args.posonlyargs:
            raise Unsupported("parameter list form")
        for reserved in ("svd", "eps"):
            if reserved in env:
                raise Unsupported("parameter named %s" % reserved)

        def no_return(_env):
            raise Unsupported("function body does not end in a return")
        body = self.block(fdef.body, env, no_return)
        return "Definition %s %s : option (M3 T * V3 T * T) :=\n  %s." % (coq_name, " ".join(params), body)


HEADER = """(* GENERATED by harness/pyast_np.py from %s (function %s) - regenerated on every run, do not edit. *)
From Coq Require Import List Arith Bool ZArith.
From Evo Require Import Num Linalg NpDsl.
Import ListNotations.
Local Open Scope num_scope.

Section Gen.
Context {T : Type} {ops : NumOps T}.
Variable svd : M3 T -> M3 T * V3 T * M3 T.   (* np.linalg.svd: oracle *)
Variable eps : T.                             (* np.finfo(float64).eps *)

"""
FOOTER = "\nEnd Gen.\n"
STUB_BODY = "Definition umeyama_alignment_gen (x y : @Arr T) (with_scale : bool) : option (M3 T * V3 T * T) := None.  (* translation failed *)"


LIE_SIGS = {   # evo/core/lie_algebra.py: the functions translated, in dependency order (types are the harness's reading
               # of the np.ndarray annotations: V = 3-vector, M = 3x3, P = 4x4 pose with bottom row (0,0,0,1), S = float)
    "hat": (["V"], "M"), "vee": (["M"], "V"), "se3": (["M", "V"], "P"), "sim3": (["M", "V", "S"], "P"),
    "so3_from_se3": (["P"], "M"), "se3_inverse": (["P"], "P"), "sim3_scale": (["P"], "S"), "sim3_inverse": (["P"], "P"),
    "is_so3": (["M"], "B"), "relative_so3": (["M", "M"], "M"), "relative_se3": (["P", "P"], "P")}
LIE_ORDER = ["hat", "vee", "se3", "sim3", "so3_from_se3", "se3_inverse", "sim3_scale", "sim3_inverse", "is_so3",
             "relative_so3", "relative_se3"]
LIE_HEADER = """(* GENERATED by harness/pyast_np.py from evo/core/lie_algebra.py - regenerated on every run, do not edit. *)
From Coq Require Import List Arith Bool ZArith.
From Evo Require Import Num Linalg NpDsl.
Import ListNotations.
Local Open Scope num_scope.
Local Open Scope bool_scope.

Section Gen.
Context {T : Type} {ops : NumOps T}.
Variable cbrt : T -> T.      (* np.power(., 1/3): oracle *)
Variable np_rtol : T.        (* default rtol of np.allclose (1e-05) *)
%s
"""


def translate_lie(repo):
    rel = "evo/core/lie_algebra.py"
    tree = ast.parse(open(os.path.join(repo, rel)).read())
    tr = Translator(sigs=LIE_SIGS)
    defs = []
    failed = {}     # per function: one that cannot be translated becomes a stub of its own, the others stay translated
    for name in LIE_ORDER:
        ptys, rty = LIE_SIGS[name]
        try:
            fdefs = [n for n in tree.body if isinstance(n, ast.FunctionDef) and n.name == name]
            if len(fdefs) != 1:
                raise Unsupported("function %s not found exactly once in %s" % (name, rel))
            lits_before = dict(tr.literals)
            defs.append(tr.function(fdefs[0], name + "_gen", ptys, rty))
        except Exception as e:  # noqa: fail-closed whatever goes wrong
            tr.literals = lits_before if "lits_before" in dir() else {}
            failed[name] = "%s: %s" % (type(e).__name__, e)
            defs.append(_lie_stub_def(name))
    tr.literals.setdefault("lit_1em06", 1e-06)
    lits = "".join("Variable %s : T.   (* float literal %r *)\n" % (k, v) for k, v in sorted(tr.literals.items()))
    return LIE_HEADER % lits + "\n".join(defs) + FOOTER, dict(tr.literals), failed


def _lie_stub_def(name):
    ptys, rty = LIE_SIGS[name]
    params = " ".join("(a%d : %s)" % (i, Translator.COQ_TYPES[t]) for i, t in enumerate(ptys))
    dflt = {"S": "n0", "V": "V0", "M": "M0", "P": "pI", "B": "false"}[rty]
    return "Definition %s_gen %s : %s := %s.  (* translation failed *)" % (name, params, Translator.COQ_TYPES[rty], dflt)


def lie_stub():
    return LIE_HEADER % "Variable lit_1em06 : T.\n" + "\n".join(_lie_stub_def(name) for name in LIE_ORDER) + FOOTER


def translate_umeyama(repo):
    rel = "evo/core/geometry.py"
    tree = ast.parse(open(os.path.join(repo, rel)).read())
    fdefs = [n for n in tree.body if isinstance(n, ast.FunctionDef) and n.name == "umeyama_alignment"]
    if len(fdefs) != 1:
        raise Unsupported("function umeyama_alignment not found exactly once in %s" % rel)
    tr = Translator()
    tr.rtype = None
    text = tr.function(fdefs[0], "umeyama_alignment_gen")
    if tr.literals:
        raise Unsupported("float literals %r in umeyama_alignment" % tr.literals)
    return HEADER % (rel, "umeyama_alignment") + text + FOOTER


def stub():
    return HEADER % ("evo/core/geometry.py", "umeyama_alignment") + STUB_BODY + FOOTER


def write_if_changed(path, text):
    old = open(path).read() if os.path.exists(path) else None
    if old != text:
        tmp = "%s.%d.tmp" % (path, os.getpid())   # atomic: another check may be compiling the file right now
        with open(tmp, "w") as f:
            f.write(text)
        os.replace(tmp, path)
        return True
    return False


if __name__ == "__main__":
    import sys
    repo = sys.argv[1] if len(sys.argv) > 1 else "/repo"
    if len(sys.argv) > 2 and sys.argv[2] == "lie":
        t_, l_, f_ = translate_lie(repo)
        print(t_)
        print("(* failed: %r *)" % f_)
    else:
        print(translate_umeyama(repo))
