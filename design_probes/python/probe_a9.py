import numpy as np, json, tempfile, os
from evo.tools import file_interface as fi
from evo.core import lie_algebra as lie
from scipy.spatial.transform import Rotation
R=Rotation.random(random_state=3).as_matrix()
def tryload(M=None,kind="npy",js=None):
    p=tempfile.mktemp(suffix="."+kind)
    if kind=="npy": np.save(p,M)
    elif kind=="txt": np.savetxt(p,M)
    else: json.dump(js,open(p,"w"))
    try: return ("ok",fi.load_transform(p))
    except fi.FileInterfaceException: return ("FIE",)
    except Exception as e: return ("OTHER",type(e).__name__,str(e)[:60])
S=lie.sim3(R,np.array([1.,2,3]),2.5)
for kind in ("npy","txt"):
    print(kind,"sim3",tryload(S,kind)[0],"se3",tryload(lie.se3(R,np.ones(3)),kind)[0])
    refl=S.copy(); refl[:3,:3]=refl[:3,:3]@np.diag([1,1,-1.]); print(" reflection",tryload(refl,kind)[0])
    sh=S.copy(); sh[0,1]+=0.01; print(" shear",tryload(sh,kind)[0])
    bot=S.copy(); bot[3,0]=1e-9; print(" bottom",tryload(bot,kind)[0])
    print(" 3x4",tryload(S[:3],kind)[0], "zero",tryload(np.zeros((4,4)),kind))
    nonuni=S.copy(); nonuni[:3,0]*=1.001; print(" nonuniform scale",tryload(nonuni,kind)[0])
q=Rotation.from_matrix(R).as_quat()
js={"x":1,"y":2,"z":3,"qx":q[0],"qy":q[1],"qz":q[2],"qw":q[3]}
r=tryload(kind="json",js=js); print("json",r[0],np.allclose(r[1][:3,:3],R),r[1][:3,3])
r=tryload(kind="json",js=dict(js,scale=2.0)); print("json scale",r[0],np.allclose(r[1][:3,:3],2*R))
print("json missing",tryload(kind="json",js={k:v for k,v in js.items() if k!="qw"})[0])
print("json zero quat",tryload(kind="json",js=dict(js,qx=0,qy=0,qz=0,qw=0)))
print("json neg scale",tryload(kind="json",js=dict(js,scale=-1.0)))
print("json nonunit quat",tryload(kind="json",js=dict(js,qw=q[3]*3,qx=q[0]*3,qy=q[1]*3,qz=q[2]*3))[0])
# EuRoC
def euroc(txt):
    p=tempfile.mktemp(); open(p,"w").write(txt)
    try:
        t=fi.read_euroc_csv_trajectory(p); return ("ok",t.timestamps.tolist(),t.positions_xyz.tolist(),t.orientations_quat_wxyz.tolist())
    except fi.FileInterfaceException: return ("FIE",)
    except Exception as e: return ("OTHER",type(e).__name__)
hdr="#timestamp [ns],p_RS_R_x [m],p,p,q_w,q_x,q_y,q_z,v,v,v\n"
print(euroc(hdr+"1403636580838555648,4.5,-1.5,0.75,0.5,-0.5,0.5,-0.5,1,2,3\n"))
print("euroc short row later",euroc(hdr+"1,1,2,3,1,0,0,0,9\n2,1,2,3,1,0,0\n"))
print("euroc 7 cols",euroc("1,1,2,3,1,0,0\n"))
print("euroc trailing",euroc("1,1,2,3,1,0,0,0,\n"))
print("euroc spaces",euroc("1, 1, 2, 3, 1, 0, 0, 0\n"))
