From Coq Require Import Reals Lra Psatz.
Local Open Scope R_scope.
(* rotation block as 9 reals; algebraic reading of  so3_exp(axis * euler_sxyz(R)[k])  outside the gimbal-lock branch *)
Record M3 := mkM3 { m00:R; m01:R; m02:R; m10:R; m11:R; m12:R; m20:R; m21:R; m22:R }.
Definition rotz c s := mkM3 c (-s) 0 s c 0 0 0 1.
Definition roty c s := mkM3 c 0 s 0 1 0 (-s) 0 c.
Definition rotx c s := mkM3 1 0 0 0 c (-s) 0 s c.
Definition hyp a b := sqrt (a*a + b*b).
(* sxyz: ax = atan2(r21,r22), ay = atan2(-r20, cy), az = atan2(r10,r00), cy = sqrt(r00^2+r10^2) *)
Definition proj_xy (r : M3) := let h := hyp (m00 r) (m10 r) in rotz (m00 r / h) (m10 r / h).
Definition proj_yz (r : M3) := let h := hyp (m22 r) (m21 r) in rotx (m22 r / h) (m21 r / h).
Definition proj_xz (r : M3) := let cy := hyp (m00 r) (m10 r) in let h := hyp cy (m20 r) in roty (cy / h) (- m20 r / h).

Lemma hyp_unit c s : c*c + s*s = 1 -> hyp c s = 1.
Proof. intros H. unfold hyp. rewrite H. apply sqrt_1. Qed.
Theorem proj_xy_fixes_planar c s : c*c + s*s = 1 -> proj_xy (rotz c s) = rotz c s.
Proof. intros H. unfold proj_xy; cbn. rewrite (hyp_unit c s H). f_equal; field. Qed.
Theorem proj_yz_fixes_planar c s : c*c + s*s = 1 -> proj_yz (rotx c s) = rotx c s.
Proof. intros H. unfold proj_yz; cbn. rewrite (hyp_unit c s H). f_equal; field. Qed.
Lemma hyp_c0 c : hyp c 0 = Rabs c.
Proof. unfold hyp. replace (c*c + 0*0) with (Rsqr c) by (unfold Rsqr; ring). apply sqrt_Rsqr_abs. Qed.
Theorem proj_xz_planar c s : c*c + s*s = 1 -> proj_xz (roty c s) = roty (Rabs c) s.
Proof.
  intros H. unfold proj_xz; cbn. rewrite hyp_c0.
  assert (E : hyp (Rabs c) (- s) = 1).
  { apply hyp_unit. replace (Rabs c * Rabs c) with (c*c); [lra|].
    unfold Rabs; destruct (Rcase_abs c); ring. }
  rewrite E. f_equal; field.
Qed.
Theorem proj_xz_fixes_planar_partial c s : c*c + s*s = 1 -> 0 <= c -> proj_xz (roty c s) = roty c s.
Proof. intros H Hc. rewrite (proj_xz_planar c s H), Rabs_pos_eq by exact Hc. reflexivity. Qed.
Theorem proj_xz_fixes_planar_refuted : exists c s, c*c + s*s = 1 /\ proj_xz (roty c s) <> roty c s.
Proof.
  exists (-3/5), (4/5). split; [lra|]. rewrite proj_xz_planar by lra.
  intros E. assert (E0 : m00 (roty (Rabs (-3/5)) (4/5)) = m00 (roty (-3/5) (4/5))) by (rewrite E; reflexivity). cbn in E0. rewrite Rabs_left in E0 by lra. lra.
Qed.
Print Assumptions proj_xz_fixes_planar_refuted.
