(* PyAstC12.v - deep embedding of the Python subset that harness/pyast2coq_c12.py emits from
   evo/core/units.py and evo/core/metrics.py, and an interpreter for its finite decision logic
   (enum comparison, membership in literal tuples, dict lookup, itertools.product/permutations of
   literal tuples, any(genexp), f-strings).  The error array is abstracted to
   [VErr n f k] = "n values, each the original value times f times (180/pi)^k".
   Used by UnitsTie.v to compare the re-translated change_unit with the hand model Stats.decide
   on all ordered unit pairs.  Part of the trusted base (validated differentially, not verified). *)
From Coq Require Import List String ZArith QArith Bool.
Import ListNotations.
Open Scope string_scope.

Inductive cmpop := CEq | CNe | CIs | CIsNot | CIn | CNotIn | CLt | CGt | CLe | CGe.
Inductive binop := BAdd | BSub | BMul | BDiv.
Inductive expr :=
| ENone | EBool (b : bool) | EInt (z : Z) | ENum (q : Q) | EStr (s : string)
| EName (x : string) | EAttr (e : expr) (a : string)
| ECmp (o : cmpop) (a b : expr) | EAnd (l : list expr) | EOr (l : list expr) | ENot (e : expr) | ENeg (e : expr)
| EBin (o : binop) (a b : expr) | EIf (c a b : expr)
| ETuple (l : list expr) | EList (l : list expr) | ESet (l : list expr) | EDict (l : list (expr * expr))
| ESub (e i : expr) | ECall (f : expr) (args : list expr) (kw : list (string * expr))
| EFStr (l : list expr) | EGen (elt : expr) (x : string) (it : expr).
Inductive stmt :=
| SAssign (t : string) (e : expr) | SAug (o : binop) (t : string) (e : expr)
| SIf (c : expr) (a b : list stmt) | SReturn (e : expr) | SRaise (e : expr) | SExpr (e : expr).

Inductive val :=
| VNone | VBool (b : bool) | VInt (z : Z) | VNum (q : Q) | VStr (s : string)
| VEnum (c m : string) | VTuple (l : list val) | VDict (l : list (val * val))
| VObj (f : list (string * val)) | VExc (c msg : string) | VErr (n : Z) (f : Q) (k : Z).

Fixpoint val_eqb (a b : val) {struct a} : bool :=
  match a, b with
  | VNone, VNone => true | VBool x, VBool y => Bool.eqb x y | VInt x, VInt y => Z.eqb x y
  | VNum x, VNum y => Qeq_bool x y | VInt x, VNum y => Qeq_bool (inject_Z x) y | VNum x, VInt y => Qeq_bool x (inject_Z y)
  | VStr x, VStr y => String.eqb x y
  | VEnum c m, VEnum c' m' => String.eqb c c' && String.eqb m m'
  | VTuple l, VTuple l' =>
      (fix go (l : list val) (l' : list val) : bool :=
         match l, l' with [] , [] => true | x :: r, y :: r' => val_eqb x y && go r r' | _, _ => false end) l l'
  | _, _ => false
  end.
Definition mem (v : val) (l : list val) := existsb (val_eqb v) l.
Definition env := list (string * val).
Fixpoint lookup (x : string) (e : env) : option val :=
  match e with [] => None | (k, v) :: r => if String.eqb k x then Some v else lookup x r end.
Definition update (x : string) (v : val) (e : env) : env := (x, v) :: e.
Definition enum_classes := ["Unit"; "PoseRelation"].
Definition elems (v : val) : option (list val) :=
  match v with VTuple l => Some l | VDict d => Some (map fst d) | _ => None end.
Fixpoint sequence {A} (l : list (option A)) : option (list A) :=
  match l with [] => Some [] | None :: _ => None | Some x :: r => option_map (cons x) (sequence r) end.
Definition to_q (v : val) : option Q :=
  match v with VInt z => Some (inject_Z z) | VNum q => Some q | _ => None end.
Definition truthy (v : val) : option bool :=
  match v with
  | VBool b => Some b | VNone => Some false | VEnum _ _ => Some true
  | VInt z => Some (negb (Z.eqb z 0)) | VStr s => Some (negb (String.eqb s "")) | _ => None
  end.
Definition show (v : val) : string :=
  match v with VStr s => s | VEnum c m => c ++ "." ++ m | _ => "?" end.

Fixpoint eval (en : env) (e : expr) {struct e} : option val :=
  let evl := fix evl (l : list expr) : option (list val) :=
    match l with
    | [] => Some []
    | x :: r => match eval en x, evl r with Some v, Some vs => Some (v :: vs) | _, _ => None end
    end in
  match e with
  | ENone => Some VNone | EBool b => Some (VBool b) | EInt z => Some (VInt z) | ENum q => Some (VNum q) | EStr s => Some (VStr s)
  | EName x => lookup x en
  | EAttr (EName c) m =>
      if existsb (String.eqb c) enum_classes then Some (VEnum c m)
      else match lookup c en with Some (VObj f) => lookup m f | _ => None end
  | EAttr _ _ => None
  | ECmp o a b =>
      match eval en a, eval en b with
      | Some x, Some y =>
          match o with
          | CEq | CIs => Some (VBool (val_eqb x y)) | CNe | CIsNot => Some (VBool (negb (val_eqb x y)))
          | CIn => option_map (fun l => VBool (mem x l)) (elems y)
          | CNotIn => option_map (fun l => VBool (negb (mem x l))) (elems y)
          | _ => None
          end
      | _, _ => None
      end
  | EAnd l => (fix go (l : list expr) : option val :=
                 match l with
                 | [] => Some (VBool true) | [x] => eval en x
                 | x :: r => match eval en x with
                             | Some v => match truthy v with Some true => go r | Some false => Some v | None => None end
                             | None => None
                             end
                 end) l
  | EOr l => (fix go (l : list expr) : option val :=
                 match l with
                 | [] => Some (VBool false) | [x] => eval en x
                 | x :: r => match eval en x with
                             | Some v => match truthy v with Some false => go r | Some true => Some v | None => None end
                             | None => None
                             end
                 end) l
  | ENot a => match eval en a with Some v => option_map (fun b => VBool (negb b)) (truthy v) | None => None end
  | EBin o a b =>
      match eval en a, eval en b with
      | Some x, Some y =>
          match to_q x, to_q y with
          | Some p, Some q => Some (VNum (match o with BAdd => p + q | BSub => p - q | BMul => p * q | BDiv => p / q end)%Q)
          | _, _ =>
              (* elementwise array * scalar (a NEW array: same values as the in-place `*=`) *)
              match o, x, y with
              | BMul, VErr n f k, _ => option_map (fun q => VErr n (Qred (f * q)) k) (to_q y)
              | BMul, _, VErr n f k => option_map (fun q => VErr n (Qred (q * f)) k) (to_q x)
              | BDiv, VErr n f k, _ => option_map (fun q => VErr n (Qred (f / q)) k) (to_q y)
              | _, _, _ => None
              end
          end
      | _, _ => None
      end
  | EIf c a b => match eval en c with
                 | Some v => match truthy v with Some true => eval en a | Some false => eval en b | None => None end
                 | None => None
                 end
  | ETuple l | EList l | ESet l => option_map VTuple (evl l)
  | EDict l => option_map VDict ((fix go (l : list (expr * expr)) : option (list (val * val)) :=
                 match l with
                 | [] => Some []
                 | (k, v) :: r => match eval en k, eval en v, go r with
                                  | Some a, Some b, Some t => Some ((a, b) :: t) | _, _, _ => None
                                  end
                 end) l)
  | ESub a i => match eval en a, eval en i with
                | Some (VDict d), Some k => option_map snd (find (fun p => val_eqb (fst p) k) d)
                | _, _ => None
                end
  | ECall (EName "list") [a] [] => eval en a
  | ECall (EAttr (EName "itertools") "product") [a; b] [] =>
      match eval en a, eval en b with
      | Some (VTuple x), Some (VTuple y) => Some (VTuple (flat_map (fun p => map (fun q => VTuple [p; q]) y) x))
      | _, _ => None
      end
  | ECall (EAttr (EName "itertools") "permutations") [a] [] =>
      match eval en a with Some (VTuple [x; y]) => Some (VTuple [VTuple [x; y]; VTuple [y; x]]) | _ => None end
  | ECall (EName "any") [EGen elt x it] [] =>
      match eval en it with
      | Some v => match elems v with
                  | Some l => option_map (fun bs => VBool (existsb (fun b => b) bs))
                                (sequence (map (fun item => match eval (update x item en) elt with
                                                            | Some r => truthy r | None => None end) l))
                  | None => None
                  end
      | None => None
      end
  | ECall (EName "len") [a] [] => match eval en a with Some (VErr n _ _) => Some (VInt n) | _ => None end
  | ECall (EAttr (EName "np") "rad2deg") [a] [] =>
      match eval en a with Some (VErr n f k) => Some (VErr n f (k + 1)) | _ => None end
  | ECall (EAttr (EName "np") "deg2rad") [a] [] =>
      match eval en a with Some (VErr n f k) => Some (VErr n f (k - 1)) | _ => None end
  | ECall (EName c) args [] =>
      if String.eqb c "MetricsException"
      then match evl args with
           | Some [VStr m] => Some (VExc c m)
           | Some _ => Some (VExc c "")
           | None => None
           end
      else None
  | EFStr l => option_map (fun vs => VStr (String.concat "" (map show vs))) (evl l)
  | _ => None
  end.

(* the environment at the moment of a return / raise is kept: a refusal must leave self untouched *)
Inductive outcome := Normal (e : env) | Returned (v : val) (e : env) | Raised (v : val) (e : env) | Stuck.

Definition self_field (t : string) : option string :=
  if String.prefix "self." t then Some (String.substring 5 (String.length t - 5) t) else None.
Definition assign (t : string) (v : val) (en : env) : option env :=
  match self_field t with
  | Some fld => match lookup "self" en with
                | Some (VObj f) => Some (update "self" (VObj (update fld v f)) en)
                | _ => None
                end
  | None => Some (update t v en)
  end.
Definition target_expr (t : string) : expr :=
  match self_field t with Some fld => EAttr (EName "self") fld | None => EName t end.

Fixpoint exec (en : env) (s : stmt) {struct s} : outcome :=
  let block := fix block (en : env) (l : list stmt) : outcome :=
    match l with [] => Normal en | x :: r => match exec en x with Normal en' => block en' r | o => o end end in
  match s with
  | SAssign t e => match eval en e with
                   | Some v => match assign t v en with Some en' => Normal en' | None => Stuck end
                   | None => Stuck
                   end
  | SAug BMul t e => match eval en (target_expr t), eval en e with
                     | Some (VErr n f k), Some y =>
                         match to_q y with
                         | Some q => match assign t (VErr n (Qred (f * q)) k) en with Some en' => Normal en' | None => Stuck end
                         | None => Stuck
                         end
                     | _, _ => Stuck
                     end
  | SAug _ _ _ => Stuck
  | SIf c a b => match eval en c with
                 | Some v => match truthy v with Some true => block en a | Some false => block en b | None => Stuck end
                 | None => Stuck
                 end
  | SReturn e => match eval en e with Some v => Returned v en | None => Stuck end
  | SRaise e => match eval en e with Some v => Raised v en | None => Stuck end
  | SExpr _ => Stuck
  end.
Fixpoint run (en : env) (l : list stmt) : outcome :=
  match l with [] => Normal en | x :: r => match exec en x with Normal en' => run en' r | o => o end end.
