"""Fail-closed Python-AST -> Coq dumper for the translator tie of C20.

Dumps, as terms of the deep embedding `Evo.PyAstPlot` (coq/theories/PyAstPlot.v):
  evo/tools/plot.py : class PlotMode (members), plot_mode_to_idx, prepare_axis
  evo/core/units.py : class Unit (members), LENGTH_UNITS
Any AST node kind (or operator, constant type, assignment form ...) that the embedding does not have
raises `Unsupported`: the translation aborts and the check reports a broken tie.  Docstrings and
`logger.*(...)` statements are the only things dropped.  The output contains no line numbers or
hashes, so the generated file only changes when the translated code changes.
"""
import ast
import os


class Unsupported(Exception):
    pass


def _s(x):
    if not isinstance(x, str):
        raise Unsupported("non-string where a string is expected: %r" % (x,))
    for ch in x:
        if ord(ch) < 32 or ord(ch) > 126:
            raise Unsupported("non-printable / non-ASCII character in string %r" % x)
    return '"' + x.replace('"', '""') + '"'


def _lst(xs):
    return "[" + "; ".join(xs) + "]"


CMP = {ast.Eq: "CEq", ast.NotEq: "CNe", ast.Is: "CIs", ast.IsNot: "CIsNot", ast.In: "CIn", ast.NotIn: "CNotIn"}


def E(e):
    if isinstance(e, ast.Constant):
        v = e.value
        if v is None:
            return "ENone"
        if isinstance(v, bool):
            return "(EBool %s)" % str(v).lower()
        if isinstance(v, int):
            return "(EInt (%d)%%Z)" % v
        if isinstance(v, float):
            return "(EFloat %s)" % _s(repr(v))
        if isinstance(v, str):
            return "(EStr %s)" % _s(v)
        raise Unsupported("constant " + ast.dump(e))
    if isinstance(e, ast.Name):
        if not isinstance(e.ctx, ast.Load):
            raise Unsupported("name in non-load context")
        return "(EName %s)" % _s(e.id)
    if isinstance(e, ast.Attribute):
        if not isinstance(e.ctx, ast.Load):
            raise Unsupported("attribute in non-load context")
        return "(EAttr %s %s)" % (E(e.value), _s(e.attr))
    if isinstance(e, ast.Compare):
        if len(e.ops) != 1:
            raise Unsupported("chained comparison")
        if type(e.ops[0]) not in CMP:
            raise Unsupported("comparison operator " + type(e.ops[0]).__name__)
        return "(ECmp %s %s %s)" % (CMP[type(e.ops[0])], E(e.left), E(e.comparators[0]))
    if isinstance(e, ast.BoolOp):
        if isinstance(e.op, ast.And):
            op = "EAnd"
        elif isinstance(e.op, ast.Or):
            op = "EOr"
        else:
            raise Unsupported("boolean operator")
        return "(%s %s)" % (op, _lst([E(v) for v in e.values]))
    if isinstance(e, ast.UnaryOp):
        if isinstance(e.op, ast.Not):
            return "(ENot %s)" % E(e.operand)
        raise Unsupported("unary operator " + type(e.op).__name__)
    if isinstance(e, ast.IfExp):
        return "(EIf %s %s %s)" % (E(e.test), E(e.body), E(e.orelse))
    if isinstance(e, ast.Tuple):
        if not isinstance(e.ctx, ast.Load):
            raise Unsupported("tuple in non-load context")
        return "(ETuple %s)" % _lst([E(v) for v in e.elts])
    if isinstance(e, ast.Set):
        return "(ESet %s)" % _lst([E(v) for v in e.elts])
    if isinstance(e, ast.Call):
        if any(isinstance(a, ast.Starred) for a in e.args):
            raise Unsupported("starred argument")
        if any(k.arg is None for k in e.keywords):
            raise Unsupported("**kwargs")
        kws = _lst(["(%s, %s)" % (_s(k.arg), E(k.value)) for k in e.keywords])
        return "(ECall %s %s %s)" % (E(e.func), _lst([E(a) for a in e.args]), kws)
    if isinstance(e, ast.JoinedStr):
        parts = []
        for v in e.values:
            if isinstance(v, ast.Constant) and isinstance(v.value, str):
                parts.append("(EStr %s)" % _s(v.value))
            elif isinstance(v, ast.FormattedValue) and v.format_spec is None and v.conversion == -1:
                parts.append(E(v.value))
            else:
                raise Unsupported("f-string part " + ast.dump(v))
        return "(EFStr %s)" % _lst(parts)
    raise Unsupported("expression " + type(e).__name__)


def _target(t):
    if isinstance(t, ast.Name):
        return _s(t.id)
    raise Unsupported("assignment target " + ast.dump(t))


def _is_logging(st):
    return (isinstance(st, ast.Expr) and isinstance(st.value, ast.Call)
            and isinstance(st.value.func, ast.Attribute) and isinstance(st.value.func.value, ast.Name)
            and st.value.func.value.id == "logger")


def S(st):
    if isinstance(st, ast.Assign):
        if len(st.targets) != 1:
            raise Unsupported("multiple assignment targets")
        return "(SAssign %s %s)" % (_target(st.targets[0]), E(st.value))
    if isinstance(st, ast.AnnAssign):
        if st.value is None:
            raise Unsupported("annotation without value")
        return "(SAssign %s %s)" % (_target(st.target), E(st.value))     # the annotation has no run-time effect
    if isinstance(st, ast.If):
        return "(SIf %s %s %s)" % (E(st.test), B(st.body), B(st.orelse))
    if isinstance(st, ast.Return):
        return "(SReturn %s)" % (E(st.value) if st.value is not None else "ENone")
    if isinstance(st, ast.Raise):
        if st.exc is None or st.cause is not None:
            raise Unsupported("bare raise / raise from")
        return "(SRaise %s)" % E(st.exc)
    if isinstance(st, ast.Expr):
        if isinstance(st.value, ast.Constant) and isinstance(st.value.value, str):
            return None   # docstring
        return "(SExpr %s)" % E(st.value)
    raise Unsupported("statement " + type(st).__name__)


def B(body):
    out = []
    for st in body:
        if _is_logging(st):
            continue
        r = S(st)
        if r is not None:
            out.append(r)
    return _lst(out)


def _find(tree, name, kind):
    found = [n for n in tree.body if isinstance(n, kind) and n.name == name]
    if len(found) != 1:
        raise Unsupported("%d top-level definitions of %s" % (len(found), name))
    return found[0]


def dump_fn(tree, name):
    fn = _find(tree, name, ast.FunctionDef)
    a = fn.args
    if a.vararg or a.kwarg or a.kwonlyargs or a.posonlyargs or fn.decorator_list:
        raise Unsupported("signature of " + name)
    params = [p.arg for p in a.args]
    defaults = list(zip(params[len(params) - len(a.defaults):], a.defaults))
    out = "Definition %s_params : list string := %s.\n" % (name, _lst([_s(p) for p in params]))
    out += "Definition %s_defaults : list (string * expr) := %s.\n" % (
        name, _lst(["(%s, %s)" % (_s(p), E(d)) for p, d in defaults]))
    out += "Definition %s_body : list stmt :=\n  %s.\n" % (name, B(fn.body))
    return out


def dump_enum(tree, cls):
    c = _find(tree, cls, ast.ClassDef)
    if [ast.unparse(b) for b in c.bases] != ["Enum"]:
        raise Unsupported("bases of " + cls)
    items = []
    for st in c.body:
        if isinstance(st, ast.Expr) and isinstance(st.value, ast.Constant) and isinstance(st.value.value, str):
            continue
        if not (isinstance(st, ast.Assign) and len(st.targets) == 1 and isinstance(st.targets[0], ast.Name)):
            raise Unsupported("statement in enum %s: %s" % (cls, type(st).__name__))
        items.append("(%s, %s)" % (_s(st.targets[0].id), E(st.value)))
    return "Definition %s_members : list (string * expr) := %s.\n" % (cls, _lst(items))


def dump_const(tree, var):
    found = [n for n in tree.body if isinstance(n, ast.Assign) and len(n.targets) == 1
             and isinstance(n.targets[0], ast.Name) and n.targets[0].id == var]
    if len(found) != 1:
        raise Unsupported("%d top-level assignments of %s" % (len(found), var))
    return "Definition %s : expr := %s.\n" % (var, E(found[0].value))


HEADER = ("(* GENERATED by harness/pyast_plot.py from evo/tools/plot.py and evo/core/units.py of the repository\n"
          "   under test - rewritten on every run when the translated code changes; do not edit. *)\n"
          "From Coq Require Import List String ZArith.\n"
          "From Evo Require Import PyAstPlot.\n"
          "Import ListNotations.\n"
          "Local Open Scope string_scope.\n\n")


def translate(repo):
    plot = ast.parse(open(os.path.join(repo, "evo", "tools", "plot.py")).read())
    units = ast.parse(open(os.path.join(repo, "evo", "core", "units.py")).read())
    out = HEADER
    out += dump_enum(plot, "PlotMode")
    out += dump_enum(units, "Unit")
    out += dump_const(units, "LENGTH_UNITS")
    out += dump_fn(plot, "plot_mode_to_idx")
    out += dump_fn(plot, "prepare_axis")
    return out
