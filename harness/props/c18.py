"""C18 - config edits and generated configs (evo/main_config.py, evo/tools/settings.py, evo/entry_points.py)
against the Coq model Evo.Config.  The numeric-token oracle is python's float(); seaborn's palette check is an
oracle; argparse is an oracle whose option tables are introspected from the real parsers on every run."""
import argparse
import contextlib
import copy
import io
import json
import math
import os
import shutil
import tempfile
from pathlib import Path

import numpy as np

from harness import common
from harness.common import cf, cnat, cstr, cbool, cz, differential, hexf, unhex

ID = "C18"
IMPORTS = "From Evo Require Import Num Config.\nFrom EvoGen Require Import C18Defaults.\n"
COQ_TARGETS = ["theories/ConfigProofs.vo", "generated/C18Defaults.vo"]
TRUSTED = ["model Evo.Config written by hand from main_config.py (set_config, finalize_values, generate, merge_json_union), "
           "settings.py (merge_dicts, reset, update_if_outdated, SettingsContainer) and entry_points.merge_config; tie = "
           "differential run on scratch files (documents compared as typed maps after every operation)",
           "numeric-token oracle: python float() (is a number / integral / nan-inf) computed by the harness for every token",
           "seaborn.color_palette(name) success is an oracle table per case; json load/dump with sort_keys is a lossless container "
           "for the JSON values used; atomic file replacement is C19's subject",
           "argparse is an oracle: parse_direct models store / store_true / type=int|float|str / nargs=2 for option occurrences "
           "with well-typed values; the option tables are read from parser()._actions on every run and the model is compared "
           "with the real parser on every generated argument list",
           "DEFAULT_SETTINGS_DICT is re-translated into coq/generated/C18Defaults.v on every run (duplicate-freeness by computation)"]
ASSUMPTIONS = ["tokens and keys are ASCII strings without the double quote; numeric tokens are what float() accepts",
               "a refusal of set (nan/inf token, a number for plot_seaborn_palette) that leaves the file untouched is not a violation",
               "argument lists for generate are built from long option names (evo's own help warns against short and combined "
               "flags), string values are neither numeric nor dashed, float-typed integral values satisfy |z| < 2^53",
               "the lock of SettingsContainer guards attribute assignment and update_existing_keys; an operation that itself "
               "writes the '__locked__' entry (a -c file containing that key) or plain dict item assignment is outside the model's "
               "theorem (reported as an observation)"]

PALETTE = "plot_seaborn_palette"
STATS = {}


# ------------------------------------------------------------------ tagged JSON values
def tag(v):
    if v is None:
        return ["n"]
    if isinstance(v, bool):
        return ["b", v]
    if isinstance(v, int):
        return ["i", v]
    if isinstance(v, float):
        return ["f", hexf(v)]
    if isinstance(v, str):
        return ["s", v]
    if isinstance(v, (list, tuple)):
        return ["l", [tag(x) for x in v]]
    if isinstance(v, (np.integer,)):
        return ["i", int(v)]
    if isinstance(v, (np.floating,)):
        return ["f", hexf(float(v))]
    return ["?", repr(v)]


def untag(t):
    k = t[0]
    if k == "n":
        return None
    if k == "f":
        return unhex(t[1])
    if k == "l":
        return [untag(x) for x in t[1]]
    return t[1]


def tag_dict(d):
    return sorted([[k, tag(v)] for k, v in d.items()])


def cjson(t):
    k = t[0]
    if k == "n":
        return "JNull"
    if k == "b":
        return "(JBool %s)" % cbool(t[1])
    if k == "i":
        return "(JInt %s)" % cz(t[1])
    if k == "f":
        return "(JFloat %s)" % cf(unhex(t[1]))
    if k == "s":
        return "(JStr %s)" % cstr(t[1])
    if k == "l":
        return "(JList [%s])" % "; ".join(cjson(x) for x in t[1])
    raise ValueError(t)


def cdict(items):
    return "([%s] : dict PrimFloat.float)" % "; ".join("(%s, %s)" % (cstr(k), cjson(v)) for k, v in items)


def from_coq_json(v):
    if v == "JNull":
        return ["n"]
    name = v[0]
    if name == "JBool":
        return ["b", bool(v[1])]
    if name == "JInt":
        return ["i", int(v[1])]
    if name == "JFloat":
        return ["f", hexf(v[1])]
    if name == "JStr":
        return ["s", v[1]]
    if name == "JList":
        return ["l", [from_coq_json(x) for x in v[1]]]
    raise ValueError(v)


def from_coq_dict(d):
    return sorted([[k, from_coq_json(v)] for k, v in d])


def classify(tok):
    try:
        f = float(tok)
    except ValueError:
        return "NotNum"
    if math.isnan(f) or math.isinf(f):
        return "NumBad"
    if f.is_integer():
        return "(NumInt %s)" % cz(int(f))
    return "(NumFlt %s)" % cf(f)


def ctok(tok):
    return "(mkTok %s %s)" % (cstr(tok), classify(tok))


_PALETTE_CACHE = {}


def palette_ok(name):
    if name not in _PALETTE_CACHE:
        from seaborn.palettes import color_palette
        try:
            color_palette(name)
            _PALETTE_CACHE[name] = True
        except Exception:  # noqa
            _PALETTE_CACHE[name] = False
    return _PALETTE_CACHE[name]


def cpalette(tokens):
    ok = sorted({t for t in tokens if classify(t) == "NotNum" and palette_ok(t)})
    return "(fun s => existsb (String.eqb s) [%s])" % "; ".join(cstr(t) for t in ok)


def defaults():
    from evo.tools.settings_template import DEFAULT_SETTINGS_DICT
    return dict(DEFAULT_SETTINGS_DICT)


# ------------------------------------------------------------------ implementation side
def _read(path):
    with open(path) as f:
        return json.load(f)


def impl_history(case):
    from evo import main_config as mc
    from evo.tools import settings
    d = tempfile.mkdtemp(prefix="c18_")
    p = os.path.join(d, "cfg.json")
    init = defaults() if case["init"] == "defaults" else {k: untag(v) for k, v in case["init"]}
    settings.write_to_json_file(Path(p), init)
    states = []
    try:
        for op in case["ops"]:
            raised = None
            before = open(p, "rb").read()
            try:
                with contextlib.redirect_stdout(io.StringIO()):
                    if op[0] == "set":
                        mc.set_config(p, list(op[1]))
                    elif op[0] == "reset":
                        settings.reset(Path(p), None if op[1] is None else list(op[1]))
                    elif op[0] == "merge":
                        q = os.path.join(d, "other.json")
                        with open(q, "w") as f:
                            json.dump({k: untag(v) for k, v in op[2]}, f)
                        mc.merge_json_union(p, q, bool(op[1]))
                    elif op[0] == "upgrade":
                        vp = os.path.join(d, "assets_version")
                        with open(vp, "w") as f:   # the version stamp of the (older) evo that wrote the settings folder
                            f.write(op[1] if len(op) > 1 else "v0.0.0-old")
                        saved = (settings.DEFAULT_PATH, settings.USER_ASSETS_VERSION_PATH)
                        settings.DEFAULT_PATH, settings.USER_ASSETS_VERSION_PATH = Path(p), Path(vp)
                        try:
                            settings.update_if_outdated()
                            version_written = open(vp).read() == settings.__version__
                        finally:
                            settings.DEFAULT_PATH, settings.USER_ASSETS_VERSION_PATH = saved
                        if not version_written:
                            raised = "version file not updated"
            except Exception as e:  # noqa
                raised = type(e).__name__
            after = open(p, "rb").read()
            states.append({"raised": raised, "doc": tag_dict(_read(p)), "bytes_unchanged": before == after,
                           "leftovers": sorted(f for f in os.listdir(d) if f not in ("cfg.json", "other.json", "assets_version"))})
    finally:
        shutil.rmtree(d, ignore_errors=True)
    return {"states": states}


def impl_container(case):
    from evo.tools import settings
    data = {k: untag(v) for k, v in case["data"]}
    try:
        c = settings.SettingsContainer(data)
    except settings.SettingsException:
        return {"init_raised": True}
    states = []
    for op in case["ops"]:
        raised = None
        try:
            if op[0] == "set":
                setattr(c, op[1], untag(op[2]))
            elif op[0] == "upd":
                c.update_existing_keys({k: untag(v) for k, v in op[1]})
            elif op[0] == "get":
                getattr(c, op[1])
        except settings.SettingsException:
            raised = "SettingsException"
        except Exception as e:  # noqa
            raised = type(e).__name__
        states.append({"raised": raised, "doc": tag_dict(dict(c))})
    return {"init": tag_dict(dict(c)) if not states else None, "states": states, "init_doc": tag_dict(dict(settings.SettingsContainer(data)))}


def impl_mergecfg(case):
    from evo import entry_points as ep
    from evo.tools import settings
    d = tempfile.mkdtemp(prefix="c18_")
    try:
        cp = os.path.join(d, "conf.json")
        cfg = {k: untag(v) for k, v in case["config"]}
        with open(cp, "w") as f:
            json.dump(cfg, f)
        args = {k: untag(v) for k, v in case["args"]}
        args["config"] = cp if case["use_config"] else None
        ns = argparse.Namespace(**args)
        before = dict(settings.SETTINGS)
        sfile = open(settings.DEFAULT_PATH, "rb").read()
        try:
            out = ep.merge_config(ns)
            after = dict(settings.SETTINGS)
        finally:
            dict.clear(settings.SETTINGS)
            dict.update(settings.SETTINGS, before)
        res = dict(vars(out))
        res_cfg = res.pop("config", None)
        return {"ns": tag_dict(res), "config_kept": res_cfg == args["config"] or "config" in cfg,
                "settings_before": tag_dict(before), "settings_after": tag_dict(after),
                "settings_file_unchanged": open(settings.DEFAULT_PATH, "rb").read() == sfile,
                "input_ns_unchanged": vars(ns) == args}
    finally:
        shutil.rmtree(d, ignore_errors=True)


def _parser(app):
    from evo import main_ape_parser, main_rpe_parser, main_traj_parser
    return {"ape": main_ape_parser, "rpe": main_rpe_parser, "traj": main_traj_parser}[app].parser()


def option_table(app, sub):
    """(name, kind, choices) of every long optional of the sub-parser, from the real parser"""
    p = _parser(app)
    sp = None
    for a in p._actions:
        if isinstance(a, argparse._SubParsersAction):
            sp = a.choices[sub]
    table, positionals = [], []
    for a in sp._actions:
        if isinstance(a, argparse._HelpAction):
            continue
        if not a.option_strings:
            positionals.append((a.dest, a.nargs))
            continue
        longs = [o for o in a.option_strings if o.startswith("--")]
        if not longs or a.dest == "config":
            continue
        name = longs[0][2:]
        if isinstance(a, argparse._StoreTrueAction):
            kind = "flag"
        elif isinstance(a, argparse._StoreAction):
            base = {int: "int", float: "float", str: "str", None: "str"}.get(a.type)
            if base is None:
                kind = "other"
            elif a.nargs is None:
                kind = base
            elif isinstance(a.nargs, int) and base == "float":
                kind = "floats%d" % a.nargs
            else:
                kind = "other"
        else:
            kind = "other"
        table.append({"name": name, "dest": a.dest, "kind": kind, "choices": list(a.choices) if a.choices else None})
    return table, positionals


def flatten_args(args):
    toks = []
    for a in args:
        toks.append("--" + a[0])
        toks.extend(a[2])
    return toks


def impl_generate(case):
    from evo import main_config as mc
    from evo import entry_points as ep
    from evo.tools import settings
    toks = flatten_args(case["args"]) if "args" in case else list(case["tokens"])
    try:
        data = mc.generate(list(toks))
    except Exception as e:  # noqa
        return {"error": type(e).__name__ + ": " + str(e)[:100]}
    out = {"data": tag_dict(data), "tokens": toks}
    if "args" not in case:
        return out
    d = tempfile.mkdtemp(prefix="c18_")
    before = dict(settings.SETTINGS)
    try:
        gp = os.path.join(d, "generated.json")
        with open(gp, "w") as f:
            f.write(json.dumps(data, indent=4, sort_keys=True))
        p = _parser(case["app"])
        pos = [case["sub"]] + list(case["positionals"])
        with contextlib.redirect_stderr(io.StringIO()):
            try:
                direct = p.parse_args(pos + toks)
            except SystemExit:
                return dict(out, argparse_rejected=True)
            via = ep.merge_config(p.parse_args(pos + ["-c", gp]))
        dd, vv = dict(vars(direct)), dict(vars(via))
        dd.pop("config", None)
        vv.pop("config", None)
        out["direct"] = tag_dict(dd)
        out["via_config"] = tag_dict(vv)
        out["python_equal"] = dd == vv
        out["int_ok"] = all(type(vv.get(a[0])) is int for a in case["args"] if a[1] == "int")
        out["extra_keys"] = sorted(set(vv) - set(dd))
    finally:
        dict.clear(settings.SETTINGS)
        dict.update(settings.SETTINGS, before)
        shutil.rmtree(d, ignore_errors=True)
    return out


def _write_tum(path, n, seed, noise):
    rng = np.random.default_rng(seed)
    t = np.arange(n) * 0.1
    xyz = np.cumsum(rng.normal(0, 0.1, (n, 3)), axis=0) + noise * rng.normal(0, 1, (n, 3))
    q = np.tile([0.0, 0.0, 0.0, 1.0], (n, 1))
    np.savetxt(path, np.column_stack([t, xyz, q]))


def impl_e2e(case):
    """evo_ape tum with the arguments vs. with -c generated.json: same statistics"""
    from evo import main_config as mc, entry_points as ep, main_ape
    from evo.tools import settings, file_interface
    d = tempfile.mkdtemp(prefix="c18_")
    before = dict(settings.SETTINGS)
    try:
        ref, est = os.path.join(d, "ref.tum"), os.path.join(d, "est.tum")
        _write_tum(ref, 40, 1, 0.0)
        _write_tum(est, 40, 1, 0.02)
        toks = flatten_args(case["args"])
        data = mc.generate(list(toks))
        gp = os.path.join(d, "generated.json")
        with open(gp, "w") as f:
            f.write(json.dumps(data, indent=4, sort_keys=True))
        p = _parser("ape")
        res = []
        for k, argv in enumerate((["tum", ref, est] + toks, ["tum", ref, est, "-c", gp])):
            out = os.path.join(d, "res%d.zip" % k)
            ns = p.parse_args(argv + ["--save_results", out, "--no_warnings", "--silent"])
            if hasattr(ns, "config"):
                ns = ep.merge_config(ns)
            try:
                with contextlib.redirect_stdout(io.StringIO()):
                    main_ape.run(ns)
                r = file_interface.load_res_file(out)
                res.append({"stats": tag_dict(r.stats), "n": int(r.np_arrays["error_array"].size)})
            except BaseException as e:  # noqa
                res.append({"error": type(e).__name__ + ": " + str(e)[:100]})
        return {"direct": res[0], "via_config": res[1]}
    finally:
        dict.clear(settings.SETTINGS)
        dict.update(settings.SETTINGS, before)
        shutil.rmtree(d, ignore_errors=True)


def impl(case):
    return {"history": impl_history, "container": impl_container, "mergecfg": impl_mergecfg, "generate": impl_generate,
            "e2e": impl_e2e}[case["kind"]](case)


# ------------------------------------------------------------------ model side
def _all_tokens(case):
    toks = []
    for op in case["ops"]:
        if op[0] == "set":
            toks += list(op[1])
    return toks


def cop(op):
    if op[0] == "set":
        return "(OSet [%s])" % "; ".join(ctok(t) for t in op[1])
    if op[0] == "reset":
        return "(OReset None)" if op[1] is None else "(OReset (Some [%s]))" % "; ".join(cstr(k) for k in op[1])
    if op[0] == "merge":
        return "(OMerge %s %s)" % (cbool(op[1]), cdict(op[2]))
    return "OUpgrade"


def carg(a):
    name, kind, vals = a
    if kind == "flag":
        return "(AFlag %s)" % cstr(name)
    if kind == "str":
        return "(AStr %s %s)" % (cstr(name), cstr(vals[0]))

    def numv(tok):
        f = float(tok)
        return "(VInt %s)" % cz(int(f)) if f.is_integer() else "(VFlt %s)" % cf(f)
    if kind == "int":
        return "(AInt %s %s %s)" % (cstr(name), cz(int(float(vals[0]))), cstr(vals[0]))
    if kind == "float":
        return "(AFloat %s %s %s)" % (cstr(name), numv(vals[0]), cstr(vals[0]))
    return "(AFloats %s [%s])" % (cstr(name), "; ".join("(%s, %s)" % (numv(v), cstr(v)) for v in vals))


def expr(case, out):
    k = case["kind"]
    if k == "history":
        init = "default_settings" if case["init"] == "defaults" else cdict(case["init"])
        return "trace %s default_settings [%s] %s" % (cpalette(_all_tokens(case)), "; ".join(cop(o) for o in case["ops"]), init)
    if k == "container":
        ops = []
        for op in case["ops"]:
            if op[0] == "set":
                ops.append("CSet %s %s" % (cstr(op[1]), cjson(op[2])))
            elif op[0] == "upd":
                ops.append("CUpd %s" % cdict(op[1]))
            else:   # get: no state change; modelled as an update with nothing
                ops.append("CUpd %s" % cdict([]))
        gets = "[%s]" % "; ".join(cstr(op[1]) for op in case["ops"] if op[0] == "get")
        return ("(let fz := PrimFloat.eqb PrimFloat.zero in match container_init fz %s with "
                "| Some c => (true, c, ctrace fz [%s] c) | None => (false, [], []) end)" % (cdict(case["data"]), "; ".join(ops)))
    if k == "mergecfg":
        args = [kv for kv in case["args"]]
        if case["use_config"]:
            return "merge_config %s %s %s" % (cdict(args), cdict(case["config"]), cdict(out["settings_before"]))
        return "(%s, %s)" % (cdict(args), cdict(out["settings_before"]))
    if k == "generate":
        toks = out.get("tokens") or (flatten_args(case["args"]) if "args" in case else case["tokens"])
        bad = "(fun s : string => JNull)"
        for t in sorted({t for t in toks if classify(t) == "NumBad"}):
            bad = "(fun s : string => if String.eqb s %s then JFloat %s else %s s)" % (cstr(t), cf(float(t)), bad)
        g = "generate %s ([%s] : list (token PrimFloat.float))" % (bad, "; ".join(ctok(t) for t in toks))
        if "args" in case:
            args = "([%s] : list (@arg PrimFloat.float))" % "; ".join(carg(a) for a in case["args"])
            return "(%s, map (@txt PrimFloat.float) (flatten %s), parse_direct F_ofZ [] %s)" % (g, args, args)
        return "(%s, [], [])" % g
    return "0%nat"


def _doc_spec(case, before, after, op, raised):
    """the invariants of the property text, evaluated directly on the implementation's documents; None = hold"""
    b, a = dict((k, v) for k, v in before), dict((k, v) for k, v in after)
    dflt = dict(tag_dict(defaults()))
    if op[0] == "set":
        if set(a) != set(b):
            return "set changed the key set: added %r, removed %r" % (sorted(set(a) - set(b)), sorted(set(b) - set(a)))
        named = set(op[1])
        for k in b:
            if k not in named and a[k] != b[k]:
                return "set changed %r which is not named in the argument list" % k
            if k != PALETTE and b[k][0] == "b" and a[k][0] != "b":
                return "boolean parameter %r became %r" % (k, a[k])
            if k != PALETTE and b[k][0] == "l" and a[k][0] != "l":
                return "list parameter %r became %r" % (k, a[k])
        for i, t in enumerate(op[1]):
            if t in b and b[t][0] in ("i", "f", "s") and t != PALETTE and i + 1 < len(op[1]) and op[1][i + 1] not in b and not raised:
                c = classify(op[1][i + 1])
                if c.startswith("(NumInt") and a[t][0] != "i" and op[1].count(t) == 1:
                    return "numeric token %r stored as %r under %r" % (op[1][i + 1], a[t], t)
                if c.startswith("(NumFlt") and a[t][0] != "f" and op[1].count(t) == 1:
                    return "numeric token %r stored as %r under %r" % (op[1][i + 1], a[t], t)
                # types are kept: only numeric tokens are converted, so a string parameter that is given a non-numeric
                # token (also 'none' / '[]', which mean the empty list for LIST parameters only) still holds a string
                if c == "NotNum" and b[t][0] == "s" and a[t][0] != "s" and op[1].count(t) == 1:
                    return "string parameter %r given the non-numeric token %r became %r (type changed)" % (t, op[1][i + 1], a[t])
        if not raised:
            for i, t in enumerate(op[1]):
                if t in b and b[t][0] == "b" and t != PALETTE and op[1].count(t) == 1:
                    vals = []
                    for u in op[1][i + 1:]:
                        if u in b:
                            break
                        vals.append(u)
                    if not vals:
                        want = not b[t][1]
                    elif classify(vals[-1]) == "NotNum" and vals[-1].lower() in ("true", "false"):
                        want = vals[-1].lower() == "true"
                    else:
                        want = not b[t][1]
                    if a[t] != ["b", want]:
                        return "boolean parameter %r with values %r: expected %r (explicit true/false, else toggle), got %r" % (t, vals, want, a[t])
        if raised and a != b:
            return "set raised %s but changed the file" % raised
    elif op[0] == "reset":
        ps = None if op[1] is None else set(op[1])
        for k in set(a) | set(b):
            if ps is None:
                continue
            if k in ps and k in dflt:
                if a.get(k) != dflt[k]:
                    return "reset did not restore %r to its default" % k
            elif a.get(k) != b.get(k):
                return "reset changed %r which was not asked for" % k
        if ps is None and a != dflt:
            return "full reset is not the default document"
    elif op[0] == "upgrade":
        for k in b:
            if a.get(k) != b[k]:
                return "upgrade changed the user's value of %r" % k
        for k in dflt:
            if k not in a:
                return "upgrade did not add the missing default %r" % k
            if k not in b and a[k] != dflt[k]:
                return "upgrade added %r with a non-default value" % k
        if set(a) - set(b) - set(dflt):
            return "upgrade added unknown keys"
    return None


def judge_history(case, val, out):
    states = out["states"]
    prev = tag_dict(defaults()) if case["init"] == "defaults" else sorted(case["init"])
    for i, (op, st, mv) in enumerate(zip(case["ops"], states, val)):
        if st["leftovers"]:
            return {"kind": "spec-violation", "failing_input": True, "detail": "scratch files left behind: %r" % st["leftovers"]}
        if st["raised"] and op[0] != "set":
            more = _doc_spec(case, prev, st["doc"], op, st["raised"])
            return {"kind": "spec-violation", "failing_input": True,
                    "detail": "operation %d (%s%s) raised %s%s" % (i, op[0], " from a settings folder stamped " + op[1] if op[0] == "upgrade" and len(op) > 1 else "",
                                                                     st["raised"], "; " + more if more else "")}
        sp = _doc_spec(case, prev, st["doc"], op, st["raised"])
        if sp:
            return {"kind": "spec-violation", "failing_input": True, "detail": "operation %d (%s): %s" % (i, op[0], sp)}
        m_raised, m_doc = mv
        m_doc = from_coq_dict(m_doc)
        if bool(st["raised"]) != bool(m_raised):
            return {"kind": "model-vs-impl", "failing_input": False, "correspondence": "Config.set_config (refusals)",
                    "detail": "operation %d: implementation raised %r, model raises=%r" % (i, st["raised"], m_raised)}
        if m_doc != st["doc"]:
            diff = [(k, dict(st["doc"]).get(k), dict(m_doc).get(k)) for k in sorted(set(dict(st["doc"])) | set(dict(m_doc)))
                    if dict(st["doc"]).get(k) != dict(m_doc).get(k)]
            return {"kind": "model-vs-impl", "failing_input": False, "correspondence": "Config.apply_op (%s)" % op[0],
                    "detail": "operation %d: document differs from the model: (key, evo, model) %r" % (i, diff[:4])}
        prev = st["doc"]
    return None


def judge_container(case, val, out):
    ok, init, tr = val
    if out.get("init_raised"):
        if ok:
            return {"kind": "model-vs-impl", "failing_input": False, "correspondence": "Config.container_init",
                    "detail": "SettingsContainer(data) raised, the model builds it"}
        return None
    if not ok:
        return {"kind": "model-vs-impl", "failing_input": False, "correspondence": "Config.container_init", "detail": "model refuses the data"}
    if from_coq_dict(init) != out["init_doc"]:
        return {"kind": "model-vs-impl", "failing_input": False, "correspondence": "Config.container_init", "detail": "initial container differs"}
    prev = dict((k, v) for k, v in out["init_doc"])
    locked = True
    for i, (op, st, mv) in enumerate(zip(case["ops"], out["states"], tr)):
        cur = dict((k, v) for k, v in st["doc"])
        touches_lock = (op[0] == "set" and op[1] == "__locked__") or (op[0] == "upd" and any(k == "__locked__" for k, _ in op[1]))
        if locked and not touches_lock and set(cur) != set(prev):
            return {"kind": "spec-violation", "failing_input": True,
                    "detail": "operation %d added/removed keys of the locked settings: %r" % (i, sorted(set(cur) ^ set(prev)))}
        if locked and op[0] == "set" and op[1] not in prev and st["raised"] != "SettingsException":
            return {"kind": "spec-violation", "failing_input": True, "detail": "unknown parameter %r could be added to the locked settings" % op[1]}
        if op[0] == "get":
            want = None if op[1] in prev else "SettingsException"
            if st["raised"] != want:
                return {"kind": "spec-violation", "failing_input": True, "detail": "getattr(%r) raised %r" % (op[1], st["raised"])}
        else:
            m_raised, m_doc = mv
            if bool(m_raised) != bool(st["raised"]) or from_coq_dict(m_doc) != st["doc"]:
                return {"kind": "model-vs-impl", "failing_input": False, "correspondence": "Config.apply_cop",
                        "detail": "operation %d %r: container differs from the model" % (i, op[:2])}
        if touches_lock:
            locked = False   # from here on the lock entry itself was rewritten: only model agreement is required
        prev = cur
    return None


def judge_mergecfg(case, val, out):
    ns, st = val
    args = dict((k, v) for k, v in case["args"])
    cfg = dict((k, v) for k, v in case["config"]) if case["use_config"] else {}
    got = dict((k, v) for k, v in out["ns"])
    if not out["settings_file_unchanged"]:
        return {"kind": "spec-violation", "failing_input": True, "detail": "merge_config rewrote the settings file (must be session only)"}
    for k in set(args) | set(cfg):
        if k == "config":
            continue
        want = cfg[k] if k in cfg else args[k]
        if got.get(k) != want:
            return {"kind": "spec-violation", "failing_input": True,
                    "detail": "namespace[%r] = %r, expected %r (config file has priority over the command line)" % (k, got.get(k), want)}
    sb, sa = dict((k, v) for k, v in out["settings_before"]), dict((k, v) for k, v in out["settings_after"])
    if set(sb) != set(sa):
        return {"kind": "spec-violation", "failing_input": True, "detail": "session settings gained/lost keys: %r" % sorted(set(sb) ^ set(sa))}
    for k in sb:
        want = cfg[k] if k in cfg else sb[k]
        if sa[k] != want:
            return {"kind": "spec-violation", "failing_input": True, "detail": "session setting %r is %r, expected %r" % (k, sa[k], want)}
    m_ns = [kv for kv in from_coq_dict(ns) if kv[0] != "config"]
    if m_ns != [kv for kv in out["ns"] if kv[0] != "config"] or from_coq_dict(st) != out["settings_after"]:
        return {"kind": "model-vs-impl", "failing_input": False, "correspondence": "Config.merge_config", "detail": "namespace/settings differ from the model"}
    return None


def judge_generate(case, val, out):
    if "error" in out:
        return {"kind": "spec-violation", "failing_input": True, "detail": "generate raised " + out["error"]}
    g, flat, direct = val
    if "args" in case:
        if out.get("argparse_rejected"):
            STATS["argparse_rejected"] = STATS.get("argparse_rejected", 0) + 1
            return None      # e.g. mutually exclusive options: not an argument list that can be passed directly
        if not out["python_equal"]:
            dd, vv = dict((k, v) for k, v in out["direct"]), dict((k, v) for k, v in out["via_config"])
            diff = [(k, dd.get(k), vv.get(k)) for k in sorted(set(dd) | set(vv)) if dd.get(k) != vv.get(k)]
            # 1 == 1.0 is accepted
            real = [(k, a, b) for k, a, b in diff if not (a and b and {a[0], b[0]} == {"i", "f"} and float(untag(a)) == float(untag(b)))
                    and not (a and b and a[0] == "l" and b[0] == "l" and [float(x) for x in untag(a)] == [float(x) for x in untag(b)])]
            if real:
                return {"kind": "spec-violation", "failing_input": True,
                        "detail": "-c generated.json differs from passing the arguments: (option, direct, via config) %r" % real[:4]}
        if not out["int_ok"]:
            return {"kind": "spec-violation", "failing_input": True, "detail": "an int-typed option is not an int when it comes from the generated config"}
        if out["extra_keys"]:
            return {"kind": "spec-violation", "failing_input": True, "detail": "generated config adds options the parser does not know: %r" % out["extra_keys"]}
        if list(flat) != out["tokens"]:
            return {"kind": "model-vs-impl", "failing_input": False, "correspondence": "Config.flatten", "detail": "token list differs"}
        dd = dict((k, v) for k, v in out["direct"])
        md = from_coq_dict(direct)
        if any(dd.get(k) != v for k, v in md):
            return {"kind": "model-vs-impl", "failing_input": False, "correspondence": "Config.parse_direct (argparse oracle)",
                    "detail": "argparse stores %r, model %r" % ([(k, dd.get(k)) for k, _ in md], md)}
    if from_coq_dict(g) != out["data"]:
        return {"kind": "model-vs-impl", "failing_input": False, "correspondence": "Config.generate",
                "detail": "generate(args) = %r, model %r" % (out["data"], from_coq_dict(g))}
    return None


def judge_e2e(case, val, out):
    a, b = out["direct"], out["via_config"]
    if "error" in a:
        return None if "error" in b else {"kind": "spec-violation", "failing_input": True, "detail": "direct run failed (%s), -c run did not" % a["error"]}
    if "error" in b:
        return {"kind": "spec-violation", "failing_input": True, "detail": "evo_ape -c generated.json failed: %s (direct run succeeded)" % b["error"]}
    if a != b:
        return {"kind": "spec-violation", "failing_input": True, "detail": "evo_ape -c generated.json gives other statistics than the arguments: %r vs %r" % (a, b)}
    return None


def judge(case, val, out):
    return {"history": judge_history, "container": judge_container, "mergecfg": judge_mergecfg, "generate": judge_generate,
            "e2e": judge_e2e}[case["kind"]](case, val, out)


def nontrivial(case, val, out):
    if case["kind"] == "history":
        return len(case["ops"]) >= 2
    if case["kind"] == "generate":
        return len(case.get("args", case.get("tokens", []))) >= 2
    return True


def shrink(case):
    if case["kind"] in ("history", "container"):
        ops = case["ops"]
        for i in range(len(ops)):
            if len(ops) > 1:
                c = copy.deepcopy(case)
                del c["ops"][i]
                yield c
        for i, op in enumerate(ops):
            if case["kind"] == "history" and op[0] == "set" and len(op[1]) > 1:
                for j in range(len(op[1])):
                    c = copy.deepcopy(case)
                    del c["ops"][i][1][j]
                    yield c
    elif case["kind"] in ("generate", "e2e") and "args" in case:
        for i in range(len(case["args"])):
            if len(case["args"]) > 1:
                c = copy.deepcopy(case)
                del c["args"][i]
                yield c


# ------------------------------------------------------------------ generators
VALUE_TOKENS = ["true", "false", "True", "FALSE", "TrUe", "1", "0", "2", "-3", "1.5", "-0.25", "1e3", "1e-3", "2.0", "nan", "inf",
                "-inf", "abc", "png", "svg", "none", "None", "[]", "rmse", "mean", "std", "deep", "Set2", "husl", "nonsense", "xyz", "1_0",
                "+5", ".5", "5.", "0x10", "--flag", "-x", "Agg", "12345678901234567890", "1e22"]


def random_set_args(rng, keys):
    n = int(rng.integers(1, 8))
    out = []
    for _ in range(n):
        r = rng.random()
        if r < 0.45:
            out.append(str(rng.choice(keys)))
        elif r < 0.5:
            out.append(str(rng.choice(["unknown_key", "plot_", "PLOT_SPLIT", "config"])))
        else:
            out.append(str(rng.choice(VALUE_TOKENS)))
    return out


def random_doc(rng, keys, dflt):
    """a (possibly old / partial / user edited) settings document over the settings keys"""
    doc = {}
    for k in keys:
        if rng.random() < 0.85:
            v = dflt[k]
            if rng.random() < 0.2:
                if isinstance(v, bool):
                    v = not v
                elif isinstance(v, (int, float)):
                    v = type(v)(v + 1)
                elif isinstance(v, str):
                    v = v + "_user"
                elif isinstance(v, list):
                    v = v[:1]
            doc[k] = v
    return doc


RELEASES = ["v0.1", "v0.9.9", "v1.0.0", "v1.1.0", "v1.2.3", "v1.3.0", "v1.4.0", "v1.5.1", "v1.5.6", "v1.6.1", "v1.7.0", "v1.7.1",
            "v1.8.0", "v1.9.0", "v1.9.2", "v1.10.0", "v1.12.0", "v1.13.5", "v1.20.0", "v1.25.2", "v1.28.0", "v1.30.4", "v1.31.0"]


def _vtuple(v):
    import re
    m = re.fullmatch(r"v(\d+)\.(\d+)(?:\.(\d+))?", v)
    return None if m is None else tuple(int(x or 0) for x in m.groups())


def _running_version():
    from evo.tools import settings
    return settings.__version__


def older_versions():
    """version stamps of evo releases that are OLDER than the running package version (numerically), incl. the ones that
    sort after it as strings (v1.9.0 vs v1.31.1) and, generically, every single-digit minor/patch below the current one"""
    from evo.tools import settings
    cur = _vtuple(settings.__version__)
    if cur is None:
        return ["v0.0.0-old"] + RELEASES[:4]
    cands = list(RELEASES)
    cands += ["v%d.%d.0" % (cur[0], m) for m in range(0, min(cur[1], 10))]
    cands += ["v%d.%d.%d" % (cur[0], cur[1], q) for q in range(0, min(cur[2], 10))]
    if cur[0] > 0:
        cands += ["v%d.%d.%d" % (cur[0] - 1, m, q) for m, q in ((9, 9), (99, 0), (5, 12))]
    out = []
    for v in cands:
        t = _vtuple(v)
        if t is not None and t < cur and v not in out:
            out.append(v)
    return out


def old_version_upgrade_cases(ctx):
    """a version upgrade from a settings folder stamped by an older evo release (real release numbers, also those that sort
    after the running version as strings) whose settings file lacks some of today's keys and holds user-set values"""
    rng = ctx.np_rng(26)
    dflt = defaults()
    keys = sorted(dflt)
    stamps = older_versions()
    cs = []
    for i in range(max(ctx.n(40, 300), len(stamps))):
        stamp = stamps[i % len(stamps)]
        doc = random_doc(rng, keys, dflt)
        for k in rng.choice(keys, int(rng.integers(1, 6)), replace=False):
            doc.pop(str(k), None)
        if i % 5 == 0:
            doc["user_only"] = 1
        ops = [["upgrade", stamp]]
        if i % 3 == 1:
            ops.insert(0, ["set", [str(rng.choice(sorted(doc) or keys)), str(rng.choice(VALUE_TOKENS))]])
        if i % 3 == 2:
            ops.append(["set", random_set_args(rng, keys)])
        if i % 7 == 6:
            ops.append(["upgrade", stamps[(i * 5 + 3) % len(stamps)]])
        cs.append({"kind": "history", "init": tag_dict(doc), "ops": ops})
    return cs


def history_cases(ctx):
    rng = ctx.np_rng(21)
    dflt = defaults()
    keys = sorted(dflt)
    cs = []
    for i in range(ctx.n(300, 3000)):
        nops = int(rng.integers(1, 7))
        ops = []
        for _ in range(nops):
            r = rng.random()
            if r < 0.55:
                ops.append(["set", random_set_args(rng, keys)])
            elif r < 0.7:
                sub = None if rng.random() < 0.2 else [str(k) for k in rng.choice(keys + ["nokey"], int(rng.integers(0, 4)), replace=False)]
                ops.append(["reset", sub])
            elif r < 0.9:
                other = random_doc(rng, [str(k) for k in rng.choice(keys, int(rng.integers(0, 5)), replace=False)], dflt)
                ops.append(["merge", bool(rng.random() < 0.5), tag_dict(other)])
            else:
                ops.append(["upgrade"])
        init = "defaults" if i % 3 else tag_dict(random_doc(rng, keys, dflt))
        cs.append({"kind": "history", "init": init, "ops": ops})
    return cs


EMPTY_TOKENS = ["none", "None", "[]", "NONE"]


def empty_token_cases(ctx):
    """`evo_config set <parameter> none|None|[]` for every non-boolean parameter: the empty-list words belong to list
    parameters; a string parameter keeps the word as a string (`set plot_multi_cmap none` switches the colormap off)"""
    rng = ctx.np_rng(25)
    dflt = defaults()
    skeys = [k for k in sorted(dflt) if isinstance(dflt[k], str) and k != PALETTE]
    okeys = [k for k in sorted(dflt) if not isinstance(dflt[k], (str, bool))] + [PALETTE]
    cs = []
    for j, k in enumerate(skeys):
        for tok in EMPTY_TOKENS[:3]:
            cs.append({"kind": "history", "init": "defaults", "ops": [["set", [k, tok]]]})
        # with further values, after other tokens, next to another parameter, on a user-edited document
        other = skeys[(j + 7) % len(skeys)]
        tok = EMPTY_TOKENS[j % 4]
        extra = [[k, tok, "abc"], ["unknown_key", k, tok], [k, tok, other, EMPTY_TOKENS[(j + 1) % 4]], [other, "xyz", k, tok, "1"]][j % 4]
        init = "defaults" if j % 2 else tag_dict(random_doc(rng, sorted(dflt), dflt))
        cs.append({"kind": "history", "init": init, "ops": [["set", extra], ["set", [k, "back"]]]})
    for k in okeys:
        for tok in EMPTY_TOKENS[:3:2]:
            cs.append({"kind": "history", "init": "defaults", "ops": [["set", [k, tok]], ["set", [k, "2", "3"]]]})
    return cs


def container_cases(ctx):
    rng = ctx.np_rng(22)
    cs = []
    pool = ["a", "b", "plot_split", "c_new", "__locked__", "x"]
    vals = [tag(v) for v in (True, False, 1, 0, 2.5, "s", "", [1, 2], [], None)]
    for i in range(ctx.n(120, 1000)):
        data = [[k, vals[int(rng.integers(0, len(vals)))]] for k in rng.choice(["a", "b", "plot_split", "x"], int(rng.integers(0, 4)), replace=False)]
        ops = []
        for _ in range(int(rng.integers(1, 7))):
            r = rng.random()
            k = str(rng.choice(pool if rng.random() < 0.15 else pool[:4] + ["x"]))
            if r < 0.5:
                ops.append(["set", k, vals[int(rng.integers(0, len(vals)))]])
            elif r < 0.8:
                other = [[str(kk), vals[int(rng.integers(0, len(vals)))]] for kk in rng.choice(pool if rng.random() < 0.1 else pool[:4], int(rng.integers(0, 4)), replace=False)]
                ops.append(["upd", other])
            else:
                ops.append(["get", k])
        cs.append({"kind": "container", "data": [[str(k), v] for k, v in data], "ops": ops})
    # unknown parameter names that are ordinary words AND happen to be attributes of the dict-based container class
    # (SETTINGS.items = ..., SETTINGS.copy = ...): unknown all the same - 'unknown parameters cannot be added to the loaded
    # settings'.  Only assignments / updates (reading such a name yields the bound method, nothing the property speaks about);
    # on small containers and on a container holding the package's default settings.
    dflt = tag_dict(defaults())
    for i in range(ctx.n(60, 500)):
        if i % 5 == 4:
            data = [[k, v] for k, v in dflt]
        else:
            data = [[str(k), vals[int(rng.integers(0, len(vals)))]]
                    for k in rng.choice(["a", "b", "plot_split", "x"], int(rng.integers(0, 4)), replace=False)]
        known = [k for k, _ in data]
        ops = []
        for _ in range(int(rng.integers(1, 6))):
            r = rng.random()
            if r < 0.7 or not known:
                ops.append(["set", str(rng.choice(ATTR_WORDS)), vals[int(rng.integers(0, len(vals)))]])
            elif r < 0.85:
                ops.append(["set", str(rng.choice(known)), vals[int(rng.integers(0, len(vals)))]])
            else:
                names = [str(x) for x in rng.choice(ATTR_WORDS, int(rng.integers(1, 3)), replace=False)] + [str(rng.choice(known))]
                ops.append(["upd", [[kk, vals[int(rng.integers(0, len(vals)))]] for kk in names]])
        cs.append({"kind": "container", "data": data, "ops": ops})
    return cs


# words that are not settings keys but name methods/attributes of dict / SettingsContainer / object
ATTR_WORDS = ["items", "keys", "values", "copy", "update", "get", "pop", "clear", "setdefault", "fromkeys", "popitem",
              "locked", "update_existing_keys", "from_json_file", "__class__", "__doc__", "__dict__", "__len__", "__module__"]


def mergecfg_cases(ctx):
    rng = ctx.np_rng(23)
    dflt = defaults()
    skeys = sorted(dflt)
    cs = []
    for i in range(ctx.n(100, 800)):
        args = {"align": bool(rng.random() < 0.5), "plot_mode": str(rng.choice(["xyz", "xy"])), "t_max_diff": 0.01, "downsample": None,
                "n_to_align": -1, "subcommand": "tum"}
        cfg = {}
        for k in rng.choice(list(args), int(rng.integers(0, 4)), replace=False):
            cfg[str(k)] = [True, "xz", 0.5, 100, 7, "kitti"][list(args).index(k)]
        for k in rng.choice(skeys, int(rng.integers(0, 4)), replace=False):
            v = dflt[str(k)]
            cfg[str(k)] = (not v) if isinstance(v, bool) else (v + 1 if isinstance(v, (int, float)) else (v + "_c" if isinstance(v, str) else v[:1]))
            if isinstance(v, float) and rng.random() < 0.5:
                cfg[str(k)] = int(v) + 2      # a JSON config may well say 3 for a float-valued setting (and generate writes integral numbers as ints)
            elif isinstance(v, int) and not isinstance(v, bool) and rng.random() < 0.3:
                cfg[str(k)] = float(v) + 0.5
        if rng.random() < 0.3:
            cfg["brand_new_key"] = 3
        cs.append({"kind": "mergecfg", "args": tag_dict(args), "config": tag_dict(cfg), "use_config": bool(i % 5 != 0)})
    return cs


STR_VALUES = ["out.zip", "results/run_1", "plot.pdf", "map.yaml", "a_b-c.txt", "x"]
INT_SPELL = ["500", "1", "-1", "0", "42", "1000000", "7"]
# argparse itself only accepts negative numbers of the forms -N and -N.M as values (no exponent), and -0.0 differs from the
# generated 0 only in the sign of zero: both are left out of the direct/-c comparison
FLOAT_SPELL = ["-0.5", "0.01", "1e-3", "2", "-3", "1.0", "0", "1e3", "0.25", "-.75", "10", "3.14159", "-12.125", "5e-324", "1e15"]


def generate_cases(ctx):
    rng = ctx.np_rng(24)
    cs = []
    subs = {"ape": ["tum", "kitti", "euroc"], "rpe": ["tum", "kitti", "bag"], "traj": ["tum", "kitti", "euroc"]}
    tables = {}
    for i in range(ctx.n(300, 3000)):
        app = ["ape", "rpe", "traj"][i % 3]
        sub = subs[app][(i // 3) % 3]
        if (app, sub) not in tables:
            tables[(app, sub)] = option_table(app, sub)
        table, positionals = tables[(app, sub)]
        usable = [o for o in table if o["kind"] != "other"]
        chosen = rng.choice(len(usable), int(rng.integers(1, min(8, len(usable)) + 1)), replace=False)
        args = []
        for j in chosen:
            o = usable[int(j)]
            k = o["kind"]
            if k == "flag":
                args.append([o["name"], "flag", []])
            elif k == "str":
                args.append([o["name"], "str", [str(rng.choice(o["choices"] if o["choices"] else STR_VALUES))]])
            elif k == "int":
                args.append([o["name"], "int", [str(rng.choice(INT_SPELL))]])
            elif k == "float":
                args.append([o["name"], "float", [str(rng.choice(FLOAT_SPELL))]])
            elif k.startswith("floats"):
                args.append([o["name"], k, [str(rng.choice(FLOAT_SPELL)) for _ in range(int(k[6:]))]])
        pos = []
        for dest, nargs in positionals:
            pos += ["f1.txt"] if nargs is None else (["f1.txt", "f2.txt"] if nargs == "+" else [])
        cs.append({"kind": "generate", "app": app, "sub": sub, "positionals": pos, "args": args})
    # raw token lists (no option table): the scanning logic itself
    raw_pool = ["--a", "--b", "-c", "-", "--", "---d", "x", "1", "-1", "-0.5", "1e3", "two", "--e_f", "nan", "-inf", "0", "5.", "--g"]
    for i in range(ctx.n(150, 1500)):
        cs.append({"kind": "generate", "tokens": [str(t) for t in rng.choice(raw_pool, int(rng.integers(0, 9)))]})
    return cs


def e2e_cases(ctx):
    sets = [
        [["downsample", "int", ["20"]], ["t_offset", "float", ["-0.05"]], ["align", "flag", []]],
        [["n_to_align", "int", ["10"]], ["align", "flag", []], ["correct_scale", "flag", []], ["t_max_diff", "float", ["0.02"]]],
        [["pose_relation", "str", ["full"]], ["motion_filter", "floats2", ["0.05", "1"]]],
        [["t_start", "float", ["1"]], ["t_end", "float", ["3.0"]], ["project_to_plane", "str", ["xy"]]],
        [["downsample", "int", ["7"]], ["pose_relation", "str", ["angle_deg"]], ["align_origin", "flag", []]],
        [["change_unit", "str", ["cm"]], ["t_offset", "float", ["0"]]],
    ]
    return [{"kind": "e2e", "args": a} for a in sets[:ctx.n(3, 6)]]


def corpus():
    return [
        # finding F6 (fixed by 64e4e00)
        {"kind": "generate", "tokens": ["--downsample", "500", "--t_offset", "-0.5"]},
        {"kind": "generate", "app": "ape", "sub": "tum", "positionals": ["a.txt", "b.txt"],
         "args": [["downsample", "int", ["500"]], ["t_offset", "float", ["-0.5"]]]},
        {"kind": "e2e", "args": [["downsample", "int", ["10"]], ["t_offset", "float", ["-0.05"]]]},
        {"kind": "history", "init": "defaults", "ops": [["set", ["plot_export_format", "png", "plot_info_text"]], ["set", ["plot_split"]],
                                                        ["set", ["plot_split", "false", "plot_usetex", "TRUE", "plot_linewidth", "2"]],
                                                        ["set", ["plot_statistics", "rmse", "mean", "plot_figsize", "none", "unknown", "5"]],
                                                        ["set", ["plot_linewidth", "nan"]], ["set", [PALETTE, "5"]], ["set", [PALETTE, "Set2"]],
                                                        ["set", [PALETTE, "nonsense"]], ["set", [PALETTE, "red", "blue"]],
                                                        ["reset", ["plot_split", "plot_linewidth", "nokey"]], ["upgrade"], ["reset", None]]},
        # the documented way to switch the multi-trajectory colormap off again; 'none' is a string there
        {"kind": "history", "init": "defaults", "ops": [["set", ["plot_multi_cmap", "viridis"]], ["set", ["plot_multi_cmap", "none"]]]},
        {"kind": "history", "init": "defaults", "ops": [["set", ["plot_backend", "[]", "plot_statistics", "none"]]]},
        {"kind": "history", "init": tag_dict({"plot_split": True, "user_only": 1}), "ops": [["upgrade"], ["set", ["user_only", "2"]],
                                                                                             ["merge", True, tag_dict({"plot_split": False, "plot_usetex": True})],
                                                                                             ["merge", False, tag_dict({"plot_split": False})]]},
        # a settings folder last written by evo v1.9.0 (sorts after v1.31.1 as a string, is older as a version)
        {"kind": "history", "init": tag_dict({"plot_split": True, "user_only": 1}), "ops": [["upgrade", "v1.9.0"]]},
        {"kind": "container", "data": tag_dict({"a": 1, "b": True}), "ops": [["set", "c", tag(5)], ["set", "a", tag(7)], ["upd", tag_dict({"a": 9, "zz": 1})],
                                                                              ["get", "zz"], ["get", "a"]]},
        {"kind": "container", "data": tag_dict({"a": 1}), "ops": [["upd", tag_dict({"__locked__": False})], ["set", "new", tag(1)]]},
    ]


# ------------------------------------------------------------------ translator tie: DEFAULT_SETTINGS_DICT
GEN_PATH = os.path.join(common.COQ, "generated", "C18Defaults.v")


def regenerate(ctx):
    dflt = defaults()
    fails = []
    items = []
    for k, v in dflt.items():
        t = tag(v)
        if t[0] == "?" or not isinstance(k, str) or any(ord(c) > 126 or c == '"' for c in k):
            fails.append({"kind": "obligation", "failing_input": False, "theorem": "C18_histories_from_the_shipped_defaults",
                          "correspondence": "translation of DEFAULT_SETTINGS_DICT", "case": {"key": k},
                          "detail": "default %r = %r is not a JSON scalar/list the translator knows" % (k, v)})
            continue
        items.append((k, t))
    body = ";\n  ".join("(%s, %s)" % (cstr(k), cjson(t)) for k, t in items)
    text = ("(* GENERATED by harness/props/c18.py (regenerate) from evo/tools/settings_template.py:DEFAULT_SETTINGS_DICT "
            "(%d keys) - do not edit. *)\n"
            "From Coq Require Import Ascii String List ZArith.\nFrom Coq Require Import PrimFloat.\n"
            "From Evo Require Import Config ConfigProofs.\nImport ListNotations.\nLocal Open Scope float_scope.\n"
            "Definition default_settings : dict float := [\n  %s].\n"
            "Lemma default_settings_nodup : NoDup (keys default_settings).\n"
            "Proof. apply nodup_strings_sound. vm_compute. reflexivity. Qed.\n" % (len(items), body))
    if not os.path.exists(GEN_PATH) or open(GEN_PATH).read() != text:
        with open(GEN_PATH, "w") as f:
            f.write(text)
    ctx.notes.append("DEFAULT_SETTINGS_DICT: %d keys, kinds %s" % (len(items), sorted({t[0] for _, t in items})))
    return fails


def run(ctx, replay=None, proofs_ok=True):
    STATS.clear()
    if replay is not None:
        # a replay of a translation obligation has no input case: the corpus is run instead
        cases = [replay["case"]] if "kind" in replay.get("case", {}) else []
        if not cases or not proofs_ok:
            cases = cases + corpus()
    else:
        cases = corpus() + history_cases(ctx) + old_version_upgrade_cases(ctx) + empty_token_cases(ctx) + container_cases(ctx) + mergecfg_cases(ctx) + generate_cases(ctx) + e2e_cases(ctx)
    failures, stats = differential(ctx, cases, imports=IMPORTS, impl=impl, expr=expr, judge=judge, shrink=shrink,
                                   nontrivial=nontrivial, per_file=20)
    hist = {}
    for c in cases:
        if c["kind"] == "history":
            for op in c["ops"]:
                b = "history op:" + op[0] + (":soft" if op[0] == "merge" and op[1] else "")
                if op[0] == "upgrade" and len(op) > 1:
                    b += ":from an older release stamp" + (" that sorts after the running version as a string"
                                                           if op[1] >= _running_version() else "")
                hist[b] = hist.get(b, 0) + 1
            b = "history:init=%s,ops=%d" % ("defaults" if c["init"] == "defaults" else "user document", len(c["ops"]))
        elif c["kind"] == "generate":
            b = "generate:%s" % (c.get("app", "raw tokens"))
            for a in c.get("args", []):
                bb = "generate option kind:" + a[1]
                hist[bb] = hist.get(bb, 0) + 1
        else:
            b = c["kind"]
        hist[b] = hist.get(b, 0) + 1
    tables = {}
    for app, sub in (("ape", "tum"), ("rpe", "tum"), ("traj", "tum")):
        t, _ = option_table(app, sub)
        tables[app] = {k: sum(1 for o in t if o["kind"] == k) for k in sorted({o["kind"] for o in t})}
    cov = {"evaluations": stats["evaluations"], "distinct_nontrivial": stats["distinct_nontrivial"],
           "rule": "corpus (F6 inputs, palette/nan refusals, user documents with unknown keys, lock rewrite) + random edit "
                   "histories of 1..6 set/reset/merge(soft,hard)/upgrade operations over the %d settings keys on scratch files "
                   "(tokens: keys, unknown keys, true/false spellings, ints, floats, nan/inf, palette names, list words), "
                   "set <parameter> none|None|[] for every non-boolean parameter (string parameters keep a string), "
                   "version upgrades from settings folders stamped by older evo releases (v0.1 .. v1.31.0, incl. single-digit "
                   "minors that sort after the running version as strings) whose file lacks some of today's keys, "
                   "document compared after every operation + SettingsContainer assignment/update/get sequences + merge_config "
                   "(namespace, SETTINGS, settings file bytes) + generate on argument lists drawn from the introspected option "
                   "tables of evo_ape/evo_rpe/evo_traj (flags, str with choices, int, float incl. negative and integral spellings, "
                   "2-value float options) compared with the real parser directly and through -c generated.json, raw token lists, "
                   "and evo_ape runs with -c vs arguments; distinct by input; non-trivial = at least two operations / arguments"
                   % len(defaults()),
           "samples": cases[:2] + cases[-2:], "input_distribution": hist, "option_kinds_per_parser": tables,
           "regimes": {"exact": stats["evaluations"], "rounded": 0, "fragile": 0}, "disagreements": stats["disagreements"],
           "argument_lists_argparse_rejected": STATS.get("argparse_rejected", 0), "exhaustive": False}
    return {"failures": failures, "coverage": cov}


LEVEL_TEXT = ("Machine-checked theorems (Coq) over an executable model of evo_config set/reset/merge, the version upgrade, the "
              "SettingsContainer lock, entry_points.merge_config and evo_config generate: set never adds or removes keys and "
              "changes only named keys, booleans stay booleans (true/false/toggle), lists stay lists, numeric tokens become "
              "numbers, a refused set leaves the file untouched; reset restores exactly the asked keys; an upgrade adds missing "
              "defaults and keeps every user value; key-set and kind invariants hold after every finite history of "
              "set/reset/merge/upgrade (induction), also instantiated at the re-translated DEFAULT_SETTINGS_DICT; a locked container "
              "refuses unknown parameters over all assignment/update histories; a -c file overrides command-line values and "
              "matching session settings only; for every argument list built from typed options the generated config merged over "
              "the defaults equals direct parsing up to 1 == 1.0 with int-typed options integral. The model is tied to the code "
              "by differential runs on scratch files, the real parsers' option tables and evo_ape runs.")
LEVEL_NOTE = ("Trusted: Coq kernel/VM (no axioms: all theorems are closed), float()/seaborn/argparse/json as oracles with the stated "
              "specifications (argparse model compared with the real parser on every case), the hand-written model's correspondence "
              "(tested). The old generate (finding F6) is fixed in the repository; its two inputs are corpus cases.")
TECHNIQUE = ("Coq proof (association lists, induction over operation histories and argument lists) + re-translated defaults + "
             "model/implementation correspondence by vm_compute")
