"""C02 - RPE values over exactly the selected pairs (evo/core/metrics.py RPE, evo/main_rpe.py) vs Evo.Metrics."""
import argparse
import copy
import math
import os
import shutil

import numpy as np

from harness import common, pyast_metrics, steps
from harness.common import close, cpairs_nat, differential, hexf, unhex
from harness.props import c01
from harness.props.c01 import cposes, mk_poses, perturb, traj_from
from harness.props.c09 import H, U, rand_rot

ID = "C02"
IMPORTS = "From Evo Require Import Num Linalg Lie Metrics.\n"
COQ_TARGETS = ["theories/MetricsProofs.vo", "theories/RpeSelect.vo", "generated/StepsC02.vo", "theories/MetricsTieRpe.vo", "generated/LieGen.vo", "generated/MetricsGen.vo"]
TRUSTED = ["model Evo.Metrics (rpe) written by hand from RPE.process_data; ties: (T) harness/pyast_metrics.py re-translates RPE.rpe_base and the per-relation reduction of RPE.process_data for the SE(3)-based relations from the current source on every run and Evo.MetricsTieRpe proves them equal to the model's rpe_pair (the point-distance relations are array code and stay tied by (H) only); (H) differential run in binary64, with an independent numpy evaluation of the definition deciding whether a disagreement is a violation",
           "pair selection (id_pairs_from_delta) enters the model as a list computed by evo's own selector on the trajectory "
           "the statement names (estimate, or reference with pairs_from_reference); the selector itself is property C10",
           "scipy angle extraction as oracle (cos/sin comparison); processing components tied by C04/C05/C11/C14; "
           "step order of main_rpe.rpe/run re-extracted from the AST each run (generated/StepsC02.v)",
           "real-vs-binary64 gap measured, not proved"]
ASSUMPTIONS = ["poses are SE(3)"]
RELS = c01.RELS
UNITS = {"f": "frames", "m": "meters", "r": "radians", "d": "degrees"}


def regenerate(ctx):
    try:
        defs = [("main_rpe_rpe", steps.extract("evo/main_rpe.py", "rpe", c01.WATCH_APE)),
                ("main_rpe_run", steps.extract("evo/main_rpe.py", "run", c01.WATCH_RUN))]
    except (steps.StepError, OSError, SyntaxError) as e:
        defs = [("main_rpe_rpe", ["<extraction failed: %s>" % e]), ("main_rpe_run", [])]
    steps.write_generated("StepsC02", defs)
    return pyast_metrics.regenerate_ties(ctx, common.REPO, common.COQ, only=pyast_metrics.METRIC_HELPERS, metrics="rpe")


def model_exprs(rel, pairs, ref, est):
    cosf = "(fun r => nadd (cos_angle r) (nadd n1 n1))"
    sinf = "(fun r => norm (skew_part r))"
    idf = "(fun x => x)"
    R, E, P = cposes(ref), cposes(est), cpairs_nat(pairs)
    if rel in ("rotation_angle_rad", "rotation_angle_deg"):
        return "(rpe %s %s %s %s %s %s, rpe %s %s %s %s %s %s)" % (cosf, idf, rel, P, R, E, sinf, idf, rel, P, R, E)
    return "(rpe %s %s %s %s %s %s, @None (list float * list nat))" % (cosf, idf, rel, P, R, E)


def _unsome(v):
    return v[1] if isinstance(v, tuple) and len(v) == 2 and v[0] == "Some" else v


def ratio_tol(value, scale, dist):
    """rounding budget of 100 * |error| / reference distance: coordinates of magnitude `scale` carry ~eps*scale of
    cancellation noise, which the division by the reference step `dist` amplifies (64x margin over what was measured)"""
    return max(1e-7, 100.0 * 64 * 2.3e-16 * scale / max(dist, 1e-300) * (1.0 + abs(value) / 100.0))


def compare(rel, impl_err, impl_ids, val, scale, dists=None):
    mc, ms = val
    if mc is None:
        return "model refuses but the implementation returned values" if impl_err is not None else None
    if impl_err is None:
        return "implementation refused but the model returns values"
    errs, ids = _unsome(mc)
    if [int(i) for i in ids] != [int(i) for i in impl_ids]:
        return "delta_ids differ: impl %r vs model %r" % (impl_ids[:8], ids[:8])
    if len(errs) != len(impl_err):
        return "number of values differs: impl %d, model %d" % (len(impl_err), len(errs))
    if rel in ("rotation_angle_rad", "rotation_angle_deg"):
        sins, _ = _unsome(ms)
        for k, (a, c, s) in enumerate(zip(impl_err, errs, sins)):
            if rel == "rotation_angle_deg":
                a = math.radians(a)
            if not (-1e-12 <= a <= math.pi + 1e-9):
                return "angle outside [0, pi] at %d" % k
            if not close(math.cos(a), c - 2.0, atol=1e-12, rtol=0) or not close(abs(math.sin(a)), s, atol=1e-9, rtol=0):
                return "angle at %d: impl %r vs model cos %r sin %r" % (k, a, c - 2.0, s)
        return None
    for k, (a, m) in enumerate(zip(impl_err, errs)):
        tol = 1e-12 * scale + 1e-13
        if rel == "point_distance_error_ratio":
            # relative quantity; the division amplifies cancellation noise on tiny reference steps
            tol = ratio_tol(a, scale, dists[k]) if dists is not None and k < len(dists) else 1e-7
        if not close(a, m, rtol=1e-9, atol=tol):
            return "value %d: impl %r vs model %r" % (k, a, m)
    return None


def np_rpe(rel, ref, est, pairs):
    """the definition of the statement in plain numpy (independent of evo's lie_algebra and of the Coq model)"""
    vals, ids = [], []
    inv = np.linalg.inv
    for i, j in pairs:
        if rel in ("point_distance", "point_distance_error_ratio"):
            dr = float(np.linalg.norm(ref[j][:3, 3] - ref[i][:3, 3]))
            de = float(np.linalg.norm(est[j][:3, 3] - est[i][:3, 3]))
            if rel == "point_distance":
                vals.append(abs(dr - de))
            elif dr != 0.0:
                vals.append(abs(dr - de) / dr * 100.0)
            else:
                continue
        else:
            E = inv(inv(ref[i]) @ ref[j]) @ (inv(est[i]) @ est[j])
            vals.append(c01.np_reduce(rel, E))
        ids.append(int(j))
    return vals, ids


def _pairs(poses, case):
    from evo.core import filters, metrics
    try:
        return [(int(i), int(j)) for i, j in metrics.id_pairs_from_delta(
            poses, case["delta"], getattr(metrics.Unit, case["delta_unit"]), case["tol"], all_pairs=case["all_pairs"])]
    except filters.FilterException:
        return None


def impl(case):
    from evo.core import filters, metrics
    from evo.core.metrics import PoseRelation, Unit
    ref = [U(p, (4, 4)) for p in case["ref"]]
    est = [U(p, (4, 4)) for p in case["est"]]
    rel = getattr(PoseRelation, case["rel"])
    kw = dict(delta=case["delta"], delta_unit=getattr(Unit, case["delta_unit"]), rel_delta_tol=case["tol"],
              all_pairs=case["all_pairs"], pairs_from_reference=case["from_ref"])
    try:
        if case["kind"] == "rpe":
            def run(a, b):
                m = metrics.RPE(rel, **kw)
                m.process_data((traj_from(a), traj_from(b)))
                return [float(x) for x in m.error], [int(i) for i in m.delta_ids]
            out = {"pairs": _pairs(ref if case["from_ref"] else est, case) if len(ref) == len(est) else []}
            tr, te = traj_from(ref), traj_from(est)
            snap = (copy.deepcopy(tr.poses_se3), copy.deepcopy(te.poses_se3))
            try:
                m = metrics.RPE(rel, **kw)
                m.process_data((tr, te))
                out["error"], out["ids"] = [hexf(x) for x in m.error], [int(i) for i in m.delta_ids]
                if case.get("laws") or len(ref) <= 40:   # the same metric object applied to a second, then again to the first pair
                    try:
                        m.process_data((tr, tr))
                    except (metrics.MetricsException, filters.FilterException):
                        pass   # (no pair on the other data: nothing was processed in between)
                    m.process_data((tr, te))
                    out["again"] = [[hexf(x) for x in m.error], [int(i) for i in m.delta_ids]]
                    # the same metric object and the same trajectory OBJECTS after an in-place change of the data:
                    # the values have to be those of a fresh metric on the changed data (nothing may be remembered)
                    tr2, te2 = copy.deepcopy(tr), copy.deepcopy(te)
                    m2 = metrics.RPE(rel, **kw)
                    m2.process_data((tr2, te2))
                    te2.scale(2.5)
                    tr2.scale(0.5)
                    fresh = metrics.RPE(rel, **kw)
                    try:
                        fresh.process_data((copy.deepcopy(tr2), copy.deepcopy(te2)))
                        want = [[hexf(x) for x in fresh.error], [int(i) for i in fresh.delta_ids]]
                    except (metrics.MetricsException, filters.FilterException) as e2:
                        want = type(e2).__name__
                    try:
                        m2.process_data((tr2, te2))
                        got = [[hexf(x) for x in m2.error], [int(i) for i in m2.delta_ids]]
                    except (metrics.MetricsException, filters.FilterException) as e2:
                        got = type(e2).__name__
                    out["after_change"] = [got, want]
            except metrics.MetricsException as e:
                out["refused"] = "MetricsException"
            except filters.FilterException as e:
                out["refused"] = "FilterException"
            out["unchanged"] = all((a == b).all() for a, b in zip(snap[0], tr.poses_se3)) and \
                all((a == b).all() for a, b in zip(snap[1], te.poses_se3))
            if case.get("laws") and "error" in out:
                A, B = U(case["A"], (4, 4)), U(case["B"], (4, 4))
                e2, i2 = run([A @ p for p in ref], [B @ p for p in est])
                out["moved"], out["moved_ids"] = [hexf(x) for x in e2], i2
                e3, i3 = run(ref, [B @ p for p in ref])
                out["same_motion"] = [hexf(x) for x in e3]
            return out
        return impl_fn(case, ref, est, rel, kw)
    except Exception as e:  # noqa
        import traceback
        return {"exception": type(e).__name__ + ": " + str(e)[:200] + traceback.format_exc()[-400:]}


def impl_fn(case, ref, est, rel, kw):
    from evo import main_rpe
    from evo.core import filters, metrics
    from evo.core.trajectory import Plane
    o = case["opts"]
    stamps = [unhex(x) for x in case["stamps"]]
    tr, te = traj_from(ref, stamps), traj_from(est, stamps)
    ir, ie = c01._independent_processing(case, copy.deepcopy(tr), copy.deepcopy(te))
    unit = getattr(metrics.Unit, o["unit"]) if o["unit"] else None
    try:
        res = main_rpe.rpe(tr, te, rel, change_unit=unit, project_to_plane=Plane(o["plane"]) if o["plane"] else None,
                           ref_name="ref", est_name="est", support_loop=bool(case.get("support_loop")),
                           **kw, **c01._opts(case))
    except filters.FilterException:
        return {"refused": "FilterException", "pairs": _pairs(ir.poses_se3 if case["from_ref"] else ie.poses_se3, case)}
    sr, se = res.trajectories["ref"], res.trajectories["est"]
    pairs = _pairs(ir.poses_se3 if case["from_ref"] else ie.poses_se3, case)
    return {"error": [hexf(x) for x in res.np_arrays["error_array"]], "pairs": pairs,
            "stored_ref": [H(p) for p in sr.poses_se3], "stored_est": [H(p) for p in se.poses_se3],
            "stored_stamps": [hexf(x) for x in se.timestamps],
            "indep_ref": [H(p) for p in ir.poses_se3], "indep_est": [H(p) for p in ie.poses_se3],
            "indep_stamps": [hexf(x) for x in ie.timestamps],
            "timestamps": [hexf(x) for x in res.np_arrays["timestamps"]],
            "seconds": [hexf(x) for x in res.np_arrays["seconds_from_start"]],
            "n_dist": [len(res.np_arrays["distances_from_start"]), len(res.np_arrays["distances"])],
            "title": res.info["title"]}


def expr(case, out):
    if case["kind"] == "rpe":
        ref = [U(p, (4, 4)) for p in case["ref"]]
        est = [U(p, (4, 4)) for p in case["est"]]
        pairs = out.get("pairs") or []
        return model_exprs(case["rel"], pairs, ref, est)
    if "indep_ref" not in out or out.get("pairs") is None:
        return "tt"
    ref = [U(p, (4, 4)) for p in out["indep_ref"]]
    est = [U(p, (4, 4)) for p in out["indep_est"]]
    return model_exprs(case["rel"], out["pairs"], ref, est)


_sv, _mv = c01._sv, c01._mv


def judge(case, val, out):
    if "exception" in out:
        return _sv("unexpected exception: " + out["exception"])
    rel = case["rel"]
    if case["kind"] == "rpe":
        ref = [U(p, (4, 4)) for p in case["ref"]]
        est_ = [U(p, (4, 4)) for p in case["est"]]
        scale = max([1.0] + [float(np.abs(p[:3, 3]).max()) for p in ref + est_])
        if not out.get("unchanged", True):
            return _sv("RPE.process_data modified its input trajectories")
        if len(case["ref"]) != len(case["est"]):
            return None if out.get("refused") == "MetricsException" else _sv("sequences of different length were not refused")
        if out.get("pairs") is None:
            return None if out.get("refused") == "FilterException" else _sv("no pair exists for this delta but no filter error was raised")
        if "refused" in out:
            return _sv("refused although pairs exist: " + out["refused"])
        impl_err, ids = [unhex(x) for x in out["error"]], out["ids"]
        if len(impl_err) != len(ids):
            return _sv("values and delta_ids have different lengths (%d vs %d)" % (len(impl_err), len(ids)))
        first = {int(j): int(i) for i, j in out["pairs"]}
        dists = [float(np.linalg.norm(ref[j][:3, 3] - ref[first[j]][:3, 3])) if j in first else 1.0 for j in ids]
        d = compare(rel, impl_err, ids, val, scale, dists)
        if d is not None:
            oracle, oids = np_rpe(rel, ref, est_, out["pairs"])
            if len(impl_err) == len(ids) and compare(rel, oracle, oids, val, scale, dists) is None:
                # the Coq model and an independent numpy evaluation of the definition agree with each other
                return _sv("a value is not the definition applied to the relative motions of its pair (Coq model and an "
                           "independent numpy evaluation agree): " + d)
            return _mv(d, "Metrics.rpe")
        if "again" in out and out["again"] != [out["error"], ids]:
            return _sv("a metric object that had processed other data before returns different values / end indices "
                       "(%d values, %d ids instead of %d)" % (len(out["again"][0]), len(out["again"][1]), len(ids)))
        if "after_change" in out and out["after_change"][0] != out["after_change"][1]:
            g, w = out["after_change"]
            return _sv("a metric object applied again to the same trajectory objects after they were scaled in place does not "
                       "give the values of a fresh metric on the changed data (end indices %r instead of %r)"
                       % (g if isinstance(g, str) else g[1][:8], w if isinstance(w, str) else w[1][:8]))
        if case.get("laws"):
            ang = rel.startswith("rotation_angle")
            ratio = rel == "point_distance_error_ratio"
            atol = 1e-6 if ang else 1e-9 * scale
            tols = [ratio_tol(a, scale, dk) for a, dk in zip(impl_err, dists)] if ratio else [atol] * len(impl_err)
            moved = [unhex(x) for x in out["moved"]]
            if out["moved_ids"] == ids:   # (a selection tie broken differently after the motion is not an error)
                if any(not close(a, b, rtol=1e-9, atol=t) for a, b, t in zip(impl_err, moved, tols)):
                    return _sv("RPE changed when reference and estimate were moved by different rigid motions")
            sm = [unhex(x) for x in out["same_motion"]]
            if any(abs(x) > (ratio_tol(0.0, scale, dk) if ratio else atol) for x, dk in zip(sm, dists + [1.0] * len(sm))):
                return _sv("RPE is not zero although both trajectories perform the same relative motions")
        return None
    # rpe_fn
    if "refused" in out:
        return None if out.get("pairs") is None else _sv("evo_rpe refused although pairs exist")
    if out.get("pairs") is None:
        return _sv("no pair exists on the processed trajectory but evo_rpe returned values")
    ir = [U(p, (4, 4)) for p in out["indep_ref"]]
    ie = [U(p, (4, 4)) for p in out["indep_est"]]
    sr = [U(p, (4, 4)) for p in out["stored_ref"]]
    se = [U(p, (4, 4)) for p in out["stored_est"]]
    scale = max([1.0] + [float(np.abs(p[:3, 3]).max()) for p in ir + ie])
    impl_err = [unhex(x) for x in out["error"]]
    mc = val[0]
    if mc is None:
        return _mv("model refuses the processed pair", "Metrics.rpe")
    _, ids = _unsome(mc)
    ids = [int(i) for i in ids]
    keep = [0] + ids
    if len(sr) != len(keep) or len(se) != len(keep):
        return _sv("stored trajectories are not the processed ones restricted to the first pose and the pair end poses")
    for k, idx in enumerate(keep):
        if not np.allclose(sr[k], ir[idx], rtol=1e-9, atol=1e-9 * scale) or not np.allclose(se[k], ie[idx], rtol=1e-9, atol=1e-9 * scale):
            return _sv("stored pose %d is not processed pose %d" % (k, idx))
    st = [unhex(x) for x in out["indep_stamps"]]
    if [unhex(x) for x in out["timestamps"]] != [st[i] for i in ids]:
        return _sv("timestamps array does not refer to the pair end poses")
    if len(out["seconds"]) != len(impl_err) or out["n_dist"] != [len(impl_err)] * 2:
        return _sv("a companion array does not have one entry per error value")
    secs = [unhex(x) for x in out["seconds"]]
    if any(not close(s, st[i] - st[0], rtol=0, atol=1e-6) for s, i in zip(secs, ids)):
        return _sv("seconds_from_start does not refer to the pair end poses")
    fac = c01.UNIT_FACTOR.get(case["opts"]["unit"], 1.0) if rel in ("translation_part", "point_distance") else 1.0
    if case["opts"]["unit"] == "degrees" and rel == "rotation_angle_rad":
        impl_err = [math.radians(x) for x in impl_err]
    if case["opts"]["unit"] == "radians" and rel == "rotation_angle_deg":
        impl_err = [math.degrees(x) for x in impl_err]
    d = compare(rel, [x / fac for x in impl_err], ids, val, scale)
    if d is not None:
        return _sv("stored values are not the definition on the processed trajectories for the selected pairs: " + d)
    return None


def gen(ctx):
    rng = ctx.np_rng(2)
    cases = []
    mult = ctx.n(1, 5)
    for i in range(170 * mult):
        n = int(rng.integers(2, ctx.n(40, 200)))
        scale = float(10.0 ** rng.integers(-2, 3))
        offset = rng.choice([0.0, 0.0, 4.5e5]) * np.array([1.0, 1.0, 0.001])
        ref = mk_poses(rng, n, scale, offset, rot_mode="smooth")
        for k, p in enumerate(ref):
            p[:3, 3] = offset + scale * np.array([0.3 * k, math.sin(0.2 * k), 0.05 * k])
        if i % 5 == 0:   # stationary stretches -> zero reference distances for the ratio relation
            for k in range(1, n):
                if (k // 3) % 2:
                    ref[k][:3, 3] = ref[k - 1][:3, 3]
        est = perturb(rng, ref, [0.05, 1e-9, math.pi - 1e-9, 0.5][i % 4], scale * 0.05)
        du = ["frames", "meters", "radians", "degrees"][i % 4]
        delta = {"frames": int(rng.integers(1, 4)), "meters": float(scale * rng.choice([0.5, 1.0, 3.0])),
                 "radians": float(rng.choice([0.1, 0.3])), "degrees": float(rng.choice([5.0, 20.0]))}[du]
        c = {"kind": "rpe", "rel": RELS[i % 7], "ref": [H(p) for p in ref], "est": [H(p) for p in est],
             "delta": delta, "delta_unit": du, "tol": 0.1, "all_pairs": bool((i // 4) % 2), "from_ref": bool((i // 8) % 2)}
        if i % 4 == 0 and n <= 40:
            A, B = np.eye(4), np.eye(4)
            A[:3, :3], B[:3, :3] = rand_rot(rng), rand_rot(rng)
            A[:3, 3], B[:3, 3] = rng.normal(size=3) * scale, rng.normal(size=3) * scale
            c.update({"laws": True, "A": H(A), "B": H(B)})
        cases.append(c)
    for i in range(16 * mult):   # unequal lengths: either ordering, pairs from either trajectory, incl. a 1-pose partner
        na, nb = [(6, 7), (7, 6), (9, 4), (4, 9), (5, 1), (1, 5), (3, 2), (2, 3)][i % 8]
        ref = mk_poses(rng, na, 1.0, 0.0)
        est = mk_poses(rng, nb, 1.0, 0.0)
        cases.append({"kind": "rpe", "rel": RELS[i % 7], "ref": [H(p) for p in ref], "est": [H(p) for p in est],
                      "delta": 1, "delta_unit": "frames", "tol": 0.1, "all_pairs": bool((i // 8) % 2), "from_ref": bool(i % 2 == 0) ^ bool((i // 16) % 2)})
    for i in range(ctx.n(28, 140)):
        n = int(rng.integers(8, 40))
        ref = mk_poses(rng, n, 1.0, 0.0, rot_mode="smooth")
        for k, p in enumerate(ref):
            p[:3, 3] = [0.3 * k, math.sin(0.2 * k), 0.05 * k]
        if i % 6 == 0:
            for k in range(7, n):
                if (k // 2) % 2:
                    ref[k][:3, 3] = ref[k - 1][:3, 3]
        s = float(rng.choice([1.0, 2.0]))
        est = perturb(rng, [np.vstack([np.hstack([p[:3, :3], s * p[:3, 3:4]]), [[0, 0, 0, 1]]]) for p in ref], 0.05, 0.05)
        rel = RELS[i % 7]
        unit = None
        if rel in ("translation_part", "point_distance") and i % 2:
            unit = str(rng.choice(["millimeters", "centimeters", "kilometers"]))
        if rel == "rotation_angle_rad" and i % 2:
            unit = "degrees"
        du = ["frames", "meters", "degrees"][i % 3]
        delta = {"frames": int(rng.integers(1, 3)), "meters": float(rng.choice([0.5, 1.0])), "degrees": 10.0}[du]
        stamps = list(1.5e9 + np.cumsum(rng.uniform(0.05, 0.15, n)))
        cases.append({"kind": "rpe_fn", "rel": rel, "ref": [H(p) for p in ref], "est": [H(p) for p in est],
                      "stamps": [hexf(x) for x in stamps], "delta": delta, "delta_unit": du, "tol": 0.1,
                      "all_pairs": bool(i % 2), "from_ref": bool((i // 2) % 2), "support_loop": bool(i % 3 == 0),
                      "opts": {"align": bool(i % 2), "correct_scale": bool((i // 2) % 2), "align_origin": bool(i % 5 == 0),
                               "plane": [None, "xy", None, "xz"][i % 4], "unit": unit, "n_to_align": int(rng.choice([-1, 6]))}})
    return cases


def shrink(case):
    return c01.shrink(case) if case["kind"] == "rpe" and not case.get("laws") else iter(())


def run(ctx, replay=None, proofs_ok=True):
    if not proofs_ok:   # the case files only need the executable model
        common.build_theories(targets=["theories/Metrics.vo"])
    if replay is not None and not replay.get("case"):
        return {"failures": [], "coverage": {"evaluations": 0, "distinct_nontrivial": 0, "rule": "replay of an obligation "
                "(no input case): the theorems were re-checked by the driver", "samples": []}}
    cases = [replay["case"]] if replay is not None else gen(ctx)
    failures, stats = differential(ctx, cases, imports=IMPORTS, impl=impl, expr=expr, judge=judge,
                                   nontrivial=lambda c, v, o: bool(o.get("pairs")), per_file=40)
    hist = {}
    for c in cases:
        key = "%s:%s:%s:%s" % (c["kind"], c["rel"], c["delta_unit"], "all" if c["all_pairs"] else "consecutive")
        hist[key] = hist.get(key, 0) + 1
    small = lambda c: {k: (v if not isinstance(v, list) or len(v) < 4 else v[:2] + ["... %d more" % (len(v) - 2)]) for k, v in c.items()}
    cov = {"evaluations": stats["evaluations"], "distinct_nontrivial": stats["distinct_nontrivial"],
           "rule": "RPE.process_data on random smooth trajectories (stationary stretches force zero reference distances) x 7 relations x "
                   "delta in frames/meters/radians/degrees x consecutive|all_pairs x pairs_from_reference, incl. unequal lengths, "
                   "drift-invariance and same-motion laws; main_rpe.rpe() with alignment/projection/unit options and companion arrays; "
                   "non-trivial = at least one pair selected",
           "samples": [small(cases[0]), small(cases[-1])], "input_distribution": hist, "disagreements": stats["disagreements"]}
    return {"failures": failures, "coverage": cov}


LEVEL_TEXT = ("Coq theorems over R for the RPE model: refusal of unequal lengths, E = (Q_i^-1 Q_j)^-1 (P_i^-1 P_j), one value per "
              "selected pair with delta_ids = pair end indices in order (ratio: zero reference distances dropped from values and ids "
              "alike), invariance under independent rigid motions of reference and estimate, zero for equal relative motions - for "
              "all sequences and pair lists. Tie: differential run of RPE.process_data and main_rpe.rpe() (incl. companion arrays "
              "and stored trajectories) against the model; step order of rpe()/run() re-extracted each run.")
LEVEL_NOTE = ("Trusted: Coq kernel/VM, Reals axioms + classic, hand model (tested correspondence), evo's pair selector as oracle here "
              "(property C10), scipy angle oracle, processing components (own properties); rounding measured, not proved.")
TECHNIQUE = "Coq proof (SE(3) algebra, list induction) + Python-AST translator of the metric kernels with translated = model proved + correspondence by vm_compute + AST step-order obligation"
