(* RpeSelect.v - RPE with its pair selection (metrics.RPE.process_data = id_pairs_from_delta on the estimate or the
   reference, then rpe on those pairs) and the drift-invariance theorem INCLUDING the selection (C02 growth). *)
From Coq Require Import Reals Lra Lia List Arith Bool.
From Evo Require Import Num Linalg LinalgR Lie LieProofs Metrics MetricsProofs Filters FiltersProofs.
Import ListNotations.

Section Defs.
Context {T : Type} {ops : NumOps T}.
Variable angle_of : M3 T -> T.
Variable rad2deg : T -> T.
Variable pi : T.
(* the angle oracles of the selector, as functions of the pose list *)
Definition das_of (P : list (Pose T)) : list T :=
  map (fun ab => angle_of (relative_so3 (prot (fst ab)) (prot (snd ab)))) (zip_next P).
Definition ang_of (P : list (Pose T)) (i j : nat) : T :=
  angle_of (relative_so3 (prot (nth i P pI)) (prot (nth j P pI))).
Definition rpe_pairs (P : list (Pose T)) (delta : T) (dframes : nat) (u : DUnit) (rel_tol : T) (all_pairs : bool) : outcome :=
  id_pairs_from_delta pi (map ptr P) (das_of P) (ang_of P) delta dframes u rel_tol all_pairs.
Definition rpe_full (rel : PoseRelation) (delta : T) (dframes : nat) (u : DUnit) (rel_tol : T) (all_pairs from_ref : bool)
           (ref est : list (Pose T)) : option (list T * list nat) :=
  if negb (Nat.eqb (length ref) (length est)) then None else
  match rpe_pairs (if from_ref then ref else est) delta dframes u rel_tol all_pairs with
  | Pairs l => rpe angle_of rad2deg rel l ref est
  | FilterError => None
  end.
End Defs.

Local Open Scope R_scope.
Section Proofs.
Variable angle_of : M3R -> R.

Lemma zip_next_map {A B} (f : A -> B) (l : list A) : zip_next (map f l) = map (fun p => (f (fst p), f (snd p))) (zip_next l).
Proof.
  unfold zip_next. destruct l as [|a l]; [reflexivity|]. cbn [map tl].
  change (f a :: map f l) with (map f (a :: l)). apply combine_map.
Qed.
Lemma das_of_left (A : PoseR) (P : list PoseR) : Orth (prot A) -> das_of angle_of (map (pmul A) P) = das_of angle_of P.
Proof.
  intros [O _]. unfold das_of. rewrite zip_next_map, map_map. apply map_ext. intros [a b]. cbn [fst snd pmul prot].
  unfold relative_so3. rewrite mt_mm, mm_assoc, <- (mm_assoc (mt (prot A))), O, mm_I_l. reflexivity.
Qed.
Lemma ang_of_left (A : PoseR) (P : list PoseR) i j : Orth (prot A) -> (i < length P)%nat -> (j < length P)%nat ->
  ang_of angle_of (map (pmul A) P) i j = ang_of angle_of P i j.
Proof.
  intros [O _] Hi Hj. unfold ang_of.
  rewrite !(nth_indep (map (pmul A) P) pI (pmul A pI)) by (now rewrite map_length). rewrite !map_nth.
  cbn [pmul prot]. unfold relative_so3. rewrite mt_mm, mm_assoc, <- (mm_assoc (mt (prot A))), O, mm_I_l. reflexivity.
Qed.
(* positions under a left rigid motion: consecutive and accumulated distances are unchanged *)
Lemma seg_norms_left (A : PoseR) (P : list PoseR) : Orth (prot A) ->
  seg_norms (map ptr (map (pmul A) P)) = seg_norms (map ptr P).
Proof.
  intros O. induction P as [|a P IH]; [reflexivity|]. destruct P as [|b P]; [reflexivity|].
  cbn [map] in *. cbn [seg_norms]. f_equal; [|exact IH].
  unfold norm. rnum. now rewrite vsub_pmul, nrm2_mv_orth.
Qed.
Lemma steps_from_left (A : PoseR) (P : list PoseR) (p0 : PoseR) : Orth (prot A) ->
  steps_from (ptr (pmul A p0)) (map ptr (map (pmul A) P)) = steps_from (ptr p0) (map ptr P).
Proof.
  intros O. revert p0. induction P as [|a P IH]; intros p0; [reflexivity|]. cbn [map steps_from]. f_equal; [|apply IH].
  unfold norm. rnum. now rewrite vsub_pmul, nrm2_mv_orth.
Qed.
Lemma pairs_by_path_left (A : PoseR) (P : list PoseR) delta tol all : Orth (prot A) ->
  pairs_by_path (map ptr (map (pmul A) P)) delta tol all = pairs_by_path (map ptr P) delta tol all.
Proof.
  intros O. unfold pairs_by_path, acc_dists. rewrite seg_norms_left by exact O. destruct all; [reflexivity|].
  f_equal. f_equal. unfold consec_steps. destruct P as [|p0 P]; [reflexivity|]. cbn [map].
  change (ptr (pmul A p0) :: map ptr (map (pmul A) P)) with (map ptr (map (pmul A) (p0 :: P))).
  change (ptr p0 :: map ptr P) with (map ptr (p0 :: P)). now apply steps_from_left.
Qed.
Lemma flat_map_ext_in' {A B} (f g : A -> list B) l : (forall a, In a l -> f a = g a) -> flat_map f l = flat_map g l.
Proof. induction l as [|a l IH]; cbn; intros H; [reflexivity|]. rewrite (H a (or_introl eq_refl)), IH; [reflexivity|]. intros; apply H; now right. Qed.
Lemma angle_all_ext n (f g : nat -> nat -> R) lo hi : (forall i j, (i < n)%nat -> (j < n)%nat -> f i j = g i j) ->
  angle_all n f lo hi = angle_all n g lo hi.
Proof.
  intros H. unfold angle_all. apply flat_map_ext_in'. intros i Hi. apply in_seq in Hi. f_equal.
  apply filter_ext_in. intros j Hj. apply in_seq in Hj. rewrite H by lia. reflexivity.
Qed.
Theorem rpe_pairs_left_invariant pi (A : PoseR) (P : list PoseR) delta dframes u rel_tol all : Orth (prot A) ->
  rpe_pairs angle_of pi (map (pmul A) P) delta dframes u rel_tol all = rpe_pairs angle_of pi P delta dframes u rel_tol all.
Proof.
  intros O. unfold rpe_pairs, id_pairs_from_delta, select. rewrite !map_length, das_of_left by exact O.
  destruct u; try reflexivity.
  - now rewrite pairs_by_path_left.
  - unfold pairs_by_angle. destruct (_ || _); [reflexivity|]. destruct all; [|reflexivity].
    rewrite (angle_all_ext (length P) (ang_of angle_of (map (pmul A) P)) (ang_of angle_of P)); [reflexivity|].
    intros i j Hi Hj. now apply ang_of_left.
  - unfold pairs_by_angle. destruct (_ || _); [reflexivity|]. destruct all; [|reflexivity].
    rewrite (angle_all_ext (length P) (ang_of angle_of (map (pmul A) P)) (ang_of angle_of P)); [reflexivity|].
    intros i j Hi Hj. now apply ang_of_left.
Qed.
End Proofs.

(* drift invariance of the whole RPE computation, selection included *)
Theorem rpe_full_drift_invariant rel delta dframes u rel_tol all from_ref (A B : PoseR) (ref est : list PoseR) :
  Orth (prot A) -> Orth (prot B) -> ref <> [] -> (u = DFrames -> (1 <= dframes)%nat) ->
  rpe_full angleR rad2degR PI rel delta dframes u rel_tol all from_ref (map (pmul A) ref) (map (pmul B) est) =
  rpe_full angleR rad2degR PI rel delta dframes u rel_tol all from_ref ref est.
Proof.
  intros OA OB Hne Hf. unfold rpe_full. rewrite !map_length.
  destruct (Nat.eqb_spec (length ref) (length est)) as [E|]; [|reflexivity]. cbn [negb].
  assert (Hsel : rpe_pairs angleR PI (if from_ref then map (pmul A) ref else map (pmul B) est) delta dframes u rel_tol all
               = rpe_pairs angleR PI (if from_ref then ref else est) delta dframes u rel_tol all).
  { destruct from_ref; now apply rpe_pairs_left_invariant. }
  rewrite Hsel. destruct (rpe_pairs angleR PI (if from_ref then ref else est) delta dframes u rel_tol all) as [l|] eqn:El; [|reflexivity].
  apply rpe_drift_invariant; try assumption.
  unfold MetricsProofs.pairs_in_range. rewrite Forall_forall. intros [i j] Hin. cbn [fst snd].
  set (P := if from_ref then ref else est) in *.
  assert (LP : length P = length ref) by (unfold P; destruct from_ref; congruence).
  assert (NP : map ptr P <> []).
  { unfold P. destruct from_ref; [destruct ref; [congruence|discriminate]|].
    destruct est; [destruct ref; [congruence|discriminate]|discriminate]. }
  unfold rpe_pairs in El.
  assert (Hd : length (das_of angleR P) = (length (map ptr P) - 1)%nat).
  { unfold das_of, zip_next. rewrite !map_length, combine_length. destruct P as [|p0 P']; [reflexivity|].
    cbn [tl length]. rewrite Nat.min_r by lia. lia. }
  pose proof (FiltersProofs.pairs_in_range (map ptr P) (das_of angleR P) (ang_of angleR P) delta dframes u rel_tol all l NP Hd Hf El i j Hin) as R.
  rewrite map_length, LP in R. lia.
Qed.
