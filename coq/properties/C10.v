(* C10 - RPE pair selection. Property theorems only; proofs live in Evo.FiltersProofs.
   Model: Evo.Filters (pairs_by_index / pairs_by_path / pairs_by_angle / id_pairs_from_delta).
   Notation: travelled s a b = sum of s_(a+1) .. s_b, where s_k is the path length (resp. rotation
   angle) of the step into pose k; miss D delta i k = |(D_k - D_i) - delta| on accumulated distances. *)
From Coq Require Import Reals List Sorted.
From Evo Require Import Num Linalg Filters FiltersProofs FiltersCheck.
Import ListNotations.
Local Open Scope R_scope.

(* every selected pair satisfies 0 <= i < j < N, for every unit and both modes *)
Theorem C10_pairs_in_range :
  forall (ps : list (V3 R)) (das : list R) (ang : nat -> nat -> R) (delta : R) (dframes : nat)
         (u : DUnit) (rel_tol : R) (all_pairs : bool) (l : list (nat * nat)),
  ps <> [] -> length das = (length ps - 1)%nat -> (u = DFrames -> (1 <= dframes)%nat) ->
  id_pairs_from_delta PI ps das ang delta dframes u rel_tol all_pairs = Pairs l ->
  forall i j, In (i, j) l -> (i < j < length ps)%nat.
Proof. exact pairs_in_range. Qed.
Print Assumptions C10_pairs_in_range.

(* delta in frames, all-pairs mode: exactly the pairs (i, i + delta) that fit, in order *)
Theorem C10_index_all_pairs_exact :
  forall n d, pairs_by_index n d true = map (fun i => (i, i + d)%nat) (seq 0 (n - d)).
Proof. exact index_all_eq. Qed.
Print Assumptions C10_index_all_pairs_exact.

Theorem C10_index_all_pairs_iff :
  forall n d i j, In (i, j) (pairs_by_index n d true) <-> (j = i + d /\ j < n)%nat.
Proof. exact index_all_spec. Qed.
Print Assumptions C10_index_all_pairs_iff.

(* delta in frames, consecutive mode: exactly the chain 0 -> delta -> 2 delta -> ... *)
Theorem C10_index_consecutive_exact :
  forall n d, pairs_by_index n d false = map (fun k => (k * d, S k * d)%nat) (seq 0 ((n + d - 1) / d - 1)).
Proof. exact index_consecutive_eq. Qed.
Print Assumptions C10_index_consecutive_exact.

Theorem C10_index_consecutive_iff :
  forall n d i j, (1 <= d)%nat ->
  In (i, j) (pairs_by_index n d false) <-> exists k, (i = k * d /\ j = (k + 1) * d /\ j < n)%nat.
Proof. exact index_consecutive_spec. Qed.
Print Assumptions C10_index_consecutive_iff.

(* delta in meters, consecutive mode: the pairs are zip(ids, ids[1:]) of a chain of poses in which
   every j is the FIRST pose at which the path travelled since i reaches delta, the chain is
   strictly increasing and in range, it continues until the rest no longer reaches delta, and it
   starts at the first pose that reaches delta from pose 0 *)
Theorem C10_path_consecutive_chain :
  forall (ps : list (V3 R)) (delta tol : R),
  let s := consec_steps ps in
  let ids := chain_ids delta 0 0 s in
  pairs_by_path ps delta tol false = zip_next ids /\
  chain_spec delta s 0 ids /\
  match ids with
  | [] => forall m, (m < length ps)%nat -> travelled s 0 m < delta
  | f :: _ => delta <= travelled s 0 f /\ forall m, (m < f)%nat -> travelled s 0 m < delta
  end.
Proof. exact path_consecutive_chain. Qed.
Print Assumptions C10_path_consecutive_chain.

(* what chain_spec says, spelled out *)
Theorem C10_chain_spec_meaning :
  forall delta s from ids, chain_spec delta s from ids ->
  Forall (fun j => (from <= j < length s)%nat) ids /\ StronglySorted lt ids /\
  (forall a b, In (a, b) (zip_next ids) ->
     (a < b < length s)%nat /\ delta <= travelled s a b /\ forall m, (a < m < b)%nat -> travelled s a m < delta) /\
  (ids <> [] -> forall m, (last ids 0 < m < length s)%nat -> travelled s (last ids 0%nat) m < delta).
Proof. exact chain_spec_meaning. Qed.
Print Assumptions C10_chain_spec_meaning.

(* the steps the path chain runs on: step 0 is 0, step k is the distance between poses k-1 and k *)
Theorem C10_path_steps_are_pose_distances :
  forall (d : V3 R) (ps : list (V3 R)) k, (k < length ps)%nat ->
  length (consec_steps ps) = length ps /\
  nth k (consec_steps ps) 0 = if Nat.eqb k 0 then 0 else norm (vsub (nth k ps d) (nth (k - 1) ps d)).
Proof. exact path_steps_are_pose_distances. Qed.
Print Assumptions C10_path_steps_are_pose_distances.

(* consecutive pairs link up: each pair starts where the previous one ended; the first pair starts
   at the head of the chain and the last pair ends at its last element *)
Theorem C10_pairs_chain_links :
  forall (ids : list nat),
  (forall k p q, nth_error (zip_next ids) k = Some p -> nth_error (zip_next ids) (S k) = Some q -> fst q = snd p) /\
  (zip_next ids <> [] -> fst (hd (0, 0)%nat (zip_next ids)) = hd 0%nat ids /\
                         snd (last (zip_next ids) (0, 0)%nat) = last ids 0%nat).
Proof. exact pairs_chain_links. Qed.
Print Assumptions C10_pairs_chain_links.

(* delta in radians/degrees, consecutive mode: the same chain on the accumulated consecutive
   rotation angles (das_k = angle between pose k and pose k+1), starting at pose 0 *)
Theorem C10_angle_consecutive_chain :
  forall (das : list R) (delta : R),
  let s := 0 :: das in
  let ids := 0%nat :: chain_ids delta 0 1 das in
  angle_chain delta 0 0 0 das = zip_next ids /\ chain_spec delta s 0 ids.
Proof. exact angle_consecutive_chain. Qed.
Print Assumptions C10_angle_consecutive_chain.

(* delta in meters, all-pairs mode: each reported (i, j) is within the tolerance, j is the closest
   (and first closest) pose for that i, every start pose is reported at most once (strictly
   increasing), and every i that has some pose within the tolerance is reported *)
Theorem C10_path_all_pairs :
  forall (ps : list (V3 R)) (delta tol : R),
  let D := acc_dists ps in
  let P := pairs_by_path ps delta tol true in
  (forall i j, In (i, j) P ->
      (i < j < length D)%nat /\ miss D delta i j <= tol /\
      (forall k, (i < k < length D)%nat -> miss D delta i j <= miss D delta i k) /\
      (forall k, (i < k < j)%nat -> miss D delta i j < miss D delta i k)) /\
  StronglySorted lt (map fst P) /\
  (forall i k, (i < k < length D)%nat -> miss D delta i k <= tol -> exists j, In (i, j) P).
Proof. exact path_all_pairs_full. Qed.
Print Assumptions C10_path_all_pairs.

(* accumulated_distances: one entry per pose, D_j - D_i is the length of the path from i to j *)
Theorem C10_accumulated_distances :
  forall (ps : list (V3 R)), ps <> [] ->
  length (acc_dists ps) = length ps /\
  forall i j, (i <= j < length ps)%nat ->
    nth j (acc_dists ps) 0 - nth i (acc_dists ps) 0 = sumR (firstn (j - i) (skipn i (seg_norms ps))).
Proof. exact accumulated_distances_full. Qed.
Print Assumptions C10_accumulated_distances.

Theorem C10_segment_lengths :
  forall (d : V3 R) (ps : list (V3 R)) k, (S k < length ps)%nat ->
  nth k (seg_norms ps) 0 = norm (vsub (nth k ps d) (nth (S k) ps d)).
Proof. exact seg_norms_nth. Qed.
Print Assumptions C10_segment_lengths.

(* angle, all-pairs mode: exactly the pairs whose direct angle lies in the band, in order *)
Theorem C10_angle_all_pairs_iff :
  forall (n : nat) (ang : nat -> nat -> R) (lo hi : R) i j,
  In (i, j) (angle_all n ang lo hi) <-> (i < j < n)%nat /\ lo <= ang i j <= hi.
Proof. exact angle_all_spec. Qed.
Print Assumptions C10_angle_all_pairs_iff.

Theorem C10_angle_all_pairs_sorted :
  forall (n : nat) (ang : nat -> nat -> R) (lo hi : R), StronglySorted lex_lt (angle_all n ang lo hi).
Proof. exact angle_all_sorted. Qed.
Print Assumptions C10_angle_all_pairs_sorted.

(* the angle selector: refusal outside [0, 180 deg] / [0, pi]; thresholds converted to radians;
   band = delta -+ tol *)
Theorem C10_angle_selector :
  forall (n : nat) (das : list R) (ang : nat -> nat -> R) (delta tol : R) (degrees all_pairs : bool),
  let limit := if degrees then 180 else PI in
  (delta < 0 \/ limit < delta -> pairs_by_angle PI n das ang delta tol degrees all_pairs = FilterError) /\
  (0 <= delta <= limit -> pairs_by_angle PI n das ang delta tol degrees all_pairs =
     Pairs (if all_pairs
            then angle_all n ang (to_rad degrees delta - to_rad degrees tol) (to_rad degrees delta + to_rad degrees tol)
            else angle_chain (to_rad degrees delta) 0 0 0 das)).
Proof. exact pairs_by_angle_spec. Qed.
Print Assumptions C10_angle_selector.

(* id_pairs_from_delta: unit dispatch with the absolute tolerance delta * rel_tol *)
Theorem C10_unit_dispatch :
  forall (ps : list (V3 R)) das ang (delta : R) dframes u (rel_tol : R) all_pairs,
  select PI ps das ang delta dframes u rel_tol all_pairs =
  match u with
  | DFrames => Pairs (pairs_by_index (length ps) dframes all_pairs)
  | DMeters => Pairs (pairs_by_path ps delta (delta * rel_tol) all_pairs)
  | DDegrees => pairs_by_angle PI (length ps) das ang delta (delta * rel_tol) true all_pairs
  | DRadians => pairs_by_angle PI (length ps) das ang delta (delta * rel_tol) false all_pairs
  | DOther => FilterError
  end.
Proof. exact select_dispatch. Qed.
Print Assumptions C10_unit_dispatch.

(* a delta for which no pair exists is the filter error; a returned list is never empty *)
Theorem C10_empty_is_error :
  forall (pi : R) ps das ang delta dframes u rel_tol all_pairs,
  match id_pairs_from_delta pi ps das ang delta dframes u rel_tol all_pairs with
  | Pairs l => l <> [] /\ select pi ps das ang delta dframes u rel_tol all_pairs = Pairs l
  | FilterError => select pi ps das ang delta dframes u rel_tol all_pairs = FilterError \/
                   select pi ps das ang delta dframes u rel_tol all_pairs = Pairs []
  end.
Proof. exact empty_is_error. Qed.
Print Assumptions C10_empty_is_error.

(* ---------------- end to end: id_pairs_from_delta per delta unit and mode ---------------- *)
Theorem C10_id_pairs_frames :
  forall (ps : list (V3 R)) das ang (delta rel_tol : R) dframes l all_pairs,
  id_pairs_from_delta PI ps das ang delta dframes DFrames rel_tol all_pairs = Pairs l ->
  l = pairs_by_index (length ps) dframes all_pairs.
Proof. exact id_pairs_frames. Qed.
Print Assumptions C10_id_pairs_frames.

Theorem C10_id_pairs_meters_consecutive :
  forall (ps : list (V3 R)) das ang (delta rel_tol : R) dframes l,
  id_pairs_from_delta PI ps das ang delta dframes DMeters rel_tol false = Pairs l ->
  let s := consec_steps ps in
  let ids := chain_ids delta 0 0 s in
  l = zip_next ids /\ chain_spec delta s 0 ids /\
  (exists f r, ids = f :: r /\ delta <= travelled s 0 f /\ forall m, (m < f)%nat -> travelled s 0 m < delta).
Proof. exact id_pairs_meters_consecutive. Qed.
Print Assumptions C10_id_pairs_meters_consecutive.

Theorem C10_id_pairs_meters_all_pairs :
  forall (ps : list (V3 R)) das ang (delta rel_tol : R) dframes l,
  id_pairs_from_delta PI ps das ang delta dframes DMeters rel_tol true = Pairs l ->
  path_all_spec (acc_dists ps) delta (delta * rel_tol) l.
Proof. exact id_pairs_meters_all. Qed.
Print Assumptions C10_id_pairs_meters_all_pairs.

Theorem C10_id_pairs_angle_consecutive :
  forall (ps : list (V3 R)) das ang (delta rel_tol : R) dframes l (degrees : bool),
  id_pairs_from_delta PI ps das ang delta dframes (if degrees then DDegrees else DRadians) rel_tol false = Pairs l ->
  let d := to_rad degrees delta in
  let ids := 0%nat :: chain_ids d 0 1 das in
  0 <= delta <= (if degrees then 180 else PI) /\ l = zip_next ids /\ chain_spec d (0 :: das) 0 ids.
Proof. exact id_pairs_angle_consecutive. Qed.
Print Assumptions C10_id_pairs_angle_consecutive.

(* exactly all pairs whose relative rotation angle lies within delta * (1 -+ tolerance) *)
Theorem C10_id_pairs_angle_all_pairs :
  forall (ps : list (V3 R)) das ang (delta rel_tol : R) dframes l (degrees : bool),
  id_pairs_from_delta PI ps das ang delta dframes (if degrees then DDegrees else DRadians) rel_tol true = Pairs l ->
  forall i j, In (i, j) l <->
    (i < j < length ps)%nat /\
    to_rad degrees (delta * (1 - rel_tol)) <= ang i j <= to_rad degrees (delta * (1 + rel_tol)).
Proof. exact id_pairs_angle_all. Qed.
Print Assumptions C10_id_pairs_angle_all_pairs.

Theorem C10_id_pairs_unsupported_unit :
  forall (ps : list (V3 R)) das ang (delta rel_tol : R) dframes all_pairs,
  id_pairs_from_delta PI ps das ang delta dframes DOther rel_tol all_pairs = FilterError.
Proof. exact id_pairs_other_unit. Qed.
Print Assumptions C10_id_pairs_unsupported_unit.

(* the chain specification determines the chain: any index list with the same first element that
   meets chain_spec is the model's list *)
Theorem C10_chain_is_unique :
  forall (delta : R) (s : list R) (ids ids' : list nat) (from : nat),
  chain_spec delta s from ids -> chain_spec delta s from ids' -> hd_error ids = hd_error ids' -> ids = ids'.
Proof. exact chain_unique. Qed.
Print Assumptions C10_chain_is_unique.

(* ---------------- proven checkers used to classify a disagreeing implementation output ---------------- *)
(* chain clause as the property text states it: pairs link up; j is the first pose reaching delta since i;
   the first pair starts no later than the first pose reaching delta from pose 0 (at pose 0 for rotations);
   after the last pair delta is not reached again *)
Theorem C10_chain_checker_sound :
  forall (delta : R) (s : list R) (z0 : bool) (P : list (nat * nat)),
  chain_text_b delta s z0 P = true ->
  (forall k p q, nth_error P k = Some p -> nth_error P (S k) = Some q -> fst q = snd p) /\
  (forall a b, In (a, b) P -> (a < b < length s)%nat /\ delta <= travelled s a b /\
                              forall m, (a < m < b)%nat -> travelled s a m < delta) /\
  (forall a0 b0 r, P = (a0, b0) :: r ->
     if z0 then a0 = 0%nat else forall m, (m < a0)%nat -> travelled s 0 m < delta) /\
  (P <> [] -> forall m, (snd (last P (0, 0)%nat) < m < length s)%nat -> travelled s (snd (last P (0, 0)%nat)) m < delta).
Proof. exact chain_text_b_sound_flat. Qed.
Print Assumptions C10_chain_checker_sound.

Theorem C10_path_all_checker_sound :
  forall (D : list R) (delta tol : R) (P : list (nat * nat)),
  path_all_text_b D delta tol P = true ->
  (forall i j, In (i, j) P -> (i < j < length D)%nat /\ miss D delta i j <= tol /\
       forall k, (i < k < length D)%nat -> miss D delta i j <= miss D delta i k) /\
  StronglySorted lt (map fst P) /\
  (forall i k, (i < k < length D)%nat -> miss D delta i k <= tol -> exists j, In (i, j) P).
Proof. exact path_all_text_b_sound_flat. Qed.
Print Assumptions C10_path_all_checker_sound.

(* the model's outputs satisfy those textual clauses (the checkers are not vacuous) *)
Theorem C10_model_meets_textual_clauses :
  (forall (ps : list (V3 R)) (delta tol : R),
     chain_text delta (consec_steps ps) false (pairs_by_path ps delta tol false)) /\
  (forall (das : list R) (delta : R), chain_text delta (0 :: das) true (angle_chain delta 0 0 0 das)) /\
  (forall (ps : list (V3 R)) (delta tol : R),
     path_all_text (acc_dists ps) delta tol (pairs_by_path ps delta tol true)).
Proof. exact model_meets_text. Qed.
Print Assumptions C10_model_meets_textual_clauses.

(* non-vacuity: the model run in binary64 on evo's own test list (z = 0, 0.5, 1, 2.5, 3, 4) *)
Theorem C10_float_examples :
  FloatExamples.ex_path_consecutive = [(2, 3); (3, 5)]%nat /\
  FloatExamples.ex_path_all = [(0, 2); (1, 2); (2, 3); (3, 4); (4, 5)]%nat /\
  FloatExamples.ex_angle_consecutive = Pairs [(0, 2)]%nat /\
  FloatExamples.ex_unreachable = FilterError.
Proof. exact FloatExamples.examples. Qed.
Print Assumptions C10_float_examples.

(* non-vacuity *)
Theorem C10_index_example :
  pairs_by_index 7 3 false = [(0, 3); (3, 6)]%nat /\
  pairs_by_index 7 3 true = [(0, 3); (1, 4); (2, 5); (3, 6)]%nat.
Proof. exact index_example. Qed.
Print Assumptions C10_index_example.
