From Coq Require Import Reals Lra Psatz List.
Require Import LinR Trace Resid.
Import ListNotations.
Local Open Scope R_scope.

Section Umeyama.
Variable l : pts.
Hypothesis Hn : 0 < nn l.
Variables (U Vt : M3) (d1 d2 d3 : R).
Hypothesis OU : Orth U.
Hypothesis OV : Orth Vt.
Hypothesis Hd : d1 >= d2 /\ d2 >= d3 /\ d3 >= 0.
Hypothesis Hcov : cov l = mm (mm U (diag d1 d2 d3)) Vt.
Let s := det U * det Vt.
Let r := mm (mm U (diag 1 1 s)) Vt.
Let Tstar := d1 + d2 + s * d3.
Definition tstar c := vsub (muy l) (vscale c (mv r (mux l))).

Lemma nn_ne : nn l <> 0. Proof. lra. Qed.
Lemma r_O : Orth r. Proof. exact (r_orth U Vt OU OV). Qed.
Lemma nrm2_nonneg v : 0 <= nrm2 v.
Proof. destruct v. unfold nrm2, dot; cbn. nra. Qed.
Lemma nrm2_self v : nrm2 (vsub v v) = 0.
Proof. destruct v. unfold nrm2, dot, vsub; cbn. ring. Qed.

Lemma resid_at_opt c : resid c r (tstar c) l = A l - 2 * c * (nn l * Tstar) + c*c * B l.
Proof.
  rewrite (resid_decomp c r (tstar c) l r_O nn_ne). unfold tstar. rewrite nrm2_self.
  pose proof (frob_r U Vt (cov l) d1 d2 d3 OU OV Hcov) as F. fold s in F. fold r in F. rewrite F. unfold Tstar. ring.
Qed.

Lemma resid_lower c R' t' : Orth R' -> det R' = 1 -> 0 <= c ->
  A l - 2 * c * (nn l * Tstar) + c*c * B l <= resid c R' t' l.
Proof.
  intros O D Hc. rewrite (resid_decomp c R' t' l O nn_ne).
  pose proof (frob_le U Vt (cov l) d1 d2 d3 OU OV Hd Hcov R' O D) as L. fold s in L. fold Tstar in L.
  pose proof (nrm2_nonneg (vsub (vsub (muy l) (vscale c (mv R' (mux l)))) t')) as P.
  assert (nn l * frob R' (cov l) <= nn l * Tstar) by (apply Rmult_le_compat_l; lra).
  assert (c * (nn l * frob R' (cov l)) <= c * (nn l * Tstar)) by (apply Rmult_le_compat_l; lra).
  assert (0 <= nn l * nrm2 (vsub (vsub (muy l) (vscale c (mv R' (mux l)))) t')) by (apply Rmult_le_pos; lra).
  lra.
Qed.

(* rigid case: the code's result (r, mu_y - r mu_x, 1) beats every rigid transformation *)
Theorem umeyama_optimal_rigid R' t' : Orth R' -> det R' = 1 ->
  resid 1 r (tstar 1) l <= resid 1 R' t' l.
Proof. intros O D. rewrite resid_at_opt. apply (resid_lower 1 R' t' O D). lra. Qed.

(* similarity case: c* = n T* / B = tr(D S) / sigma_x^2 *)
Hypothesis HB : 0 < B l.
Definition cstar := nn l * Tstar / B l.
Theorem umeyama_optimal_sim c' R' t' : Orth R' -> det R' = 1 -> 0 < c' ->
  resid cstar r (tstar cstar) l <= resid c' R' t' l.
Proof.
  intros O D Hc. rewrite resid_at_opt.
  eapply Rle_trans; [|apply (resid_lower c' R' t' O D); lra].
  unfold cstar. set (n := nn l) in *. set (b := B l) in *. set (T := Tstar).
  assert (E : A l - 2 * (n*T/b) * (n*T) + (n*T/b)*(n*T/b)*b = A l - (n*T)*(n*T)/b) by (field; lra).
  rewrite E.
  assert (Q : 0 <= b * ((c' - n*T/b) * (c' - n*T/b))) by (apply Rmult_le_pos; [lra | apply Rle_0_sqr]).
  assert (E2 : b * ((c' - n*T/b) * (c' - n*T/b)) = c'*c'*b - 2*c'*(n*T) + (n*T)*(n*T)/b) by (field; lra).
  lra.
Qed.

Theorem umeyama_scale_positive : 0 < d2 -> 0 < cstar.
Proof.
  intros H2. unfold cstar, Tstar. destruct Hd as (G1&G2&G3).
  assert (0 < d1 + d2 + s * d3).
  { destruct (s_sign U Vt OU OV) as [E|E]; fold s in E; rewrite E; lra. }
  apply Rdiv_lt_0_compat; [apply Rmult_lt_0_compat; lra | lra].
Qed.
End Umeyama.
Check umeyama_optimal_rigid. Check umeyama_optimal_sim.
Print Assumptions umeyama_optimal_sim.
