(* FiltersProofs.v - theorems about the Filters model (C10) at the real-number instance. *)
From Coq Require Import Reals Lra Lia List Arith Bool Sorted Permutation.
From Evo Require Import Num Linalg LinalgR Filters.
Import ListNotations.
Local Open Scope R_scope.

(* ====================================================================================== *)
(* generic list facts                                                                     *)
(* ====================================================================================== *)
Lemma firstn_plus {A} (l : list A) : forall n m, firstn (n + m) l = firstn n l ++ firstn m (skipn n l).
Proof.
  induction l as [|x r IH]; intros [|n] m; cbn; try reflexivity.
  - now rewrite firstn_nil.
  - now rewrite IH.
Qed.

Lemma skipn_cons_nth {A} (d : A) (l : list A) : forall i x r, skipn i l = x :: r ->
  nth i l d = x /\ skipn (S i) l = r /\ (i < length l)%nat /\ firstn (S i) l = firstn i l ++ [x].
Proof.
  induction l as [|y t IH]; intros [|i] x r H; cbn in *; try discriminate.
  - injection H as -> ->. repeat split; lia.
  - destruct (IH i x r H) as (H1 & H2 & H3 & H4). repeat split; try assumption; try lia.
    cbn in H4. now rewrite H4.
Qed.

Arguments zip_next {A} l : simpl never.
Lemma nth_skipn_R {A} (d : A) : forall n (l : list A) c, nth c (skipn n l) d = nth (n + c) l d.
Proof. induction n as [|n IH]; intros [|x r] c; cbn; try reflexivity; [now destruct c|apply IH]. Qed.

Lemma zip_next_cons {A} (a : A) l : zip_next (a :: l) = match l with [] => [] | b :: _ => (a, b) :: zip_next l end.
Proof. unfold zip_next. destruct l; reflexivity. Qed.

(* the pairs of zip(ids, ids[1:]) chain: each pair starts where the previous one ended *)
Lemma zip_next_chain {A} (l : list A) : forall k p q,
  nth_error (zip_next l) k = Some p -> nth_error (zip_next l) (S k) = Some q -> fst q = snd p.
Proof.
  induction l as [|a r IH]; intros k p q Hp Hq; [destruct k; discriminate|].
  rewrite zip_next_cons in *. destruct r as [|b r']; [destruct k; discriminate|].
  destruct k as [|k].
  - cbn in Hp. injection Hp as <-. cbn in Hq. rewrite zip_next_cons in Hq.
    destruct r' as [|c r'']; [discriminate|]. cbn in Hq. now injection Hq as <-.
  - cbn in Hp, Hq. eapply IH; eassumption.
Qed.

Lemma zip_next_hd {A} (d : A) (l : list A) : zip_next l <> [] ->
  fst (hd (d, d) (zip_next l)) = hd d l /\ snd (last (zip_next l) (d, d)) = last l d.
Proof.
  induction l as [|a r IH]; [intros H; now elim H|].
  rewrite zip_next_cons. destruct r as [|b r']; [intros H; now elim H|]. intros _. split; [reflexivity|].
  destruct (zip_next (b :: r')) as [|z zs] eqn:E.
  - rewrite zip_next_cons in E. destruct r'; [reflexivity|discriminate].
  - assert (N : z :: zs <> []) by discriminate. destruct (IH N) as [_ H2].
    change (last ((a, b) :: z :: zs) (d, d)) with (last (z :: zs) (d, d)). rewrite H2. reflexivity.
Qed.

Lemma in_zip_next_sorted (l : list nat) : StronglySorted lt l -> forall a b, In (a, b) (zip_next l) ->
  (a < b)%nat /\ In a l /\ In b l.
Proof.
  induction 1 as [|x r S IH F]; intros a b I; [destruct I|].
  rewrite zip_next_cons in I. destruct r as [|y r']; [destruct I|]. destruct I as [E|I].
  - injection E as <- <-. rewrite Forall_forall in F. split; [apply F; now left|]. split; [now left|right; now left].
  - destruct (IH a b I) as (H1 & H2 & H3). split; [exact H1|]. split; right; assumption.
Qed.

(* ====================================================================================== *)
(* filter_pairs_by_index                                                                  *)
(* ====================================================================================== *)
Lemma filter_below (n d : nat) : forall m a,
  filter (fun i => Nat.ltb (i + d) n) (seq a m) = seq a (Nat.min m (n - d - a)).
Proof.
  induction m as [|m IH]; intros a; [reflexivity|]. cbn [seq filter].
  destruct (Nat.ltb_spec (a + d) n) as [L|L].
  - rewrite IH. replace (Nat.min (S m) (n - d - a)) with (S (Nat.min m (n - d - S a))) by lia. reflexivity.
  - rewrite IH. replace (Nat.min m (n - d - S a)) with 0%nat by lia.
    replace (Nat.min (S m) (n - d - a)) with 0%nat by lia. reflexivity.
Qed.

(* all-pairs mode: exactly the pairs (i, i + delta) that fit, in increasing order of i *)
Theorem index_all_eq n d : pairs_by_index n d true = map (fun i => (i, i + d)%nat) (seq 0 (n - d)).
Proof. unfold pairs_by_index. rewrite filter_below. f_equal. f_equal. lia. Qed.

Theorem index_all_spec n d i j : In (i, j) (pairs_by_index n d true) <-> (j = i + d /\ j < n)%nat.
Proof.
  rewrite index_all_eq, in_map_iff. split.
  - intros (k & E & I). injection E as -> <-. apply in_seq in I. lia.
  - intros [-> L]. exists i. split; [reflexivity|]. apply in_seq. lia.
Qed.

Lemma zip_next_map_seq {A} (f : nat -> A) : forall m a,
  zip_next (map f (seq a m)) = map (fun k => (f k, f (S k))) (seq a (m - 1)).
Proof.
  induction m as [|m IH]; intros a; [reflexivity|]. cbn [seq map]. rewrite zip_next_cons.
  destruct m as [|m']; [reflexivity|]. specialize (IH (S a)).
  replace (S m' - 1)%nat with m' in IH by lia. replace (S (S m') - 1)%nat with (S m') by lia.
  cbn [seq map] in *. rewrite IH. reflexivity.
Qed.

(* consecutive mode: exactly the chain 0 -> d -> 2d -> ... *)
Theorem index_consecutive_eq n d : pairs_by_index n d false =
  map (fun k => (k * d, S k * d)%nat) (seq 0 ((n + d - 1) / d - 1)).
Proof. unfold pairs_by_index, arange_step. apply zip_next_map_seq. Qed.

Lemma arange_len n d k : (1 <= d)%nat -> (k < (n + d - 1) / d <-> k * d < n)%nat.
Proof.
  intros Hd. split; intros H.
  - destruct (Nat.lt_ge_cases (k * d) n) as [L|L]; [exact L|exfalso].
    assert ((n + d - 1) / d <= k)%nat; [|lia].
    apply Nat.lt_succ_r. apply Nat.div_lt_upper_bound; [lia|]. nia.
  - apply (Nat.lt_le_trans _ (S k)); [lia|]. apply Nat.div_le_lower_bound; [lia|]. nia.
Qed.

Theorem index_consecutive_spec n d i j : (1 <= d)%nat ->
  In (i, j) (pairs_by_index n d false) <-> exists k, (i = k * d /\ j = (k + 1) * d /\ j < n)%nat.
Proof.
  intros Hd. rewrite index_consecutive_eq, in_map_iff. split.
  - intros (k & E & I). injection E as <- <-. exists k. apply in_seq in I.
    assert (S k < (n + d - 1) / d)%nat by lia. apply arange_len in H; [|exact Hd].
    repeat split; lia.
  - intros (k & -> & -> & L). exists k. split; [f_equal; lia|]. apply in_seq.
    assert (S k < (n + d - 1) / d)%nat by (apply arange_len; [exact Hd|lia]). lia.
Qed.

Theorem index_in_range n d all i j : (1 <= d)%nat -> In (i, j) (pairs_by_index n d all) -> (i < j < n)%nat.
Proof.
  intros Hd. destruct all.
  - rewrite index_all_spec. lia.
  - rewrite index_consecutive_spec by exact Hd. intros (k & -> & -> & L). nia.
Qed.

(* ====================================================================================== *)
(* sums                                                                                   *)
(* ====================================================================================== *)
Fixpoint sumR (l : list R) : R := match l with [] => 0 | x :: r => x + sumR r end.
Lemma sumR_app a b : sumR (a ++ b) = sumR a + sumR b.
Proof. induction a as [|x r IH]; cbn; [lra|rewrite IH; lra]. Qed.
Definition pre (s : list R) (k : nat) : R := sumR (firstn k s).
(* what is accumulated between pose a and pose b when s_k is the contribution of the step INTO pose k *)
Definition travelled (s : list R) (a b : nat) : R := sumR (firstn (b - a) (skipn (S a) s)).
Lemma travelled_pre s a b : (a <= b)%nat -> travelled s a b = pre s (S b) - pre s (S a).
Proof.
  intros L. unfold travelled, pre. replace (S b) with (S a + (b - a))%nat by lia.
  rewrite firstn_plus, sumR_app. lra.
Qed.
Lemma pre_0 s : pre s 0 = 0. Proof. reflexivity. Qed.

(* ====================================================================================== *)
(* the greedy chain (consecutive path / accumulated rotation)                             *)
(* ====================================================================================== *)
Section Chain.
Variable delta : R.
Variable W : list R.

Definition seg_ok (base : R) (a b : nat) : Prop :=
  delta <= pre W (S b) - base /\ forall m, (a <= m < b)%nat -> pre W (S m) - base < delta.

Lemma chain_inv : forall s i cur base, skipn i W = s -> cur = pre W i - base ->
  let ids := chain_ids delta cur i s in
  Forall (fun j => (i <= j < length W)%nat) ids /\ StronglySorted lt ids /\
  match ids with
  | [] => forall m, (i <= m < length W)%nat -> pre W (S m) - base < delta
  | f :: _ => seg_ok base i f
  end /\
  (forall a b, In (a, b) (zip_next ids) -> seg_ok (pre W (S a)) (S a) b) /\
  (ids <> [] -> forall m, (last ids 0 < m < length W)%nat ->
      pre W (S m) - pre W (S (last ids 0%nat)) < delta).
Proof.
  induction s as [|x r IH]; intros i cur base Hs Hc.
  - cbn. split; [constructor|]. split; [constructor|]. split; [|split].
    + intros m Hm. exfalso.
      assert (H : length (skipn i W) = 0%nat) by now rewrite Hs. rewrite skipn_length in H. lia.
    + intros a b [].
    + intros N; now elim N.
  - destruct (skipn_cons_nth 0 W i x r Hs) as (Hn & Hr & Hi & Hf).
    assert (Hp : pre W (S i) = pre W i + x).
    { unfold pre. rewrite Hf, sumR_app. cbn. lra. }
    cbn [chain_ids]. rnum. destruct (Rleb delta (cur + x)) eqn:L.
    + apply Rleb_true in L.
      specialize (IH (S i) 0 (pre W (S i)) Hr ltac:(lra)).
      cbn zeta in IH. set (ids' := chain_ids delta 0 (S i) r) in *.
      destruct IH as (F & St & Fi & Pr & La). cbn zeta.
      split; [constructor; [lia|eapply Forall_impl; [|exact F]; cbn; intros; lia]|].
      split; [constructor; [exact St|eapply Forall_impl; [|exact F]; cbn; intros; lia]|].
      split; [split; [rewrite Hp; lra|intros; lia]|].
      split.
      * intros a b I. rewrite zip_next_cons in I. destruct ids' as [|f' t] eqn:E; [destruct I|].
        destruct I as [Eq|I]; [injection Eq as <- <-; exact Fi|apply Pr; exact I].
      * intros _ m Hm. destruct ids' as [|f' t] eqn:E.
        -- cbn in Hm. cbn [last]. apply Fi. lia.
        -- change (last (i :: f' :: t) 0%nat) with (last (f' :: t) 0%nat) in *.
           apply La; [discriminate|exact Hm].
    + apply Rleb_false in L.
      specialize (IH (S i) (cur + x) base Hr ltac:(lra)).
      cbn zeta in IH. set (ids' := chain_ids delta (cur + x) (S i) r) in *.
      destruct IH as (F & St & Fi & Pr & La). cbn zeta.
      split; [eapply Forall_impl; [|exact F]; cbn; intros; lia|].
      split; [exact St|]. split; [|split; assumption].
      destruct ids' as [|f t].
      * intros m Hm. destruct (Nat.eq_dec m i) as [->|Ne]; [rewrite Hp; lra|apply Fi; lia].
      * destruct Fi as [F1 F2]. split; [exact F1|].
        intros m Hm. destruct (Nat.eq_dec m i) as [->|Ne]; [rewrite Hp; lra|apply F2; lia].
Qed.
End Chain.

(* The statement of the chain property in terms of what is travelled between poses. *)
Record chain_spec (delta : R) (s : list R) (first_from : nat) (ids : list nat) : Prop := {
  cs_range : Forall (fun j => (first_from <= j < length s)%nat) ids;
  cs_sorted : StronglySorted lt ids;
  (* each selected pose is the FIRST one at which the amount travelled since the previous
     selected pose reaches delta *)
  cs_pairs : forall a b, In (a, b) (zip_next ids) ->
      delta <= travelled s a b /\ forall m, (a < m < b)%nat -> travelled s a m < delta;
  (* after the last selected pose delta is not reached any more *)
  cs_maximal : ids <> [] -> forall m, (last ids 0 < m < length s)%nat -> travelled s (last ids 0%nat) m < delta }.

Lemma seg_ok_travelled delta s a b : (a <= b)%nat -> seg_ok delta s (pre s (S a)) (S a) b ->
  delta <= travelled s a b /\ forall m, (a < m < b)%nat -> travelled s a m < delta.
Proof.
  intros L [H1 H2]. split.
  - rewrite travelled_pre by exact L. exact H1.
  - intros m Hm. rewrite travelled_pre by lia. apply H2. lia.
Qed.

Lemma chain_ids_spec delta s i base : (i <= length s)%nat ->
  let ids := chain_ids delta (pre s i - base) i (skipn i s) in
  chain_spec delta s i ids /\
  match ids with
  | [] => forall m, (i <= m < length s)%nat -> pre s (S m) - base < delta
  | f :: _ => delta <= pre s (S f) - base /\ forall m, (i <= m < f)%nat -> pre s (S m) - base < delta
  end.
Proof.
  intros Hi. cbn zeta.
  destruct (chain_inv delta s (skipn i s) i (pre s i - base) base eq_refl eq_refl) as (F & St & Fi & Pr & La).
  split; [|exact Fi]. constructor; try assumption.
  - intros a b I. destruct (in_zip_next_sorted _ St a b I) as (Lt & _ & _).
    apply seg_ok_travelled; [lia|]. apply Pr; exact I.
  - intros N m Hm. rewrite travelled_pre by lia. apply La; assumption.
Qed.

(* ---------------- consecutive path selection ---------------- *)
Lemma steps_from_length (prev : V3 R) ps : length (steps_from prev ps) = length ps.
Proof. revert prev. induction ps as [|p r IH]; intros prev; cbn; [reflexivity|now rewrite IH]. Qed.
Lemma consec_steps_length (ps : list (V3 R)) : length (consec_steps ps) = length ps.
Proof. destruct ps; [reflexivity|]. unfold consec_steps. apply steps_from_length. Qed.

Lemma norm_self (p : V3 R) : norm (vsub p p) = 0.
Proof.
  destruct p as [x y z]. unfold norm, nrm2, dot, vsub. cbn. rnum.
  replace ((x - x) * (x - x) + (y - y) * (y - y) + (z - z) * (z - z)) with 0 by ring. apply sqrt_0.
Qed.

(* step 0 is |p0 - p0| = 0, step k is the distance between pose k-1 and pose k *)
Lemma steps_from_nth (d : V3 R) : forall ps prev k, (k < length ps)%nat ->
  nth k (steps_from prev ps) 0 = norm (vsub (nth k ps d) (nth k (prev :: ps) d)).
Proof.
  induction ps as [|p r IH]; intros prev k Hk; [cbn in Hk; lia|].
  destruct k as [|k]; [reflexivity|]. cbn [steps_from nth]. rewrite IH by (cbn in Hk; lia). reflexivity.
Qed.
Lemma consec_steps_nth (d : V3 R) ps k : (k < length ps)%nat ->
  nth k (consec_steps ps) 0 = if Nat.eqb k 0 then 0 else norm (vsub (nth k ps d) (nth (k - 1) ps d)).
Proof.
  intros Hk. destruct ps as [|p0 r]; [cbn in Hk; lia|]. unfold consec_steps.
  rewrite (steps_from_nth d) by exact Hk. destruct k as [|k]; [cbn; apply norm_self|].
  cbn [Nat.eqb]. replace (S k - 1)%nat with k by lia. reflexivity.
Qed.

Lemma pre_S_travelled s m : nth 0 s 0 = 0 -> pre s (S m) = travelled s 0 m.
Proof.
  intros H0. rewrite travelled_pre by lia. unfold pre at 2. destruct s as [|x r]; cbn in *; [|subst x]; lra.
Qed.

Theorem path_consecutive_chain (ps : list (V3 R)) (delta tol : R) :
  let s := consec_steps ps in
  let ids := chain_ids delta 0 0 s in
  pairs_by_path ps delta tol false = zip_next ids /\
  chain_spec delta s 0 ids /\
  (* the chain starts at the first pose that reaches delta from pose 0, if any *)
  match ids with
  | [] => forall m, (m < length ps)%nat -> travelled s 0 m < delta
  | f :: _ => delta <= travelled s 0 f /\ forall m, (m < f)%nat -> travelled s 0 m < delta
  end.
Proof.
  cbn zeta. split; [reflexivity|].
  pose proof (chain_ids_spec delta (consec_steps ps) 0 0 ltac:(lia)) as H. cbn zeta in H.
  rewrite pre_0, Rminus_0_r in H. cbn [skipn] in H. destruct H as [Hs Hf]. split; [exact Hs|].
  assert (H0 : nth 0 (consec_steps ps) 0 = 0).
  { destruct ps as [|p r]; [reflexivity|]. unfold consec_steps. cbn. apply norm_self. }
  rewrite consec_steps_length in Hf.
  destruct (chain_ids delta 0 0 (consec_steps ps)) as [|f t].
  - intros m Hm. rewrite <- pre_S_travelled by exact H0. specialize (Hf m ltac:(lia)). lra.
  - destruct Hf as [F1 F2]. rewrite Rminus_0_r in F1. split; [rewrite <- pre_S_travelled by exact H0; exact F1|].
    intros m Hm. rewrite <- pre_S_travelled by exact H0. specialize (F2 m ltac:(lia)). lra.
Qed.

(* ---------------- consecutive angle selection ---------------- *)
Lemma angle_chain_ids (delta : R) : forall das cur start i,
  angle_chain delta cur start i das = zip_next (start :: chain_ids delta cur (S i) das).
Proof.
  induction das as [|a r IH]; intros cur start i; [reflexivity|].
  cbn [angle_chain chain_ids]. rnum. destruct (Rleb delta (cur + a)).
  - rewrite IH. rewrite (zip_next_cons start). reflexivity.
  - apply IH.
Qed.

(* s = 0 :: das : entry k is the rotation angle of the step into pose k; the chain starts at pose 0 *)
Theorem angle_consecutive_chain (das : list R) (delta : R) :
  let s := 0 :: das in
  let ids := 0%nat :: chain_ids delta 0 1 das in
  angle_chain delta 0 0 0 das = zip_next ids /\ chain_spec delta s 0 ids.
Proof.
  cbn zeta. split; [apply angle_chain_ids|].
  pose proof (chain_ids_spec delta (0 :: das) 1 0 ltac:(cbn; lia)) as H. cbn zeta in H.
  assert (P1 : pre (0 :: das) 1 = 0) by (unfold pre; cbn; lra).
  rewrite P1, Rminus_0_r in H. cbn [skipn] in H.
  destruct H as [[Hr Hs Hp Hm] Hf]. set (ids := chain_ids delta 0 1 das) in *.
  assert (T : forall m, pre (0 :: das) (S m) - 0 = travelled (0 :: das) 0 m).
  { intros m. rewrite travelled_pre by lia. rewrite P1. reflexivity. }
  constructor.
  - constructor; [cbn; lia|]. eapply Forall_impl; [|exact Hr]. cbn. intros; lia.
  - constructor; [exact Hs|]. eapply Forall_impl; [|exact Hr]. cbn. intros; lia.
  - intros a b I. rewrite zip_next_cons in I. destruct ids as [|f t] eqn:E; [destruct I|].
    destruct I as [Eq|I]; [|apply Hp; exact I]. injection Eq as <- <-.
    destruct Hf as [F1 F2]. rewrite T in F1. split; [exact F1|].
    intros m Hm'. rewrite <- T. apply F2. lia.
  - intros _ m Hm'. destruct ids as [|f t] eqn:E.
    + cbn [last] in *. rewrite <- T. apply Hf. lia.
    + change (last (0%nat :: f :: t) 0%nat) with (last (f :: t) 0%nat) in *. apply Hm; [discriminate|exact Hm'].
Qed.

(* ====================================================================================== *)
(* numpy.argmin                                                                           *)
(* ====================================================================================== *)
Lemma argmin_aux_spec : forall (l : list R) best bv i (pre : list R),
  length pre = i -> (best < i)%nat -> nth best pre 0 = bv ->
  (forall k, (k < i)%nat -> bv <= nth k pre 0) ->
  (forall k, (k < best)%nat -> bv < nth k pre 0) ->
  let j := argmin_aux best bv i l in
  (j < i + length l)%nat /\
  (forall k, (k < i + length l)%nat -> nth j (pre ++ l) 0 <= nth k (pre ++ l) 0) /\
  (forall k, (k < j)%nat -> nth j (pre ++ l) 0 < nth k (pre ++ l) 0).
Proof.
  induction l as [|x r IH]; intros best bv i pre Hlen Hb Hnth Hmin Hfirst; cbn [argmin_aux].
  - rewrite app_nil_r, Nat.add_0_r. subst bv. auto.
  - rnum. destruct (Rltb x bv) eqn:L.
    + apply Rltb_true in L.
      specialize (IH i x (S i) (pre ++ [x])).
      rewrite app_length in IH. cbn [length] in IH.
      assert (H1 : (length pre + 1 = S i)%nat) by lia.
      assert (H2 : (i < S i)%nat) by lia.
      assert (H3 : nth i (pre ++ [x]) 0 = x)
        by (rewrite app_nth2 by lia; rewrite Hlen, Nat.sub_diag; reflexivity).
      assert (H4 : forall k, (k < S i)%nat -> x <= nth k (pre ++ [x]) 0).
      { intros k Hk. destruct (Nat.eq_dec k i) as [->|Ne]; [rewrite H3; lra|].
        rewrite app_nth1 by lia. specialize (Hmin k ltac:(lia)). lra. }
      assert (H5 : forall k, (k < i)%nat -> x < nth k (pre ++ [x]) 0).
      { intros k Hk. rewrite app_nth1 by lia. specialize (Hmin k ltac:(lia)). lra. }
      specialize (IH H1 H2 H3 H4 H5).
      rewrite <- app_assoc in IH. cbn [app] in IH. cbn [length].
      replace (i + S (length r))%nat with (S i + length r)%nat by lia. exact IH.
    + apply Rltb_false in L.
      specialize (IH best bv (S i) (pre ++ [x])).
      rewrite app_length in IH. cbn [length] in IH.
      assert (H1 : (length pre + 1 = S i)%nat) by lia.
      assert (H2 : (best < S i)%nat) by lia.
      assert (H3 : nth best (pre ++ [x]) 0 = bv) by (rewrite app_nth1 by lia; exact Hnth).
      assert (H4 : forall k, (k < S i)%nat -> bv <= nth k (pre ++ [x]) 0).
      { intros k Hk. destruct (Nat.eq_dec k i) as [->|Ne].
        - rewrite app_nth2 by lia. rewrite Hlen, Nat.sub_diag. cbn. lra.
        - rewrite app_nth1 by lia. apply Hmin. lia. }
      assert (H5 : forall k, (k < best)%nat -> bv < nth k (pre ++ [x]) 0).
      { intros k Hk. rewrite app_nth1 by lia. apply Hfirst; exact Hk. }
      specialize (IH H1 H2 H3 H4 H5).
      rewrite <- app_assoc in IH. cbn [app] in IH. cbn [length].
      replace (i + S (length r))%nat with (S i + length r)%nat by lia. exact IH.
Qed.

(* in range, minimal, and the FIRST minimal index *)
Lemma argmin_spec (l : list R) : l <> [] ->
  (argmin l < length l)%nat /\
  (forall k, (k < length l)%nat -> nth (argmin l) l 0 <= nth k l 0) /\
  (forall k, (k < argmin l)%nat -> nth (argmin l) l 0 < nth k l 0).
Proof.
  destruct l as [|x r]; [congruence|intros _]. unfold argmin.
  pose proof (argmin_aux_spec r 0%nat x 1%nat [x] eq_refl ltac:(lia) eq_refl) as H.
  cbn [app length] in *. apply H.
  - intros k Hk. assert (k = 0)%nat by lia. subst. cbn. lra.
  - intros k Hk. lia.
Qed.

(* ====================================================================================== *)
(* all-pairs path selection                                                               *)
(* ====================================================================================== *)
(* distance of "path(i..k)" from delta when D holds the accumulated distances *)
Definition miss (D : list R) (delta : R) (i k : nat) : R := Rabs (nth k D 0 - nth i D 0 - delta).

Record path_all_spec (D : list R) (delta tol : R) (P : list (nat * nat)) : Prop := {
  pa_sound : forall i j, In (i, j) P ->
      (i < j < length D)%nat /\ miss D delta i j <= tol /\
      (forall k, (i < k < length D)%nat -> miss D delta i j <= miss D delta i k) /\
      (forall k, (i < k < j)%nat -> miss D delta i j < miss D delta i k);
  pa_once : StronglySorted lt (map fst P);
  pa_complete : forall i k, (i < k < length D)%nat -> miss D delta i k <= tol -> exists j, In (i, j) P }.

Lemma map_nth_R (f : R -> R) l k : (k < length l)%nat -> nth k (map f l) 0 = f (nth k l 0).
Proof. revert k. induction l as [|x r IH]; intros [|k] H; cbn in *; try lia; [reflexivity|apply IH; lia]. Qed.

Lemma path_all_aux_unfold (delta tol d : R) i rest : rest <> [] ->
  path_all_aux delta tol i (d :: rest) =
  (let ab := map (fun x => nabs (nsub (nsub x d) delta)) rest in
   let c := argmin ab in
   (if nltb tol (nth c ab 0) then [] else [(i, c + S i)%nat]) ++ path_all_aux delta tol (S i) rest).
Proof. destruct rest; [congruence|reflexivity]. Qed.

Lemma path_all_aux_spec (delta tol : R) (D : list R) : forall s i0, skipn i0 D = s ->
  let P := path_all_aux delta tol i0 s in
  (forall i j, In (i, j) P ->
      (i0 <= i)%nat /\ (i < j < length D)%nat /\ miss D delta i j <= tol /\
      (forall k, (i < k < length D)%nat -> miss D delta i j <= miss D delta i k) /\
      (forall k, (i < k < j)%nat -> miss D delta i j < miss D delta i k)) /\
  StronglySorted lt (map fst P) /\
  (forall i k, (i0 <= i)%nat -> (i < k < length D)%nat -> miss D delta i k <= tol -> exists j, In (i, j) P).
Proof.
  induction s as [|d rest IH]; intros i0 Hs.
  - cbn. split; [intros i j []|]. split; [constructor|].
    intros i k Hi Hk _. exfalso.
    assert (H : length (skipn i0 D) = 0%nat) by now rewrite Hs. rewrite skipn_length in H. lia.
  - destruct (skipn_cons_nth 0 D i0 d rest Hs) as (Hn & Hr & Hi0 & _).
    assert (Hlen : (length D = S i0 + length rest)%nat).
    { assert (H : length (skipn i0 D) = S (length rest)) by now rewrite Hs. rewrite skipn_length in H. lia. }
    assert (Hnth : forall c, nth c rest 0 = nth (c + S i0) D 0).
    { intros c. rewrite <- Hr. rewrite nth_skipn_R. f_equal. lia. }
    destruct (list_eq_dec Req_EM_T rest []) as [->|Hne].
    + cbn. split; [intros i j []|]. split; [constructor|].
      intros i k Hi Hk _. cbn in Hlen. lia.
    + rewrite path_all_aux_unfold by exact Hne.
      specialize (IH (S i0) Hr). cbn zeta in IH. destruct IH as (Snd & Srt & Cmp).
      set (ab := map (fun x => nabs (nsub (nsub x d) delta)) rest).
      assert (Hab : forall c, (c < length rest)%nat -> nth c ab 0 = miss D delta i0 (c + S i0)).
      { intros c Hc. unfold ab. rewrite map_nth_R by exact Hc. rnum. unfold miss. now rewrite Hnth, Hn. }
      assert (Nab : ab <> []). { unfold ab. destruct rest; [congruence|cbn; discriminate]. }
      destruct (argmin_spec ab Nab) as (Ar & Am & Af).
      assert (Lab : length ab = length rest) by (unfold ab; apply map_length).
      rewrite Lab in *. set (c := argmin ab) in *.
      cbn zeta. rnum. fold ab. fold c.
      destruct (Rltb tol (nth c ab 0)) eqn:Lt.
      * apply Rltb_true in Lt. cbn [app].
        split; [intros i j I; destruct (Snd i j I) as (H1 & H2); split; [lia|exact H2]|].
        split; [exact Srt|].
        intros i k Hi Hk Hm. destruct (Nat.eq_dec i i0) as [->|Ne]; [|apply (Cmp i k); [lia|exact Hk|exact Hm]].
        exfalso. specialize (Am (k - S i0)%nat ltac:(lia)).
        rewrite Hab in Lt by exact Ar. rewrite !Hab in Am by lia. replace (k - S i0 + S i0)%nat with k in Am by lia. lra.
      * apply Rltb_false in Lt. cbn [app].
        split; [|split].
        -- intros i j [E|I].
           ++ injection E as <- <-. split; [lia|]. split; [lia|].
              rewrite Hab in Lt by exact Ar. split; [exact Lt|]. split.
              ** intros k Hk. specialize (Am (k - S i0)%nat ltac:(lia)).
                 rewrite !Hab in Am by lia. replace (k - S i0 + S i0)%nat with k in Am by lia. exact Am.
              ** intros k Hk. specialize (Af (k - S i0)%nat ltac:(lia)).
                 rewrite !Hab in Af by lia. replace (k - S i0 + S i0)%nat with k in Af by lia. exact Af.
           ++ destruct (Snd i j I) as (H1 & H2). split; [lia|exact H2].
        -- cbn [map fst]. constructor; [exact Srt|].
           rewrite Forall_forall. intros i Hi. apply in_map_iff in Hi. destruct Hi as ([i' j'] & <- & I).
           destruct (Snd i' j' I) as (H1 & _). cbn. lia.
        -- intros i k Hi Hk Hm. destruct (Nat.eq_dec i i0) as [->|Ne].
           ++ exists (c + S i0)%nat. now left.
           ++ destruct (Cmp i k ltac:(lia) Hk Hm) as [j I]. exists j. now right.
Qed.

Theorem path_all_pairs_spec (ps : list (V3 R)) (delta tol : R) :
  path_all_spec (acc_dists ps) delta tol (pairs_by_path ps delta tol true).
Proof.
  unfold pairs_by_path.
  destruct (path_all_aux_spec delta tol (acc_dists ps) (acc_dists ps) 0%nat eq_refl) as (Snd & Srt & Cmp).
  constructor.
  - intros i j I. destruct (Snd i j I) as (_ & H). exact H.
  - exact Srt.
  - intros i k Hk Hm. apply (Cmp i k); [lia|exact Hk|exact Hm].
Qed.

(* accumulated_distances: entry k is the sum of the first k segment lengths, so that
   D_j - D_i is the length of the path from pose i to pose j *)
Lemma cumsum_from_nth : forall l acc k, (k < length l)%nat -> nth k (cumsum_from acc l) 0 = acc + pre l (S k).
Proof.
  induction l as [|x r IH]; intros acc k Hk; [cbn in Hk; lia|].
  cbn [cumsum_from]. rnum. destruct k as [|k].
  - cbn. unfold pre. cbn. lra.
  - cbn [nth]. rewrite IH by (cbn in Hk; lia). unfold pre. cbn [firstn sumR]. lra.
Qed.
Lemma cumsum_from_length : forall (l : list R) (acc : R), length (cumsum_from acc l) = length l.
Proof. induction l as [|x r IH]; intros acc; cbn; [reflexivity|now rewrite IH]. Qed.
Lemma seg_norms_length : forall ps : list (V3 R), length (seg_norms ps) = (length ps - 1)%nat.
Proof.
  induction ps as [|a r IH]; [reflexivity|]. destruct r as [|b r']; [reflexivity|].
  change (seg_norms (a :: b :: r')) with (norm (vsub a b) :: seg_norms (b :: r')).
  cbn [length] in *. rewrite IH. lia.
Qed.
Lemma seg_norms_nth (d : V3 R) : forall (ps : list (V3 R)) k, (S k < length ps)%nat ->
  nth k (seg_norms ps) 0 = norm (vsub (nth k ps d) (nth (S k) ps d)).
Proof.
  induction ps as [|a r IH]; intros k Hk; [cbn in Hk; lia|]. destruct r as [|b r']; [cbn in Hk; lia|].
  change (seg_norms (a :: b :: r')) with (norm (vsub a b) :: seg_norms (b :: r')).
  destruct k as [|k]; [reflexivity|]. cbn [nth]. rewrite IH by (cbn in *; lia). reflexivity.
Qed.
Lemma cumsum_length (l : list R) : length (cumsum l) = length l.
Proof. destruct l as [|x r]; [reflexivity|]. unfold cumsum. cbn [length]. now rewrite (cumsum_from_length r x). Qed.
Theorem acc_dists_spec (ps : list (V3 R)) : ps <> [] ->
  length (acc_dists ps) = length ps /\
  forall k, (k < length ps)%nat -> nth k (acc_dists ps) 0 = pre (seg_norms ps) k.
Proof.
  intros N. unfold acc_dists. pose proof (seg_norms_length ps) as L. split.
  - cbn [length]. rewrite cumsum_length, L. destruct ps; [congruence|cbn [length]; lia].
  - intros k Hk. destruct k as [|k]; [reflexivity|]. cbn [nth]. unfold cumsum.
    destruct (seg_norms ps) as [|x r] eqn:E; [cbn in L; lia|].
    destruct k as [|k]; [cbn; unfold pre; cbn; lra|]. cbn [nth].
    rewrite cumsum_from_nth by (cbn in L; lia). unfold pre. cbn [firstn sumR]. lra.
Qed.
(* D_j - D_i = sum of the segment lengths between pose i and pose j *)
Corollary acc_dists_diff (ps : list (V3 R)) i j : (i <= j < length ps)%nat ->
  nth j (acc_dists ps) 0 - nth i (acc_dists ps) 0 = sumR (firstn (j - i) (skipn i (seg_norms ps))).
Proof.
  intros H. assert (N : ps <> []) by (destruct ps; [cbn in H; lia|discriminate]).
  destruct (acc_dists_spec ps N) as [_ Hn]. rewrite !Hn by lia. unfold pre.
  replace j with (i + (j - i))%nat at 1 by lia. rewrite firstn_plus, sumR_app. lra.
Qed.

(* ====================================================================================== *)
(* all-pairs angle selection                                                              *)
(* ====================================================================================== *)
Theorem angle_all_spec (n : nat) (ang : nat -> nat -> R) (lo hi : R) i j :
  In (i, j) (angle_all n ang lo hi) <-> (i < j < n)%nat /\ lo <= ang i j <= hi.
Proof.
  unfold angle_all. rewrite in_flat_map. split.
  - intros (i' & Hi & I). apply in_map_iff in I. destruct I as (j' & E & I). injection E as -> ->.
    apply filter_In in I. destruct I as [I B]. apply in_seq in Hi. apply in_seq in I. rnum.
    apply andb_prop in B. destruct B as [B1 B2]. apply Rleb_true in B1, B2. split; [lia|lra].
  - intros [H B]. exists i. split; [apply in_seq; lia|]. apply in_map_iff. exists j. split; [reflexivity|].
    apply filter_In. split; [apply in_seq; lia|]. rnum. apply andb_true_intro.
    split; apply Rleb_true; lra.
Qed.

(* the list is in lexicographic order without repetition *)
Definition lex_lt (p q : nat * nat) : Prop := (fst p < fst q \/ (fst p = fst q /\ snd p < snd q))%nat.
Lemma row_sorted (a : nat) (f : nat -> bool) : forall len b,
  StronglySorted lex_lt (map (fun j => (a, j)) (filter f (seq b len))) /\
  Forall (fun p => fst p = a /\ (b <= snd p)%nat) (map (fun j => (a, j)) (filter f (seq b len))).
Proof.
  induction len as [|len IH]; intros b; [split; constructor|]. cbn [seq filter].
  destruct (IH (S b)) as [S1 F1].
  assert (F1' : Forall (fun p : nat * nat => fst p = a /\ (b <= snd p)%nat) (map (fun j => (a, j)) (filter f (seq (S b) len)))).
  { eapply Forall_impl; [|exact F1]. cbn. intros p [H1 H2]. split; [exact H1|lia]. }
  destruct (f b); [|split; assumption]. cbn [map]. split; [|constructor; [cbn; split; [reflexivity|lia]|exact F1']].
  constructor; [exact S1|]. eapply Forall_impl; [|exact F1]. unfold lex_lt. cbn. intros p [H1 H2]. right. lia.
Qed.
Lemma rows_sorted (F : nat -> list (nat * nat)) :
  (forall i, StronglySorted lex_lt (F i) /\ Forall (fun p => fst p = i) (F i)) ->
  forall m a, StronglySorted lex_lt (flat_map F (seq a m)) /\ Forall (fun p => (a <= fst p)%nat) (flat_map F (seq a m)).
Proof.
  intros HF. induction m as [|m IH]; intros a; [split; constructor|]. cbn [seq flat_map].
  destruct (IH (S a)) as [S1 F1]. destruct (HF a) as [Sa Fa].
  assert (F1' : Forall (fun p : nat * nat => (a < fst p)%nat) (flat_map F (seq (S a) m))).
  { eapply Forall_impl; [|exact F1]. cbn. intros; lia. }
  split.
  - revert Sa Fa. generalize (F a) as row. induction row as [|p r IHr]; intros Sa Fa; [exact S1|].
    cbn [app]. inversion Sa as [|? ? Sa' Fp]; subst. inversion Fa as [|? ? Ep Fa']; subst.
    constructor; [apply IHr; assumption|]. apply Forall_app. split; [exact Fp|].
    eapply Forall_impl; [|exact F1']. unfold lex_lt. cbn. intros q Hq. left. lia.
  - apply Forall_app. split.
    + eapply Forall_impl; [|exact Fa]. cbn. intros; lia.
    + eapply Forall_impl; [|exact F1']. cbn. intros; lia.
Qed.
Theorem angle_all_sorted (n : nat) (ang : nat -> nat -> R) (lo hi : R) :
  StronglySorted lex_lt (angle_all n ang lo hi).
Proof.
  unfold angle_all. apply rows_sorted. intros i.
  destruct (row_sorted i (fun j => (nleb lo (ang i j)) && (nleb (ang i j) hi)) (n - S i) (S i)) as [H1 H2].
  split; [exact H1|]. eapply Forall_impl; [|exact H2]. cbn. tauto.
Qed.

(* ====================================================================================== *)
(* filter_pairs_by_angle and id_pairs_from_delta                                          *)
(* ====================================================================================== *)
Section Dispatch.
Variables (n : nat) (das : list R) (ang : nat -> nat -> R).

Definition to_rad (degrees : bool) (x : R) : R := if degrees then x * (PI / 180) else x.

(* the angle selector refuses a delta outside [0, 180] degrees / [0, pi]; otherwise it is the
   consecutive chain / the all-pairs band test on the threshold converted to radians *)
Theorem pairs_by_angle_spec (delta tol : R) (degrees all_pairs : bool) :
  let limit := if degrees then 180 else PI in
  (delta < 0 \/ limit < delta -> pairs_by_angle PI n das ang delta tol degrees all_pairs = FilterError) /\
  (0 <= delta <= limit -> pairs_by_angle PI n das ang delta tol degrees all_pairs =
     Pairs (if all_pairs
            then angle_all n ang (to_rad degrees delta - to_rad degrees tol) (to_rad degrees delta + to_rad degrees tol)
            else angle_chain (to_rad degrees delta) 0 0 0 das)).
Proof.
  cbn zeta. unfold pairs_by_angle, to_rad, deg2rad. rnum. split.
  - intros H. destruct degrees.
    + destruct (Rltb delta 0) eqn:A; [reflexivity|]. apply Rltb_false in A.
      destruct (Rltb 180 delta) eqn:B; [reflexivity|]. apply Rltb_false in B. lra.
    + destruct (Rltb delta 0) eqn:A; [reflexivity|]. apply Rltb_false in A.
      destruct (Rltb PI delta) eqn:B; [reflexivity|]. apply Rltb_false in B. lra.
  - intros H. destruct degrees.
    + destruct (Rltb delta 0) eqn:A; [apply Rltb_true in A; lra|].
      destruct (Rltb 180 delta) eqn:B; [apply Rltb_true in B; lra|]. reflexivity.
    + destruct (Rltb delta 0) eqn:A; [apply Rltb_true in A; lra|].
      destruct (Rltb PI delta) eqn:B; [apply Rltb_true in B; lra|]. reflexivity.
Qed.
End Dispatch.

(* "a delta for which no pair exists is reported as evo's filter error": the result is never an
   empty list; it is the error exactly if the unit's selector refuses or selects nothing *)
Theorem empty_is_error (pi : R) ps das ang delta dframes u rel_tol all_pairs :
  match id_pairs_from_delta pi ps das ang delta dframes u rel_tol all_pairs with
  | Pairs l => l <> [] /\ select pi ps das ang delta dframes u rel_tol all_pairs = Pairs l
  | FilterError => select pi ps das ang delta dframes u rel_tol all_pairs = FilterError \/
                   select pi ps das ang delta dframes u rel_tol all_pairs = Pairs []
  end.
Proof.
  unfold id_pairs_from_delta. destruct (select pi ps das ang delta dframes u rel_tol all_pairs) as [[|p l]|].
  - now right.
  - split; [discriminate|reflexivity].
  - now left.
Qed.

(* unit dispatch: which selector runs, with the absolute tolerance delta * rel_tol *)
Theorem select_dispatch (ps : list (V3 R)) das ang (delta : R) dframes u (rel_tol : R) all_pairs :
  select PI ps das ang delta dframes u rel_tol all_pairs =
  match u with
  | DFrames => Pairs (pairs_by_index (length ps) dframes all_pairs)
  | DMeters => Pairs (pairs_by_path ps delta (delta * rel_tol) all_pairs)
  | DDegrees => pairs_by_angle PI (length ps) das ang delta (delta * rel_tol) true all_pairs
  | DRadians => pairs_by_angle PI (length ps) das ang delta (delta * rel_tol) false all_pairs
  | DOther => FilterError
  end.
Proof. reflexivity. Qed.

(* ---------------- every selected pair satisfies 0 <= i < j < N ---------------- *)
Lemma chain_pairs_in_range delta s from ids a b :
  chain_spec delta s from ids -> In (a, b) (zip_next ids) -> (a < b < length s)%nat.
Proof.
  intros [Hr Hs _ _] I. destruct (in_zip_next_sorted _ Hs a b I) as (L & _ & Ib).
  rewrite Forall_forall in Hr. specialize (Hr b Ib). lia.
Qed.

Theorem pairs_in_range (ps : list (V3 R)) das ang (delta : R) dframes u (rel_tol : R) all_pairs l :
  ps <> [] -> length das = (length ps - 1)%nat -> (u = DFrames -> (1 <= dframes)%nat) ->
  id_pairs_from_delta PI ps das ang delta dframes u rel_tol all_pairs = Pairs l ->
  forall i j, In (i, j) l -> (i < j < length ps)%nat.
Proof.
  intros N Hd Hf H i j I.
  pose proof (empty_is_error PI ps das ang delta dframes u rel_tol all_pairs) as E. rewrite H in E.
  destruct E as [_ E]. rewrite select_dispatch in E. destruct u; try discriminate.
  - injection E as <-. eapply index_in_range; [apply Hf; reflexivity|exact I].
  - injection E as <-. destruct all_pairs.
    + destruct (path_all_pairs_spec ps delta (delta * rel_tol)) as [Snd _ _].
      destruct (Snd i j I) as (R1 & _). destruct (acc_dists_spec ps N) as [L _]. rewrite L in R1. exact R1.
    + destruct (path_consecutive_chain ps delta (delta * rel_tol)) as (Eq & Cs & _). rewrite Eq in I.
      pose proof (chain_pairs_in_range _ _ _ _ _ _ Cs I) as R1. rewrite consec_steps_length in R1. exact R1.
  - unfold pairs_by_angle in E. destruct (_ || _); [discriminate|]. injection E as <-. rnum. destruct all_pairs.
    + apply angle_all_spec in I. tauto.
    + destruct (angle_consecutive_chain das (delta * (PI / 180))) as [Eq Cs]. rewrite Eq in I.
      pose proof (chain_pairs_in_range _ _ _ _ _ _ Cs I) as R1. cbn [length] in R1. rewrite Hd in R1.
      destruct ps; [congruence|cbn [length] in *; lia].
  - unfold pairs_by_angle in E. destruct (_ || _); [discriminate|]. injection E as <-. rnum. destruct all_pairs.
    + apply angle_all_spec in I. tauto.
    + destruct (angle_consecutive_chain das delta) as [Eq Cs]. rewrite Eq in I.
      pose proof (chain_pairs_in_range _ _ _ _ _ _ Cs I) as R1. cbn [length] in R1. rewrite Hd in R1.
      destruct ps; [congruence|cbn [length] in *; lia].
Qed.

(* ---------------- non-vacuity: the selectors on concrete data ---------------- *)
Example index_example : pairs_by_index 7 3 false = [(0, 3); (3, 6)]%nat /\
                        pairs_by_index 7 3 true = [(0, 3); (1, 4); (2, 5); (3, 6)]%nat.
Proof. split; reflexivity. Qed.

(* ---------------- statements assembled for the property file ---------------- *)
Lemma chain_spec_meaning delta s from ids : chain_spec delta s from ids ->
  Forall (fun j => (from <= j < length s)%nat) ids /\ StronglySorted lt ids /\
  (forall a b, In (a, b) (zip_next ids) ->
     (a < b < length s)%nat /\ delta <= travelled s a b /\ forall m, (a < m < b)%nat -> travelled s a m < delta) /\
  (ids <> [] -> forall m, (last ids 0 < m < length s)%nat -> travelled s (last ids 0%nat) m < delta).
Proof.
  intros H. split; [apply H|]. split; [apply H|]. split; [|apply H].
  intros a b I. split; [eapply chain_pairs_in_range; eassumption|]. apply H; exact I.
Qed.

Lemma path_steps_are_pose_distances (d : V3 R) (ps : list (V3 R)) k : (k < length ps)%nat ->
  length (consec_steps ps) = length ps /\
  nth k (consec_steps ps) 0 = if Nat.eqb k 0 then 0 else norm (vsub (nth k ps d) (nth (k - 1) ps d)).
Proof. intros H. split; [apply consec_steps_length|apply consec_steps_nth; exact H]. Qed.

Lemma pairs_chain_links (ids : list nat) :
  (forall k p q, nth_error (zip_next ids) k = Some p -> nth_error (zip_next ids) (S k) = Some q -> fst q = snd p) /\
  (zip_next ids <> [] -> fst (hd (0, 0)%nat (zip_next ids)) = hd 0%nat ids /\
                         snd (last (zip_next ids) (0, 0)%nat) = last ids 0%nat).
Proof. split; [apply zip_next_chain|apply (zip_next_hd 0%nat)]. Qed.

Lemma path_all_pairs_full (ps : list (V3 R)) (delta tol : R) :
  let D := acc_dists ps in
  let P := pairs_by_path ps delta tol true in
  (forall i j, In (i, j) P ->
      (i < j < length D)%nat /\ miss D delta i j <= tol /\
      (forall k, (i < k < length D)%nat -> miss D delta i j <= miss D delta i k) /\
      (forall k, (i < k < j)%nat -> miss D delta i j < miss D delta i k)) /\
  StronglySorted lt (map fst P) /\
  (forall i k, (i < k < length D)%nat -> miss D delta i k <= tol -> exists j, In (i, j) P).
Proof. cbn zeta. destruct (path_all_pairs_spec ps delta tol) as [A B C]. split; [exact A|]. split; [exact B|exact C]. Qed.

Lemma accumulated_distances_full (ps : list (V3 R)) : ps <> [] ->
  length (acc_dists ps) = length ps /\
  forall i j, (i <= j < length ps)%nat ->
    nth j (acc_dists ps) 0 - nth i (acc_dists ps) 0 = sumR (firstn (j - i) (skipn i (seg_norms ps))).
Proof. intros N. split; [apply acc_dists_spec; exact N|apply acc_dists_diff]. Qed.

(* ---------------- non-vacuity on binary64 data (the run used by the correspondence) ---------------- *)
Module FloatExamples.
Import PrimFloat.
Local Open Scope float_scope.
Definition line : list (V3 float) :=
  [mkV3 0 0 0; mkV3 0 0 0.5; mkV3 0 0 1; mkV3 0 0 2.5; mkV3 0 0 3; mkV3 0 0 4].
Definition ex_path_consecutive := pairs_by_path line 1 0 false.
Definition ex_path_all := pairs_by_path line 1 0.5 true.
Definition ex_angle_consecutive := pairs_by_angle pi_f 4 [0.5; 0.25; 0.5] (fun _ _ => 0) 0.75 0 false false.
Definition ex_unreachable := id_pairs_from_delta pi_f line [] (fun _ _ => 0) 100 0 DMeters 0.125 true.
Lemma examples :
  ex_path_consecutive = [(2, 3); (3, 5)]%nat /\
  ex_path_all = [(0, 2); (1, 2); (2, 3); (3, 4); (4, 5)]%nat /\
  ex_angle_consecutive = Pairs [(0, 2)]%nat /\
  ex_unreachable = FilterError.
Proof. repeat split; vm_compute; reflexivity. Qed.
End FloatExamples.

(* ====================================================================================== *)
(* end-to-end statements about id_pairs_from_delta, one per delta unit and mode          *)
(* ====================================================================================== *)
Section EndToEnd.
Variables (ps : list (V3 R)) (das : list R) (ang : nat -> nat -> R).
Variables (delta rel_tol : R) (dframes : nat) (l : list (nat * nat)).

Lemma id_pairs_select u all_pairs :
  id_pairs_from_delta PI ps das ang delta dframes u rel_tol all_pairs = Pairs l ->
  l <> [] /\ select PI ps das ang delta dframes u rel_tol all_pairs = Pairs l.
Proof.
  intros H. pose proof (empty_is_error PI ps das ang delta dframes u rel_tol all_pairs) as E.
  rewrite H in E. exact E.
Qed.

(* frames *)
Theorem id_pairs_frames all_pairs :
  id_pairs_from_delta PI ps das ang delta dframes DFrames rel_tol all_pairs = Pairs l ->
  l = pairs_by_index (length ps) dframes all_pairs.
Proof. intros H. destruct (id_pairs_select _ _ H) as [_ E]. rewrite select_dispatch in E. now injection E. Qed.

(* meters, consecutive: the chain on the pose-to-pose distances *)
Theorem id_pairs_meters_consecutive :
  id_pairs_from_delta PI ps das ang delta dframes DMeters rel_tol false = Pairs l ->
  let s := consec_steps ps in
  let ids := chain_ids delta 0 0 s in
  l = zip_next ids /\ chain_spec delta s 0 ids /\
  (exists f r, ids = f :: r /\ delta <= travelled s 0 f /\ forall m, (m < f)%nat -> travelled s 0 m < delta).
Proof.
  intros H. destruct (id_pairs_select _ _ H) as [Ne E]. rewrite select_dispatch in E. injection E as E.
  destruct (path_consecutive_chain ps delta (delta * rel_tol)) as (Eq & Cs & Fi). cbn zeta.
  split; [now symmetry|]. split; [exact Cs|].
  destruct (chain_ids delta 0 0 (consec_steps ps)) as [|f r]; [subst l; now elim Ne|].
  exists f, r. split; [reflexivity|exact Fi].
Qed.

(* meters, all pairs: tolerance delta * rel_tol *)
Theorem id_pairs_meters_all :
  id_pairs_from_delta PI ps das ang delta dframes DMeters rel_tol true = Pairs l ->
  path_all_spec (acc_dists ps) delta (delta * rel_tol) l.
Proof.
  intros H. destruct (id_pairs_select _ _ H) as [_ E]. rewrite select_dispatch in E. injection E as <-.
  apply path_all_pairs_spec.
Qed.

(* radians / degrees, consecutive: the chain on the accumulated consecutive angles, from pose 0 *)
Theorem id_pairs_angle_consecutive (degrees : bool) :
  id_pairs_from_delta PI ps das ang delta dframes (if degrees then DDegrees else DRadians) rel_tol false = Pairs l ->
  let d := to_rad degrees delta in
  let ids := 0%nat :: chain_ids d 0 1 das in
  0 <= delta <= (if degrees then 180 else PI) /\ l = zip_next ids /\ chain_spec d (0 :: das) 0 ids.
Proof.
  intros H. cbn zeta.
  assert (E : pairs_by_angle PI (length ps) das ang delta (delta * rel_tol) degrees false = Pairs l).
  { destruct degrees; destruct (id_pairs_select _ _ H) as [_ E]; rewrite select_dispatch in E; exact E. }
  destruct (pairs_by_angle_spec (length ps) das ang delta (delta * rel_tol) degrees false) as [Bad Good].
  cbn zeta in *.
  assert (R0 : 0 <= delta <= (if degrees then 180 else PI)).
  { destruct (Rlt_dec delta 0) as [L|L]; [rewrite Bad in E by (now left); discriminate|].
    destruct (Rlt_dec (if degrees then 180 else PI) delta) as [L'|L']; [rewrite Bad in E by (now right); discriminate|]. lra. }
  split; [exact R0|]. rewrite (Good R0) in E. injection E as <-.
  destruct (angle_consecutive_chain das (to_rad degrees delta)) as [Eq Cs]. split; assumption.
Qed.

(* radians / degrees, all pairs: exactly the pairs whose direct angle lies within delta * (1 -+ rel_tol) *)
Theorem id_pairs_angle_all (degrees : bool) :
  id_pairs_from_delta PI ps das ang delta dframes (if degrees then DDegrees else DRadians) rel_tol true = Pairs l ->
  forall i j, In (i, j) l <->
    (i < j < length ps)%nat /\
    to_rad degrees (delta * (1 - rel_tol)) <= ang i j <= to_rad degrees (delta * (1 + rel_tol)).
Proof.
  intros H i j.
  assert (E : pairs_by_angle PI (length ps) das ang delta (delta * rel_tol) degrees true = Pairs l).
  { destruct degrees; destruct (id_pairs_select _ _ H) as [_ E]; rewrite select_dispatch in E; exact E. }
  destruct (pairs_by_angle_spec (length ps) das ang delta (delta * rel_tol) degrees true) as [Bad Good].
  cbn zeta in *.
  assert (R0 : 0 <= delta <= (if degrees then 180 else PI)).
  { destruct (Rlt_dec delta 0) as [L|L]; [rewrite Bad in E by (now left); discriminate|].
    destruct (Rlt_dec (if degrees then 180 else PI) delta) as [L'|L']; [rewrite Bad in E by (now right); discriminate|]. lra. }
  rewrite (Good R0) in E. injection E as <-. rewrite angle_all_spec.
  replace (to_rad degrees delta - to_rad degrees (delta * rel_tol)) with (to_rad degrees (delta * (1 - rel_tol)))
    by (unfold to_rad; destruct degrees; ring).
  replace (to_rad degrees delta + to_rad degrees (delta * rel_tol)) with (to_rad degrees (delta * (1 + rel_tol)))
    by (unfold to_rad; destruct degrees; ring).
  reflexivity.
Qed.

(* any other unit is the filter error *)
Theorem id_pairs_other_unit all_pairs :
  id_pairs_from_delta PI ps das ang delta dframes DOther rel_tol all_pairs = FilterError.
Proof. reflexivity. Qed.
End EndToEnd.

(* the chain is determined by its specification: a strictly increasing index list that starts at the first
   pose reaching delta, takes as next element the first pose reaching delta since the previous one, and is
   maximal, is the model's chain *)
Theorem chain_unique (delta : R) (s : list R) : forall (ids ids' : list nat) (from : nat),
  chain_spec delta s from ids -> chain_spec delta s from ids' ->
  hd_error ids = hd_error ids' -> ids = ids'.
Proof.
  intros ids. induction ids as [|a r IH]; intros ids' from C C' Hh.
  - destruct ids'; [reflexivity|discriminate].
  - destruct ids' as [|a' r']; [discriminate|]. injection Hh as <-. f_equal.
    destruct C as [Cr Cs Cp Cm], C' as [Cr' Cs' Cp' Cm'].
    inversion Cs as [|? ? Sr Fr]; subst. inversion Cs' as [|? ? Sr' Fr']; subst.
    inversion Cr as [|? ? Ra Rr]; subst. inversion Cr' as [|? ? Ra' Rr']; subst.
    (* the heads of the tails agree *)
    assert (Hhd : hd_error r = hd_error r').
    { destruct r as [|b t], r' as [|b' t']; [reflexivity| | |].
      - exfalso. pose proof (Cp' a b' ltac:(rewrite zip_next_cons; now left)) as [Hb _].
        rewrite Forall_forall in Fr', Rr'. specialize (Fr' b' (or_introl eq_refl)). specialize (Rr' b' (or_introl eq_refl)).
        specialize (Cm ltac:(discriminate) b' ltac:(cbn; lia)). cbn [last] in Cm. lra.
      - exfalso. pose proof (Cp a b ltac:(rewrite zip_next_cons; now left)) as [Hb _].
        rewrite Forall_forall in Fr, Rr. specialize (Fr b (or_introl eq_refl)). specialize (Rr b (or_introl eq_refl)).
        specialize (Cm' ltac:(discriminate) b ltac:(cbn; lia)). cbn [last] in Cm'. lra.
      - pose proof (Cp a b ltac:(rewrite zip_next_cons; now left)) as [Hb Hb2].
        pose proof (Cp' a b' ltac:(rewrite zip_next_cons; now left)) as [Hb' Hb2'].
        rewrite Forall_forall in Fr, Fr'. specialize (Fr b (or_introl eq_refl)). specialize (Fr' b' (or_introl eq_refl)).
        destruct (Nat.lt_trichotomy b b') as [L|[->|L]]; [|reflexivity|].
        + specialize (Hb2' b ltac:(lia)). lra.
        + specialize (Hb2 b' ltac:(lia)). lra. }
    apply (IH r' a); [| |exact Hhd].
    + constructor.
      * rewrite Forall_forall in *. intros x Hx. specialize (Fr x Hx). specialize (Rr x Hx). cbn in Rr. lia.
      * exact Sr.
      * intros x y I. apply Cp. rewrite zip_next_cons. destruct r; [destruct I|]. now right.
      * intros Nr m Hm. destruct r as [|b t]; [congruence|].
        change (last (a :: b :: t) 0%nat) with (last (b :: t) 0%nat) in Cm. apply Cm; [discriminate|exact Hm].
    + constructor.
      * rewrite Forall_forall in *. intros x Hx. specialize (Fr' x Hx). specialize (Rr' x Hx). cbn in Rr'. lia.
      * exact Sr'.
      * intros x y I. apply Cp'. rewrite zip_next_cons. destruct r'; [destruct I|]. now right.
      * intros Nr m Hm. destruct r' as [|b t]; [congruence|].
        change (last (a :: b :: t) 0%nat) with (last (b :: t) 0%nat) in Cm'. apply Cm'; [discriminate|exact Hm].
Qed.
