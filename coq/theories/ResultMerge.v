(* ResultMerge.v - executable model of evo/core/result.py merge_results and of the statistics table
   assembled by evo/tools/pandas_bridge.py (result_to_df, load_results_as_dataframe) + evo/main_res.py.
   Dicts are association lists in insertion order (Python dicts keep insertion order; keys unique).
   Generic over NumOps: run at F_ops (bit-exact: left-to-right sums, one division), reasoned about at R_ops.
   Definitions only; proofs in ResultMergeProofs.v. *)
From Coq Require Import List Arith Bool Ascii String ZArith.
From Evo Require Import Num.
Import ListNotations.
Local Open Scope num_scope.

Section Model.
Context {T : Type} {ops : NumOps T}.
(* I: whatever an info dict holds (opaque to merge_results) *)
Context {I : Type}.

Definition dict (V : Type) := list (string * V).

Fixpoint get {V} (k : string) (d : dict V) : option V :=
  match d with
  | [] => None
  | (k', v) :: r => if String.eqb k' k then Some v else get k r
  end.
Definition keys {V} (d : dict V) : list string := map fst d.
Definition mem (k : string) (l : list string) : bool := existsb (String.eqb k) l.
(* dict.keys() == dict.keys(): set comparison (keys of a dict are unique) *)
Definition keys_eq (a b : list string) : bool :=
  forallb (fun k => mem k b) a && forallb (fun k => mem k a) b.

Record Result := mkResult { info : I; stats : dict T; arrays : dict (list T) }.

(* all(f(a, b) for a, b in zip(l, l[1:])) *)
Fixpoint all_adjacent {A} (f : A -> A -> bool) (l : list A) : bool :=
  match l with
  | a :: ((b :: _) as r) => f a b && all_adjacent f r
  | _ => true
  end.

Definition getd {V} (dflt : V) (k : string) (d : dict V) : V :=
  match get k d with Some v => v | None => dflt end.

(* [r.np_arrays[key].size for key in results[0].np_arrays] *)
Definition size_list (first r : Result) : list nat :=
  map (fun k => List.length (getd [] k (arrays r))) (keys (arrays first)).
Definition nat_list_eqb (a b : list nat) : bool :=
  Nat.eqb (List.length a) (List.length b) && forallb (fun p => Nat.eqb (fst p) (snd p)) (combine a b).

Inductive strategy := Average | Append.
Definition choose_strategy (rs : list Result) : strategy :=
  match rs with
  | [] => Average
  | first :: _ => if all_adjacent nat_list_eqb (map (size_list first) rs) then Average else Append
  end.

(* np.add on arrays of equal size *)
Fixpoint vadd_list (a b : list T) : list T :=
  match a, b with
  | x :: a', y :: b' => (x +! y) :: vadd_list a' b'
  | _, _ => []
  end.

(* one iteration of "for result in results[1:]" *)
Definition step (st : strategy) (m r : Result) : Result :=
  mkResult (info m)
    (map (fun kv => (fst kv, snd kv +! getd n0 (fst kv) (stats r))) (stats m))
    (map (fun kv => (fst kv, match st with
                             | Average => vadd_list (snd kv) (getd [] (fst kv) (arrays r))
                             | Append => snd kv ++ getd [] (fst kv) (arrays r)
                             end)) (arrays m)).

Definition ncount (rs : list Result) : T := nofZ (Z.of_nat (List.length rs)).

Definition finish (st : strategy) (n : T) (m : Result) : Result :=
  mkResult (info m)
    (map (fun kv => (fst kv, snd kv /! n)) (stats m))
    (match st with
     | Average => map (fun kv => (fst kv, map (fun x => x /! n) (snd kv))) (arrays m)
     | Append => arrays m
     end).

Inductive outcome := NoResults | KeyMismatch | Merged (r : Result).

Definition merge_results (rs : list Result) : outcome :=
  match rs with
  | [] => NoResults
  | [r] => Merged r
  | first :: rest =>
      if all_adjacent keys_eq (map (fun r => keys (arrays r)) rs)
         && all_adjacent keys_eq (map (fun r => keys (stats r)) rs)
      then let st := choose_strategy rs in
           Merged (finish st (ncount rs) (fold_left (step st) rest first))
      else KeyMismatch
  end.

(* --- the pre-repair strategy choice (finding F8): sizes listed in each result's own dict order --- *)
Definition size_list_old (r : Result) : list nat := map (fun kv => List.length (snd kv)) (arrays r).
Definition choose_strategy_old (rs : list Result) : strategy :=
  if all_adjacent nat_list_eqb (map size_list_old rs) then Average else Append.

End Model.

Arguments Result T I : clear implicits.
Arguments outcome T I : clear implicits.

(* ------------------------------------------------------------------------------------------
   evo_res statistics table: one column (row after the default transpose) per result file, under the
   result's label; with --merge a single merged result.  Labels: result_to_df. *)
Section Table.
Context {T : Type} {ops : NumOps T}.

(* os.path.basename on POSIX: everything after the last '/' *)
Fixpoint basename_aux (s acc : string) : string :=
  match s with
  | EmptyString => acc
  | String c r => if Ascii.eqb c "/"%char then basename_aux r EmptyString
                  else basename_aux r (acc ++ String c EmptyString)
  end.
Definition basename (s : string) : string := basename_aux s EmptyString.

(* a result file as far as the table is concerned: its file name, info["est_name"] if any, and stats *)
Record ResFile := mkResFile { fname : string; est_name : option string; fstats : list (string * T) }.

Definition label_of (use_filenames : bool) (f : ResFile) : string :=
  if use_filenames then fname f
  else match est_name f with Some e => basename e | None => "unnamed_result"%string end.

Fixpoint nodup_b (l : list string) : bool :=
  match l with
  | [] => true
  | a :: r => negb (existsb (String.eqb a) r) && nodup_b r
  end.

(* rows of the exported table (label, that file's statistics); None = evo_res exits with the
   "must be unique" error *)
Definition table (use_filenames : bool) (fs : list ResFile) : option (list (string * list (string * T))) :=
  let labels := map (label_of use_filenames) fs in
  if nodup_b labels then Some (map (fun f => (label_of use_filenames f, fstats f)) fs) else None.

End Table.

(* evo_res --merge: result_to_df(merge_results(results)) - one row, labelled by the first result's est_name *)
Section TableMerged.
Context {T : Type} {ops : NumOps T}.
Definition label_of_info (i : option string) : string :=
  match i with Some e => basename e | None => "unnamed_result"%string end.
Definition table_merged (rs : list (Result T (option string))) : option (string * list (string * T)) :=
  match merge_results rs with
  | Merged m => Some (label_of_info (info m), stats m)
  | _ => None
  end.
End TableMerged.

(* printable view of an outcome for the correspondence runs *)
Section View.
Context {T I : Type}.
Definition view (o : outcome T I) : nat * option (I * list (string * T) * list (string * list T)) :=
  match o with
  | NoResults => (1, None)
  | KeyMismatch => (2, None)
  | Merged m => (0, Some (info m, stats m, arrays m))
  end.
End View.
