(* C12 - a metric result is self-consistent: statistics, companion arrays, unit.
   Property theorems only; proofs live in Evo.StatsProofs (over R) and Evo.UnitsTie (finite
   enumerations over the terms re-translated from the repository under test). *)
From Coq Require Import String Reals List Sorted Permutation ZArith.
From Evo Require Import Num Stats StatsProofs PyAstC12 UnitsTie.
From EvoGen Require Import UnitsGen.
Import ListNotations.
Local Open Scope R_scope.

(* ---------- statistics ---------- *)
(* numpy's pairwise summation (the order np.sum/np.mean/np.std really use) is the sum *)
Theorem C12_numpy_pairwise_sum_is_the_sum :
  forall l : list R, np_sum l = sumR l.
Proof. exact np_sum_R. Qed.
Print Assumptions C12_numpy_pairwise_sum_is_the_sum.

(* every statistic equals its definition on the error values; all stated relations hold *)
Theorem C12_statistics_equal_definitions_and_are_consistent :
  forall l : list R, l <> [] ->
  rmse l = sqrt (sumR (map (fun x => x * x) l) / INR (length l)) /\
  sse l = sumR (map (fun x => x * x) l) /\
  mean l = sumR l / INR (length l) /\
  std l = sqrt (sumR (map (fun x => (x - mean l) * (x - mean l)) l) / INR (length l)) /\
  In (minl l) l /\ In (maxl l) l /\ (forall y, In y l -> minl l <= y <= maxl l) /\
  minl l <= median l <= maxl l /\ minl l <= mean l <= maxl l /\ mean l <= rmse l /\
  rmse l * rmse l = mean l * mean l + std l * std l /\
  sse l = INR (length l) * (rmse l * rmse l).
Proof. exact statistics_consistent. Qed.
Print Assumptions C12_statistics_equal_definitions_and_are_consistent.

Theorem C12_rmse_squared_is_mean_squared_plus_std_squared :
  forall l : list R, l <> [] -> rmse l * rmse l = mean l * mean l + std l * std l.
Proof. exact rmse_mean_std. Qed.
Print Assumptions C12_rmse_squared_is_mean_squared_plus_std_squared.

Theorem C12_sse_is_n_times_rmse_squared :
  forall l : list R, l <> [] -> sse l = INR (length l) * (rmse l * rmse l).
Proof. exact sse_n_rmse. Qed.
Print Assumptions C12_sse_is_n_times_rmse_squared.

Theorem C12_min_le_mean_le_max :
  forall l : list R, l <> [] -> minl l <= mean l <= maxl l.
Proof. exact min_le_mean_le_max. Qed.
Print Assumptions C12_min_le_mean_le_max.

(* the median is the middle of the sorted values (the sort is a sorted permutation) *)
Theorem C12_median_is_middle_of_sorted_values :
  forall l : list R, l <> [] ->
  let s := isort l in let n := length l in let h := Nat.div n 2 in
  Permutation s l /\ StronglySorted Rle s /\
  (Nat.even n = false -> median l = nth h s 0) /\
  (Nat.even n = true -> median l = (nth (h - 1) s 0 + nth h s 0) / 2 /\ nth (h - 1) s 0 <= nth h s 0).
Proof. exact median_middle. Qed.
Print Assumptions C12_median_is_middle_of_sorted_values.

Theorem C12_min_le_median_le_max :
  forall l : list R, l <> [] -> minl l <= median l <= maxl l.
Proof. exact min_le_median_le_max. Qed.
Print Assumptions C12_min_le_median_le_max.

Theorem C12_mean_le_rmse :
  forall l : list R, l <> [] -> mean l <= rmse l /\ Rabs (mean l) <= rmse l.
Proof. exact (fun l H => conj (mean_le_rmse l H) (abs_mean_le_rmse l H)). Qed.
Print Assumptions C12_mean_le_rmse.

(* min <= mean <= rmse <= max for error values (norms, absolute angles, ratios: all >= 0) *)
Theorem C12_min_le_mean_le_rmse_le_max_for_nonnegative_errors :
  forall l : list R, l <> [] -> (forall y, In y l -> 0 <= y) ->
  minl l <= mean l /\ mean l <= rmse l /\ rmse l <= maxl l.
Proof. exact stat_chain_nonneg. Qed.
Print Assumptions C12_min_le_mean_le_rmse_le_max_for_nonnegative_errors.

(* ---------- change_unit: all 100 ordered pairs ---------- *)
(* a conversion happens iff the pair is convertible (same unit, length->length, rad<->deg); it
   multiplies every value by the exact factor and sets the unit; every other pair is refused and
   leaves values and unit untouched *)
Theorem C12_change_unit_table :
  forall (e : list R) (u v : Unit), e <> [] ->
  if convertible u v
  then change_unit PI e u v = (CuOk, (map (fun x => x * factorR u v) e, v))
  else exists r, change_unit PI e u v = (CuRefused r, (e, u)).
Proof. exact change_unit_table. Qed.
Print Assumptions C12_change_unit_table.

Theorem C12_change_unit_factors :
  (forall u, factorR u u = 1) /\
  (forall u v, u <> v -> is_length u = true -> is_length v = true -> factorR u v = metersR u / metersR v) /\
  metersR U_millimeters = 1 / 1000 /\ metersR U_centimeters = 1 / 100 /\
  metersR U_meters = 1 /\ metersR U_kilometers = 1000 /\
  factorR U_radians U_degrees = 180 / PI /\ factorR U_degrees U_radians = PI / 180 /\
  length (list_prod all_units all_units) = 100%nat /\
  length (filter (fun p => convertible (fst p) (snd p)) (list_prod all_units all_units)) = 24%nat /\
  (forall u v, convertible u v = true <->
     u = v \/ (is_length u = true /\ is_length v = true) \/
     (u = U_radians /\ v = U_degrees) \/ (u = U_degrees /\ v = U_radians)).
Proof. exact change_unit_factors. Qed.
Print Assumptions C12_change_unit_factors.

Theorem C12_same_unit_is_a_no_op :
  forall (p : R) (e : list R) (u : Unit), change_unit p e u u = (CuOk, (e, u)).
Proof. exact change_unit_same. Qed.
Print Assumptions C12_same_unit_is_a_no_op.

Theorem C12_refusal_leaves_values_and_unit_untouched :
  forall (e : list R) (u v : Unit) (r : refusal) (st : list R * Unit),
  change_unit PI e u v = (CuRefused r, st) -> st = (e, u).
Proof. exact change_unit_refusal_untouched. Qed.
Print Assumptions C12_refusal_leaves_values_and_unit_untouched.

Theorem C12_angle_length_and_unitless_conversions_refused :
  forall (e : list R) (u v : Unit), convertible u v = false ->
  exists r, change_unit PI e u v = (CuRefused r, (e, u)).
Proof. exact change_unit_refused. Qed.
Print Assumptions C12_angle_length_and_unitless_conversions_refused.

Theorem C12_empty_error_array_refused :
  forall u v : Unit, u <> v -> exists r, change_unit PI (@nil R) u v = (CuRefused r, ([], u)).
Proof. exact change_unit_empty. Qed.
Print Assumptions C12_empty_error_array_refused.

Theorem C12_conversion_round_trip_is_identity :
  forall (e : list R) (u v : Unit), e <> [] -> convertible u v = true ->
  change_unit PI (fst (snd (change_unit PI e u v))) (snd (snd (change_unit PI e u v))) u = (CuOk, (e, u)).
Proof. exact change_unit_round_trip. Qed.
Print Assumptions C12_conversion_round_trip_is_identity.

(* the number-system independent decision table describes the model exactly ... *)
Theorem C12_change_unit_follows_decision_table :
  forall (e : list R) (u v : Unit),
  change_unit PI e u v = apply_decision PI (decide (nonemptyb e) u v) e u v.
Proof. exact change_unit_decide. Qed.
Print Assumptions C12_change_unit_follows_decision_table.

(* ... and the SOURCE (re-translated on every run) takes the same decision on all
   2 x 10 x 10 combinations, refusals leaving the object untouched *)
Theorem C12_source_change_unit_agrees_with_decision_table :
  forall (ne : bool) (u v : Unit), src_decision ne u v = Some (norm_decision (decide ne u v)).
Proof. exact source_change_unit_agrees. Qed.
Print Assumptions C12_source_change_unit_agrees_with_decision_table.

Theorem C12_source_unit_members :
  Unit_members = map (fun u => (unit_name u, EStr (unit_value u))) all_units.
Proof. exact source_unit_members. Qed.
Print Assumptions C12_source_unit_members.

Theorem C12_source_relation_members :
  PoseRelation_members = map (fun r => (relation_name r, EStr (relation_value r))) all_relations.
Proof. exact source_relation_members. Qed.
Print Assumptions C12_source_relation_members.

Theorem C12_source_metric_units :
  forall r : Relation,
  dispatch_unit ape_unit_dispatch r = Some (unit_val (ape_unit r)) /\
  dispatch_unit rpe_unit_dispatch r = Some (unit_val (rpe_unit r)).
Proof. exact source_metric_units. Qed.
Print Assumptions C12_source_metric_units.

(* ---------- title / label ---------- *)
Theorem C12_title_and_label_name_the_unit_after_the_change :
  forall (is_rpe : bool) (rel : Relation) (chg : option Unit) (e : list R) (u : Unit) (t lb : string),
  info_after is_rpe rel chg (nonemptyb e) = Some (u, t, lb) ->
  let u0 := if is_rpe then rpe_unit rel else ape_unit rel in
  (match chg with
   | None => u = u0
   | Some v => exists e', change_unit PI e u0 v = (CuOk, (e', u))
   end) /\
  lb = label (if is_rpe then "RPE" else "APE")%string u /\
  t = (if is_rpe then rpe_title_head rel u else ape_title rel u).
Proof. exact info_after_names_final_unit. Qed.
Print Assumptions C12_title_and_label_name_the_unit_after_the_change.

Theorem C12_source_steps_of_ape_and_rpe :
  ape_steps =
  ["process_data"; "change_unit"; "title=str(metric)"; "get_result";
   "add_trajectory traj_ref"; "add_trajectory traj_est";
   "seconds_from_start=np.array([t - traj_est.timestamps[0] for t in traj_est.timestamps])";
   "add_np_array seconds_from_start whole seconds_from_start";
   "add_np_array timestamps whole traj_est.timestamps";
   "add_np_array distances_from_start whole traj_ref.distances";
   "add_np_array distances whole traj_est.distances";
   "add_np_array alignment_transformation_sim3 whole alignment_transformation"]%string /\
  rpe_steps =
  ["process_data"; "change_unit"; "title=str(metric)"; "get_result";
   "ids=[0]+delta_ids"; "reduce_to_ids traj_ref ids"; "reduce_to_ids traj_est ids";
   "add_trajectory traj_ref"; "add_trajectory traj_est";
   "seconds_from_start=np.array([t - traj_est.timestamps[0] for t in traj_est.timestamps])";
   "add_np_array seconds_from_start sliced seconds_from_start";
   "add_np_array timestamps sliced traj_est.timestamps";
   "add_np_array distances_from_start sliced traj_ref.distances";
   "add_np_array distances sliced traj_est.distances";
   "add_np_array alignment_transformation_sim3 whole alignment_transformation"]%string.
Proof. exact (conj source_ape_steps source_rpe_steps). Qed.
Print Assumptions C12_source_steps_of_ape_and_rpe.

(* ---------- companion arrays and stored trajectories ---------- *)
(* [1:] after prepending pose 0: entry k is f of pose delta_ids[k], the end pose of pair k *)
Theorem C12_slice_after_prepending_first_pose :
  forall (X Y : Type) (f : X -> Y) (t : list X) (ids : list nat) (d : X) (dy : Y),
  t <> [] ->
  tl (map f (reduce_to_ids t (0%nat :: ids))) = map f (reduce_to_ids t ids) /\
  (in_range t ids -> length (reduce_to_ids t ids) = length ids /\
   forall k, (k < length ids)%nat ->
     nth k (tl (map f (reduce_to_ids t (0%nat :: ids)))) dy = f (nth (nth k ids 0%nat) t d)).
Proof. exact @slice_after_first. Qed.
Print Assumptions C12_slice_after_prepending_first_pose.

Theorem C12_ape_arrays_one_entry_per_value_same_pose :
  forall (A P : Type) (stamp : A -> R) (pos : A -> P) (dist : P -> P -> R) (ref est : list A) (d : A),
  est <> [] -> length ref = length est ->
  let '(sec, ts, dfs, ds) := ape_companions stamp pos dist ref est in
  length sec = length est /\ length ts = length est /\
  length dfs = length est /\ length ds = length est /\
  forall k, (k < length est)%nat ->
    nth k ts 0 = stamp (nth k est d) /\
    nth k sec 0 = stamp (nth k est d) - stamp (nth 0 est d) /\
    nth k dfs 0 = path_len dist (map pos (firstn (S k) ref)) /\
    nth k ds 0 = path_len dist (map pos (firstn (S k) est)).
Proof. exact @ape_companions_spec. Qed.
Print Assumptions C12_ape_arrays_one_entry_per_value_same_pose.

Theorem C12_rpe_arrays_belong_to_pair_end_poses :
  forall (A P : Type) (stamp : A -> R) (pos : A -> P) (dist : P -> P -> R)
         (ref est : list A) (ids : list nat) (d : A),
  ref <> [] -> est <> [] -> in_range ref ids -> in_range est ids ->
  let '((sec, ts, dfs, ds), (r, e)) := rpe_companions stamp pos dist ref est ids in
  r = map (fun i => nth i ref d) (0%nat :: ids) /\ e = map (fun i => nth i est d) (0%nat :: ids) /\
  length sec = length ids /\ length ts = length ids /\ length dfs = length ids /\ length ds = length ids /\
  forall k, (k < length ids)%nat ->
    let j := nth k ids 0%nat in
    nth k ts 0 = stamp (nth j est d) /\
    nth k sec 0 = stamp (nth j est d) - stamp (nth 0 est d) /\
    nth k dfs 0 = path_len dist (map pos (firstn (S (S k)) r)) /\
    nth k ds 0 = path_len dist (map pos (firstn (S (S k)) e)) /\
    nth (S k) r d = nth j ref d /\ nth (S k) e d = nth j est d.
Proof. exact @rpe_companions_spec. Qed.
Print Assumptions C12_rpe_arrays_belong_to_pair_end_poses.

Theorem C12_point_distance_one_value_per_pair :
  forall (A P : Type) (pos : A -> P) (dist : P -> P -> R) (ref est : list A) (pairs : list (nat * nat)) (d : A),
  pairs_in_range ref pairs -> pairs_in_range est pairs ->
  let '(err, ids) := point_distance_errors pos dist false ref est pairs in
  ids = map snd pairs /\ length err = length pairs /\
  forall k, (k < length pairs)%nat ->
    let ij := nth k pairs (0, 0)%nat in
    nth k err 0 = Rabs (dist (pos (nth (fst ij) ref d)) (pos (nth (snd ij) ref d))
                        - dist (pos (nth (fst ij) est d)) (pos (nth (snd ij) est d))).
Proof. exact @point_distance_values. Qed.
Print Assumptions C12_point_distance_one_value_per_pair.

(* zero-distance pairs dropped by the ratio relation: values and delta_ids stay aligned *)
Theorem C12_ratio_filter_keeps_values_and_ids_aligned :
  forall (A P : Type) (pos : A -> P) (dist : P -> P -> R) (ref est : list A) (pairs : list (nat * nat)) (d : A),
  pairs_in_range ref pairs -> pairs_in_range est pairs ->
  let rd := map (fun ij => dist (pos (nth (fst ij) ref d)) (pos (nth (snd ij) ref d))) pairs in
  let ed := map (fun ij => dist (pos (nth (fst ij) est d)) (pos (nth (snd ij) est d))) pairs in
  let nz := nonzero rd in
  let '(err, ids) := point_distance_errors pos dist true ref est pairs in
  length err = length nz /\ length ids = length nz /\
  (forall q, In q nz <-> (q < length pairs)%nat /\ nth q rd 0 <> 0) /\ StronglySorted lt nz /\
  forall k, (k < length nz)%nat ->
    let q := nth k nz 0%nat in
    (q < length pairs)%nat /\
    nth k ids 0%nat = snd (nth q pairs (0, 0)%nat) /\
    nth k err 0 = Rabs (nth q rd 0 - nth q ed 0) / nth q rd 0 * 100.
Proof. exact @ratio_filter_aligned. Qed.
Print Assumptions C12_ratio_filter_keeps_values_and_ids_aligned.

(* ---------- non-vacuity ---------- *)
Theorem C12_example_statistics :
  let l := [3; 4; 0; 5] in
  mean l = 3 /\ sse l = 50 /\ rmse l * rmse l = 25 / 2 /\ std l * std l = 7 / 2 /\
  minl l = 0 /\ maxl l = 5 /\ median l = 7 / 2 /\ isort l = [0; 3; 4; 5].
Proof. exact stats_example_R. Qed.
Print Assumptions C12_example_statistics.

Theorem C12_example_change_unit :
  change_unit PI [2; 5] U_meters U_centimeters = (CuOk, ([2 * (1 / (1 / 100)); 5 * (1 / (1 / 100))], U_centimeters)) /\
  2 * (1 / (1 / 100)) = 200 /\
  change_unit PI [2; 5] U_meters U_radians = (CuRefused RefAngleLength, ([2; 5], U_meters)) /\
  change_unit PI [2; 5] U_none U_meters = (CuRefused RefNoConversions, ([2; 5], U_none)) /\
  change_unit PI [2; 5] U_meters U_seconds = (CuRefused RefUnknown, ([2; 5], U_meters)) /\
  change_unit PI [] U_meters U_centimeters = (CuRefused RefEmpty, (@nil R, U_meters)) /\
  change_unit PI [2; 5] U_none U_none = (CuOk, ([2; 5], U_none)).
Proof. exact change_unit_example_R. Qed.
Print Assumptions C12_example_change_unit.

(* binary64 runs of the same model: statistics, and a ratio evaluation with a dropped pair *)
Theorem C12_example_float_runs :
  all_statistics FloatExamples.ex_values = FloatExamples.ex_statistics /\
  rpe_pd true FloatExamples.ex_ref FloatExamples.ex_est [(0, 1); (1, 2); (2, 3)]%nat = FloatExamples.ex_ratio_result.
Proof. exact (conj FloatExamples.stats_example_F FloatExamples.rpe_ratio_example_F). Qed.
Print Assumptions C12_example_float_runs.

(* ---------- a Result handed out earlier is not touched by change_unit ---------- *)
(* get_result keeps a REFERENCE to the metric's error array (heap model, any number system):
   change_unit rebinds self.error to a new array, so every Result that exists keeps its values and
   stays self-consistent, while the metric holds the converted values *)
Theorem C12_change_unit_keeps_earlier_results :
  forall (T : Type) (ops : NumOps T) (p : T) (h : @heap T) (m : hmetric) (v : Unit) (r : @hresult T),
  (fst m < length h)%nat -> (res_addr r < length h)%nat -> result_consistent h r ->
  let '(st, (h', m')) := change_unit_h false p h m v in
  hread h' (res_addr r) = hread h (res_addr r) /\ result_consistent h' r /\
  st = fst (change_unit p (hread h (fst m)) (snd m) v) /\
  hread h' (fst m') = fst (snd (change_unit p (hread h (fst m)) (snd m) v)) /\
  snd m' = snd (snd (change_unit p (hread h (fst m)) (snd m) v)) /\
  result_consistent h' (get_result_h h' m').
Proof. exact @change_unit_keeps_earlier_results. Qed.
Print Assumptions C12_change_unit_keeps_earlier_results.

Theorem C12_result_then_change_unit_then_result :
  forall (T : Type) (ops : NumOps T) (p : T) (e : list T) (u v : Unit),
  let '(st, s1, e1, u1, e2, u2, s2) := alias_scenario false p e u v in
  s1 = all_statistics e /\ e1 = e /\ u1 = u /\
  (st, (e2, u2)) = change_unit p e u v /\ s2 = all_statistics e2.
Proof. exact @alias_scenario_spec. Qed.
Print Assumptions C12_result_then_change_unit_then_result.

(* regression witness (binary64 run): the earlier in-place scaling rescaled the array of a Result
   taken before m -> mm (stored sse 5, array sse 5000000); the current code does not *)
Theorem C12_in_place_scaling_rescaled_earlier_result :
  AliasWitness.stored_and_actual_sse true = (AliasWitness.five, AliasWitness.five_million) /\
  AliasWitness.stored_and_actual_sse false = (AliasWitness.five, AliasWitness.five).
Proof. exact (conj AliasWitness.old_code_rescaled_earlier_result AliasWitness.new_code_keeps_earlier_result). Qed.
Print Assumptions C12_in_place_scaling_rescaled_earlier_result.
