"""C10 - RPE pair selection (evo/core/filters.py filter_pairs_by_*, metrics.id_pairs_from_delta,
geometry.accumulated_distances) against the Coq model Evo.Filters.

Discrete outputs (index pairs / FilterException) must be equal. Arithmetic that decides them:
accumulated_distances (np.linalg.norm(axis=1) + cumsum) is bit-exact with the model; the consecutive path
selector uses np.linalg.norm on single vectors (BLAS ddot), so on non-grid data a disagreement is excused
only when the model's smallest relative decision margin is < 1e-9 (counted as fragile); grid data is exact.
Rotation angles are oracle values computed by the implementation's own functions and handed to the model.
"""
import itertools
import math

import numpy as np

from harness.common import cf, cflist, cnat, differential, hexf, unhex

ID = "C10"
IMPORTS = "From Evo Require Import Num Linalg Filters FiltersCheck.\n"
COQ_TARGETS = ["theories/FiltersProofs.vo", "theories/FiltersCheck.vo"]
TRUSTED = [
    "model Evo.Filters written by hand from evo/core/filters.py, metrics.id_pairs_from_delta, "
    "geometry.accumulated_distances; tie = differential run (index pairs must be equal)",
    "angle oracle: the angle between consecutive poses is the implementation's own "
    "lie.so3_log_angle(lie.relative_so3(.)) and the all-pairs angle table is the implementation's own scipy "
    "Rotation expression, both recorded per case and passed to the model; each oracle value is validated "
    "numerically against cos(angle) = (trace(Ri^T Rj) - 1)/2",
    "numpy: norm(axis=1) = sqrt((x*x + y*y) + z*z), cumsum sequential, argmin first minimum, "
    "deg2rad(x) = x * (pi/180) - all measured bit-exactly on every case",
    "an independent Python restatement of the property text (spec_check) is run on every implementation output; for "
    "the chain and all-pairs path clauses the implementation's output is additionally judged inside Coq by the "
    "proven checkers chain_text_b / path_all_text_b (inputs up to 80 poses)",
]
ASSUMPTIONS = ["at least one pose; delta > 0 (frames: integer >= 1), tolerance >= 0; finite coordinates",
               "poses are SE(3) matrices"]

UNITS = {"frames": "DFrames", "meters": "DMeters", "degrees": "DDegrees", "radians": "DRadians", "seconds": "DOther"}


# ------------------------------------------------------------------ building the inputs
def _rotm(spec):
    kind = spec[0]
    if kind == "q":      # exact quarter turns about z
        k = int(spec[1]) % 4
        c, s = [(1, 0), (0, 1), (-1, 0), (0, -1)][k]
        return np.array([[c, -s, 0.0], [s, c, 0.0], [0.0, 0.0, 1.0]])
    if kind == "z8":     # multiples of pi/8 about z
        a = int(spec[1]) * (math.pi / 8)
        c, s = math.cos(a), math.sin(a)
        return np.array([[c, -s, 0.0], [s, c, 0.0], [0.0, 0.0, 1.0]])
    from scipy.spatial.transform import Rotation
    return Rotation.from_rotvec([unhex(x) for x in spec[1:4]]).as_matrix()


def n_poses(case):
    if "pos" in case:
        return len(case["pos"])
    if "rot" in case:
        return len(case["rot"])
    return int(case["n"])


def positions(case):
    n = n_poses(case)
    if "pos" in case:
        return [[unhex(x) for x in p] for p in case["pos"]]
    return [[0.0, 0.0, 0.0]] * n


def build_poses(case):
    """SE(3) matrices of the case; case["dtype"] (e.g. "int64") gives integer-valued matrices of that numpy dtype
    (integer grid positions, identity / quarter-turn rotations only) - they are valid pose sequences like the float ones"""
    n = n_poses(case)
    pos = positions(case)
    dtype = np.dtype(case.get("dtype", "float64"))
    poses = []
    for k in range(n):
        m = np.eye(4)
        if "rot" in case:
            m[:3, :3] = _rotm(case["rot"][k])
        m[:3, 3] = pos[k]
        if dtype != np.float64:
            if not np.array_equal(m, np.round(m)):
                raise ValueError("integer dtype case with non-integer entries")
            m = m.astype(dtype)
        poses.append(m)
    return poses


def oracle(case, poses):
    """The implementation's own angle computations, replayed from outside."""
    from evo.core import lie_algebra as lie
    out = {}
    if case["unit"] not in ("degrees", "radians"):
        return out
    ok = True

    def validate(i, j, ang):
        c = (np.trace(poses[i][:3, :3].T @ poses[j][:3, :3]) - 1.0) / 2.0
        return abs(math.cos(ang) - max(-1.0, min(1.0, c))) <= 1e-9 and -1e-12 <= ang <= math.pi + 1e-9

    if not case["all_pairs"]:
        das = [lie.so3_log_angle(lie.relative_so3(p1[:3, :3], p2[:3, :3])) for p1, p2 in zip(poses, poses[1:])]
        for k, a in enumerate(das):
            ok = ok and validate(k, k + 1, a)
        out["das"] = [hexf(a) for a in das]
    else:
        rows = []
        n = len(poses)
        for i in range(n - 1):
            end = list(range(i + 1, n))
            ri = lie.sst_rotation_from_matrix(np.array([poses[i][:3, :3]] * len(end)))
            rj = lie.sst_rotation_from_matrix(np.array([poses[j][:3, :3] for j in end]))
            da = np.linalg.norm((ri.inv() * rj).as_rotvec(), axis=1)
            for j, a in zip(end, da):
                ok = ok and validate(i, j, float(a))
            rows.append([hexf(a) for a in da])
        out["rows"] = rows
    out["oracle_ok"] = bool(ok)
    return out


def impl(case):
    import contextlib
    import io
    from evo.core import filters, metrics
    from evo.core.units import Unit
    poses = build_poses(case)
    if case.get("via") == "path":      # the pose list as a trajectory object hands it to the RPE metric
        from evo.core.trajectory import PosePath3D
        poses = PosePath3D(poses_se3=poses).poses_se3
    snap = [p.tobytes() for p in poses]
    delta, tol = unhex(case["delta"]), unhex(case["tol"])
    unit, allp = case["unit"], bool(case["all_pairs"])
    out = {}
    try:
        out.update(oracle(case, poses))
        with contextlib.redirect_stdout(io.StringIO()):
            if case["level"] == "hi":
                d = int(delta) if unit == "frames" else delta
                pairs = metrics.id_pairs_from_delta(poses, d, {"frames": Unit.frames, "meters": Unit.meters,
                                                               "degrees": Unit.degrees, "radians": Unit.radians,
                                                               "seconds": Unit.seconds}[unit], tol, allp)
            elif unit == "frames":
                pairs = filters.filter_pairs_by_index(poses, int(delta), allp)
            elif unit == "meters":
                pairs = filters.filter_pairs_by_path(poses, delta, tol, allp)
            else:
                pairs = filters.filter_pairs_by_angle(poses, delta, tol, unit == "degrees", allp)
        out["pairs"] = [[int(a), int(b)] for a, b in pairs]
    except filters.FilterException:
        out["error"] = "FilterException"
    except Exception as e:  # noqa
        out["error"] = type(e).__name__ + ": " + str(e)[:200]
    out["inputs_unchanged"] = [p.tobytes() for p in poses] == snap
    return out


# ------------------------------------------------------------------ model side
def _v3list(pos):
    return "[" + "; ".join("mkV3 %s %s %s" % (cf(x), cf(y), cf(z)) for x, y, z in pos) + "]"


def expr(case, out):
    pos = positions(case)
    delta, tol = unhex(case["delta"]), unhex(case["tol"])
    unit, allp = case["unit"], "true" if case["all_pairs"] else "false"
    das = cflist(unhex(a) for a in out.get("das", []))
    rows = "[" + "; ".join(cflist(unhex(a) for a in r) for r in out.get("rows", [])) + "]"
    ps = _v3list(pos)
    dfr = cnat(int(delta)) if unit == "frames" else cnat(0)
    n = cnat(len(pos))
    if case["level"] == "hi":
        m = "id_pairs_from_delta pi_f %s %s (rows_ang %s) %s %s %s %s %s" % (
            ps, das, rows, cf(delta), dfr, UNITS[unit], cf(tol), allp)
    elif unit == "frames":
        m = "Pairs (pairs_by_index %s %s %s)" % (n, dfr, allp)
    elif unit == "meters":
        m = "Pairs (pairs_by_path %s %s %s %s)" % (ps, cf(delta), cf(tol), allp)
    else:
        m = "pairs_by_angle pi_f %s %s (rows_ang %s) %s %s %s %s" % (
            n, das, rows, cf(delta), cf(tol), "true" if unit == "degrees" else "false", allp)
    margin = "1"
    if unit == "meters" and not case["all_pairs"] and not case.get("exact"):
        margin = "chain_margin %s 0 (consec_steps %s)" % (cf(delta), ps)
    # proven checkers (FiltersCheck.v) applied to the implementation's own output, for the clauses of the property
    # that do not fix the output completely
    verdict = "true"
    got = out.get("pairs")
    if got and len(pos) <= 80:
        P = "[" + "; ".join("(%s, %s)" % (cnat(a), cnat(b)) for a, b in got) + "]"
        hi = case["level"] == "hi"
        if unit == "meters" and not case["all_pairs"]:
            verdict = "chain_text_b %s (consec_steps %s) false %s" % (cf(delta), ps, P)
        elif unit == "meters":
            t = "(%s *! %s)%%num" % (cf(delta), cf(tol)) if hi else cf(tol)
            verdict = "path_all_text_b (acc_dists %s) %s %s %s" % (ps, cf(delta), t, P)
        elif unit in ("degrees", "radians") and not case["all_pairs"]:
            d = "(deg2rad pi_f %s)" % cf(delta) if unit == "degrees" else cf(delta)
            if 0 <= delta <= (180.0 if unit == "degrees" else math.pi):
                verdict = "chain_text_b %s (0 :: %s) true %s" % (d, das, P)
    return "(%s, %s, %s)" % (m, margin, verdict)


# ------------------------------------------------------------------ the property text, restated independently
def spec_check(case, out):
    """Returns None or a message naming the clause of the property text that the implementation's output
    violates on this input. Exact (integer / dyadic grid) cases are judged exactly; otherwise comparisons
    closer than 1e-9 (relative) to a threshold are not judged."""
    n = n_poses(case)
    delta, tol = unhex(case["delta"]), unhex(case["tol"])
    unit, allp, hi = case["unit"], bool(case["all_pairs"]), case["level"] == "hi"
    # angle decisions are taken on the oracle values and all-pairs path decisions on accumulated_distances, whose
    # float arithmetic is restated here operation by operation: these are judged exactly. Only the consecutive path
    # selector on non-grid data (single-vector norms through BLAS) is judged with a rounding band.
    exactly = bool(case.get("exact")) or unit in ("degrees", "radians") or (unit == "meters" and allp)
    eps = 0.0 if exactly else 1e-9
    err = out.get("error")
    pairs = [tuple(p) for p in out.get("pairs", [])]

    def ge(a, b):     # a >= b ? -> True / False / None (undecidable at this precision)
        if abs(a - b) <= eps * max(abs(a), abs(b), 1.0) and eps > 0:
            return None
        return a >= b

    if unit == "seconds":
        return None if err == "FilterException" else "unsupported delta unit accepted"
    if unit in ("degrees", "radians"):
        lim = 180.0 if unit == "degrees" else math.pi
        if delta < 0 or delta > lim:
            return None if err == "FilterException" else "delta outside [0, %s] accepted" % lim
    if err is not None and err != "FilterException":
        return "unexpected exception " + err
    for i, j in pairs:
        if not (0 <= i < j < n):
            return "pair (%d, %d) not within 0 <= i < j < %d" % (i, j, n)
    if err is None and hi and not pairs:
        return "empty pair list returned instead of the filter error"

    expected = None        # where the property fixes the list completely
    if unit == "frames":
        d = int(delta)
        if allp:
            expected = [(i, i + d) for i in range(n) if i + d < n]
        else:
            expected = [(k * d, (k + 1) * d) for k in range(n) if (k + 1) * d < n]
    elif unit == "meters":
        pos = np.array(positions(case), dtype=float)
        steps = [0.0] + [math.sqrt(sum((a - b) ** 2 for a, b in zip(pos[k], pos[k - 1]))) for k in range(1, n)]
        cum = list(itertools.accumulate(steps))
        if case.get("exact") and not allp:
            path = lambda a, b: math.fsum(steps[a + 1:b + 1])  # noqa
        else:
            path = lambda a, b: cum[b] - cum[a]  # noqa
        if not allp:
            msg = _check_chain(pairs, n, path, delta, ge, first_must_be_zero=False)
            if msg:
                return msg
            if err == "FilterException":
                f = next((m for m in range(n) if ge(path(0, m), delta) is not False), None)
                if f is not None and ge(path(0, f), delta) and any(ge(path(f, m), delta) for m in range(f + 1, n)):
                    return "filter error although a pair (%d, j) reaching delta exists" % f
            return None
        t = tol * delta if hi else tol
        seen = set()
        for i, j in pairs:
            if i in seen:
                return "start pose %d reported twice" % i
            seen.add(i)
            dj = abs(path(i, j) - delta)
            if ge(t, dj) is False:
                return "pair (%d, %d): |path - delta| = %r exceeds the tolerance %r" % (i, j, dj, t)
            for k in range(i + 1, n):
                if ge(abs(path(i, k) - delta), dj) is False:
                    return "pair (%d, %d): pose %d is closer to delta" % (i, j, k)
        for i in range(n - 1):
            if i not in seen and any(ge(t, abs(path(i, k) - delta)) for k in range(i + 1, n)):
                if err == "FilterException" and pairs == []:
                    return "filter error although pose %d has a partner within the tolerance" % i
                return "start pose %d has a partner within the tolerance but is not reported" % i
        return None
    else:
        to_rad = (math.pi / 180) if unit == "degrees" else 1.0
        d = delta * to_rad
        if not allp:
            das = [unhex(a) for a in out.get("das", [])]

            def path(a, b):     # accumulated_delta restarts at 0.0 at pose a and adds the consecutive angles in order
                s = 0.0
                for x in das[a:b]:
                    s += x
                return s
            msg = _check_chain(pairs, n, path, d, ge, first_must_be_zero=True)
            if msg:
                return msg
            if err == "FilterException" and any(ge(path(0, m), d) for m in range(1, n)):
                return "filter error although the accumulated rotation from pose 0 reaches delta"
            return None
        rows = [[unhex(a) for a in r] for r in out.get("rows", [])]
        t = (tol * delta if hi else tol) * to_rad
        exp, unsure = [], set()
        for i in range(n - 1):
            for j in range(i + 1, n):
                a = rows[i][j - i - 1]
                lo_ok, hi_ok = ge(a, d - t), ge(d + t, a)
                if lo_ok is None or hi_ok is None:
                    unsure.add((i, j))
                elif lo_ok and hi_ok:
                    exp.append((i, j))
        got = [p for p in pairs if p not in unsure]
        if got != exp:
            return "angle pairs are not exactly the pairs within delta*(1 +- tolerance): expected %r" % (exp[:20],)
        if err == "FilterException" and exp:
            return "filter error although pairs within the band exist"
        return None
    if expected is not None:
        if err == "FilterException":
            return None if not expected else "filter error although pairs exist"
        if pairs != expected:
            return "pairs differ from the list fixed by the property: expected %r" % (expected[:20],)
    return None


def _check_chain(pairs, n, path, delta, ge, first_must_be_zero):
    for (a, b), (c, d) in zip(pairs, pairs[1:]):
        if c != b:
            return "chain broken: pair (%d, %d) does not start where (%d, %d) ended" % (c, d, a, b)
    for i, j in pairs:
        if ge(path(i, j), delta) is False:
            return "pair (%d, %d): path/rotation since i does not reach delta" % (i, j)
        for m in range(i + 1, j):
            if ge(path(i, m), delta):
                return "pair (%d, %d): pose %d already reaches delta (j is not the first)" % (i, j, m)
    if pairs:
        s0 = pairs[0][0]
        if first_must_be_zero and s0 != 0:
            return "accumulated-rotation chain does not start at pose 0"
        first = next((m for m in range(n) if ge(path(0, m), delta)), None)
        if not first_must_be_zero and first is not None and s0 > first:
            return "chain starts at %d, later than the first pose %d that reaches delta" % (s0, first)
        last = pairs[-1][1]
        for m in range(last + 1, n):
            if ge(path(last, m), delta):
                return "chain stops at %d although pose %d reaches delta again" % (last, m)
    return None


# ------------------------------------------------------------------ judge
FRAGILE = [0]


def judge(case, val, out):
    model, margin, verdict = val
    exactly = bool(case.get("exact")) or case["unit"] in ("degrees", "radians") or (case["unit"] == "meters" and case["all_pairs"])
    if verdict is False and (exactly or not (isinstance(margin, (int, float)) and margin < 1e-9)):
        return {"kind": "spec-violation", "failing_input": True,
                "detail": "implementation output rejected by the proven checker %s" % (
                    "path_all_text_b (C10_path_all_checker_sound)" if case["all_pairs"]
                    else "chain_text_b (C10_chain_checker_sound)")}
    if out.get("inputs_unchanged") is False:
        return {"kind": "spec-violation", "failing_input": True, "detail": "the pose list was modified"}
    if out.get("oracle_ok") is False:
        return {"kind": "model-vs-impl", "failing_input": False, "correspondence": "Filters angle oracle",
                "detail": "an oracle angle does not satisfy cos(angle) = (trace - 1)/2"}
    msg = spec_check(case, out)
    if msg is not None:
        return {"kind": "spec-violation", "failing_input": True, "detail": msg}
    if model == "FilterError":
        want = None
    else:
        want = [tuple(p) for p in model[1]]
    got = None if out.get("error") == "FilterException" else [tuple(p) for p in out.get("pairs", [])]
    if got == want:
        return None
    if isinstance(margin, (int, float)) and not isinstance(margin, bool) and margin < 1e-9 and not case.get("exact"):
        FRAGILE[0] += 1
        return None
    return {"kind": "model-vs-impl", "failing_input": False,
            "correspondence": "Filters.%s" % ("id_pairs_from_delta" if case["level"] == "hi" else "pairs_by_*"),
            "detail": "index pairs differ from the model although the restated property accepts them"}


def nontrivial(case, val, out):
    return len(out.get("pairs", [])) >= 1 and n_poses(case) >= 3


def shrink(case):
    n = n_poses(case)
    if n > 1:
        for cut in sorted({n // 2, n // 4, 1} - {0}, reverse=True):
            for start in range(0, n, cut):
                c = dict(case)
                if "pos" in case:
                    c["pos"] = case["pos"][:start] + case["pos"][start + cut:]
                if "rot" in case:
                    c["rot"] = case["rot"][:start] + case["rot"][start + cut:]
                if "n" in case:
                    c["n"] = n - cut
                if n_poses(c) >= 1 and n_poses(c) < n:
                    yield c


# ------------------------------------------------------------------ generators
def mk(level, unit, all_pairs, delta, tol, pos=None, rot=None, n=None, exact=False, dtype=None, via=None):
    c = {"level": level, "unit": unit, "all_pairs": bool(all_pairs), "delta": hexf(delta), "tol": hexf(tol),
         "exact": bool(exact)}
    if dtype is not None:
        c["dtype"] = dtype
    if via is not None:
        c["via"] = via
    if pos is not None:
        c["pos"] = [[hexf(x) for x in p] for p in pos]
    if rot is not None:
        c["rot"] = rot
    if n is not None:
        c["n"] = int(n)
    return c


def line(steps, axis_cycle=False):
    """positions from step lengths; axis_cycle walks +x, +y, -x, ... so that the path is not a straight line"""
    p, out = [0.0, 0.0, 0.0], [[0.0, 0.0, 0.0]]
    dirs = [(0, 1), (1, 1), (0, -1), (2, 1), (1, -1), (2, -1)]
    for k, s in enumerate(steps):
        ax, sg = dirs[k % 6] if axis_cycle else (0, 1)
        p = list(p)
        p[ax] += sg * s
        out.append(p)
    return out


def corpus():
    cs = []
    # evo's own test lists
    cs.append(mk("lo", "meters", False, 1.0, 0.0, pos=[[0, 0, 0], [0, 0, 0.5], [0, 0, 1], [0, 0, 2.5], [0, 0, 3], [0, 0, 4]]))
    cs.append(mk("lo", "meters", True, 1.0, 0.0, pos=[[0, 0, 0], [0, 0, 0.5], [0, 0, 1], [0, 0, 1.5], [0, 0, 2]], exact=True))
    cs.append(mk("lo", "meters", True, 1.0, 0.5, pos=[[0, 0, 0], [0, 0, 0.5], [0, 0, 0.9], [0, 0, 1.5], [0, 0, 2.6]]))
    # thresholds hit exactly, Pythagorean steps
    cs.append(mk("hi", "meters", False, 5.0, 0.0, pos=[[0, 0, 0], [3, 4, 0], [3, 4, 0], [6, 8, 0], [6, 8, 12]], exact=True))
    cs.append(mk("hi", "meters", True, 5.0, 0.5, pos=[[0, 0, 0], [3, 4, 0], [3, 4, 0], [6, 8, 0], [6, 8, 12]], exact=True))
    # nothing reaches delta
    cs.append(mk("hi", "meters", False, 100.0, 0.1, pos=line([1, 1, 1]), exact=True))
    cs.append(mk("hi", "meters", True, 100.0, 0.1, pos=line([1, 1, 1]), exact=True))
    cs.append(mk("hi", "frames", False, 7.0, 0.1, n=5, exact=True))
    cs.append(mk("hi", "frames", True, 7.0, 0.1, n=5, exact=True))
    cs.append(mk("hi", "seconds", True, 1.0, 0.1, n=5, exact=True))
    # quarter turns: 90 degrees asked, scipy's angle is one ulp below deg2rad(90)
    q = [["q", k] for k in (0, 1, 2, 3, 0, 1)]
    cs.append(mk("hi", "degrees", False, 90.0, 0.0, rot=q))
    cs.append(mk("hi", "degrees", True, 90.0, 0.0, rot=q))
    cs.append(mk("hi", "degrees", True, 90.0, 0.01, rot=q))
    cs.append(mk("hi", "degrees", False, 180.0, 0.1, rot=q))
    cs.append(mk("hi", "radians", True, math.pi, 0.1, rot=q))
    cs.append(mk("hi", "degrees", True, 181.0, 0.1, rot=q))
    cs.append(mk("hi", "radians", False, 3.2, 0.1, rot=q))
    cs.append(mk("lo", "radians", False, -0.5, 0.1, rot=q))
    # single pose
    cs.append(mk("hi", "meters", True, 1.0, 0.1, pos=[[1, 2, 3]], exact=True))
    cs.append(mk("hi", "meters", False, 1.0, 0.1, pos=[[1, 2, 3]], exact=True))
    cs.append(mk("hi", "frames", False, 1.0, 0.1, n=1, exact=True))
    cs.append(mk("hi", "radians", False, 1.0, 0.1, rot=[["q", 1]]))
    cs.append(mk("hi", "radians", True, 1.0, 0.1, rot=[["q", 1]]))
    return cs


def angle_hits(rot, all_pairs):
    """deltas (radians) that the oracle sums / table hit exactly in binary64"""
    c = mk("lo", "radians", all_pairs, 1.0, 0.0, rot=rot)
    poses = build_poses(c)
    o = oracle(c, poses)
    if all_pairs:
        vals = sorted({unhex(a) for r in o["rows"] for a in r})
        return vals
    acc, vals = 0.0, []
    for a in o["das"]:
        acc += unhex(a)
        vals.append(acc)
    return sorted(set(vals))


def grid_cases(ctx):
    out = []
    nmax = ctx.n(6, 8)
    # frames: every n, every delta
    for n in range(1, ctx.n(10, 16) + 1):
        for d in range(1, n + 2):
            for allp in (False, True):
                out.append(mk("hi" if (n + d) % 2 else "lo", "frames", allp, float(d), 0.1, n=n, exact=True))
    # meters: all step sequences over {0,1,2,3}
    deltas = [1.0, 2.0, 3.0, 4.0, 6.0, 50.0]
    combos = []
    for n in range(2, nmax + 1):
        for steps in itertools.product((0, 1, 2, 3), repeat=n - 1):
            combos.append(steps)
    ctx.rng.shuffle(combos)
    budget = ctx.n(3200, 140000)      # all 1364 (quick) / 21844 (thorough) step sequences are covered
    k = 0
    for steps in combos:
        if k >= budget:
            break
        pos = line(steps, axis_cycle=(k % 2 == 0))
        for delta in (deltas if not ctx.quick else ctx.rng.sample(deltas, 2)):
            mode = k % 4
            if mode == 0:
                out.append(mk("hi", "meters", False, delta, 0.25, pos=pos, exact=True))
            elif mode == 1:
                out.append(mk("hi", "meters", True, delta, ctx.rng.choice([0.0, 0.25, 0.5, 1.0]), pos=pos, exact=True))
            elif mode == 2:
                out.append(mk("lo", "meters", True, delta, ctx.rng.choice([0.0, 0.5, 1.0, 2.0]), pos=pos, exact=True))
            else:
                out.append(mk("lo", "meters", False, delta, 0.0, pos=pos, exact=True))
            k += 1
    # angles: rotation steps in multiples of pi/8 (z8) or of 90 degrees (q)
    rcombos = []
    for n in range(2, ctx.n(5, 7) + 1):
        for steps in itertools.product((0, 1, 2, 4), repeat=n - 1):
            rcombos.append(steps)
    ctx.rng.shuffle(rcombos)
    rb = ctx.n(420, 6000)
    for idx, steps in enumerate(rcombos[:rb]):
        quarter = all(s % 4 == 0 for s in steps) or idx % 5 == 0
        ks = list(itertools.accumulate((0,) + steps))
        rot = [["q", (k // 4)] for k in ks] if quarter else [["z8", k] for k in ks]
        for allp in (False, True):
            hits = angle_hits(rot, allp)
            cands = [(u, dv) for u, dv in (("degrees", 22.5), ("degrees", 45.0), ("degrees", 90.0), ("degrees", 180.0),
                                           ("radians", math.pi / 8), ("radians", math.pi / 4), ("radians", math.pi / 2),
                                           ("radians", math.pi), ("radians", 3.0))]
            cands += [("radians", h) for h in hits if 0 < h <= math.pi]
            cands += [("degrees", h * (180 / math.pi)) for h in hits[:2] if 0 < h <= math.pi]
            picks = ctx.rng.sample(cands, min(len(cands), ctx.n(3, 6)))
            for u, dv in picks:
                tolv = ctx.rng.choice([0.0, 0.0, 0.1, 0.5])
                out.append(mk("hi" if idx % 2 else "lo", u, allp, dv, tolv, rot=rot))
    return out


DIAG_STEPS = [(1, 0, 0), (1, 1, 0), (0, 1, 1), (1, 1, 1), (0, 0, 0), (2, 1, 0), (0, -1, 0), (-1, 1, -1), (0, 0, 2), (3, 4, 0)]


def int_dtype_cases(ctx):
    """pose matrices of INTEGER numpy dtype (np.eye(4, dtype=int) with integer grid positions, as hand-written or
    grid-map poses are), handed over directly or through PosePath3D(poses_se3=...): integer grids whose steps include
    diagonal moves (step lengths 1, sqrt2, sqrt3, sqrt5, 5, 0), exhaustively for 2..4 (quick) / 2..5 poses over a step
    alphabet, plus random lattice walks; all delta units, both modes"""
    out = []
    rng = ctx.np_rng(1010)
    seqs = []
    alpha = DIAG_STEPS[:6]
    for n in range(2, ctx.n(4, 5) + 1):
        seqs.extend(itertools.product(range(len(alpha)), repeat=n - 1))
    ctx.rng.shuffle(seqs)
    k = 0
    for sq in seqs[:ctx.n(240, 4000)]:
        pos = np.concatenate([np.zeros((1, 3)), np.cumsum([alpha[i] for i in sq], axis=0)]).tolist()
        axis_only = all(sum(1 for v in alpha[i] if v) <= 1 for i in sq)
        for delta in ctx.rng.sample([1.0, 2.0, 3.0, 4.0, 1.5, 2.5], 2):
            dt = ["int64", "int64", "int32", "int64"][k % 4]
            via = "path" if k % 3 == 0 else None
            if k % 4 == 3:
                out.append(mk("hi" if k % 8 == 3 else "lo", "meters", False, delta, 0.0, pos=pos, exact=axis_only, dtype=dt, via=via))
            elif k % 2 == 0:
                out.append(mk("hi", "meters", True, delta, ctx.rng.choice([0.0, 0.1, 0.25, 0.5]), pos=pos, exact=axis_only,
                              dtype=dt, via=via))
            else:
                out.append(mk("lo", "meters", True, delta, ctx.rng.choice([0.0, 0.25, 0.5, 1.0]), pos=pos, exact=axis_only,
                              dtype=dt, via=via))
            k += 1
    for k in range(ctx.n(120, 1200)):       # random lattice walks with diagonal moves
        n = int(rng.integers(3, 40))
        st = np.array([DIAG_STEPS[i] for i in rng.integers(0, len(DIAG_STEPS), n - 1)]) * rng.choice([-1, 1], (n - 1, 1))
        pos = np.concatenate([np.zeros((1, 3)), np.cumsum(st, axis=0)]).astype(float).tolist()
        allp = k % 3 != 2
        level = "hi" if k % 2 == 0 else "lo"
        delta = float(rng.choice([1.0, 2.0, 3.0, 5.0, 7.0, 2.5, 10.0]))
        tolv = float(rng.choice([0.0, 0.05, 0.1, 0.25])) * (1.0 if level == "hi" else delta)
        out.append(mk(level, "meters", allp, delta, tolv, pos=pos, dtype=["int64", "int32"][k % 5 == 4],
                      via="path" if k % 4 == 1 else None))
    # the other delta units on integer matrices: frames, quarter turns about z
    for n in range(1, 7):
        for d in range(1, n + 1):
            out.append(mk("hi" if (n + d) % 2 else "lo", "frames", bool(d % 2), float(d), 0.1, n=n, exact=True, dtype="int64",
                          via="path" if n % 2 else None))
    for k in range(ctx.n(24, 120)):
        n = int(rng.integers(2, 7))
        rot = [["q", int(v)] for v in np.cumsum(rng.integers(0, 3, n))]
        unit, dv = [("degrees", 90.0), ("degrees", 180.0), ("radians", math.pi / 2), ("degrees", 45.0)][k % 4]
        out.append(mk("hi" if k % 2 else "lo", unit, bool((k // 2) % 2), dv, [0.0, 0.1][k % 2], rot=rot, dtype="int64",
                      via="path" if k % 3 == 0 else None))
    return out


def random_cases(ctx):
    from scipy.spatial.transform import Rotation
    rng = ctx.np_rng(10)
    out = []
    for k in range(ctx.n(300, 3000)):
        big = (not ctx.quick) and k % 150 == 0
        n = int(rng.integers(2, 3000 if big else ctx.n(300, 400)))
        kind = k % 6
        allp = bool((k // 6) % 2)
        level = "hi" if (k // 12) % 2 == 0 else "lo"
        if kind in (0, 1, 2):      # path
            if allp and n > (1200 if big else 160):
                n = 1200 if big else 160
            scale = float(rng.choice([0.01, 0.1, 1.0, 10.0]))
            steps = rng.normal(size=(n - 1, 3)) * scale
            if kind == 1:          # stationary stretches and jumps
                mask = rng.random(n - 1) < 0.3
                steps[mask] = 0.0
                jump = rng.random(n - 1) < 0.03
                steps[jump] *= 50
            offset = rng.choice([0.0, 4.5e5]) * np.ones(3)
            pos = offset + np.concatenate([np.zeros((1, 3)), np.cumsum(steps, axis=0)])
            exact = False
            if kind == 2:          # integer lattice walk: exact arithmetic, thresholds hit exactly
                ax = rng.integers(0, 3, n - 1)
                ln = rng.integers(0, 4, n - 1)
                st = np.zeros((n - 1, 3))
                st[np.arange(n - 1), ax] = ln * rng.choice([-1, 1], n - 1)
                pos = np.concatenate([np.zeros((1, 3)), np.cumsum(st, axis=0)])
                exact = True
                delta = float(rng.integers(1, 12))
                tolv = float(rng.choice([0.0, 0.25, 0.5, 1.0])) if level == "hi" else float(rng.choice([0.0, 1.0, 2.0]))
            else:
                total = float(np.sum(np.linalg.norm(np.diff(pos, axis=0), axis=1)))
                delta = float(rng.choice([0.02, 0.1, 0.3, 1.5])) * total * float(rng.uniform(0.2, 1.0))
                delta = max(delta, 1e-6)
                tolv = float(rng.choice([0.0, 0.01, 0.1, 0.5])) * (1.0 if level == "hi" else delta)
                if allp and k % 4 == 1:
                    # exact hits of the all-pairs test: accumulated distances are bit-exact with the model
                    from evo.core import geometry
                    dd = geometry.accumulated_distances(pos)
                    i = int(rng.integers(0, n - 1))
                    j = int(rng.integers(i + 1, n))
                    level = "lo"
                    if k % 8 == 1:
                        delta, tolv = float(dd[j] - dd[i]), 0.0
                    else:
                        tolv = float(abs((dd[j] - dd[i]) - delta))
            out.append(mk(level, "meters", allp, delta, tolv, pos=pos.tolist(), exact=exact))
        elif kind == 3:            # frames
            d = int(rng.integers(1, max(2, n // 3)))
            out.append(mk(level, "frames", allp, float(d), 0.1, n=n, exact=True))
        else:                      # angles
            n = int(rng.integers(2, ctx.n(40, 70) if allp else ctx.n(200, 400)))
            sc = float(rng.choice([0.02, 0.2, 1.0]))
            rv = np.cumsum(rng.normal(size=(n, 3)) * sc, axis=0) if kind == 4 else rng.normal(size=(n, 3)) * 2.0
            rot = [["v"] + [hexf(x) for x in Rotation.from_rotvec(r).as_rotvec()] for r in rv]
            unit = "degrees" if k % 2 else "radians"
            hits = angle_hits(rot, allp)
            if k % 3 == 0 and hits:
                dv = float(rng.choice(hits))
                dv = min(max(dv, 1e-9), math.pi)
                tolv = 0.0 if k % 2 else float(rng.choice([0.0, 0.05]))
                unit = "radians"
            else:
                dv = float(rng.uniform(0.01, math.pi))
                tolv = float(rng.choice([0.0, 0.01, 0.1, 0.3]))
            if unit == "degrees":
                dv = min(dv * 180 / math.pi, 180.0)
            if level == "lo":
                tolv = tolv * dv
            out.append(mk(level, unit, allp, dv, tolv, rot=rot))
    return out


def run(ctx, replay=None, proofs_ok=True):
    FRAGILE[0] = 0
    if replay is not None:
        cases = [replay["case"]]
    else:
        cases = corpus() + grid_cases(ctx) + random_cases(ctx) + int_dtype_cases(ctx)
        head, rest = cases[:3], cases[3:]
        ctx.rng.shuffle(rest)        # spread the expensive cases over the parallel case files
        cases = head + rest
    failures, stats = differential(ctx, cases, imports=IMPORTS, impl=impl, expr=expr, judge=judge,
                                   shrink=shrink, nontrivial=nontrivial, per_file=ctx.n(300, 400))
    hist = {}
    for c in cases:
        b = "%s:%s:%s:n<=%d%s%s%s" % (c["level"], c["unit"], "all" if c["all_pairs"] else "consecutive",
                                      10 ** len(str(n_poses(c))), ":exact" if c.get("exact") else "",
                                      ":" + c["dtype"] if c.get("dtype") else "", ":via-PosePath3D" if c.get("via") else "")
        hist[b] = hist.get(b, 0) + 1
    n_exact = sum(1 for c in cases if c.get("exact") or c["unit"] in ("degrees", "radians"))
    cov = {"evaluations": stats["evaluations"], "distinct_nontrivial": stats["distinct_nontrivial"],
           "rule": "corpus + exhaustive exact grids (frames: every n x delta; meters: step sequences over {0,1,2,3} "
                   "x deltas incl. unreachable / hit exactly x tolerances; angles: z-rotation steps in multiples of "
                   "pi/8 and 90 degrees x deltas incl. exact oracle hits) + random walks (stationary stretches, jumps, "
                   "UTM-size offsets, lattice walks, exact all-pairs hits) and random rotations + integer-dtype pose matrices "
                   "(int64/int32, directly and through PosePath3D) on integer grids with diagonal moves, exhaustive over a "
                   "step alphabet for small n and random lattice walks, all units; distinct by input; "
                   "non-trivial = at least 3 poses and at least one pair selected",
           "samples": cases[:3] + cases[-2:], "input_distribution": hist, "exhaustive": True,
           "regimes": {"exact": n_exact, "rounded": stats["evaluations"] - n_exact, "fragile": FRAGILE[0]},
           "disagreements": stats["disagreements"]}
    return {"failures": failures, "coverage": cov}


LEVEL_TEXT = ("Machine-checked theorems (Coq) over an executable model of filter_pairs_by_index / _by_path / _by_angle and "
              "id_pairs_from_delta: every pair in range; frame deltas give exactly the all-pairs list or the chain "
              "0->d->2d; path and accumulated-rotation chains link up, each j is the first pose reaching delta since i, "
              "the chain starts at the first pose reaching delta (at pose 0 for rotations) and is maximal; all-pairs "
              "path pairs are within tolerance, closest, one per start pose and complete; all-pairs angle pairs are "
              "exactly the pairs in the band; an empty selection is the filter error - for all pose sequences of any "
              "length. The model is tied to the code by a differential run on exhaustive exact grids plus random data.")
LEVEL_NOTE = ("Trusted: Coq kernel/VM, Reals axioms (stdlib), the hand-written model's correspondence (tested, not proved), "
              "numpy's IEEE semantics, the angle oracle (the implementation's own so3_log_angle / scipy Rotation values, "
              "validated against the trace). Theorems are over R; the float run is bit-exact except single-vector norms.")
TECHNIQUE = "Coq proof (list induction over the selection loops) + model/implementation correspondence by vm_compute"
