(* GENERATED on every run by harness/steps.py from the current source - do not edit *)
From Coq Require Import String List.
Import ListNotations.
Local Open Scope string_scope.

Definition main_traj_run : list string :=
  ["load_trajectories(args)";
   "if[args.downsample] loop[traj in trajectories.values()] traj.downsample(args.downsample)";
   "if[args.downsample] if[ref_traj] ref_traj.downsample(args.downsample)";
   "if[args.motion_filter] loop[traj in trajectories.values()] traj.motion_filter(distance_threshold, angle_threshold, True)";
   "if[args.motion_filter] if[ref_traj] ref_traj.motion_filter(distance_threshold, angle_threshold, True)";
   "if[args.merge] trajectory.merge(trajectories.values())";
   "if[args.t_offset] loop[(name, traj) in trajectories.items()] traj.timestamps += args.t_offset";
   "if[synced] loop[(name, traj) in trajectories.items()] else[args.subcommand == 'kitti'] sync.associate_trajectories(ref_traj, traj, max_diff=args.t_max_diff, first_name='reference', snd_name=name)";
   "if[synced] loop[(name, traj) in trajectories.items()] if[args.align or args.correct_scale] trajectories[name].align(ref_traj_tmp, correct_scale=args.correct_scale, correct_only_scale=args.correct_scale and (not args.align), n=args.n_to_align)";
   "if[synced] loop[(name, traj) in trajectories.items()] if[args.align_origin] trajectories[name].align_origin(ref_traj_tmp)";
   "if[args.transform_left or args.transform_right] file_interface.load_transform(tf_path)";
   "if[args.transform_left or args.transform_right] if[args.invert_transform] lie.sim3_inverse(transform)";
   "if[args.transform_left or args.transform_right] loop[traj in trajectories.values()] traj.transform(transform, right_mul=args.transform_right, propagate=args.propagate_transform)";
   "if[args.project_to_plane] loop[traj in trajectories.values()] traj.project(plane)";
   "if[args.project_to_plane] if[ref_traj] ref_traj.project(plane)";
   "if[args.save_as_tum] loop[(name, traj) in trajectories.items()] file_interface.write_tum_trajectory_file(dest, traj, confirm_overwrite=not args.no_warnings)";
   "if[args.save_as_tum] if[args.ref] file_interface.write_tum_trajectory_file(dest, ref_traj, confirm_overwrite=not args.no_warnings)";
   "if[args.save_as_kitti] loop[(name, traj) in trajectories.items()] file_interface.write_kitti_poses_file(dest, traj, confirm_overwrite=not args.no_warnings)";
   "if[args.save_as_kitti] if[args.ref] file_interface.write_kitti_poses_file(dest, ref_traj, confirm_overwrite=not args.no_warnings)"].

