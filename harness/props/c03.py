"""C03 - Umeyama alignment (evo/core/geometry.py) vs the Coq model Evo.Umeyama with the SVD on an oracle tape."""
import math

import numpy as np

import os

from harness import common, pyast_np
from harness.common import cf, close, differential, hexf, unhex
from harness.props.c09 import H, U, cm3, cv3, rand_rot

ID = "C03"
IMPORTS = "From Evo Require Import Num Linalg Umeyama NpDsl.\nFrom EvoGen Require Import UmeyamaGen.\n"
COQ_TARGETS = ["theories/UmeyamaProofs.vo", "theories/UmeyamaTie.vo"]
GEN_PATH = os.path.join(common.COQ, "generated", "UmeyamaGen.v")
GEN_STATE = {"translated": True}
TRUSTED = ["model Evo.Umeyama written by hand from geometry.umeyama_alignment; ties: (T) harness/pyast_np.py re-translates "
           "umeyama_alignment from the current source into EvoGen.UmeyamaGen on every run (typed, fail-closed numpy vocabulary "
           "Evo.NpDsl) and Evo.UmeyamaTie proves the translated function equal to the model over R; (H) differential run of "
           "model AND translated function in binary64",
           "np.linalg.svd is an ORACLE: its recorded answer is fed to the model (tape) and measured against svd_at "
           "(orthogonal factors, ordered non-negative singular values, reconstruction) on every case; np.linalg.det is "
           "modelled by the cofactor formula (only its sign is used)",
           "real-vs-binary64 gap measured (tolerances relative to the coordinate scale), not proved"]
ASSUMPTIONS = ["finite coordinates; equivariance of the returned triple is only required (and only tested) where the optimum is unique"]
EPS = float(np.finfo(float).eps)


def regenerate(ctx):
    """translator tie: coq/generated/UmeyamaGen.v from the repository under test (fail-closed)"""
    try:
        text = pyast_np.translate_umeyama(common.REPO)
        GEN_STATE["translated"] = True
        if pyast_np.write_if_changed(GEN_PATH, text):
            ctx.notes.append("coq/generated/UmeyamaGen.v regenerated from %s (content changed)" % common.REPO)
        return []
    except Exception as e:  # noqa: fail-closed whatever goes wrong
        GEN_STATE["translated"] = False
        pyast_np.write_if_changed(GEN_PATH, pyast_np.stub())
        return [{"kind": "obligation", "failing_input": False, "theorem": "Evo.UmeyamaTie.umeyama_gen_is_model (translator tie)",
                 "correspondence": "pyast_np: evo/core/geometry.py umeyama_alignment",
                 "detail": "translation of the repository under test failed (fail-closed): %s: %s" % (type(e).__name__, e),
                 "case": None, "model_output": None, "impl_output": None}]


def cpts(a):   # 3 x n array -> Coq list of V3
    return "[" + "; ".join(cv3(a[:, i]) for i in range(a.shape[1])) + "]"


def impl(case):
    from evo.core import geometry
    x, y = U(case["x"], (3, -1)), U(case["y"], (3, -1))
    tape = []
    real_svd = np.linalg.svd

    def rec(a, *args, **kw):
        out = real_svd(a, *args, **kw)
        tape.append((np.array(a, dtype=float), [np.array(o, dtype=float) for o in out]))
        return out
    if case.get("dtype"):      # integer-valued point sets handed over with an integer dtype (the values are the same numbers)
        x, y = x.astype(case["dtype"]), y.astype(case["dtype"])
    x0, y0 = x.copy(), y.copy()
    np.linalg.svd = rec
    try:
        try:
            r, t, c = geometry.umeyama_alignment(x, y, case["ws"])
            out = {"r": H(r), "t": H(t), "c": hexf(c)}
        except geometry.GeometryException as e:
            out = {"refused": str(e)[:40]}
        except Exception as e:  # noqa
            out = {"exception": type(e).__name__ + ": " + str(e)[:100]}
    finally:
        np.linalg.svd = real_svd
    out["unchanged"] = bool((x == x0).all() and (y == y0).all())
    if tape:
        a, (u, d, v) = tape[0]
        out["tape"] = {"arg": H(a), "u": H(u), "d": H(d), "v": H(v), "n": len(tape)}
    if case.get("laws") and "r" in out:
        L = case["laws"]
        R1, R2 = U(L["R1"], (3, 3)), U(L["R2"], (3, 3))
        t1, t2, s1, s2 = U(L["t1"], 3), U(L["t2"], 3), unhex(L["s1"]), unhex(L["s2"])
        xm = s1 * (R1 @ x) + t1[:, None]
        ym = s2 * (R2 @ y) + t2[:, None]
        r2, tt2, c2 = geometry.umeyama_alignment(xm, ym, case["ws"])
        perm = np.array(L["perm"])
        r3, t3, c3 = geometry.umeyama_alignment(x[:, perm], y[:, perm], case["ws"])
        out["moved"] = {"r": H(r2), "t": H(tt2), "c": hexf(c2)}
        out["perm"] = {"r": H(r3), "t": H(t3), "c": hexf(c3)}
    return out


def competitors(case, out):
    """candidate (c, R, t) of the same class the result has to beat"""
    x, y = U(case["x"], (3, -1)), U(case["y"], (3, -1))
    ws = case["ws"]
    rng = np.random.default_rng(len(case["x"]))
    cands = [(1.0, np.eye(3), np.zeros(3))]
    if "gt" in case:
        g = case["gt"]
        cands.append((unhex(g["c"]) if ws else 1.0, U(g["r"], (3, 3)), U(g["t"], 3)))
    if "r" in out:
        r, t, c = U(out["r"], (3, 3)), U(out["t"], 3), unhex(out["c"])
        from harness.props.c09 import rodrigues_py
        for k in range(4):
            dr = rodrigues_py(rng.normal(size=3) * 10.0 ** (-k - 1))
            cands.append((c * (1 + (0.01 * rng.normal() if ws else 0.0)), dr @ r, t + rng.normal(size=3) * 10.0 ** (-k) * 0.01 * (1 + np.abs(t).max())))
        # the reflection-uncorrected product U V^T made proper the other way round (flip first instead of last axis)
        tp = out.get("tape")
        if tp:
            u, v = U(tp["u"], (3, 3)), U(tp["v"], (3, 3))
            alt = u @ np.diag([np.sign(np.linalg.det(u) * np.linalg.det(v)), 1, 1]) @ v
            cands.append((c, alt, y.mean(axis=1) - c * alt @ x.mean(axis=1)))
    return cands


def expr(case, out):
    x, y = U(case["x"], (3, -1)), U(case["y"], (3, -1))
    X, Y = cpts(x), cpts(y)
    ws = "true" if case["ws"] else "false"
    tp = out.get("tape")
    if tp:
        svd = "(fun _ => (%s, %s, %s))" % (cm3(U(tp["u"], (3, 3))), cv3(U(tp["d"], 3)), cm3(U(tp["v"], (3, 3))))
        svdchk = "(mlist (mm (mm %s (diag %s)) %s), mlist (mm (mt %s) %s), mlist (mm (mt %s) %s))" % (
            cm3(U(tp["u"], (3, 3))), " ".join(cf(unhex(d)) for d in tp["d"]), cm3(U(tp["v"], (3, 3))),
            cm3(U(tp["u"], (3, 3))), cm3(U(tp["u"], (3, 3))), cm3(U(tp["v"], (3, 3))), cm3(U(tp["v"], (3, 3))))
    else:
        svd = "(fun _ => (I3, V0, I3))"
        svdchk = "tt"
    model = "match umeyama %s %s %s %s %s with Some (r, t, c) => Some (mlist r, vlist t, c) | None => None end" % (
        svd, cf(EPS), ws, X, Y)
    cov = "mlist (cov_xy %s %s)" % (X, Y) if x.shape == y.shape else "[]"
    res = "[]"
    if "r" in out and x.shape == y.shape:
        r, t, c = U(out["r"], (3, 3)), U(out["t"], 3), unhex(out["c"])
        items = ["resid %s %s %s %s %s" % (cf(c), cm3(r), cv3(t), X, Y)]
        for (cc, rr, tt) in competitors(case, out):
            items.append("resid %s %s %s %s %s" % (cf(cc), cm3(rr), cv3(tt), X, Y))
        res = "[" + "; ".join(items) + "]"
        res = "(%s, mlist (mm (mt %s) %s), det %s)" % (res, cm3(r), cm3(r), cm3(r))
    genv = "tt"
    if GEN_STATE["translated"]:
        genv = "match umeyama_alignment_gen %s %s %s %s %s with Some (r, t, c) => Some (mlist r, vlist t, c) | None => None end" % (
            svd, cf(EPS), X, Y, ws)
    return "(%s, %s, %s, %s, %s)" % (model, cov, svdchk, res, genv)


def _sv(d):
    return {"kind": "spec-violation", "failing_input": True, "detail": d}


def _mv(d, corr="Umeyama.umeyama"):
    return {"kind": "model-vs-impl", "failing_input": False, "correspondence": corr, "detail": d}


def lclose(xs, ys, scale, rtol=1e-9, atol=1e-12):
    return len(xs) == len(ys) and all(close(a, b, rtol=rtol, atol=atol * scale, scale=scale) for a, b in zip(xs, ys))


def judge(case, val, out):
    model, cov_m, svdchk, res, genv = val
    f = judge_main(case, (model, cov_m, svdchk, res), out)
    if f is None and GEN_STATE["translated"] and "exception" not in out:
        f = judge_gen(case, genv, model, out)
    return f


def judge_gen(case, genv, model, out):
    """the function translated from the current source, run in binary64 on the implementation's SVD answer"""
    x, y = U(case["x"], (3, -1)), U(case["y"], (3, -1))
    corr = "EvoGen.UmeyamaGen.umeyama_alignment_gen (translated source) vs implementation"
    if x.shape != y.shape:
        return None if genv is None else _mv("translated source does not refuse unequal sizes", corr)
    if (genv is None) != (model is None):
        tp = out.get("tape")
        d = [unhex(a) for a in tp["d"]] if tp else [0, 0, 0]
        tol = max(EPS, d[0] * 3 * EPS)
        if any(abs(v - tol) <= 1e-6 * tol for v in d):
            return None
        return _mv("translated source and model disagree about refusing", corr)
    if genv is None or "r" not in out:
        return None
    big = max(1.0, float(np.abs(x).max()), float(np.abs(y).max()))
    gr, gt, gc = genv[1] if genv[0] == "Some" else genv
    r, t, c = [unhex(a) for a in out["r"]], [unhex(a) for a in out["t"]], unhex(out["c"])
    if not lclose(r, gr, 1.0, atol=1e-10) or not close(c, gc, rtol=1e-9) or not lclose(t, gt, big, atol=1e-9):
        return _mv("returned (r, t, c) differs from the translated source run on the same SVD answer", corr)
    return None


def judge_main(case, val, out):
    model, cov_m, svdchk, res = val
    x, y = U(case["x"], (3, -1)), U(case["y"], (3, -1))
    if "exception" in out:
        return _sv("unexpected exception " + out["exception"])
    if not out["unchanged"]:
        return _sv("an input array was modified")
    if x.shape != y.shape:
        return None if "refused" in out else _sv("point sets of unequal size were not refused")
    n = x.shape[1]
    sx = max(1e-300, float(np.abs(x - x.mean(axis=1, keepdims=True)).max())) if n else 1.0
    sy = max(1e-300, float(np.abs(y - y.mean(axis=1, keepdims=True)).max())) if n else 1.0
    big = max(1.0, float(np.abs(x).max()) if n else 1.0, float(np.abs(y).max()) if n else 1.0)
    if case.get("degenerate"):
        return None if "refused" in out else _sv("exactly degenerate set (%s) was not refused" % case["degenerate"])
    tp = out.get("tape")
    if "r" in out:
        r, t, c = [unhex(a) for a in out["r"]], [unhex(a) for a in out["t"]], unhex(out["c"])
        resids, rtr, detr = res
        # ---- the property on the implementation's output
        if not lclose(rtr, [1, 0, 0, 0, 1, 0, 0, 0, 1], 1.0, atol=1e-9) or not close(detr, 1.0, atol=1e-9):
            return _sv("returned rotation is not proper (R^T R != I or det != +1; det = %r)" % detr)
        if not (c > 0) or (not case["ws"] and c != 1.0):
            return _sv("scale not positive / not exactly 1 without scale estimation (c = %r)" % c)
        own, others = resids[0], resids[1:]
        # rounding budget of a residual sum evaluated in binary64: every c R x_i + t - y_i carries an absolute error
        # e ~ 50 ulp of the largest intermediate coordinate, so sum (r_i + e_i)^2 differs from sum r_i^2 by at most
        # 2 sqrt(n * sum r_i^2) e + n e^2 (Cauchy-Schwarz); 1e-9 relative on top
        e = 1e-14 * max(big, abs(c) * float(np.abs(x).max()))
        slack = 1e-9 * max(own, 1e-300) + 2.0 * math.sqrt(n * max(own, 0.0)) * e + n * (10 * e) ** 2
        for k, o in enumerate(others):
            if own > o + slack:
                return _sv("residual %r is larger than that of competitor %d of the same class (%r)" % (own, k, o))
        if "gt" in case and case.get("noise_free"):
            # noise-free: every x_i mapped onto y_i
            R, T = U(out["r"], (3, 3)), U(out["t"], 3)
            err = float(np.abs(c * (R @ x) + T[:, None] - y).max())
            if err > 1e-9 * big:
                return _sv("noise-free data not reproduced (max point error %r)" % err)
        if case.get("laws") and "moved" in out:
            L = case["laws"]
            R1, R2 = U(L["R1"], (3, 3)), U(L["R2"], (3, 3))
            t1, t2, s1, s2 = U(L["t1"], 3), U(L["t2"], 3), unhex(L["s1"]), unhex(L["s2"])
            R, T = U(out["r"], (3, 3)), U(out["t"], 3)
            r_exp = R2 @ R @ R1.T
            c_exp = c * s2 / s1 if case["ws"] else 1.0
            mv = out["moved"]
            lawtol = 1e-6
            if not np.allclose(U(mv["r"], (3, 3)), r_exp, atol=lawtol) or not close(unhex(mv["c"]), c_exp, rtol=lawtol):
                if case["ws"] or (s1 == 1.0 and s2 == 1.0):
                    return _sv("result is not equivariant under moving/scaling the inputs")
            pm = out["perm"]
            if not np.allclose(U(pm["r"], (3, 3)), R, atol=lawtol) or not np.allclose(U(pm["t"], 3), T, atol=lawtol * big) \
                    or not close(unhex(pm["c"]), c, rtol=lawtol):
                return _sv("result changes when the paired points are permuted")
    tp = out.get("tape")
    if tp:
        # oracle query and oracle specification (measured)
        cscale = sx * sy
        if not lclose([unhex(a) for a in tp["arg"]], cov_m, cscale, rtol=1e-9, atol=1e-9 * big / max(sx, sy) + 1e-12):
            return _mv("covariance passed to the SVD differs from the model's", "Umeyama.cov_xy")
        rec, utu, vtv = svdchk
        d = [unhex(a) for a in tp["d"]]
        ident = [1, 0, 0, 0, 1, 0, 0, 0, 1]
        if not (d[0] >= d[1] >= d[2] >= 0) or not lclose(utu, ident, 1.0, atol=1e-12) or not lclose(vtv, ident, 1.0, atol=1e-12) \
                or not lclose(rec, [unhex(a) for a in tp["arg"]], max(d[0], 1e-300), atol=1e-12):
            return _mv("np.linalg.svd answer does not meet svd_at", "oracle np.linalg.svd")
    if "refused" in out:
        if model is None:
            return None
        # fragile rank decision?
        d = [unhex(a) for a in tp["d"]] if tp else [0, 0, 0]
        tol = max(EPS, d[0] * 3 * EPS)
        if any(abs(v - tol) <= 1e-6 * tol for v in d):   # fragile rank decision
            return None
        bigx, bigy = float(np.abs(x).max()), float(np.abs(y).max())
        noise = 1e3 * EPS * (bigx * sy + bigy * sx + sx * sy)   # rounding of the centred covariance, 1000x margin
        if tp and d[1] > noise and d[1] > 1e-6 * d[0]:
            return _sv("a point-set pair that clearly determines a rotation (singular values %r of the covariance, rounding "
                       "noise below %.3g) was refused: %s" % (d, noise, out["refused"]))
        return _mv("implementation refused, model returns a result")
    r, t, c = [unhex(a) for a in out["r"]], [unhex(a) for a in out["t"]], unhex(out["c"])
    # ---- correspondence with the model (same SVD answer)
    if model is None:
        return _mv("model refuses, implementation returns a result")
    mr, mt_, mc = model[1] if model[0] == "Some" else model
    if not lclose(r, mr, 1.0, atol=1e-10) or not close(c, mc, rtol=1e-9) or not lclose(t, mt_, big, atol=1e-9):
        return _mv("returned (r, t, c) differs from the model on the same SVD answer")
    return None


def gen(ctx):
    rng = ctx.np_rng(3)
    cases = []
    N = ctx.n(220, 1200)
    for i in range(N):
        n = int(rng.integers(3, ctx.n(60, 300)))
        if not ctx.quick and i % 100 == 0:
            n = int(rng.integers(1000, 2000))
        mode = ["generic", "planar", "collinear_near", "noisy", "mirrored", "offset", "tiny", "huge"][i % 8]
        scale = {"tiny": 1e-3, "huge": 1e6}.get(mode, float(10.0 ** rng.integers(-1, 3)))
        x = rng.normal(size=(3, n)) * scale
        if mode == "planar":
            x[2] = 0.0
        if mode == "collinear_near":
            d = rng.normal(size=3)
            x = np.outer(d, rng.normal(size=n)) * scale + rng.normal(size=(3, n)) * scale * 1e-3
        if mode == "offset":
            x += np.array([4.5e5, 5.6e6, 300.0])[:, None]
        R0 = rand_rot(rng)
        c0 = float(10.0 ** rng.uniform(-2, 2)) if i % 2 else 1.0
        t0 = rng.normal(size=3) * scale * 3
        ws = bool(i % 2)
        y = c0 * (R0 @ x) + t0[:, None]
        case = {"kind": "umeyama", "ws": ws, "mode": mode}
        if mode == "mirrored":
            y = np.diag([1.0, 1.0, -1.0]) @ y + rng.normal(size=(3, n)) * scale * 0.01
        elif mode in ("noisy", "collinear_near") or i % 3 == 0:
            y = y + rng.normal(size=(3, n)) * scale * float(rng.choice([1e-6, 0.01, 0.3, 1.0]))
            case["gt"] = {"c": hexf(c0), "r": H(R0), "t": H(t0)}
        else:
            case["gt"] = {"c": hexf(c0), "r": H(R0), "t": H(t0)}
            case["noise_free"] = True
        case["x"], case["y"] = H(x), H(y)
        if mode in ("generic", "noisy") and n <= 80 and i % 4 < 2:
            case["laws"] = {"R1": H(rand_rot(rng)), "R2": H(rand_rot(rng)), "t1": H(rng.normal(size=3) * scale),
                            "t2": H(rng.normal(size=3) * scale), "s1": hexf(float(rng.choice([1.0, 0.5, 7.0])) if ws else 1.0),
                            "s2": hexf(float(rng.choice([1.0, 2.0, 0.1])) if ws else 1.0),
                            "perm": [int(k) for k in rng.permutation(n)]}
        cases.append(case)
    # exactly degenerate sets and unequal sizes
    for i in range(ctx.n(30, 120)):
        n = int(rng.integers(1, 30))
        kind = ["coincident", "axis0", "axis1", "axis2", "single", "coincident_y"][i % 6]
        x = rng.normal(size=(3, n)) * 10.0 ** rng.integers(-2, 6)
        y = rng.normal(size=(3, n))
        if kind == "coincident":
            x = np.repeat(rng.normal(size=(3, 1)) * 100, n, axis=1)
        elif kind == "coincident_y":
            y = np.repeat(rng.normal(size=(3, 1)) * 100, n, axis=1)
        elif kind.startswith("axis"):
            a = int(kind[-1])
            for k in range(3):
                if k != a:
                    x[k] = 0.0
        elif kind == "single":
            x, y = x[:, :1], y[:, :1]
        cases.append({"kind": "umeyama", "ws": bool(i % 2), "mode": kind, "degenerate": kind, "x": H(x), "y": H(y)})
    # exactly degenerate sets with LARGE coordinates (finding F11: an absolute rank tolerance misses them)
    for a in range(3):
        for mag in (1e3, 1e5, 1e7):
            for rep in range(ctx.n(10, 30)):
                n = int(rng.integers(5, 40))
                x = np.zeros((3, n))
                x[a] = rng.normal(size=n) * mag
                cases.append({"kind": "umeyama", "ws": bool(rep % 2), "mode": "axis%d_large" % a, "degenerate": "axis%d, |x| ~ %g" % (a, mag),
                              "x": H(x), "y": H(rng.normal(size=(3, n)) * float(rng.choice([1.0, mag])))})
    # integer-valued sets with unsigned / narrow integer dtypes (pixel or grid coordinates): the same numbers, the same result
    perms = [np.eye(3), np.array([[0, -1, 0], [1, 0, 0], [0, 0, 1.0]]), np.array([[0, 0, 1], [1, 0, 0], [0, 1, 0.0]])]
    for i in range(ctx.n(12, 48)):
        n = int(rng.integers(4, 30))
        x = np.rint(rng.uniform(0, 60, size=(3, n)))
        R0, c0 = perms[i % 3], float([1.0, 2.0][(i // 3) % 2])
        y = c0 * (R0 @ x)
        t0 = np.rint(-y.min(axis=1)) + np.rint(rng.uniform(0, 5, size=3))     # keeps every coordinate non-negative
        y = y + t0[:, None]
        ws = bool((i // 3) % 2)
        cases.append({"kind": "umeyama", "ws": ws, "mode": "int_dtype", "x": H(x), "y": H(y), "noise_free": True,
                      "dtype": ["uint8", "uint16", "int16", "uint32"][i % 4], "gt": {"c": hexf(c0), "r": H(R0), "t": H(t0)}})
    for i in range(ctx.n(8, 30)):
        n = int(rng.integers(2, 20))
        cases.append({"kind": "umeyama", "ws": bool(i % 2), "mode": "unequal", "x": H(rng.normal(size=(3, n))),
                      "y": H(rng.normal(size=(3, n + int(rng.choice([-1, 1, 5]))))) })
    return cases


def shrink(case):
    if case.get("laws") or case.get("degenerate"):
        return
    x, y = U(case["x"], (3, -1)), U(case["y"], (3, -1))
    n = x.shape[1]
    if x.shape == y.shape and n > 4:
        for cut in (n // 2, 1):
            for start in range(0, n, cut):
                keep = [k for k in range(n) if not (start <= k < start + cut)]
                if len(keep) >= 3:
                    c = dict(case)
                    c["x"], c["y"] = H(x[:, keep]), H(y[:, keep])
                    yield c


def run(ctx, replay=None, proofs_ok=True):
    if not proofs_ok:   # the case files only need the executable model and the translated function
        common.build_theories(targets=["theories/Umeyama.vo", "theories/NpDsl.vo", "generated/UmeyamaGen.vo"])
    if replay is not None and not replay.get("case"):
        return {"failures": [], "coverage": {"evaluations": 0, "distinct_nontrivial": 0, "rule": "replay of an obligation "
                "(no input case): the theorems were re-checked by the driver", "samples": []}}
    cases = [replay["case"]] if replay is not None else gen(ctx)
    failures, stats = differential(ctx, cases, imports=IMPORTS, impl=impl, expr=expr, judge=judge, shrink=shrink,
                                   nontrivial=lambda c, v, o: "r" in o, per_file=30)
    hist = {}
    for c in cases:
        key = "%s:%s" % (c["mode"], "sim" if c["ws"] else "rigid")
        hist[key] = hist.get(key, 0) + 1
    small = lambda c: {k: (v if not isinstance(v, list) or len(v) < 7 else v[:6] + ["... %d more" % (len(v) - 6)]) for k, v in c.items() if k != "laws"}
    cov = {"evaluations": stats["evaluations"], "distinct_nontrivial": stats["distinct_nontrivial"],
           "rule": "point-set pairs n in 3..60 (thorough ..2000): generic, planar, nearly collinear, noisy, mirrored (forces the "
                   "S[2,2] = -1 branch), offsets 1e6, scales 1e-3..1e6, with/without scale; exactly degenerate sets (coincident x, "
                   "coincident y, each coordinate axis, single point) and unequal sizes; every result is checked to be a proper "
                   "rotation, to beat a cloud of competitor transformations of its class (ground truth, identity, perturbations, "
                   "the other sign fix), to reproduce noise-free data, to be equivariant/permutation invariant where unique; "
                   "non-trivial = a result (not a refusal) was returned",
           "samples": [small(cases[0]), small(cases[-1])], "input_distribution": hist, "disagreements": stats["disagreements"],
           "partial": ["parameter equality with the generating transformation and equivariance of the returned triple are not "
                       "proved (need uniqueness of the optimum); measured on generic cases"]}
    return {"failures": failures, "coverage": cov}


LEVEL_TEXT = ("Coq theorems over R, for every SVD oracle meeting its specification on the queried covariance: the result is a proper "
              "rotation, the scale is positive (exactly 1 without scale estimation), the residual is minimal among all rigid / "
              "similarity transformations (complete Umeyama/Kabsch optimality chain incl. the trace bound for both determinant "
              "signs), unequal sizes / coincident points / points on a coordinate axis are refused, noise-free data is mapped "
              "exactly, paired permutations do not change the result; non-vacuity example. Ties: (T) the function is re-translated "
              "from the current source on every run and proved equal to the model over R (UmeyamaTie), so the theorems hold of "
              "the translated source itself; (H) differential run of model and translated function with the implementation's own "
              "SVD answers on a tape, and a residual competition on the implementation's output.")
LEVEL_NOTE = ("Trusted: Coq kernel/VM, Reals axioms + classic, hand model (tested), LAPACK SVD as oracle measured against its spec, "
              "float rounding measured. Not proved: parameter uniqueness / equivariance of the returned triple.")
TECHNIQUE = "Coq proof (nsatz/nra on 3x3 records, list induction, Abel summation trace bound) + Python-AST translator (numpy vocabulary) with a proved model equality + oracle-tape correspondence by vm_compute"
