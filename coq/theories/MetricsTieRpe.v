(* MetricsTieRpe.v - translator tie of property C02.
   The RPE part of EvoGen.MetricsGen (re-translated from evo/core/metrics.py on every run): RPE.rpe_base and the
   per-relation reduction of RPE.process_data for the SE(3)-based relations are, for EVERY number system and every oracle,
   the model's [rpe_base] and [reduce_pose]; assembled they give the model's [rpe_pair].  The point-distance relations of
   RPE (array code over the positions) are not translated; they stay tied by the correspondence runs only. *)
From Coq Require Import List Bool.
From Evo Require Import Num Linalg NpDsl Lie Metrics.
From EvoGen Require Import LieGen MetricsGen.
Import ListNotations.
Local Open Scope num_scope.

Section Tie.
Context {T : Type} {ops : NumOps T}.
Variable angle_of : M3 T -> T.
Variable rad2deg : T -> T.

Theorem rpe_base_gen_is_model (Qi Qj Pi Pj : Pose T) : rpe_base_gen Qi Qj Pi Pj = rpe_base Qi Qj Pi Pj.
Proof. reflexivity. Qed.
Theorem rpe_reduce_gen_is_model (rel : PoseRelation) (E : Pose T) :
  rpe_reduce_gen angle_of rad2deg rel E =
  match rel with point_distance | point_distance_error_ratio => None | _ => reduce_pose angle_of rad2deg rel E end.
Proof. destruct rel; reflexivity. Qed.
(* the value RPE computes for a selected pair (i, j) with an SE(3)-based relation, assembled from the translated pieces *)
Theorem rpe_pair_from_translated_pieces (rel : PoseRelation) (ref est : list (Pose T)) (p : nat * nat) :
  rel <> point_distance -> rel <> point_distance_error_ratio ->
  rpe_reduce_gen angle_of rad2deg rel
    (rpe_base_gen (nthp ref (fst p)) (nthp ref (snd p)) (nthp est (fst p)) (nthp est (snd p)))
  = rpe_pair angle_of rad2deg rel ref est p.
Proof. intros H1 H2. destruct rel; try contradiction; reflexivity. Qed.
End Tie.
